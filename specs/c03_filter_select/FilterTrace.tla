----------------------------- MODULE FilterTrace -----------------------------
(* C03 - validation of recorded executions of the real filter tree / stream engine against *)
(* the property spec FilterP (the verdict) and the implementation model FilterTreeI         *)
(* (model drift).                                                                           *)
(*                                                                                         *)
(* trace.ndjson:  line 1  {"ev":"config", ...}   (free-form description of the run)         *)
(*   {"ev":"reset","flows":[flow,...],"orders":[[i,...],...]}                                *)
(*        a configuration: the flows (name, pat = [host[], path[]], m, h, q, s, typ) and the *)
(*        load orders that were applied to the real code (permutations of 1..#flows;        *)
(*        empty when the order is not controlled: engine level)                             *)
(*   {"ev":"x","x":txn,"sels":[[name,...],...],"nact":n}                                    *)
(*        one transaction evaluated by the real code once per load order / engine build:    *)
(*        the names of the flows it selected each time; nact = number of actions returned   *)
(*        (-1 when not observed); "early":[{"st":s,"rsel":[name,...]},...] per build: s > 0  *)
(*        = the request was answered inside the gateway with status s (flow with "ans"),    *)
(*        rsel = the flows whose response half then ran on the generated response           *)
(* Every event is consumed; an event the property does not allow prints a line              *)
(*   <<"REJ", line, json>>  carrying the spec's own classification (verdict per flow, the   *)
(* clause that failed); an event on which the real code differs from the implementation     *)
(* model prints <<"DRIFT", line, json>>.  The driver reads those lines: the TLA+ spec is    *)
(* the only oracle.                                                                         *)
EXTENDS TraceLib, FilterTreeI

VARIABLES l, trees, orders, zsel

tvars == <<l, fs, tree, trees, orders, zsel>>

ToSet(s) == {s[i] : i \in 1..Len(s)}

FlowOfJson(j) == [name |-> j.name, pat |-> <<j.pat[1], j.pat[2]>>, m |-> ToSet(j.m),
                  h |-> ToSet(j.h), q |-> ToSet(j.q), s |-> ToSet(j.s), typ |-> j.typ]
TxnOfJson(j)  == [side |-> j.side, url |-> <<j.url[1], j.url[2]>>, method |-> j.method,
                  hdr |-> ToSet(j.hdr), qry |-> ToSet(j.qry), status |-> j.status]

Ev == TraceLog[l + 1]

TInit == l = 1 /\ fs = <<>> /\ tree = EmptyTree /\ trees = <<>> /\ orders = <<>> /\ zsel = {}

TReset ==
    /\ l < TraceLen /\ Ev.ev = "reset"
    /\ l' = l + 1
    /\ fs' = [i \in 1..Len(Ev.flows) |-> FlowOfJson(Ev.flows[i])]
    /\ orders' = Ev.orders
    /\ trees' = [k \in 1..Len(Ev.orders) |->
                    Build([i \in 1..Len(Ev.orders[k]) |-> FlowOfJson(Ev.flows[Ev.orders[k][i]])])]
    /\ zsel' = {}
    /\ UNCHANGED tree

F == ToSet(fs)

\* the flows in load order k
Ordered(k) == [i \in 1..Len(orders[k]) |-> fs[orders[k][i]]]

VerdictMapF(x, G) == [i \in 1..Len(fs) |-> <<fs[i].name, IF fs[i] \in G THEN Verdict(fs[i], x, F) ELSE "n/a">>]

\* FilterP!Correct for the flows G of the configuration that this side of a transaction can select; the patterns
\* that may shadow a flow are those of the whole configuration F (all of them live in the one filter tree)
CorrectG(sel, x, G) ==
    /\ sel \subseteq Names(G)
    /\ \A f \in G : LET v == Verdict(f, x, F) IN
                    /\ v = Yes => f.name \in sel
                    /\ v = No  => f.name \notin sel

\* a quota (fixed window) has a request half only: it is not part of what a response can select
UserF == {f \in F : f.typ # "quota"}
Seen(x) == IF x.side = "req" THEN F ELSE UserF

\* build k answered the request inside the gateway (early response)
IsEarly(early, k) == k <= Len(early) /\ early[k].st > 0
EarlyTxn(x, st) == [x EXCEPT !.side = "early", !.status = st, !.hdr = {}, !.qry = {}]

\* A request answered by one of its flows: the user flows placed behind the answering one are not started
\* (early response wins - C04/C07), so on the request side only "no flow ran whose filter rejects the
\* request" and the system flows of the quotas (they run before every user flow) are decided.  The flows are
\* looked up again for the generated response: that selection is judged like any response-side selection.
EarlyOK(x, sel, e) ==
    LET xe == EarlyTxn(x, e.st) IN
    /\ sel \subseteq Names(F)
    /\ \A f \in F : /\ Verdict(f, x, F) = No => f.name \notin sel
                    /\ (f.typ = "quota" /\ Verdict(f, x, F) = Yes) => f.name \in sel
    /\ CorrectG(ToSet(e.rsel), xe, UserF)

\* Open URL zones (Z1, Z2) are open as a whole, not per lookup: whether the URL pattern of a flow accepts a URL is a
\* function of the configuration and the URL alone.  zsel remembers, for the current configuration, how the real code
\* decided <<url, flow>> for flows all of whose other constraints were satisfied; a later transaction with the same
\* URL (other method, other side of the transaction) must see the same decision.
ZoneFlows(x) == {f \in Seen(x) : /\ UrlV(f.pat, x.url, Pats(F)) = Either
                                  /\ And3({MethodV(f, x), HeaderV(f, x), QueryV(f, x), StatusV(f, x)}) = Yes}
ZoneObs(x, sels, early) ==
    IF Len(sels) = 0 \/ IsEarly(early, 1) THEN {}
    ELSE {<<x.url, f.name, f.name \in ToSet(sels[1])>> : f \in ZoneFlows(x)}
ZoneConsistent(obs) == \A o \in obs : \A t \in zsel : (t[1] = o[1] /\ t[2] = o[2]) => t[3] = o[3]

Judge(x, sels, nact, early) ==
    LET G        == Seen(x)
        zone     == ZoneConsistent(ZoneObs(x, sels, early))
        K        == 1..Len(sels)
        K1       == {k \in K : IsEarly(early, k)}
        K0       == K \ K1
        correct  == /\ \A k \in K0 : CorrectG(ToSet(sels[k]), x, G)
                    /\ \A k \in K1 : EarlyOK(x, ToSet(sels[k]), early[k])
        orderind == /\ OrderIndependent({ToSet(sels[k]) : k \in K0})
                    /\ OrderIndependent({ToSet(early[k].rsel) : k \in K1})
                    /\ (K0 = {} \/ K1 = {})
        pass     == nact < 0 \/ K1 # {} \/ PassThrough(nact, x, G)
    IN  IF correct /\ orderind /\ pass /\ zone THEN TRUE
        ELSE PrintT(<<"REJ", l + 1, ToJson([correct |-> correct, orderind |-> orderind, passthrough |-> pass, zone |-> zone,
                                          verdicts |-> VerdictMapF(x, G),
                                          everdicts |-> IF K1 = {} THEN <<>>
                                                        ELSE VerdictMapF(EarlyTxn(x, early[CHOOSE k \in K1 : TRUE].st), UserF)])>>)

Drift(x, sels) ==
    IF \/ Len(orders) # Len(sels)
       \/ \A k \in 1..Len(orders) :
             LET os == Ordered(k) IN
             {os[i].name : i \in Select(trees[k], os, x)} = ToSet(sels[k])
    THEN TRUE
    ELSE PrintT(<<"DRIFT", l + 1, ToJson([model |-> [k \in 1..Len(orders) |->
                    LET os == Ordered(k) IN {os[i].name : i \in Select(trees[k], os, x)}]])>>)

NonTriv(x) == IF NonTrivial(x, Seen(x)) THEN PrintT(<<"NT", l + 1>>) ELSE TRUE

TX ==
    /\ l < TraceLen /\ Ev.ev = "x"
    /\ l' = l + 1
    /\ LET x == TxnOfJson(Ev.x) IN Judge(x, Ev.sels, Ev.nact, Ev.early) /\ Drift(x, Ev.sels) /\ NonTriv(x)
    /\ zsel' = zsel \cup ZoneObs(TxnOfJson(Ev.x), Ev.sels, Ev.early)
    /\ UNCHANGED <<fs, tree, trees, orders>>

TNext == TReset \/ TX

TraceSpec == TInit /\ [][TNext]_tvars

HWM  == Mark(l)
Post == Report
================================================================================
