----------------------------- MODULE FilterTrace -----------------------------
(* C03 - validation of recorded executions of the real filter tree / stream engine against *)
(* the property spec FilterP (the verdict) and the implementation model FilterTreeI         *)
(* (model drift).                                                                           *)
(*                                                                                         *)
(* trace.ndjson:  line 1  {"ev":"config", ...}   (free-form description of the run)         *)
(*   {"ev":"reset","flows":[flow,...],"orders":[[i,...],...]}                                *)
(*        a configuration: the flows (name, pat = [host[], path[]], m, h, q, s, typ) and the *)
(*        load orders that were applied to the real code (permutations of 1..#flows;        *)
(*        empty when the order is not controlled: engine level)                             *)
(*   {"ev":"x","x":txn,"sels":[[name,...],...],"nact":n}                                    *)
(*        one transaction evaluated by the real code once per load order / engine build:    *)
(*        the names of the flows it selected each time; nact = number of actions returned   *)
(*        (-1 when not observed)                                                            *)
(* Every event is consumed; an event the property does not allow prints a line              *)
(*   <<"REJ", line, json>>  carrying the spec's own classification (verdict per flow, the   *)
(* clause that failed); an event on which the real code differs from the implementation     *)
(* model prints <<"DRIFT", line, json>>.  The driver reads those lines: the TLA+ spec is    *)
(* the only oracle.                                                                         *)
EXTENDS TraceLib, FilterTreeI

VARIABLES l, trees, orders

tvars == <<l, fs, tree, trees, orders>>

ToSet(s) == {s[i] : i \in 1..Len(s)}

FlowOfJson(j) == [name |-> j.name, pat |-> <<j.pat[1], j.pat[2]>>, m |-> ToSet(j.m),
                  h |-> ToSet(j.h), q |-> ToSet(j.q), s |-> ToSet(j.s), typ |-> j.typ]
TxnOfJson(j)  == [side |-> j.side, url |-> <<j.url[1], j.url[2]>>, method |-> j.method,
                  hdr |-> ToSet(j.hdr), qry |-> ToSet(j.qry), status |-> j.status]

Ev == TraceLog[l + 1]

TInit == l = 1 /\ fs = <<>> /\ tree = EmptyTree /\ trees = <<>> /\ orders = <<>>

TReset ==
    /\ l < TraceLen /\ Ev.ev = "reset"
    /\ l' = l + 1
    /\ fs' = [i \in 1..Len(Ev.flows) |-> FlowOfJson(Ev.flows[i])]
    /\ orders' = Ev.orders
    /\ trees' = [k \in 1..Len(Ev.orders) |->
                    Build([i \in 1..Len(Ev.orders[k]) |-> FlowOfJson(Ev.flows[Ev.orders[k][i]])])]
    /\ UNCHANGED tree

F == ToSet(fs)

\* the flows in load order k
Ordered(k) == [i \in 1..Len(orders[k]) |-> fs[orders[k][i]]]

VerdictMap(x) == [i \in 1..Len(fs) |-> <<fs[i].name, Verdict(fs[i], x, F)>>]

Judge(x, sels, nact) ==
    LET selsets  == {ToSet(sels[k]) : k \in 1..Len(sels)}
        correct  == \A s \in selsets : Correct(s, x, F)
        orderind == OrderIndependent(selsets)
        pass     == nact < 0 \/ PassThrough(nact, x, F)
    IN  IF correct /\ orderind /\ pass THEN TRUE
        ELSE PrintT(<<"REJ", l + 1, ToJson([correct |-> correct, orderind |-> orderind, passthrough |-> pass,
                                          verdicts |-> VerdictMap(x)])>>)

Drift(x, sels) ==
    IF \/ Len(orders) # Len(sels)
       \/ \A k \in 1..Len(orders) :
             LET os == Ordered(k) IN
             {os[i].name : i \in Select(trees[k], os, x)} = ToSet(sels[k])
    THEN TRUE
    ELSE PrintT(<<"DRIFT", l + 1, ToJson([model |-> [k \in 1..Len(orders) |->
                    LET os == Ordered(k) IN {os[i].name : i \in Select(trees[k], os, x)}]])>>)

NonTriv(x) == IF NonTrivial(x, F) THEN PrintT(<<"NT", l + 1>>) ELSE TRUE

TX ==
    /\ l < TraceLen /\ Ev.ev = "x"
    /\ l' = l + 1
    /\ LET x == TxnOfJson(Ev.x) IN Judge(x, Ev.sels, Ev.nact) /\ Drift(x, Ev.sels) /\ NonTriv(x)
    /\ UNCHANGED <<fs, tree, trees, orders>>

TNext == TReset \/ TX

TraceSpec == TInit /\ [][TNext]_tvars

HWM  == Mark(l)
Post == Report
================================================================================
