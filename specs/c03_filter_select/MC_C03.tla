------------------------------- MODULE MC_C03 -------------------------------
(* Bounded instances for the exhaustive check  I => Correct /\ OrderIndependent.           *)
(*  A  pattern space: every pattern over host h.com, literals a b, one parameter per        *)
(*     position, optional trailing wildcard (and the bare "*"), flows without other        *)
(*     constraints; transactions = every URL over two hosts (plus a host with an extra and *)
(*     with a missing label) and path literals a b c, one segment longer than the patterns *)
(*  B  constraint space: few patterns that share trie nodes, flows with every combination  *)
(*     of method / header / query / status constraints (user and system flows);            *)
(*     transactions vary method, header, query, status and side                            *)
EXTENDS FilterTreeI, TLCExt

CONSTANTS MaxPath, NFlowsA

SymA == <<"a", "b">>      \* space A (patterns and URLs) is invariant under a <-> b

PN == <<"p", "q", "r", "x">>
HostH == <<"h", "com">>

\* path sequences of length 0..n; position i uses literals a, b or the parameter named PN[i]
RECURSIVE PathsOfLen(_)
PathsOfLen(n) == IF n = 0 THEN {<<>>}
                 ELSE {Append(s, e) : s \in PathsOfLen(n - 1), e \in {"a", "b", ParamSeg(PN[n])}}
PatPaths(n) == UNION {PathsOfLen(k) : k \in 0..n}

PatternsA == {Mk(HostH, s) : s \in PatPaths(MaxPath)}
        \cup {Mk(HostH, Append(s, WildSeg)) : s \in PatPaths(MaxPath - 1)}
        \cup {Mk(<<WildSeg>>, <<>>)}

Plain(p, t) == [pat |-> p, m |-> {}, h |-> {}, q |-> {}, s |-> {}, typ |-> t]

FlowsA == {Plain(p, "user") : p \in PatternsA}

UrlsA == UrlsOver({HostH}, {"a", "b", "c"}, MaxPath + 1)
    \cup UrlsOver({<<"g", "com">>, <<"h", "com", "x">>, <<"h">>}, {"a", "b"}, 1)
    \cup {Mk(<<"h">>, <<"com">>), Mk(<<"h">>, <<"com", "a">>), Mk(<<"h">>, <<"com", "b">>)}   \* a host label moved into the path

Req(u, meth, hdr, qry) == [side |-> "req", url |-> u, method |-> meth, hdr |-> hdr, qry |-> qry, status |-> 0]
Resp(u, meth, st)      == [side |-> "resp", url |-> u, method |-> meth, hdr |-> {}, qry |-> {}, status |-> st]

TxnsA == {Req(u, "GET", {}, {}) : u \in UrlsA}

-------------------------------------------------------------------------------
\* D  deeper patterns: up to 3 segments over one literal a and the parameters, optional trailing wildcard;
\*    URLs up to 4 segments over a and the foreign literal c
RECURSIVE PathsOver(_, _)
PathsOver(n, L) == IF n = 0 THEN {<<>>}
                   ELSE {Append(s, e) : s \in PathsOver(n - 1, L), e \in L \cup {ParamSeg(PN[n])}}
PatternsD == {Mk(HostH, s) : s \in UNION {PathsOver(k, {"a"}) : k \in 0..3}}
        \cup {Mk(HostH, Append(s, WildSeg)) : s \in UNION {PathsOver(k, {"a"}) : k \in 0..2}}
FlowsD == {Plain(p, "user") : p \in PatternsD}
UrlsD  == UrlsOver({HostH}, {"a", "c"}, 4)
TxnsD  == {Req(u, "GET", {}, {}) : u \in UrlsD}

-------------------------------------------------------------------------------
PatternsB == {Mk(HostH, <<"a">>), Mk(HostH, <<"a", WildSeg>>), Mk(HostH, <<ParamSeg("p")>>)}

MethodSets == {{}, {"GET"}, {"GET", "POST"}}
HeaderSets == {{}, {<<"X-Key", "v1">>}, {<<"X-Key", "v1">>, <<"X-Key", "v2">>}}
QuerySets  == {{}, {<<"k", "1">>}}
StatusSets == {{}, {500}}

FlowsB == {[pat |-> p, m |-> m, h |-> h, q |-> q, s |-> s, typ |-> t] :
              p \in PatternsB, m \in MethodSets, h \in HeaderSets, q \in QuerySets, s \in StatusSets,
              t \in {"user", "sysStart"}}

\* one constraint kind at a time (keeps the product small, every kind meets every kind of the other flow)
FlowsB1 == {f \in FlowsB : Cardinality({k \in {"m", "h", "q", "s"} : ~OwnEmpty(k, f)}) <= 1}

FlowsB1U == {f \in FlowsB1 : f.typ = "user"}

\* C  patterns and constraints together: overlapping patterns (literal / parameter / wildcard / bare "*") with one
\*    method or status constraint, so that shadowing meets flows that do not qualify
PatternsC == {Mk(HostH, <<"a">>), Mk(HostH, <<"a", WildSeg>>), Mk(HostH, <<ParamSeg("p")>>), Mk(HostH, <<WildSeg>>),
              Mk(HostH, <<ParamSeg("p"), "b">>)}
FlowsC == {[pat |-> p, m |-> c[1], h |-> {}, q |-> {}, s |-> c[2], typ |-> "user"] :
              p \in PatternsC, c \in {<<{}, {}>>, <<{"GET"}, {}>>, <<{}, {500}>>}}
UrlsC == {Mk(HostH, <<>>), Mk(HostH, <<"a">>), Mk(HostH, <<"a", "b">>), Mk(HostH, <<"c">>), Mk(HostH, <<"c", "b">>),
          Mk(HostH, <<"a", "b", "c">>)}
TxnsC == {Req(u, meth, {}, {}) : u \in UrlsC, meth \in {"GET", "POST"}}
    \cup {Resp(u, "GET", st) : u \in UrlsC, st \in {200, 500}}

UrlsB == {Mk(HostH, <<"a">>), Mk(HostH, <<"a", "b">>), Mk(HostH, <<"c">>)}
\* one dimension at a time: header variants with an empty query, query variants with no header
HdrQryB == {<<hdr, {}>> : hdr \in {{}, {<<"x-key", "v1">>}, {<<"x-key", "V2">>}, {<<"x-key", "zz">>}}}
      \cup {<<{}, qry>> : qry \in {{<<"k", "1">>}, {<<"k", "2">>}}}
TxnsB == {Req(u, meth, hq[1], hq[2]) : u \in UrlsB, meth \in {"GET", "POST", "PROPFIND"}, hq \in HdrQryB}
    \cup {Req(Mk(HostH, <<"a">>), "HEAD", {}, {})}
    \cup {Resp(u, meth, st) : u \in UrlsB, meth \in {"GET", "POST", "PROPFIND"}, st \in {200, 500}}


-------------------------------------------------------------------------------
(* Non-vacuity witnesses: the bounded instance reaches every verdict and every open zone of *)
(* FilterP, configurations in which several flows are selected, flows sharing a trie node,  *)
(* and every outcome kind of the traversal.  Always TRUE; prints  "WITNESS <name>"  once    *)
(* per worker the first time the situation is met (states with at most 2 flows are enough). *)
Once(reg, name, cond) ==
    IF TLCGetOrDefault(reg, FALSE) = FALSE /\ cond THEN TLCSet(reg, TRUE) /\ PrintT("WITNESS " \o name) ELSE TRUE

Witnesses ==
    IF Len(fs) = 0 \/ Len(fs) > 2 THEN TRUE
    ELSE LET F  == FlowSet(fs)
             Ps == Pats(F)
             ex(Pr(_, _)) == \E x \in TxnDomain : \E f \in F : Pr(f, x)
             vYes(f, x)  == Verdict(f, x, F) = Yes
             vNo(f, x)   == Verdict(f, x, F) = No
             z1(f, x)    == MatchesX(f.pat, x.url) /\ ~MatchesStrictX(f.pat, x.url)
             z2(f, x)    == MatchesStrictX(f.pat, x.url) /\ Shadowed(f.pat, x.url, Ps)
             z3(f, x)    == UrlV(f.pat, x.url, Ps) = Yes /\ (QueryV(f, x) = Either \/ StatusV(f, x) = Either
                                                             \/ (x.side = "resp" /\ HeaderV(f, x) = Either))
             z4(f, x)    == x.side = "req" /\ HeaderV(f, x) = Either
             z5(f, x)    == MethodV(f, x) = Either
             extra(f, x) == ~EndsWild(f.pat) /\ NParts(x.url) = NParts(f.pat) + 1
                            /\ \A i \in 1..NParts(f.pat) : PartMatches(Parts(f.pat)[i], Parts(x.url)[i])
             missing(f, x) == NParts(x.url) = BodyLen(f.pat) - 1
                            /\ \A i \in 1..NParts(x.url) : PartMatches(Parts(f.pat)[i], Parts(x.url)[i])
         IN  /\ Once(11, "must-run", ex(vYes))
             /\ Once(12, "must-not-run", ex(vNo))
             /\ Once(13, "Z1-wildcard-faces-nothing", ex(z1))
             /\ Once(14, "Z2-shadowed", ex(z2))
             /\ Once(15, "Z3-not-observable-on-this-side", ex(z3))
             /\ Once(16, "Z4-header-value-case", ex(z4))
             /\ Once(17, "Z5-method-outside-default-set", ex(z5))
             /\ Once(18, "extra-trailing-segment", ex(extra))
             /\ Once(19, "missing-trailing-segment", ex(missing))
             /\ Once(20, "two-flows-selected", \E x \in TxnDomain : Cardinality(Select(tree, fs, x)) = 2)
             /\ Once(21, "nothing-selected", \E x \in TxnDomain : Select(tree, fs, x) = {})
             /\ Once(22, "two-flows-on-one-node", \E p \in DOMAIN tree : tree[p].val # <<>> /\ Len(tree[p].val[1].fl) = 2)
             /\ Once(23, "one-of-two-on-a-node-selected",
                      \E p \in DOMAIN tree : tree[p].val # <<>> /\ Len(tree[p].val[1].fl) = 2
                          /\ \E x \in TxnDomain : Cardinality(Select(tree, fs, x) \cap {tree[p].val[1].fl[1], tree[p].val[1].fl[2]}) = 1)

\* the fast matching operators of FilterP agree with the shared UrlPattern module
FastAgrees(Ps, Us) ==
    \A p \in Ps : \A u \in Us :
        LET mi == MatchInfo(Parts(p), Parts(u)) IN
        /\ mi.loose = MatchesX(p, u) /\ mi.strict = MatchesStrictX(p, u)
        /\ \A i \in 1..NParts(p) : IsParamF(Parts(p)[i].v) = IsParam(Parts(p)[i].v)
                                   /\ IsLitF(Parts(p)[i].v) = IsLit(Parts(p)[i].v)
ASSUME FastAgrees(PatternsA \cup PatternsB \cup PatternsC \cup PatternsD, UrlsA \cup UrlsB \cup UrlsC \cup UrlsD)
=============================================================================
