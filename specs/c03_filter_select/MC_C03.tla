------------------------------- MODULE MC_C03 -------------------------------
(* Bounded instances for the exhaustive check  I => Correct /\ OrderIndependent.           *)
(*  A  pattern space: every pattern over host h.com, literals a b, one parameter per        *)
(*     position, optional trailing wildcard (and the bare "*"), flows without other        *)
(*     constraints; transactions = every URL over two hosts (plus a host with an extra and *)
(*     with a missing label) and path literals a b c, one segment longer than the patterns *)
(*  B  constraint space: few patterns that share trie nodes, flows with every combination  *)
(*     of method / header / query / status constraints (user and system flows);            *)
(*     transactions vary method, header, query, status and side                            *)
EXTENDS FilterTreeI

CONSTANTS MaxPath, NFlowsA

PN == <<"p", "q", "r", "x">>
HostH == <<"h", "com">>

\* path sequences of length 0..n; position i uses literals a, b or the parameter named PN[i]
RECURSIVE PathsOfLen(_)
PathsOfLen(n) == IF n = 0 THEN {<<>>}
                 ELSE {Append(s, e) : s \in PathsOfLen(n - 1), e \in {"a", "b", ParamSeg(PN[n])}}
PatPaths(n) == UNION {PathsOfLen(k) : k \in 0..n}

PatternsA == {Mk(HostH, s) : s \in PatPaths(MaxPath)}
        \cup {Mk(HostH, Append(s, WildSeg)) : s \in PatPaths(MaxPath - 1)}
        \cup {Mk(<<WildSeg>>, <<>>)}

Plain(p, t) == [pat |-> p, m |-> {}, h |-> {}, q |-> {}, s |-> {}, typ |-> t]

FlowsA == {Plain(p, "user") : p \in PatternsA}

UrlsA == UrlsOver({HostH}, {"a", "b", "c"}, MaxPath + 1)
    \cup UrlsOver({<<"g", "com">>, <<"h", "com", "x">>, <<"h">>}, {"a"}, 1)

Req(u, meth, hdr, qry) == [side |-> "req", url |-> u, method |-> meth, hdr |-> hdr, qry |-> qry, status |-> 0]
Resp(u, meth, st)      == [side |-> "resp", url |-> u, method |-> meth, hdr |-> {}, qry |-> {}, status |-> st]

TxnsA == {Req(u, "GET", {}, {}) : u \in UrlsA}

-------------------------------------------------------------------------------
PatternsB == {Mk(HostH, <<"a">>), Mk(HostH, <<"a", WildSeg>>), Mk(HostH, <<ParamSeg("p")>>)}

MethodSets == {{}, {"GET"}, {"GET", "POST"}}
HeaderSets == {{}, {<<"X-Key", "v1">>}, {<<"X-Key", "v1">>, <<"X-Key", "v2">>}}
QuerySets  == {{}, {<<"k", "1">>}}
StatusSets == {{}, {500}}

FlowsB == {[pat |-> p, m |-> m, h |-> h, q |-> q, s |-> s, typ |-> t] :
              p \in PatternsB, m \in MethodSets, h \in HeaderSets, q \in QuerySets, s \in StatusSets,
              t \in {"user", "sysStart"}}

\* one constraint kind at a time (keeps the product small, every kind meets every kind of the other flow)
FlowsB1 == {f \in FlowsB : Cardinality({k \in {"m", "h", "q", "s"} : ~OwnEmpty(k, f)}) <= 1}

UrlsB == {Mk(HostH, <<"a">>), Mk(HostH, <<"a", "b">>), Mk(HostH, <<"c">>)}
\* one dimension at a time: header variants with an empty query, query variants with no header
HdrQryB == {<<hdr, {}>> : hdr \in {{}, {<<"x-key", "v1">>}, {<<"x-key", "V2">>}, {<<"x-key", "zz">>}}}
      \cup {<<{}, qry>> : qry \in {{<<"k", "1">>}, {<<"k", "2">>}}}
TxnsB == {Req(u, meth, hq[1], hq[2]) : u \in UrlsB, meth \in {"GET", "POST", "HEAD"}, hq \in HdrQryB}
    \cup {Resp(u, meth, st) : u \in UrlsB, meth \in {"GET", "POST", "HEAD"}, st \in {200, 500}}

\* the fast matching operators of FilterP agree with the shared UrlPattern module
FastAgrees(Ps, Us) ==
    \A p \in Ps : \A u \in Us :
        LET mi == MatchInfo(Parts(p), Parts(u)) IN
        /\ mi.loose = Matches(p, u) /\ mi.strict = MatchesStrict(p, u)
        /\ \A i \in 1..NParts(p) : IsParamF(Parts(p)[i].v) = IsParam(Parts(p)[i].v)
                                   /\ IsLitF(Parts(p)[i].v) = IsLit(Parts(p)[i].v)
ASSUME FastAgrees(PatternsA \cup PatternsB, UrlsA \cup UrlsB)
=============================================================================
