\* constraint space, code as found: must be refuted
CONSTANTS
  MaxPath = 1
  NFlowsA = 0
  SymLits <- SymNone
  MaxFlows = 2
  FlowDomain <- FlowsB1
  TxnDomain <- TxnsB
  KF_NodeReq = TRUE
  LookupMode = "exact"
  KF_EndTest = FALSE
  KF_WildHost = TRUE
  KF_WildNew = TRUE
SPECIFICATION ISpec
INVARIANTS InvCorrect InvOrder InvBuild
CHECK_DEADLOCK FALSE
