\* pattern space, repaired code: I => Correct /\ OrderIndependent
CONSTANTS
  MaxPath = 2
  NFlowsA = 3
  SymLits <- SymA
  MaxFlows = 3
  FlowDomain <- FlowsA
  TxnDomain <- TxnsA
  KF_NodeReq = FALSE
  LookupMode = "exact"
  KF_EndTest = FALSE
  KF_WildHost = FALSE
  KF_WildNew = TRUE
SPECIFICATION ISpec
INVARIANTS InvCorrect InvOrder InvBuild Witnesses
CHECK_DEADLOCK FALSE
