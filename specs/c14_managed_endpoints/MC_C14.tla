-------------------------------- MODULE MC_C14 --------------------------------
(* C14 - exhaustive check  I => P  over the bounded input space and, in the same run, the   *)
(* generation of the cases for the real code (same scheme as MC_C13): one TLC state per      *)
(* loaded item; for every request of its request set the model's two verdicts (engine        *)
(* matches / proxy manages) are judged by ManagedP.Verdict; the group is written to          *)
(* <EmitPrefix><index>.json for the executor.                                                *)
EXTENDS SpaceC14, Json

CONSTANTS KF_TrailingSlash,  \* TRUE: the recorded finding "trailing-slash" is tolerated
          Source,            \* "all" | "picks"
          NChunks,
          EmitPrefix

Picks == ndJsonDeserialize("picks.ndjson")
Indices == IF Source = "all" THEN 1..NItems ELSE {Picks[i] : i \in 1..Len(Picks)}

\* input class of a case (coverage report of the driver; not part of any verdict)
SpecialChars == {".", "+", "(", "*"}
HasSpecial(seg) == \E i \in 1..Len(seg) : seg[i] \in SpecialChars
Classes(it, r, e, x) ==
    (IF e THEN {"engine-match"} ELSE {})
    \cup (IF x /\ ~e THEN {"proxy-over-match"} ELSE {})
    \cup (IF e /\ \E i \in 1..Len(it.pc.p) : ~IsParamC(it.pc.p[i]) /\ HasSpecial(it.pc.p[i]) THEN {"special-char-matched"} ELSE {})
    \cup (IF e /\ \E i \in 1..Len(it.pc.p) : IsParamC(it.pc.p[i]) /\ ~ClassName(it.pc.p[i]) THEN {"odd-param-name-matched"} ELSE {})
    \cup (IF e /\ Len(it.pc.p) > 0 /\ IsWildC(it.pc.p[Len(it.pc.p)]) /\ Len(r.uc.p) = Len(it.pc.p) - 1 THEN {"wildcard-zero-tail"} ELSE {})
    \cup (IF e /\ it.ms = {} /\ r.mc = HEADc THEN {"no-method-filter-HEAD"} ELSE {})
    \cup (IF e /\ r.var = "ts" THEN {"trailing-slash-matched"} ELSE {})
    \cup (IF r.var = "uc" /\ EngineModel(it, r.mc, r.uc, "") THEN {"host-case-variant"} ELSE {})
    \cup (IF e /\ it.split THEN {"two-flows-one-url"} ELSE {})
    \cup (IF \E i \in 1..Len(r.uc.p) : r.uc.p[i] = <<>> THEN {"empty-segment"} ELSE {})
    \cup (IF Len(r.uc.h) # Len(it.pc.h) /\ Len(r.uc.h) + Len(r.uc.p) >= Len(it.pc.h) + 1 /\ r.uc.h # OtherHost
          THEN {"host-boundary-moved"} ELSE {})
    \cup (IF e /\ IsCatchAll(it.pc) THEN (IF it.ms = {} THEN {"catch-all"} ELSE {"catch-all-with-methods"}) ELSE {})

Group(i) ==
    LET it   == ItemSeq[i]
        itps == ItemsP(it)
        its  == SetToSeq(itps)
        reqs == SetToSeq(ReqsOf(it.pc))
    IN [idx   |-> i,
        kind  |-> it.kind,
        split |-> it.split,
        \* always also at the level of the loaded engine (the grouping / catch-all logic lives in its request builder)
        eng   |-> it.split \/ IsCatchAll(it.pc),
        items |-> [k \in 1..Len(its) |-> [name |-> its[k].name, m |-> SetToSeq(its[k].ms), h |-> Host(its[k].p), p |-> Path(its[k].p)]],
        reqs  |-> [k \in 1..Len(reqs) |-> [m |-> Str(reqs[k].mc), h |-> StrSeq(reqs[k].uc.h),
                                           p |-> StrSeq(reqs[k].uc.p), var |-> reqs[k].var]],
        exp   |-> [k \in 1..Len(reqs) |->
                    LET e == EngineModel(it, reqs[k].mc, reqs[k].uc, reqs[k].var)
                        x == ProxyModel(it, reqs[k].mc, reqs[k].uc, reqs[k].var)
                        \* Filter.IsAnyURLAccepted: the request builder asks the proxy to manage everything
                        mall == IsCatchAll(it.pc)
                        obs == [engine |-> IF e THEN {"i1"} ELSE {}, proxy |-> x, manageAll |-> mall]
                    IN [engine |-> e, proxy |-> x \/ mall, v |-> Verdict(itps, ReqP(reqs[k]), obs),
                        spells |-> \E ip \in itps : Spells(ip, ReqP(reqs[k])),
                        cls |-> SetToSeq(Classes(it, reqs[k], e, x))]]]

Count(g, v) == Cardinality({k \in 1..Len(g.reqs) : g.exp[k].v = v})
Summary(g) == [bad |-> Count(g, "bad"), ts |-> Count(g, "trailing-slash"),
               neng |-> Cardinality({k \in 1..Len(g.reqs) : g.exp[k].engine}),
               nover |-> Cardinality({k \in 1..Len(g.reqs) : g.exp[k].proxy /\ ~g.exp[k].engine}),
               ncases |-> Len(g.reqs)]

Evaluate(i) == LET g == Group(i) IN
               IF EmitPrefix = "" \/ JsonSerialize(EmitPrefix \o ToString(i) \o ".json", g) THEN Summary(g) ELSE Summary(g)

VARIABLES phase, chunk, idx, sum
vars == <<phase, chunk, idx, sum>>
NoSum == [bad |-> 0, ts |-> 0, neng |-> 0, nover |-> 0, ncases |-> 0]

Init == phase = "start" /\ chunk = -1 /\ idx = 0 /\ sum = NoSum
PickChunk == /\ phase = "start" /\ \E c \in 0..(NChunks - 1) : chunk' = c
             /\ phase' = "chunk" /\ UNCHANGED <<idx, sum>>
PickItem == /\ phase = "chunk"
            /\ \E i \in {x \in Indices : x % NChunks = chunk} : idx' = i /\ sum' = Evaluate(i)
            /\ phase' = "item" /\ UNCHANGED chunk
Next == PickChunk \/ PickItem
Spec == Init /\ [][Next]_vars

Accepted == sum.bad = 0 /\ (KF_TrailingSlash \/ sum.ts = 0)

\* witnesses (expected to be violated)
NoEngineMatch == sum.neng = 0
NoOverMatch   == sum.nover = 0
================================================================================
