\* witness: with the recorded finding NOT tolerated the trailing-slash class
\* must show up as the counterexample
CONSTANTS
  MaxBody = 1
  QuoteAll = TRUE
  EmptyParam = FALSE
  AllMethods = TRUE
  KF_TrailingSlash = FALSE
  Source = "all"
  NChunks = 8
  EmitPrefix = ""
SPECIFICATION Spec
INVARIANT Accepted
CHECK_DEADLOCK FALSE
