------------------------------- MODULE ProxyMapI -------------------------------
(* C14 - the registration PROTOCOL over a history of (re)loads: the proxy's managed-endpoint  *)
(* map as state, and an implementation-shaped model of how the engine maintains it            *)
(*   config.ManageHAProxyEndpoints / updateHAProxyEndpoints   (PUT per expression, or only    *)
(*                                                             PUT /manage_all when global)   *)
(*   TxnPoliciesAccessor.UpdatePoliciesData, HandlingDataManager.initializeStreams            *)
(*       register the new configuration, then remove what only the previous one had - at      *)
(*       once (fail-safe path) or by a goroutine sleeping the 30 s stale-version TTL           *)
(*   HAProxy's admin API (haproxy.cfg): set-map / del-map on endpoints.map, proc.manage_all.   *)
(*                                                                                           *)
(* A configuration is [mult, all]: for every expression (abstract identities here) how many   *)
(* registrations of it the configuration carries - one per enabled plugin of an endpoint, one  *)
(* per filter group sharing URL and method - and whether it asks for manage-all.  The proxy's  *)
(* endpoints.map is a SET: n PUTs of one expression leave one entry, one DELETE removes it.    *)
(* Traffic of expression e is matched by the engine iff e is in the CURRENT configuration      *)
(* (mult[e] > 0; everything when all).                                                         *)
(*                                                                                           *)
(* Deviation named by a constant:                                                             *)
(*   DiffByValue  TRUE: the expressions to remove are those of the previous configuration     *)
(*                that the new one does not contain (repaired code); FALSE: lo.Difference     *)
(*                over *HAProxyEndpointData pointers - every previous expression (before the  *)
(*                fix: an endpoint that STAYS is unmanaged by the reload)                     *)
(*   MultisetDiff TRUE: the removal set is computed pairwise per registration (an expression   *)
(*                kept with FEWER registrations is deleted); FALSE: as sets (repaired code)    *)
(* Recorded finding tolerated by KF_Rapid: a removal scheduled by an OLDER reload fires after  *)
(* a later reload registered the expression again (reload within the TTL).                    *)
EXTENDS Integers, Sequences, FiniteSets, TLC

CONSTANTS Exprs,        \* abstract expressions
          MaxMult,      \* registrations of one expression in one configuration: 0..MaxMult
          MultisetDiff,
          MaxLoads,
          DiffByValue,
          GlobalUnmanage, \* TRUE: policies mode (manage-all is withdrawn when the new configuration has no global plugin);
                          \* FALSE: flows mode (initializeStreams never withdraws manage-all)
          KF_Rapid

VARIABLES cur,      \* current configuration [ex, all]
          map,      \* the proxy's endpoints.map (set of expressions)
          mall,     \* proc.manage_all
          timers,   \* pending delayed removals: sequence of [k, dels, global]
          nloads,
          stale,    \* expressions deleted by a removal of an older reload while in the current configuration
          staleAll,
          hist      \* observable history (for generation)
vars == <<cur, map, mall, timers, nloads, stale, staleAll, hist>>

Configs == [mult : [Exprs -> 0..MaxMult], all : BOOLEAN]
NoConfig == [mult |-> [e \in Exprs |-> 0], all |-> FALSE]
Ex(c) == {e \in Exprs : c.mult[e] > 0}

Init == /\ cur = NoConfig /\ map = {} /\ mall = FALSE /\ timers = <<>> /\ nloads = 0
        /\ stale = {} /\ staleAll = FALSE /\ hist = <<>>

\* one removal applied to the proxy
ApplyRemoval(t, m, a, st, sta) ==
    [map   |-> m \ t.dels,
     mall  |-> IF t.global THEN FALSE ELSE a,
     stale |-> IF t.k < nloads THEN st \cup (t.dels \cap Ex(cur)) ELSE st,
     staleAll |-> IF t.global /\ t.k < nloads /\ cur.all THEN TRUE ELSE sta]

Load(c, imm) ==
    /\ nloads < MaxLoads
    /\ LET first   == nloads = 0
           \* updateHAProxyEndpoints: manage-all short-circuits the per-expression PUTs
           map1    == IF c.all THEN map ELSE map \cup Ex(c)
           mall1   == mall \/ c.all
           dels    == IF first THEN {}
                      ELSE IF ~DiffByValue THEN Ex(cur)
                      ELSE IF MultisetDiff THEN {e \in Exprs : cur.mult[e] > c.mult[e]}
                      ELSE Ex(cur) \ Ex(c)
           glob    == GlobalUnmanage /\ ~first /\ cur.all /\ ~c.all
           k       == nloads + 1
       IN /\ nloads' = k
          /\ cur' = c
          /\ IF imm
             THEN /\ map' = map1 \ dels
                  /\ mall' = IF glob THEN FALSE ELSE mall1
                  /\ timers' = timers
             ELSE /\ map' = map1 /\ mall' = mall1
                  \* two goroutines: the global one is started first; none for an empty removal set
                  /\ timers' = timers \o (IF glob THEN <<[k |-> k, dels |-> {}, global |-> TRUE]>> ELSE <<>>)
                                      \o (IF dels # {} THEN <<[k |-> k, dels |-> dels, global |-> FALSE]>> ELSE <<>>)
          /\ stale' = stale \ (IF c.all THEN {} ELSE Ex(c))      \* registered again
          /\ staleAll' = IF c.all THEN FALSE ELSE staleAll
          /\ hist' = Append(hist, [op |-> "load", mult |-> c.mult, all |-> c.all, imm |-> imm])

\* one sleeper wakes up (exhaustive check: any order among the pending ones)
FireOne == \E i \in 1..Len(timers) :
    LET r == ApplyRemoval(timers[i], map, mall, stale, staleAll) IN
    /\ map' = r.map /\ mall' = r.mall /\ stale' = r.stale /\ staleAll' = r.staleAll
    /\ timers' = [j \in 1..(Len(timers) - 1) |-> IF j < i THEN timers[j] ELSE timers[j + 1]]
    /\ UNCHANGED <<cur, nloads, hist>>

\* the clock passes the TTL of everything pending: all sleepers run (generation: in order of scheduling)
RECURSIVE ApplyAll(_, _, _, _, _)
ApplyAll(ts, m, a, st, sta) == IF Len(ts) = 0 THEN [map |-> m, mall |-> a, stale |-> st, staleAll |-> sta]
                               ELSE LET r == ApplyRemoval(ts[1], m, a, st, sta)
                                    IN ApplyAll(Tail(ts), r.map, r.mall, r.stale, r.staleAll)
Drain == /\ nloads > 0
         /\ LET r == ApplyAll(timers, map, mall, stale, staleAll) IN
            map' = r.map /\ mall' = r.mall /\ stale' = r.stale /\ staleAll' = r.staleAll
         /\ timers' = <<>>
         /\ hist' = Append(hist, [op |-> "drain"])
         /\ UNCHANGED <<cur, nloads>>

Next == (\E c \in Configs, imm \in BOOLEAN : Load(c, imm)) \/ FireOne
Spec == Init /\ [][Next]_vars

\* generation: loads and full drains only
GenNext == (\E c \in Configs, imm \in BOOLEAN : Load(c, imm)) \/ (Len(hist) > 0 /\ hist[Len(hist)].op = "load" /\ Drain)
GenSpec == Init /\ [][GenNext]_vars

\* NoBypass on the CURRENT proxy state: what the engine matches is managed
Managed == /\ cur.all => mall \/ (KF_Rapid /\ staleAll)
           /\ \A e \in Ex(cur) : e \in map \/ mall \/ (KF_Rapid /\ (e \in stale \/ (cur.all /\ staleAll)))

View == <<cur, map, mall, timers, nloads, stale, staleAll>>

\* witnesses (expected to be violated)
NeverStale    == stale = {}
NeverRemoved  == ~(nloads > 0 /\ \E e \in Exprs : e \notin map /\ e \notin Ex(cur) /\ nloads >= 2)
================================================================================
