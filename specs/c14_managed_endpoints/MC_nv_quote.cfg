\* non-vacuity: HaproxyEndpointFormat as it was before the fix (only "." quoted, {names} over [a-zA-Z0-9-_] only)
\* must be refuted
CONSTANTS
  MaxBody = 1
  QuoteAll = FALSE
  EmptyParam = FALSE
  AllMethods = TRUE
  KF_TrailingSlash = TRUE
  Source = "all"
  NChunks = 8
  EmitPrefix = ""
SPECIFICATION Spec
INVARIANT Accepted
CHECK_DEADLOCK FALSE
