----------------------------- MODULE ManagedTrace -----------------------------
(* C14 - trace validation: the verdicts of the REAL engine and of the REAL managed-endpoint  *)
(* expressions (evaluated the way HAProxy's map_reg does), judged by the property spec.       *)
(*                                                                                          *)
(* trace.ndjson: line 1 = {"ev":"config"}; then                                              *)
(*   {"ev":"group","items":[{"name":..,"kind":"policy"|"flow","m":[..],"h":[..],"p":[..]},..],*)
(*    "manage_all":b}                          what the engine loaded, what it told the proxy *)
(*   {"ev":"req","m":..,"h":[..],"p":[..],"var":"",      "engine":[names],"proxy":b}          *)
(*        one request: the items the real engine matched it to, whether a registered          *)
(*        expression finds it                                                                 *)
(* A req event is a step iff ManagedP.Verdict = "ok"; with TolerateTS = TRUE the recorded     *)
(* finding class "trailing-slash" is let through and reported as <<"KF-TS", line>>; any other  *)
(* rejection is announced as <<"NOT-ACCEPTED", line, verdict>>.                                *)
EXTENDS TraceLib, ManagedP, TLC

CONSTANT TolerateTS

VARIABLES l, items, mall
tvars == <<l, items, mall>>

Ev == TraceLog[l + 1]
Consume(name) == l < TraceLen /\ Ev.ev = name /\ l' = l + 1
SeqSet(s) == {s[i] : i \in 1..Len(s)}

TInit == l = 1 /\ items = {} /\ mall = FALSE

TGroup == /\ Consume("group")
          /\ items' = {[name |-> x.name, kind |-> x.kind, ms |-> SeqSet(x.m), p |-> Mk(x.h, x.p)] : x \in SeqSet(Ev.items)}
          /\ mall' = Ev.manage_all

TReq == /\ Consume("req")
        /\ LET rq  == [m |-> Ev.m, u |-> Mk(Ev.h, Ev.p), var |-> Ev.var]
               obs == [engine |-> SeqSet(Ev.engine), proxy |-> Ev.proxy, manageAll |-> mall]
               v   == Verdict(items, rq, obs)
           IN IF v = "ok" THEN TRUE
              ELSE IF v = "trailing-slash" /\ TolerateTS THEN PrintT(<<"KF-TS", l + 1>>)
              ELSE PrintT(<<"NOT-ACCEPTED", l + 1, v>>) /\ FALSE
        /\ UNCHANGED <<items, mall>>

TNext == TGroup \/ TReq
TraceSpec == TInit /\ [][TNext]_tvars

HWM == Mark(l)
Post == Report
================================================================================
