\* registration protocol, repaired code (removals by value); the rapid-reload finding NOT tolerated: must show up as the counterexample
CONSTANTS
  Exprs = {"e1", "e2", "e3"}
  MaxMult = 1
  MultisetDiff = FALSE
  MaxLoads = 3
  DiffByValue = TRUE
  GlobalUnmanage = TRUE
  KF_Rapid = FALSE
SPECIFICATION Spec
INVARIANT Managed
VIEW View
CHECK_DEADLOCK FALSE
