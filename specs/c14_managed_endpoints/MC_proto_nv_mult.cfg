\* registration protocol with several registrations per expression, removal set computed pairwise per registration: must be refuted; the rapid-reload finding tolerated
CONSTANTS
  Exprs = {"e1", "e2"}
  MaxMult = 2
  MultisetDiff = TRUE
  MaxLoads = 3
  DiffByValue = TRUE
  GlobalUnmanage = TRUE
  KF_Rapid = TRUE
SPECIFICATION Spec
INVARIANT Managed
VIEW View
CHECK_DEADLOCK FALSE
