\* registration protocol with several registrations per expression, repaired code (removals by value); the rapid-reload finding tolerated
CONSTANTS
  Exprs = {"e1", "e2"}
  MaxMult = 2
  MultisetDiff = FALSE
  MaxLoads = 3
  DiffByValue = TRUE
  GlobalUnmanage = TRUE
  KF_Rapid = TRUE
SPECIFICATION Spec
INVARIANT Managed
VIEW View
CHECK_DEADLOCK FALSE
