CONSTANT TolerateTS = TRUE
SPECIFICATION TraceSpec
CONSTRAINT HWM
POSTCONDITION Post
CHECK_DEADLOCK FALSE
