------------------------------- MODULE SpaceC14 -------------------------------
(* (no '?' / '#' in a segment: the engine cuts a request URL there - query and fragment never reach it as path) *)
(* C14 - the bounded input space: configured URL patterns whose segments contain characters *)
(* special to regular expressions, parameter names inside and outside [a-zA-Z0-9-_], hosts   *)
(* with dots, optional trailing wildcard; method lists; and, per pattern, the request URLs   *)
(* that spell it, near misses, extra / missing segments, another host, a trailing slash.     *)
EXTENDS ManagedP, ManagedI, SequencesExt

CONSTANT MaxBody    \* path segments before an optional "/*"

C(s) == s   \* readability: a segment is written as a tuple of characters

HostsC == { << <<"a">>, <<"c", "o", "m">> >>, << <<"a", "p", "i">>, <<"a">>, <<"c", "o", "m">> >> }
OtherHost == << <<"a", "x", "c", "o", "m">> >>          \* "axcom": what an unescaped "a.com" would also match

LitSegs   == { <<"a">>, <<"a", ".", "b">>, <<"a", "+", "b">>, <<"a", "(", "b">>, <<"a", "*", "b">>, <<"v", "1">> }
ParamSegsC == { <<"{", "i", "d", "}">>, <<"{", "i", "d", "_", "2", "}">>, <<"{", "i", ".", "d", "}">> }
WildC     == <<"*">>

\* near misses of a literal segment: what the segment read as a regular expression would match
Near(seg) == IF seg = <<"a", ".", "b">> THEN { <<"a", "x", "b">> }
             ELSE IF seg = <<"a", "+", "b">> THEN { <<"a", "a", "b">>, <<"a", "b">> }
             ELSE IF seg = <<"a", "*", "b">> THEN { <<"a", "b">>, <<"b">> }
             ELSE IF seg = <<"a">> THEN { <<"a", "a">> }
             ELSE {}
\* candidates for the request segment at a pattern position
\* (the empty segment <<>> for a parameter: "a.com//x" - a degenerate spelling the tree takes as a segment)
Cands(seg) == IF IsParamC(seg) THEN { <<"7">>, <<"a", ".", "b">>, <<>> } ELSE {seg} \cup Near(seg)

BodiesC   == SeqsUpTo(LitSegs \cup ParamSegsC, MaxBody)
PatternsC == {[h |-> h, p |-> b] : h \in HostsC, b \in BodiesC}
             \cup {[h |-> h, p |-> Append(b, WildC)] : h \in HostsC, b \in BodiesC}

GETc  == <<"G", "E", "T">>
POSTc == <<"P", "O", "S", "T">>
HEADc == <<"H", "E", "A", "D">>

\* split = TRUE: the methods are declared by TWO flows on the same URL, one method each
ItemsC == {[kind |-> "policy", ms |-> {GETc}, pc |-> pc, split |-> FALSE] : pc \in PatternsC}
          \cup {[kind |-> "flow", ms |-> ms, pc |-> pc, split |-> FALSE] : pc \in PatternsC, ms \in {{}, {GETc}, {GETc, POSTc}}}
          \cup {[kind |-> "flow", ms |-> {GETc, POSTc}, pc |-> pc, split |-> TRUE] : pc \in PatternsC}
\* a flow for every URL (filter url "*"), without and WITH a method list: the engine runs it for every URL (with
\* those methods), the proxy must be told to manage everything - an expression for "*" finds no real URL
CatchAllC == [h |-> << <<"*">> >>, p |-> <<>>]
IsCatchAll(pc) == pc = CatchAllC
ItemsAll == ItemsC \cup {[kind |-> "flow", ms |-> ms, pc |-> CatchAllC, split |-> FALSE] : ms \in {{}, {GETc}}}
ItemSeq == SetToSeq(ItemsAll)
NItems  == Len(ItemSeq)

\* all ways to fill the body positions with candidates
RECURSIVE Fill(_)
Fill(body) == IF Len(body) = 0 THEN {<<>>}
              ELSE {<<c>> \o rest : c \in Cands(body[1]), rest \in Fill(Tail(body))}

ReqUrls(pc) ==
    LET wild == Len(pc.p) > 0 /\ IsWildC(pc.p[Len(pc.p)])
        body == IF wild THEN SubSeq(pc.p, 1, Len(pc.p) - 1) ELSE pc.p
        full == Fill(body)
        tails == IF wild THEN {<<>>, << <<"a">> >>, << <<"a">>, <<"7">> >>} ELSE {<<>>, << <<"a">> >>}
        paths == {f \o t : f \in full, t \in tails}
                 \cup {SubSeq(f, 1, Len(f) - 1) : f \in {g \in full : Len(g) > 0}}
        \* no empty LAST segment: that is the trailing-slash spelling of the shorter URL (var "ts")
        ok(p) == Len(p) = 0 \/ p[Len(p)] # <<>>
        good == {q \in paths : ok(q)}
        \* host / path boundary moved with the number of parts unchanged: the first path segment written as a further host
        \* label ("a.com.7/x" against "a.com/{id}/x"), the last host label written as first path segment ("api.a/com/x").
        \* The tree walks parts, the expression tells host from path. (only dot-free segments can be a host label)
        NoDot(seg) == \A i \in 1..Len(seg) : seg[i] # "."
        extended  == {[h |-> Append(pc.h, q[1]), p |-> Tail(q)] : q \in {r \in good : Len(r) > 0 /\ Len(r[1]) > 0 /\ NoDot(r[1])}}
        truncated == IF Len(pc.h) < 2 THEN {}
                     ELSE {[h |-> SubSeq(pc.h, 1, Len(pc.h) - 1), p |-> <<pc.h[Len(pc.h)]>> \o q] : q \in good}
    IN {[h |-> h, p |-> p] : h \in {pc.h, OtherHost[1]}, p \in good} \cup extended \cup truncated

\* OtherHost is a single-label host
CatchAllUrls == { [h |-> << <<"a">>, <<"c", "o", "m">> >>, p |-> <<>>],
                  [h |-> << <<"a">>, <<"c", "o", "m">> >>, p |-> << <<"a">> >>],
                  [h |-> OtherHost, p |-> << <<"a">>, <<"7">> >>] }
ReqsOf(pc) == IF IsCatchAll(pc)
              THEN {[mc |-> mc, uc |-> u, var |-> v] : mc \in {GETc, POSTc, HEADc}, u \in CatchAllUrls, v \in {"", "ts", "uc"}}
              ELSE {[mc |-> mc, uc |-> [h |-> (IF u.h = OtherHost[1] THEN OtherHost ELSE u.h), p |-> u.p], var |-> v] :
                   mc \in {GETc, POSTc, HEADc}, u \in ReqUrls(pc), v \in {"", "ts", "uc"}}

\* the item / request in the vocabulary of ManagedP
ItemP(it, name, ms) == [name |-> name, kind |-> it.kind, ms |-> {Str(m) : m \in ms}, p |-> AsStrings(it.pc)]
\* the items the engine loads for it: one, or one per method when split
ItemsP(it) == IF it.split THEN {ItemP(it, "i1", {GETc}), ItemP(it, "i2", {POSTc})} ELSE {ItemP(it, "i1", it.ms)}
ReqP(r) == [m |-> Str(r.mc), u |-> AsStrings(r.uc), var |-> r.var]
================================================================================
