------------------------------- MODULE GenC14P -------------------------------
(* Behaviour generation for the registration protocol: random walks of ProxyMapI (loads and  *)
(* full drains), each walk of length GenDepth printed as one JSON line with the model's       *)
(* proxy state after every step.                                                              *)
EXTENDS ProxyMapI, Json
CONSTANTS GenDepth, ImmChoices   \* ImmChoices: {FALSE} for flows mode (no unmanage-immediately path), BOOLEAN for policies mode
VARIABLE obs
GInit == Init /\ obs = <<>>
GStep == (\E c \in Configs, imm \in ImmChoices : Load(c, imm)) \/ (Len(hist) > 0 /\ hist[Len(hist)].op = "load" /\ Drain)
GNext == GStep /\ obs' = Append(obs, [step |-> hist'[Len(hist')], map |-> map', mall |-> mall'])
GSpec == GInit /\ [][GNext]_<<vars, obs>>
SetJ(S) == IF S = {} THEN <<>> ELSE LET RECURSIVE F(_) F(T) == IF T = {} THEN <<>> ELSE LET x == CHOOSE x \in T : TRUE IN <<x>> \o F(T \ {x}) IN F(S)
ObsJ == [i \in 1..Len(obs) |->
           IF obs[i].step.op = "load"
           THEN [op |-> "load", ex |-> SetJ({e \in Exprs : obs[i].step.mult[e] > 0}), mult |-> obs[i].step.mult, all |-> obs[i].step.all, imm |-> obs[i].step.imm,
                 map |-> SetJ(obs[i].map), mall |-> obs[i].mall]
           ELSE [op |-> "drain", map |-> SetJ(obs[i].map), mall |-> obs[i].mall]]
Emit == (Len(obs) = GenDepth) => PrintT(<<"VH", ToJson(ObsJ)>>)
=============================================================================
