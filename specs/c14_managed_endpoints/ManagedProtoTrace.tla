-------------------------- MODULE ManagedProtoTrace --------------------------
(* C14 - trace validation of the REGISTRATION PROTOCOL over a history of (re)loads: the       *)
(* proxy's managed-endpoint map is STATE of this specification, built from the admin calls    *)
(* the real engine made against a recording fake of HAProxy's admin API; after every step     *)
(* NoBypass / Literal (ManagedP) are judged on the map that RESULTS.                          *)
(*                                                                                           *)
(* trace.ndjson: line 1 = {"ev":"config"}; then per history                                   *)
(*   {"ev":"hist"}                              fresh proxy (empty map, no manage-all)         *)
(*   {"ev":"load","items":[{"name","kind","m","h","p"},..]}  a (re)load starts; items = what    *)
(*        the engine runs from now on (endpoints / filters with something enabled)             *)
(*   {"ev":"drain"}                             the clock passes the stale-version TTL         *)
(*   {"ev":"admin","op":"put"|"del"|"manage_all"|"unmanage_global"|"unmanage_all","e":expr}    *)
(*        one call the engine made, in order of arrival (haproxy.cfg: set-map / del-map on     *)
(*        endpoints.map, proc.manage_all)                                                      *)
(*   {"ev":"probe","m","h","p","var","engine":[names],"matching":[exprs]}                      *)
(*        one request after the step completed: the items the real engine (current             *)
(*        configuration) matched it to, and the expressions - of all ever registered - that    *)
(*        find it.  managed = some matching expression is in the CURRENT map, or manage-all.   *)
(* A probe is a step iff ManagedP.Verdict = "ok".  Tolerated and reported when the constants   *)
(* say so: <<"KF-TS", line>> (trailing-slash class) and <<"KF-RAPID", line>>: the only         *)
(* matching expressions were deleted, during a drain that covered more than one load, after    *)
(* the latest load had registered them (a removal scheduled by an older reload).               *)
EXTENDS TraceLib, ManagedP, TLC

CONSTANTS TolerateTS, TolerateRapid

VARIABLES l, items, map, mall, phase, lsd, lsdDrain, curPuts, curAll, tainted, taintAll
tvars == <<l, items, map, mall, phase, lsd, lsdDrain, curPuts, curAll, tainted, taintAll>>

Ev == TraceLog[l + 1]
Consume(name) == l < TraceLen /\ Ev.ev = name /\ l' = l + 1
SeqSet(s) == {s[i] : i \in 1..Len(s)}

TInit == /\ l = 1 /\ items = {} /\ map = {} /\ mall = FALSE /\ phase = "idle" /\ lsd = 0 /\ lsdDrain = 0
         /\ curPuts = {} /\ curAll = FALSE /\ tainted = {} /\ taintAll = FALSE

THist == /\ Consume("hist")
         /\ items' = {} /\ map' = {} /\ mall' = FALSE /\ phase' = "idle" /\ lsd' = 0 /\ lsdDrain' = 0
         /\ curPuts' = {} /\ curAll' = FALSE /\ tainted' = {} /\ taintAll' = FALSE

TLoad == /\ Consume("load")
         /\ items' = {[name |-> x.name, kind |-> x.kind, ms |-> SeqSet(x.m), p |-> Mk(x.h, x.p)] : x \in SeqSet(Ev.items)}
         /\ phase' = "load" /\ lsd' = lsd + 1 /\ curPuts' = {} /\ curAll' = FALSE
         /\ UNCHANGED <<map, mall, lsdDrain, tainted, taintAll>>

TDrain == /\ Consume("drain")
          /\ phase' = "drain" /\ lsdDrain' = lsd /\ lsd' = 0
          /\ UNCHANGED <<items, map, mall, curPuts, curAll, tainted, taintAll>>

StaleDrain == phase = "drain" /\ lsdDrain >= 2

TAdmin == /\ Consume("admin")
          /\ CASE Ev.op = "put" ->
                    /\ map' = map \cup {Ev.e} /\ curPuts' = curPuts \cup {Ev.e} /\ tainted' = tainted \ {Ev.e}
                    /\ UNCHANGED <<mall, curAll, taintAll>>
               [] Ev.op = "del" ->
                    /\ map' = map \ {Ev.e}
                    /\ tainted' = IF StaleDrain /\ Ev.e \in curPuts THEN tainted \cup {Ev.e} ELSE tainted
                    /\ UNCHANGED <<mall, curPuts, curAll, taintAll>>
               [] Ev.op = "manage_all" ->
                    /\ mall' = TRUE /\ curAll' = TRUE /\ taintAll' = FALSE
                    /\ UNCHANGED <<map, curPuts, tainted>>
               [] Ev.op = "unmanage_global" ->
                    /\ mall' = FALSE
                    /\ taintAll' = IF StaleDrain /\ curAll THEN TRUE ELSE taintAll
                    /\ UNCHANGED <<map, curPuts, curAll, tainted>>
               [] Ev.op = "unmanage_all" ->
                    /\ map' = {} /\ mall' = FALSE
                    /\ UNCHANGED <<curPuts, curAll, tainted, taintAll>>
          /\ UNCHANGED <<items, phase, lsd, lsdDrain>>

TProbe == /\ Consume("probe")
          /\ LET rq   == [m |-> Ev.m, u |-> Mk(Ev.h, Ev.p), var |-> Ev.var]
                 mt   == SeqSet(Ev.matching)
                 obs  == [engine |-> SeqSet(Ev.engine), proxy |-> (mt \cap map # {}), manageAll |-> mall]
                 v    == Verdict(items, rq, obs)
                 \* what the map would hold without the stale removals
                 obs2 == [engine |-> SeqSet(Ev.engine), proxy |-> (mt \cap (map \cup tainted) # {}),
                          manageAll |-> mall \/ taintAll]
             IN IF v = "ok" THEN TRUE
                ELSE IF v = "trailing-slash" /\ TolerateTS THEN PrintT(<<"KF-TS", l + 1>>)
                ELSE IF TolerateRapid /\ Verdict(items, rq, obs2) = "ok" THEN PrintT(<<"KF-RAPID", l + 1>>)
                ELSE PrintT(<<"NOT-ACCEPTED", l + 1, v>>) /\ FALSE
          /\ UNCHANGED <<items, map, mall, phase, lsd, lsdDrain, curPuts, curAll, tainted, taintAll>>

TNext == THist \/ TLoad \/ TDrain \/ TAdmin \/ TProbe
TraceSpec == TInit /\ [][TNext]_tvars

HWM == Mark(l)
Post == Report
================================================================================
