------------------------------- MODULE ManagedI -------------------------------
(* C14 - implementation-shaped model.                                                        *)
(*                                                                                          *)
(* Proxy side: a transcription of config.HaproxyEndpointFormat (configured URL -> the        *)
(* expression registered with the proxy) and of how HAProxy's map_reg evaluates it (search   *)
(* of the expression anywhere in "METHOD:::url"), at CHARACTER level: a segment is a         *)
(* sequence of one-character strings, an expression a sequence of tokens                     *)
(*     [k |-> "c", c |-> ch]  the character ch       [k |-> "seg"]   [^/]+                   *)
(*     [k |-> "tail"]  optional "/" + anything        [k |-> "end"]   $                       *)
(*     [k |-> "plus"] / [k |-> "opt"]  the quantifiers + and ? applied to the token before   *)
(*     [k |-> "err"]          the expression does not compile                                *)
(* Engine side: what the engine matches to a single loaded item                              *)
(*     policy  EndpointPolicyTree.Lookup: all segments consumed; a trailing wildcard also    *)
(*             matches when nothing is left                                                  *)
(*     flow    URLTree.Traversal: a trailing wildcard needs one more segment, except for the *)
(*             host-only URL against "host/*"                                                *)
(*     both trim a trailing "/" of the request URL first and compare case-sensitively.       *)
(*                                                                                          *)
(* Deviations of the code named by constants:                                                *)
(*   QuoteAll    TRUE: every character of a literal segment is quoted and every {..} path    *)
(*               segment becomes [^/]+ (repaired code); FALSE: only "." is quoted, + and ?   *)
(*               keep their regex meaning, ( and [ break the expression, and only {names}    *)
(*               over [a-zA-Z0-9-_] are translated (code before the fix)                     *)
(*   AllMethods  TRUE: a flow filter without methods is registered for all nine methods;     *)
(*               FALSE: for GET POST PUT DELETE PATCH only (code before the fix)             *)
EXTENDS UrlPattern, TLC

CONSTANTS QuoteAll, AllMethods,
          EmptyParam   \* TRUE: the engine's trie lets a {param} stand for an EMPTY segment ("a.com//x"); FALSE: it needs a character

Str(seg) == Join(seg, "")
StrSeq(segs) == [i \in 1..Len(segs) |-> Str(segs[i])]
\* character pattern / URL [h, p] -> UrlPattern form <<host, path>> of strings
AsStrings(x) == Mk(StrSeq(x.h), StrSeq(x.p))

IsParamC(seg) == Len(seg) >= 2 /\ seg[1] = "{" /\ seg[Len(seg)] = "}"
IsWildC(seg)  == seg = <<"*">>
NameClass == {"a", "b", "c", "d", "i", "u", "s", "e", "r", "v", "x", "y", "z", "0", "1", "2", "7", "-", "_"}
ClassName(seg) == \A i \in 2..(Len(seg) - 1) : seg[i] \in NameClass

Chars(s) == [i \in 1..Len(s) |-> [k |-> "c", c |-> s[i]]]
\* a literal segment as expression tokens
LitTokens(seg) ==
    IF QuoteAll THEN Chars(seg)
    ELSE [i \in 1..Len(seg) |->
            IF seg[i] = "+" THEN [k |-> "plus"]
            ELSE IF seg[i] = "*" THEN [k |-> "opt"]      \* (zero or more: for the one-character alphabets here "*" behaves like "?" on the near misses "ab", "b")
            ELSE IF seg[i] \in {"(", "["} THEN [k |-> "err"]
            ELSE [k |-> "c", c |-> seg[i]]]

RECURSIVE JoinTok(_, _)
JoinTok(seqs, sepc) == IF Len(seqs) = 0 THEN <<>>
                       ELSE IF Len(seqs) = 1 THEN seqs[1]
                       ELSE seqs[1] \o <<[k |-> "c", c |-> sepc]>> \o JoinTok(Tail(seqs), sepc)

\* HaproxyEndpointFormat(method, url): pc = [h, p] character pattern, method = character sequence
Expr(method, pc) ==
    LET wild == Len(pc.p) > 0 /\ IsWildC(pc.p[Len(pc.p)])
        body == IF wild THEN SubSeq(pc.p, 1, Len(pc.p) - 1) ELSE pc.p
        host == JoinTok([i \in 1..Len(pc.h) |-> LitTokens(pc.h[i])], ".")
        segT(seg) == IF IsParamC(seg) /\ (QuoteAll \/ ClassName(seg)) THEN <<[k |-> "seg"]>> ELSE LitTokens(seg)
        path == [i \in 1..Len(body) |-> <<[k |-> "c", c |-> "/"]>> \o segT(body[i])]
        RECURSIVE Cat(_)
        Cat(ss) == IF Len(ss) = 0 THEN <<>> ELSE ss[1] \o Cat(Tail(ss))
    IN Chars(method) \o Chars(<<":", ":", ":">>) \o host \o Cat(path)
       \o (IF wild THEN <<[k |-> "tail"]>> ELSE <<[k |-> "end"]>>)

\* the request as the proxy sees it: "METHOD:::host/path" (+ "/" when ts)
RECURSIVE JoinC(_, _)
JoinC(segs, sepc) == IF Len(segs) = 0 THEN <<>>
                     ELSE IF Len(segs) = 1 THEN segs[1]
                     ELSE segs[1] \o <<sepc>> \o JoinC(Tail(segs), sepc)
UpperOf == [c \in {"a", "p", "i", "c", "o", "m", "x"} |->
             IF c = "a" THEN "A" ELSE IF c = "p" THEN "P" ELSE IF c = "i" THEN "I" ELSE IF c = "c" THEN "C"
             ELSE IF c = "o" THEN "O" ELSE IF c = "m" THEN "M" ELSE "X"]
Up(seg) == [i \in 1..Len(seg) |-> IF seg[i] \in DOMAIN UpperOf THEN UpperOf[seg[i]] ELSE seg[i]]
\* var: "" canonical, "ts" extra "/" at the end, "uc" host labels in upper case
Subject(method, uc, var) ==
    method \o <<":", ":", ":">>
    \o JoinC(IF var = "uc" THEN [i \in 1..Len(uc.h) |-> Up(uc.h[i])] ELSE uc.h, ".")
    \o (IF Len(uc.p) > 0 THEN <<"/">> \o JoinC(uc.p, "/") ELSE <<>>)
    \o (IF var = "ts" THEN <<"/">> ELSE <<>>)

\* regular-expression search of the token expression e in the character sequence s
Found(e, s) ==
    LET n == Len(s)
        m == Len(e)
        Quant(ti) == IF ti < m /\ e[ti + 1].k \in {"plus", "opt"} THEN e[ti + 1].k ELSE "one"
        RECURSIVE At(_, _)
        At(ti, si) ==
          IF ti > m THEN TRUE
          ELSE LET t == e[ti] IN
            IF t.k = "end" THEN si = n + 1 /\ At(ti + 1, si)
            ELSE IF t.k = "seg" THEN
                \E j \in 1..(n - si + 1) : (\A x \in si..(si + j - 1) : s[x] # "/") /\ At(ti + 1, si + j)
            ELSE IF t.k = "tail" THEN
                \/ At(ti + 1, si)
                \/ si <= n /\ s[si] = "/" /\ \E j \in 0..(n - si) : At(ti + 1, si + 1 + j)
            ELSE IF t.k = "c" THEN
                IF Quant(ti) = "one" THEN si <= n /\ s[si] = t.c /\ At(ti + 1, si + 1)
                ELSE IF Quant(ti) = "opt" THEN
                    \/ At(ti + 2, si)
                    \/ si <= n /\ s[si] = t.c /\ At(ti + 2, si + 1)
                ELSE \E j \in 1..(n - si + 1) : (\A x \in si..(si + j - 1) : s[x] = t.c) /\ At(ti + 2, si + j)
            ELSE FALSE
    IN /\ \A i \in 1..m : e[i].k # "err"
       /\ \E start \in 1..(n + 1) : At(1, start)

FiveMethods == {<<"G", "E", "T">>, <<"P", "O", "S", "T">>, <<"P", "U", "T">>,
                <<"D", "E", "L", "E", "T", "E">>, <<"P", "A", "T", "C", "H">>}
NineMethods == FiveMethods \cup {<<"H", "E", "A", "D">>, <<"O", "P", "T", "I", "O", "N", "S">>,
                                 <<"C", "O", "N", "N", "E", "C", "T">>, <<"T", "R", "A", "C", "E">>}

\* the methods an item is registered for (character sequences); it = [kind, ms (set of char seqs), pc]
Registered(it) == IF it.ms # {} THEN it.ms
                  ELSE IF AllMethods THEN NineMethods ELSE FiveMethods

ProxyModel(it, mc, uc, var) == \E rm \in Registered(it) : Found(Expr(rm, it.pc), Subject(mc, uc, var))

\* the engine compares host labels and segments case-sensitively and trims a trailing "/"
EngineModel(it, mc, uc, var) ==
    LET p == AsStrings(it.pc)
        u == AsStrings(uc)
        emptyAtParam == \E i \in 1..Len(it.pc.p) : IsParamC(it.pc.p[i]) /\ i <= Len(uc.p) /\ uc.p[i] = <<>>
    IN /\ var # "uc" \/ it.pc.h = << <<"*">> >>      \* (a catch-all has no host label to compare)
       /\ EmptyParam \/ ~emptyAtParam
       /\ (IF it.kind = "policy" THEN mc \in it.ms ELSE (it.ms = {} \/ mc \in it.ms))
       /\ IF it.kind = "policy" THEN MatchesX(p, u)
          ELSE \/ MatchesStrictX(p, u)
               \/ MatchesX(p, u) /\ Path(p) = <<"*">> /\ Path(u) = <<>>
================================================================================
