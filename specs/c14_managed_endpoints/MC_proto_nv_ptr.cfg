\* registration protocol, code before the fix (pointer difference): must be refuted; the rapid-reload finding tolerated
CONSTANTS
  Exprs = {"e1", "e2", "e3"}
  MaxMult = 1
  MultisetDiff = FALSE
  MaxLoads = 3
  DiffByValue = FALSE
  GlobalUnmanage = TRUE
  KF_Rapid = TRUE
SPECIFICATION Spec
INVARIANT Managed
VIEW View
CHECK_DEADLOCK FALSE
