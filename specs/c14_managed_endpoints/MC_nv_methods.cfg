\* non-vacuity: a flow filter without methods registered for five methods only (code before the fix)
\* must be refuted
CONSTANTS
  MaxBody = 1
  QuoteAll = TRUE
  AllMethods = FALSE
  KF_TrailingSlash = TRUE
  Source = "all"
  NChunks = 8
  EmitPrefix = ""
SPECIFICATION Spec
INVARIANT Accepted
CHECK_DEADLOCK FALSE
