CONSTANTS
  TolerateTS = FALSE
  TolerateRapid = FALSE
SPECIFICATION TraceSpec
CONSTRAINT HWM
POSTCONDITION Post
CHECK_DEADLOCK FALSE
