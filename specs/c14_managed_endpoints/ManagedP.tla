------------------------------- MODULE ManagedP -------------------------------
(* C14 - property specification: traffic a flow or policy must see is always registered     *)
(* as managed.                                                                               *)
(*                                                                                          *)
(* Items: what the engine loaded - records [name, kind, ms, p]                               *)
(*     kind "policy" (an endpoint declaration: ms = {its method}) or "flow" (a flow filter: *)
(*     ms = its methods, {} = no method constraint), p = the configured URL pattern          *)
(*     (UrlPattern: <<host, path>>).                                                         *)
(* A request [m, u, var]: method, URL, var = how the URL text was spelled: "" canonically,   *)
(*     "ts" with an extra "/" at the end, "uc" with the host in upper case, "dot" with a "."  *)
(*     after the host.  Several items may share one URL (flows with different method lists). *)
(* Observed for a request: [engine, proxy, manageAll]                                        *)
(*     engine    = set of item names the ENGINE itself matched the request to                *)
(*     proxy     = the request is found by one of the expressions registered with the proxy *)
(*     manageAll = the proxy was told to manage everything                                   *)
(*                                                                                          *)
(*   NoBypass  what the engine would match is managed (ONE direction: a proxy that manages  *)
(*             more than the engine matches is fine)                                         *)
(*   Literal   a request whose URL spells the configured URL literally (every literal        *)
(*             segment equal character by character, one segment per parameter, at least     *)
(*             one segment for a trailing wildcard) with a method of the item is managed -   *)
(*             whatever characters the configured URL contains                               *)
EXTENDS UrlPattern

MethodOK(it, m) == IF it.kind = "policy" THEN m \in it.ms ELSE (it.ms = {} \/ m \in it.ms)

Managed(obs) == obs.proxy \/ obs.manageAll

NoBypass(obs) == obs.engine # {} => Managed(obs)

\* (a parameter spelled with an EMPTY segment - "a.com//x" for "a.com/{id}/x" - is no literal spelling of the URL)
Spells(it, rq) == /\ rq.var = "" /\ MethodOK(it, rq.m) /\ MatchesStrictX(it.p, rq.u)
                  /\ \A i \in ParamPositions(it.p) : Parts(rq.u)[i].v # ""
Literal(items, rq, obs) == (\E it \in items : Spells(it, rq)) => Managed(obs)

Accept(items, rq, obs) == NoBypass(obs) /\ Literal(items, rq, obs)

(* Known-finding class "trailing-slash" (recorded with bin/kf, not part of the property):   *)
(* the engine trims trailing "/" and "." from the request URL before matching, the          *)
(* expression of a URL without wildcard ends in "$" right after the last segment.            *)
TrailingSlashClass(items, rq, obs) == rq.var \in {"ts", "dot"} /\ obs.engine # {} /\ ~Managed(obs)

Verdict(items, rq, obs) == IF Accept(items, rq, obs) THEN "ok"
                           ELSE IF TrailingSlashClass(items, rq, obs) THEN "trailing-slash" ELSE "bad"
================================================================================
