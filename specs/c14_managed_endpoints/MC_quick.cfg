\* quick: every item over patterns with <= 1 path segment (+ "/*"), repaired code
CONSTANTS
  MaxBody = 1
  QuoteAll = TRUE
  EmptyParam = FALSE
  AllMethods = TRUE
  KF_TrailingSlash = TRUE
  Source = "all"
  NChunks = 32
  EmitPrefix = "g_"
SPECIFICATION Spec
INVARIANT Accepted
CHECK_DEADLOCK FALSE
