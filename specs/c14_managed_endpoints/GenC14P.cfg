CONSTANTS
  Exprs = {"e1", "e2", "e3"}
  MaxMult = 2
  MultisetDiff = FALSE
  MaxLoads = 6
  DiffByValue = TRUE
  GlobalUnmanage = TRUE
  KF_Rapid = TRUE
  GenDepth = 6
  ImmChoices = {TRUE, FALSE}
SPECIFICATION GSpec
INVARIANT Emit
CHECK_DEADLOCK FALSE
