\* seeded sample (picks.ndjson) of the items over patterns with <= 2 path segments (+ "/*"), repaired code
CONSTANTS
  MaxBody = 2
  QuoteAll = TRUE
  EmptyParam = FALSE
  AllMethods = TRUE
  KF_TrailingSlash = TRUE
  Source = "picks"
  NChunks = 64
  EmitPrefix = "s_"
SPECIFICATION Spec
INVARIANT Accepted
CHECK_DEADLOCK FALSE
