\* non-vacuity: the URL tree as it was before the fix (a parameter also stands for an empty segment)
\* must be refuted
CONSTANTS
  MaxBody = 1
  QuoteAll = TRUE
  EmptyParam = TRUE
  AllMethods = TRUE
  KF_TrailingSlash = TRUE
  Source = "all"
  NChunks = 8
  EmitPrefix = ""
SPECIFICATION Spec
INVARIANT Accepted
CHECK_DEADLOCK FALSE
