\* registration protocol, flows mode, repaired code (removals by value); the rapid-reload finding tolerated
CONSTANTS
  Exprs = {"e1", "e2", "e3"}
  MaxMult = 1
  MultisetDiff = FALSE
  MaxLoads = 3
  DiffByValue = TRUE
  GlobalUnmanage = FALSE
  KF_Rapid = TRUE
SPECIFICATION Spec
INVARIANT Managed
VIEW View
CHECK_DEADLOCK FALSE
