\* thorough: every item over patterns with <= 2 path segments (+ "/*"), repaired code
CONSTANTS
  MaxBody = 2
  QuoteAll = TRUE
  EmptyParam = FALSE
  AllMethods = TRUE
  KF_TrailingSlash = TRUE
  Source = "all"
  NChunks = 64
  EmitPrefix = "p_"
SPECIFICATION Spec
INVARIANT Accepted
CHECK_DEADLOCK FALSE
