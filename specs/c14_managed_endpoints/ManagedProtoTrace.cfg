CONSTANTS
  TolerateTS = TRUE
  TolerateRapid = TRUE
SPECIFICATION TraceSpec
CONSTRAINT HWM
POSTCONDITION Post
CHECK_DEADLOCK FALSE
