SPECIFICATION RLSpec
CONSTRAINT HWM
POSTCONDITION Post
CHECK_DEADLOCK FALSE
