\* repaired design: a window restart keeps the entries of requests that are still between Inc and Allowed
CONSTANTS
  Req = {1, 2, 3}
  M = 3
  W = 10
  MaxNow = 20
  KeepGen = 0
  NoLock = FALSE
SPECIFICATION CSpec
INVARIANTS RefusedOnlyIfFull
CHECK_DEADLOCK FALSE
