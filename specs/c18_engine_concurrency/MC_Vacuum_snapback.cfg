SPECIFICATION ISpec
CONSTANTS Keys = {1, 2, 3}
          Ttl = 1
          MaxNow = 3
          Variant = "snapshot_back"
INVARIANTS Tracked NotEarlyI
CHECK_DEADLOCK FALSE
