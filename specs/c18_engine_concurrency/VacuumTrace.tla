----------------------------- MODULE VacuumTrace -----------------------------
(* C18 - recorded executions of the real MapVacuum judged by VacuumP.           *)
(*   line 1: {"ev":"config","Ttl":ms,"Tick":ms}                                 *)
(*   {"ev":"reset"}                          fresh clock, map and MapVacuum      *)
(*   {"ev":"regs","s":storm,"keys":[..],"lo":ms,"hi":ms}                        *)
(*   {"ev":"adv","d":ms}   (recorded BEFORE the clock is moved)                  *)
(*   {"ev":"pass","removed":n}               from the vacuum.pass point          *)
(*   {"ev":"probe","keys":[..]}                                                  *)
EXTENDS TraceLib, Integers, FiniteSets, Sequences

Ttl == TraceLog[1].Ttl

VARIABLES now, prevNow, batches, gone, l

P == INSTANCE VacuumP

vvars == <<now, prevNow, batches, gone, l>>

Ev == TraceLog[l + 1]
Consume(name) == l < TraceLen /\ Ev.ev = name /\ l' = l + 1
SetOf(sq) == {sq[i] : i \in 1..Len(sq)}

VInit == P!PInit /\ l = 1
VReset == Consume("reset") /\ now' = 0 /\ prevNow' = 0 /\ batches' = {} /\ gone' = {}
VRegs  == Consume("regs") /\ P!Reg(Ev.s, SetOf(Ev.keys), Ev.lo, Ev.hi)
VAdv   == Consume("adv") /\ P!Adv(Ev.d)
VPass  == Consume("pass") /\ P!Pass
VProbe == Consume("probe") /\ P!Probe(SetOf(Ev.keys))

VNext == VReset \/ VRegs \/ VAdv \/ VPass \/ VProbe
VSpec == VInit /\ [][VNext]_vvars

HWM == Mark(l)
Post == Report
================================================================================
