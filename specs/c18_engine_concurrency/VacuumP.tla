------------------------------- MODULE VacuumP -------------------------------
(* C18 - what the users of toolkit-core's MapVacuum rely on (the concurrency    *)
(* limiter's slots of transactions whose response never arrives, the policies   *)
(* version pinned for a transaction): a key handed to VacuumKey while other     *)
(* keys are being registered and while the background pass is running           *)
(*   NotEarly   stays in the map until its time-to-live has elapsed, and        *)
(*   Vacuumed   is removed by the first pass that reads the clock after the     *)
(*              time-to-live of every key registered up to then has elapsed -   *)
(*              no registration is ever forgotten, whatever it overlapped.      *)
(* Observable events (times in ms of the mock clock):                           *)
(*   Reg(s, keys, lo, hi)  one goroutine registered `keys` during storm s (map   *)
(*        insertion + VacuumKey under the map mutex, as the limiter does); the  *)
(*        clock read lo when it started and hi when it had finished, so every   *)
(*        key's deadline lies in [lo + Ttl, hi + Ttl]                           *)
(*   Adv(d)   the driver moved the clock (every move is followed by exactly one *)
(*        pass, awaited before the next move)                                   *)
(*   Pass     a background pass finished; it read the clock no earlier than the *)
(*        value the clock had BEFORE the latest move (prevNow)                  *)
(*   Probe(keys)  the keys found in the map while no registration is in flight  *)
EXTENDS Integers, FiniteSets

CONSTANTS Ttl

VARIABLES now, prevNow,
          batches,   \* set of [s, keys, lo, hi]: deadlines of `keys` lie in [lo, hi]
          gone       \* storms whose keys a pass is known to have removed

pvars == <<now, prevNow, batches, gone>>

PInit == now = 0 /\ prevNow = 0 /\ batches = {} /\ gone = {}

Reg(s, keys, lo, hi) ==
    /\ batches' = batches \cup {[s |-> s, keys |-> keys, lo |-> lo + Ttl, hi |-> hi + Ttl]}
    /\ UNCHANGED <<now, prevNow, gone>>

Adv(d) == d > 0 /\ prevNow' = now /\ now' = now + d /\ UNCHANGED <<batches, gone>>

Storms == {b.s : b \in batches}
\* the entry list is in registration order (up to the overlap inside one storm) and a pass stops at the first entry that is
\* not due: the keys of storm s are certainly removed by a pass for which every key of s and of all earlier storms is due
AllDueBy(s, t) == \A b \in batches : b.s <= s => b.hi < t

Pass ==
    /\ gone' = gone \cup {s \in Storms : AllDueBy(s, prevNow)}
    /\ UNCHANGED <<now, prevNow, batches>>

NotEarly(keys) == \A b \in batches : now <= b.lo => b.keys \subseteq keys
Vacuumed(keys) == \A b \in batches : b.s \in gone => b.keys \cap keys = {}
Probe(keys) ==
    /\ keys \subseteq UNION {b.keys : b \in batches}
    /\ NotEarly(keys)
    /\ Vacuumed(keys)
    /\ UNCHANGED pvars
================================================================================
