------------------------------- MODULE EngineCtxI -------------------------------
(* C18 - interleaving model of concurrent requests through one Limiter flow over *)
(* the engine's shared objects (fixed-window quota of quota/fixed_strategy.go):  *)
(* per request i the Limiter processor does, as two separately locked steps,     *)
(*   IncStep(i)     quota.Inc  : under q.mutex - window restart test (a restart  *)
(*                  replaces the per-request memo map), count test and update,   *)
(*                  memo[i] := admitted?                                         *)
(*   AllowedStep(i) quota.Allowed : under q.mutex - verdict := memo[i] (absent = *)
(*                  FALSE), entry deleted                                        *)
(* and the clock may move between any two steps.  The verdict each request would *)
(* get one-at-a-time is fixed at its IncStep (`seqv`, the sequential machine of  *)
(* EngineSeqP advanced atomically there); the properties say that the verdict     *)
(* actually returned is that one and that no other request removed the entry.    *)
(*  KeepGen : how many window restarts an uncollected entry survives -            *)
(*            0 = pinned code (onWindowRestart drops all entries),                *)
(*            1 = repaired code (entries of the previous window are kept),        *)
(*            99 = design that never drops an uncollected entry                   *)
(*  NoLock = TRUE             : count test and update as two steps (no mutex) -  *)
(*                              used only to show the check is not vacuous       *)
EXTENDS Integers, FiniteSets, TLC

CONSTANTS Req, M, W, MaxNow, KeepGen, NoLock

VARIABLES now, start, count, memo, pc, seqv, verdict, snap,
          sawFull    \* history: request i, since it was counted, has seen the window full (a refusal could take effect there)

cvars == <<now, start, count, memo, pc, seqv, verdict, snap, sawFull>>

Init ==
    /\ now = 0 /\ start = -1 /\ count = 0
    /\ memo = [i \in {} |-> [ok |-> FALSE, age |-> 0]]
    /\ pc = [i \in Req |-> "inc"]
    /\ seqv = [i \in Req |-> "none"]
    /\ verdict = [i \in Req |-> "none"]
    /\ snap = [i \in Req |-> -1]
    /\ sawFull = [i \in Req |-> FALSE]

\* after a step: which counted-but-unanswered requests see a full, unexpired window now
Full(n, st, c) == st # -1 /\ n - st < W /\ c >= M
See(pcn, n, st, c) == sawFull' = [i \in Req |-> sawFull[i] \/ (pcn[i] = "allowed" /\ Full(n, st, c))]

Tick == now < MaxNow /\ now' = now + W /\ UNCHANGED <<start, count, memo, pc, seqv, verdict, snap>>
        /\ See(pc, now + W, start, count)

Restart == start = -1 \/ now - start >= W

\* onWindowRestart: entries that already survived KeepGen restarts are dropped, the others age
Aged(m) == [j \in {k \in DOMAIN m : m[k].age < KeepGen} |-> [m[j] EXCEPT !.age = @ + 1]]

\* quota.Inc under the mutex
IncStep(i) ==
    /\ pc[i] = "inc" /\ ~NoLock
    /\ LET cnt == IF Restart THEN 0 ELSE count
           ok == cnt < M
           m0 == IF Restart THEN Aged(memo) ELSE memo
       IN /\ count' = IF ok THEN cnt + 1 ELSE cnt
          /\ start' = IF Restart THEN now ELSE start
          /\ memo' = [j \in DOMAIN m0 \cup {i} |-> IF j = i THEN [ok |-> ok, age |-> 0] ELSE m0[j]]
          /\ seqv' = [seqv EXCEPT ![i] = IF ok THEN "admit" ELSE "refuse"]
    /\ pc' = [pc EXCEPT ![i] = "allowed"]
    /\ UNCHANGED <<now, verdict, snap>>
    /\ See(pc', now, start', count')

\* the same without the mutex: read the counter, then (later) write it
IncRead(i) ==
    /\ pc[i] = "inc" /\ NoLock
    /\ snap' = [snap EXCEPT ![i] = IF Restart THEN 0 ELSE count]
    /\ pc' = [pc EXCEPT ![i] = "incw"]
    /\ UNCHANGED <<now, start, count, memo, seqv, verdict, sawFull>>
IncWrite(i) ==
    /\ pc[i] = "incw"
    /\ LET ok == snap[i] < M
       IN /\ count' = IF ok THEN snap[i] + 1 ELSE snap[i]
          /\ start' = IF Restart THEN now ELSE start
          /\ memo' = [j \in DOMAIN memo \cup {i} |-> IF j = i THEN [ok |-> ok, age |-> 0] ELSE memo[j]]
          /\ seqv' = [seqv EXCEPT ![i] = IF ok THEN "admit" ELSE "refuse"]
    /\ pc' = [pc EXCEPT ![i] = "allowed"]
    /\ UNCHANGED <<now, verdict, snap>>
    /\ See(pc', now, start', count')

\* quota.Allowed under the mutex
AllowedStep(i) ==
    /\ pc[i] = "allowed"
    /\ verdict' = [verdict EXCEPT ![i] = IF i \in DOMAIN memo /\ memo[i].ok THEN "admit" ELSE "refuse"]
    /\ memo' = [j \in DOMAIN memo \ {i} |-> memo[j]]
    /\ pc' = [pc EXCEPT ![i] = "done"]
    /\ UNCHANGED <<now, start, count, seqv, snap, sawFull>>

Next == Tick \/ \E i \in Req : IncStep(i) \/ IncRead(i) \/ IncWrite(i) \/ AllowedStep(i)

CSpec == Init /\ [][Next]_cvars

\* the verdict returned is the one the request got when it was counted (one-at-a-time order = order of the Inc steps)
VerdictStable == \A i \in Req : verdict[i] # "none" => verdict[i] = seqv[i]
\* weaker, observable form: a refusal needs an instant, while the request was in flight, at which its window was full
RefusedOnlyIfFull == \A i \in Req : verdict[i] = "refuse" => (sawFull[i] \/ seqv[i] = "refuse")
\* nobody else's step removes the per-request entry of a request that is still between Inc and Allowed
NoClobber == \A i \in Req : pc[i] = "allowed" => i \in DOMAIN memo
\* the window never holds more admitted requests than its maximum
Bound == count <= M
\* ... observed from outside: within the first window (clock not moved yet) at most M requests were admitted
AdmitBound == now = 0 => Cardinality({i \in Req : seqv[i] = "admit"}) <= M
================================================================================
