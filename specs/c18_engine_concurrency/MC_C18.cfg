\* repaired design: a window restart keeps the entries of requests that are still between Inc and Allowed
CONSTANTS
  Req = {1, 2, 3}
  M = 2
  W = 10
  MaxNow = 30
  KeepGen = 99
  NoLock = FALSE
SPECIFICATION CSpec
INVARIANTS VerdictStable RefusedOnlyIfFull NoClobber Bound AdmitBound
CHECK_DEADLOCK FALSE
