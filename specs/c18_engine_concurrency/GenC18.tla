------------------------------- MODULE GenC18 -------------------------------
(* Schedules for directed replay: random walks (tlc -simulate) of the           *)
(* interleaving model EngineCtxI; the sequence of steps taken is carried in     *)
(* `hist` and printed when every request is done.  Each step becomes a gate     *)
(* operation of the harness (inc i = let request i run up to the yield point    *)
(* after quota.Inc, tick = move the clock by one window, allowed i = release).  *)
EXTENDS EngineCtxI, Sequences, Json
VARIABLE hist
GInit == Init /\ hist = <<>>
GNext ==
    \/ Tick /\ hist' = Append(hist, <<"tick">>)
    \/ \E i \in Req : IncStep(i) /\ hist' = Append(hist, <<"inc", i>>)
    \/ \E i \in Req : AllowedStep(i) /\ hist' = Append(hist, <<"allowed", i>>)
GSpec == GInit /\ [][GNext]_<<cvars, hist>>
AllDone == \A i \in Req : pc[i] = "done"
Emit == AllDone => PrintT(<<"VH", ToJson([steps |-> hist, verdicts |-> verdict])>>)
=============================================================================
