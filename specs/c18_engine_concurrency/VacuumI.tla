------------------------------- MODULE VacuumI -------------------------------
(* C18 - the MapVacuum of toolkit-core as it is written, one action per critical *)
(* section: registrations (map insertion and VacuumKey under the map mutex, the *)
(* entry appended under the entries mutex) interleaved with the background pass  *)
(*   snapshot the entry list  |  take the map mutex and delete the due prefix    *)
(*   of the CURRENT list  |  cut that prefix off the CURRENT list.               *)
(* Variant = "snapshot_back" is the tempting repair of the unlocked read of the  *)
(* list: iterate the snapshot - and write the snapshot back; entries appended    *)
(* since the snapshot are then dropped, their keys are never vacuumed.           *)
EXTENDS Integers, Sequences, FiniteSets

CONSTANTS Keys, Ttl, MaxNow, Variant

VARIABLES now, map, entries, mapLock,   \* mapLock: "free" | "reg" (held by the registration in progress; the pass holds it within one step)
          todo,                          \* keys not registered yet
          reg,                           \* registration in progress: [k, step], step = "none" when there is none
          vpc, snap, delN                \* the pass: "idle" | "snapped" | "deleted"

ivars == <<now, map, entries, mapLock, todo, reg, vpc, snap, delN>>

NoReg == [k |-> 0, step |-> "none"]
IInit == /\ now = 0 /\ map = {} /\ entries = <<>> /\ mapLock = "free" /\ todo = Keys
         /\ reg = NoReg /\ vpc = "idle" /\ snap = <<>> /\ delN = 0

Tick == now < MaxNow /\ now' = now + 1 /\ UNCHANGED <<map, entries, mapLock, todo, reg, vpc, snap, delN>>

\* the limiter: Lock map; insert; VacuumKey (append); Unlock
RegLock(k) == /\ reg.step = "none" /\ k \in todo /\ mapLock = "free"
              /\ mapLock' = "reg" /\ map' = map \cup {k} /\ todo' = todo \ {k} /\ reg' = [k |-> k, step |-> "append"]
              /\ UNCHANGED <<now, entries, vpc, snap, delN>>
RegAppend == /\ reg.step = "append"
             /\ entries' = Append(entries, [k |-> reg.k, at |-> now + Ttl])
             /\ reg' = [reg EXCEPT !.step = "unlock"]
             /\ UNCHANGED <<now, map, mapLock, todo, vpc, snap, delN>>
RegUnlock == /\ reg.step = "unlock"
             /\ mapLock' = "free" /\ reg' = NoReg
             /\ UNCHANGED <<now, map, entries, todo, vpc, snap, delN>>

PassSnap == /\ vpc = "idle" /\ snap' = entries /\ vpc' = IF entries = <<>> THEN "idle" ELSE "snapped"
            /\ UNCHANGED <<now, map, entries, mapLock, todo, reg, delN>>

DuePrefix(sq) == LET I == {i \in 0..Len(sq) : \A j \in 1..i : sq[j].at < now} IN CHOOSE i \in I : \A j \in I : j <= i
Source == IF Variant = "snapshot_back" THEN snap ELSE entries

PassDelete == /\ vpc = "snapped" /\ mapLock = "free"
              /\ LET n == DuePrefix(Source) IN
                   /\ map' = map \ {Source[j].k : j \in 1..n}
                   /\ delN' = n
              /\ vpc' = "deleted"
              /\ UNCHANGED <<now, entries, mapLock, todo, reg, snap>>

PassCut == /\ vpc = "deleted"
           /\ entries' = SubSeq(Source, delN + 1, Len(Source))
           /\ vpc' = "idle" /\ delN' = 0 /\ snap' = <<>>
           /\ UNCHANGED <<now, map, mapLock, todo, reg>>

INext == Tick \/ (\E k \in Keys : RegLock(k)) \/ RegAppend \/ RegUnlock \/ PassSnap \/ PassDelete \/ PassCut
ISpec == IInit /\ [][INext]_ivars

\* no registration is forgotten: a key still in the map (outside its own registration) has its entry in the list
Tracked == \A k \in map : (reg.k = k /\ reg.step = "append") \/ \E i \in 1..Len(entries) : entries[i].k = k
\* and nothing leaves the map before its time-to-live elapsed
NotEarlyI == \A i \in 1..Len(entries) : entries[i].at >= now => entries[i].k \in map
================================================================================
