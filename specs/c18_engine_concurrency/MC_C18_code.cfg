\* the repaired CODE keeps one generation: refuted only by schedules with two restarts between Inc and Allowed (known finding)
CONSTANTS
  Req = {1, 2, 3}
  M = 3
  W = 10
  MaxNow = 30
  KeepGen = 1
  NoLock = FALSE
SPECIFICATION CSpec
INVARIANTS RefusedOnlyIfFull
CHECK_DEADLOCK FALSE
