------------------------------ MODULE ReloadLinP ------------------------------
(* C18, clause "also while flows are being reloaded": the sequential semantics  *)
(* of transactions and reloads of one gateway.  The state is the configuration  *)
(* in force: for every probe URL the verdict a transaction to it gets (status   *)
(* of the early response, 0 = the transaction passes without one - also the     *)
(* verdict of a URL whose flow does not exist in that configuration).           *)
(* A reload is ONE atomic step: a successful one puts the new configuration in  *)
(* force as a whole, a failed one (invalid flows) changes nothing.  A           *)
(* transaction is one atomic step answered by the configuration in force.       *)
VARIABLE conf

RInit(c0) == conf = c0
Reload(to, ok) == conf' = IF ok THEN to ELSE conf
Txn(url, out) == conf[url] = out /\ UNCHANGED conf
================================================================================
