SPECIFICATION VSpec
CONSTRAINT HWM
POSTCONDITION Post
CHECK_DEADLOCK FALSE
