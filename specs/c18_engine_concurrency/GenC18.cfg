CONSTANTS
  Req = {1, 2, 3}
  M = 2
  W = 10
  MaxNow = 30
  KeepGen = 99
  NoLock = FALSE
SPECIFICATION GSpec
INVARIANT Emit
CHECK_DEADLOCK FALSE
