---------------------------- MODULE EngineLinTrace ----------------------------
(* C18 - linearizability check of recorded concurrent histories of the real     *)
(* engine against the sequential specification EngineSeqP: every operation is   *)
(* logged at invocation ("begin", carrying the result the call later returned)  *)
(* and at return ("end"); TLC places the operation's internal steps anywhere    *)
(* between the two.  A history for which no placement exists is one whose       *)
(* results no one-at-a-time order explains.                                     *)
(*   line 1: {"ev":"config","M":m,"C":c,"W":w}                                  *)
(*   {"ev":"reset"}                                  fresh engine, clock at 0   *)
(*   {"ev":"adv","d":d}                              mock clock moved by d s    *)
(*   {"ev":"begin","id":i,"op":"reqfw","g":group,"out":..}                      *)
(*   {"ev":"begin","id":i,"op":"reqsel","url":u,"out":"status|processor keys"}  *)
(*   {"ev":"fwbatch","g":group,"n":n,"p":p}   n overlapping requests, p admitted *)
(*   {"ev":"cqbatch","n":n,"adm":[txn,..]}    n overlapping requests, adm admitted*)
(*   {"ev":"begin","id":i,"op":"reqcq","txn":t,"out":..}                        *)
(*   {"ev":"begin","id":i,"op":"endcq","txn":t}                                 *)
(*   {"ev":"begin","id":i,"op":"metrics","nfw":a,"ncq":b}                       *)
(*   {"ev":"begin","id":i,"op":"scrape","out":"ok"}   read of the used-quota    *)
(*                                                    gauges of both quotas     *)
(*   {"ev":"end","id":i}                                                        *)
EXTENDS TraceLib, Integers, FiniteSets

M == TraceLog[1].M
C == TraceLog[1].C
W == TraceLog[1].W

VARIABLES now, fwStart, fw, infl, inv, sel, l, pend, done

S == INSTANCE EngineSeqP

lvars == <<now, fwStart, fw, infl, inv, sel, l, pend, done>>

Ev == TraceLog[l + 1]
Consume(name) == l < TraceLen /\ Ev.ev = name /\ l' = l + 1

LInit == S!SInit /\ l = 1 /\ pend = {} /\ done = {}

LReset ==
    /\ Consume("reset") /\ pend = {} /\ done = {}
    /\ now' = 0 /\ fwStart' = S!Empty /\ fw' = S!Empty /\ infl' = {} /\ inv' = [fw |-> 0, cq |-> 0] /\ sel' = S!Empty
    /\ UNCHANGED <<pend, done>>

\* the driver moved the clock (pending operations may take effect before or after it)
LAdv == Consume("adv") /\ S!Tick(Ev.d) /\ UNCHANGED <<pend, done>>

LBegin ==
    /\ Consume("begin")
    /\ pend' = pend \cup {[rec |-> Ev, counted |-> FALSE]}
    /\ UNCHANGED <<now, fwStart, fw, infl, inv, sel, done>>

\* internal step 1 of a request: it is counted as an invocation of its flow
LCount == \E p \in pend :
    /\ p.rec.op \in {"reqfw", "reqcq"} /\ ~p.counted
    /\ IF p.rec.op = "reqfw" THEN S!CountFw ELSE S!CountCq
    /\ pend' = (pend \ {p}) \cup {[p EXCEPT !.counted = TRUE]}
    /\ UNCHANGED <<l, done>>

\* the operation takes effect
LLin == \E p \in pend :
    /\ CASE p.rec.op = "reqfw"   -> p.counted /\ S!ReqFw(p.rec.g, p.rec.out)
         [] p.rec.op = "reqcq"   -> p.counted /\ S!ReqCq(p.rec.txn, p.rec.out)
         [] p.rec.op = "endcq"   -> S!EndCq(p.rec.txn)
         [] p.rec.op = "metrics" -> S!Metrics(p.rec.nfw, p.rec.ncq)
         [] p.rec.op = "reqsel"  -> S!ReqSel(p.rec.url, p.rec.out)
         [] p.rec.op = "scrape"  -> S!Scrape(p.rec.out)
    /\ pend' = pend \ {p}
    /\ done' = done \cup {p.rec.id}
    /\ UNCHANGED l

\* storms (compact form): n overlapping first requests, only the admitted ones are recorded
LFwBatch == Consume("fwbatch") /\ pend = {} /\ S!FwBatch(Ev.g, Ev.n, Ev.p) /\ UNCHANGED <<pend, done>>
LCqBatch == Consume("cqbatch") /\ pend = {} /\ S!CqBatch(Ev.n, {Ev.adm[i] : i \in 1..Len(Ev.adm)}) /\ UNCHANGED <<pend, done>>

LEnd ==
    /\ Consume("end") /\ Ev.id \in done
    /\ done' = done \ {Ev.id}
    /\ UNCHANGED <<now, fwStart, fw, infl, inv, sel, pend>>

LNext == LReset \/ LAdv \/ LFwBatch \/ LCqBatch \/ LBegin \/ LCount \/ LLin \/ LEnd

LinSpec == LInit /\ [][LNext]_lvars

FwBound == S!FwBound
CqBound == S!CqBound
HWM == Mark(l)
Post == Report
================================================================================
