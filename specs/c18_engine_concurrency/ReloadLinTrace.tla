---------------------------- MODULE ReloadLinTrace ----------------------------
(* C18 - linearizability check of recorded histories of transactions handled    *)
(* by the real SPOE handler WHILE the flows are reloaded through the real admin *)
(* handlers (harness/cmd/c18h reload) against ReloadLinP: every reload call and *)
(* every transaction (run of transactions of one goroutine with one verdict) is *)
(* logged at invocation ("begin", carrying the result) and at return ("end");   *)
(* TLC places its atomic step anywhere between the two.  A history without a    *)
(* placement contains a reply that no configuration in force at any moment of   *)
(* that transaction gives.                                                      *)
(*   line 1: {"ev":"config","urls":[..]}                                        *)
(*   {"ev":"reset","conf":{url: verdict}}                                       *)
(*   {"ev":"begin","id":i,"op":"reload","to":{url: verdict},"ok":b}             *)
(*   {"ev":"begin","id":i,"op":"req","url":u,"out":verdict,"n":k}               *)
(*   {"ev":"end","id":i}                                                        *)
EXTENDS TraceLib, Integers, FiniteSets

VARIABLES conf, l, pend, done
R == INSTANCE ReloadLinP
rvars == <<conf, l, pend, done>>

Ev == TraceLog[l + 1]
Consume(name) == l < TraceLen /\ Ev.ev = name /\ l' = l + 1

RLInit == conf = << >> /\ l = 1 /\ pend = {} /\ done = {}

RLReset == Consume("reset") /\ pend = {} /\ done = {} /\ conf' = Ev.conf /\ UNCHANGED <<pend, done>>

RLBegin == Consume("begin") /\ pend' = pend \cup {Ev} /\ UNCHANGED <<conf, done>>

\* the operation takes effect
RLLin == \E p \in pend :
    /\ IF p.op = "reload" THEN R!Reload(p.to, p.ok) ELSE R!Txn(p.url, p.out)
    /\ pend' = pend \ {p} /\ done' = done \cup {p.id} /\ UNCHANGED l

RLEnd == Consume("end") /\ Ev.id \in done /\ done' = done \ {Ev.id} /\ UNCHANGED <<conf, pend>>

RLNext == RLReset \/ RLBegin \/ RLLin \/ RLEnd
RLSpec == RLInit /\ [][RLNext]_rvars

HWM == Mark(l)
Post == Report
================================================================================
