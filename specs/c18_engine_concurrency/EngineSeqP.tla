------------------------------ MODULE EngineSeqP ------------------------------
(* C18 - what a flows-mode engine answers when transactions are handled ONE AT  *)
(* A TIME (the sequential specification concurrent histories are compared to).  *)
(*                                                                             *)
(* Configuration of the recorded engine: URL api.test/fw is limited by a       *)
(* fixed-window quota of M requests per window of W seconds (a window opens    *)
(* with the first request at or after the end of the previous one; the driver  *)
(* moves the mock clock in whole seconds), URL api.test/cq by a concurrency     *)
(* quota of C in-flight                                                         *)
(* transactions; each URL has one user flow  Limiter -> above_limit ->          *)
(* GenerateResponse(429).  Operations:                                          *)
(*   ReqFw            request to api.test/fw            -> "admit" | "refuse"   *)
(*   ReqCq(t)         request of transaction t to /cq   -> "admit" | "refuse"   *)
(*   EndCq(t)         response (or proxy error) of an admitted transaction t    *)
(*   Metrics          read of the per-flow invocation counters -> <<nFw, nCq>>  *)
(* A request first counts as an invocation of its flow (CountFw / CountCq) and  *)
(* later is decided; both happen inside the call, so in a concurrent history    *)
(* they are two separate internal steps of one operation.                       *)
EXTENDS Integers, FiniteSets

CONSTANTS M, C, W

VARIABLES now,     \* mock clock (seconds)
          fwStart, \* instant the current fixed window opened (-1: none yet)
          fw,      \* requests admitted by the fixed-window quota in the current window
          infl,    \* transactions holding a slot of the concurrency quota
          inv      \* [fw |-> n, cq |-> n] invocations of the two user flows

svars == <<now, fwStart, fw, infl, inv>>

SInit == now = 0 /\ fwStart = -1 /\ fw = 0 /\ infl = {} /\ inv = [fw |-> 0, cq |-> 0]

Tick(d) == now' = now + d /\ UNCHANGED <<fwStart, fw, infl, inv>>

CountFw == inv' = [inv EXCEPT !.fw = @ + 1] /\ UNCHANGED <<now, fwStart, fw, infl>>
CountCq == inv' = [inv EXCEPT !.cq = @ + 1] /\ UNCHANGED <<now, fwStart, fw, infl>>

ReqFw(out) ==
    LET restart == fwStart = -1 \/ now - fwStart >= W
        cnt == IF restart THEN 0 ELSE fw
    IN  /\ out = IF cnt < M THEN "admit" ELSE "refuse"
        /\ fw' = IF out = "admit" THEN cnt + 1 ELSE cnt
        /\ fwStart' = IF restart THEN now ELSE fwStart
        /\ UNCHANGED <<now, infl, inv>>

ReqCq(t, out) ==
    /\ out = IF Cardinality(infl) < C THEN "admit" ELSE "refuse"
    /\ infl' = IF out = "admit" THEN infl \cup {t} ELSE infl
    /\ UNCHANGED <<now, fwStart, fw, inv>>

EndCq(t) == infl' = infl \ {t} /\ UNCHANGED <<now, fwStart, fw, inv>>

Metrics(nfw, ncq) == nfw = inv.fw /\ ncq = inv.cq /\ UNCHANGED svars

\* invariants of the sequential machine (what no interleaving may break either)
FwBound == fw <= M
CqBound == Cardinality(infl) <= C
================================================================================
