------------------------------ MODULE EngineSeqP ------------------------------
(* C18 - what a flows-mode engine answers when transactions are handled ONE AT  *)
(* A TIME (the sequential specification concurrent histories are compared to).  *)
(*                                                                             *)
(* Configuration of the recorded engine: URL api.test/fw is limited by a       *)
(* fixed-window quota of M requests per window of W seconds (a window opens    *)
(* with the first request at or after the end of the previous one; the driver  *)
(* moves the mock clock in whole seconds), URL api.test/cq by a concurrency     *)
(* quota of C in-flight                                                         *)
(* transactions; each URL has one user flow  Limiter -> above_limit ->          *)
(* GenerateResponse(429).  Operations:                                          *)
(*   ReqFw(g)         request to api.test/fw, group g   -> "admit" | "refuse"   *)
(*                    (the quota is grouped by a header: one window per group)  *)
(*   ReqSel(u)        request to a URL of host sel.test, where several user     *)
(*                    flows overlap (three on sel.test/*, one each on /a, /b):   *)
(*                    which processors run and what is answered depends only on *)
(*                    the URL - whatever was observed for u first is what every *)
(*                    later transaction to u must get                           *)
(*   ReqCq(t)         request of transaction t to /cq   -> "admit" | "refuse"   *)
(*   EndCq(t)         response (or proxy error) of an admitted transaction t    *)
(*   Metrics          read of the per-flow invocation counters -> <<nFw, nCq>>  *)
(*   Scrape           read of the quotas' used-quota gauges (metrics observer)  *)
(* A request first counts as an invocation of its flow (CountFw / CountCq) and  *)
(* later is decided; both happen inside the call, so in a concurrent history    *)
(* they are two separate internal steps of one operation.                       *)
EXTENDS Integers, FiniteSets

CONSTANTS M, C, W

VARIABLES now,     \* mock clock (seconds)
          fwStart, \* [group -> instant its current fixed window opened] (absent: none yet)
          fw,      \* [group -> requests admitted by the fixed-window quota in its current window]
          sel,     \* [url -> what a transaction to that URL runs and is answered] as first observed
          infl,    \* transactions holding a slot of the concurrency quota
          inv      \* [fw |-> n, cq |-> n] invocations of the two user flows

svars == <<now, fwStart, fw, infl, inv, sel>>

Empty == [x \in {} |-> 0]
SInit == now = 0 /\ fwStart = Empty /\ fw = Empty /\ infl = {} /\ inv = [fw |-> 0, cq |-> 0] /\ sel = Empty

Tick(d) == now' = now + d /\ UNCHANGED <<fwStart, fw, infl, inv, sel>>

Put(f, k, v) == [x \in DOMAIN f \cup {k} |-> IF x = k THEN v ELSE f[x]]

CountFw == inv' = [inv EXCEPT !.fw = @ + 1] /\ UNCHANGED <<now, fwStart, fw, infl, sel>>
CountCq == inv' = [inv EXCEPT !.cq = @ + 1] /\ UNCHANGED <<now, fwStart, fw, infl, sel>>

Restart(g) == g \notin DOMAIN fwStart \/ now - fwStart[g] >= W
Cnt(g) == IF Restart(g) THEN 0 ELSE fw[g]

ReqFw(g, out) ==
    /\ out = IF Cnt(g) < M THEN "admit" ELSE "refuse"
    /\ fw' = Put(fw, g, IF out = "admit" THEN Cnt(g) + 1 ELSE Cnt(g))
    /\ fwStart' = IF Restart(g) THEN Put(fwStart, g, now) ELSE fwStart
    /\ UNCHANGED <<now, infl, inv, sel>>

\* n overlapping requests of group g at one instant, p of them admitted: permitted iff some order of the n verdicts is
FwBatch(g, n, p) ==
    /\ p \in 0..n /\ Cnt(g) + p <= M /\ (p < n => Cnt(g) + p >= M)
    /\ fw' = Put(fw, g, Cnt(g) + p)
    /\ fwStart' = IF Restart(g) THEN Put(fwStart, g, now) ELSE fwStart
    /\ inv' = [inv EXCEPT !.fw = @ + n]
    /\ UNCHANGED <<now, infl, sel>>

\* n overlapping requests of n new transactions to the concurrency-limited URL, those in `adm` admitted
CqBatch(n, adm) ==
    /\ Cardinality(adm) <= n /\ adm \cap infl = {}
    /\ Cardinality(infl) + Cardinality(adm) <= C
    /\ (Cardinality(adm) < n => Cardinality(infl) + Cardinality(adm) >= C)
    /\ infl' = infl \cup adm
    /\ inv' = [inv EXCEPT !.cq = @ + n]
    /\ UNCHANGED <<now, fwStart, fw, sel>>

\* what a transaction to URL u of sel.test runs / is answered depends on u (and the loaded configuration) only
ReqSel(u, out) ==
    /\ IF u \in DOMAIN sel THEN out = sel[u] /\ UNCHANGED sel ELSE sel' = Put(sel, u, out)
    /\ UNCHANGED <<now, fwStart, fw, infl, inv>>

ReqCq(t, out) ==
    /\ out = IF Cardinality(infl) < C THEN "admit" ELSE "refuse"
    /\ infl' = IF out = "admit" THEN infl \cup {t} ELSE infl
    /\ UNCHANGED <<now, fwStart, fw, inv, sel>>

EndCq(t) == infl' = infl \ {t} /\ UNCHANGED <<now, fwStart, fw, inv, sel>>

Metrics(nfw, ncq) == nfw = inv.fw /\ ncq = inv.cq /\ UNCHANGED svars

\* a read of the used-quota gauges (what a metrics scrape does to every quota): it succeeds and changes nothing - in
\* particular it neither opens a window nor forgets what a transaction in flight was told
Scrape(out) == out = "ok" /\ UNCHANGED svars

\* invariants of the sequential machine (what no interleaving may break either)
FwBound == \A g \in DOMAIN fw : fw[g] <= M
CqBound == Cardinality(infl) <= C
================================================================================
