SPECIFICATION ISpec
CONSTANTS Keys = {1, 2, 3}
          Ttl = 1
          MaxNow = 3
          Variant = "code"
INVARIANTS Tracked NotEarlyI
CHECK_DEADLOCK FALSE
