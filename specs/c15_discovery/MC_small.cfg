CONSTANTS
  Letters <- cLetters
  TsPattern <- cTs
  URLs <- cURLs
  GroupOf <- cGroupOf
  NormName <- cNormName
  Threshold = 2
  MaxLen = 4
  MaxBatch = 4
  MaxRestarts = 1
  Unweighted = FALSE
  NoStatusMerge = FALSE
  ConvergeOverwrite = FALSE
SPECIFICATION ISpec
INVARIANTS LawInv RoundTripInv IndepInv TreeIndepInv
CHECK_DEADLOCK FALSE
