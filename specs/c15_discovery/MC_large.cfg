CONSTANTS
  Letters <- cLetters
  TsPattern <- cTs
  URLs <- cURLs
  GroupOf <- cGroupOf
  NormName <- cNormName
  Threshold = 2
  MaxLen = 5
  MaxBatch = 5
  MaxRestarts = 2
  Unweighted = FALSE
  NoStatusMerge = FALSE
  ConvergeOverwrite = FALSE
SPECIFICATION ISpec
INVARIANTS LawInv RoundTripInv IndepInv TreeIndepInv
CHECK_DEADLOCK FALSE
