------------------------------- MODULE GenC15 -------------------------------
(* Case generation (spec -> code): every stream of at most GenMaxLen records     *)
(* over the alphabet of MC_C15, every composition of a stream into batches and   *)
(* every restart point (after any one batch, or none) - written with             *)
(* JsonSerialize; the driver pairs streams with the runs of their length.        *)
EXTENDS MC_C15, Json
CONSTANT GenMaxLen

Comp[n \in 0..GenMaxLen] == IF n = 0 THEN {<<>>} ELSE UNION {{<<k>> \o c : c \in Comp[n - k]} : k \in 1..n}
RunsOf(n) == UNION {{[split |-> c, restart |-> r] : r \in {<<>>} \cup {<<b>> : b \in 1..Len(c)}} : c \in Comp[n]}
Streams == UNION {[1..n -> 1..Len(cLetters)] : n \in 1..GenMaxLen}

ASSUME PrintT(<<"GEN-C15", Cardinality(Streams), [n \in 1..GenMaxLen |-> Cardinality(RunsOf(n))]>>)
ASSUME JsonSerialize("c15_space.json",
          [letters |-> cLetters, ts |-> cTs, streams |-> SetToSeq(Streams),
           runs |-> [n \in 1..GenMaxLen |-> SetToSeq(RunsOf(n))]])
\* nothing to explore: the module only evaluates the ASSUMEs above
GenSpec == Init /\ [][FALSE]_ivars
=============================================================================
