------------------------------- MODULE MC_C15 -------------------------------
(* Bounded instance for the exhaustive check of DiscoveryI against the laws of   *)
(* DiscoveryP (alphabet: C15Alphabet).                                           *)
EXTENDS DiscoveryI, C15Alphabet
=============================================================================
