---------------------------- MODULE DiscoveryTrace ----------------------------
(* C15 - validation of recorded executions of the real discovery aggregation    *)
(* (harness/cmd/c15: discovery.Run batch by batch on a temp state file, restart *)
(* = State.InitializeState from that file) against the laws of DiscoveryP.      *)
(*                                                                             *)
(* trace.ndjson: {"ev":"config"} then per stream                                *)
(*   {"ev":"stream","recs":[...]}          the records of the stream            *)
(*   and per way of batching it (a run):                                        *)
(*   {"ev":"reset"}                        fresh tree, fresh state file         *)
(*   {"ev":"batch","n":k,"agg":..,"attr":..}  the next k records were handed    *)
(*                                         over; aggregate and attribution now  *)
(*   {"ev":"restart","agg":..[,"err":..]}  state read back from the file (err:  *)
(*                                         it could not be read; the run ends)  *)
(*   {"ev":"final"}                        end of the run: the first run of a   *)
(*                                         stream is the reference the others   *)
(*                                         are compared with (BatchIndep)       *)
(* Every step is always enabled; `verdict` = name of the first law the observed *)
(* aggregate breaks ("ok" otherwise) and the invariant Accept demands "ok", so  *)
(* a rejection names the law.                                                   *)
EXTENDS DiscoveryP, TraceLib

VARIABLES l, fam, pos, hist, through, agg, refSet, ref, refThrough, verdict
tvars == <<l, fam, pos, hist, through, agg, refSet, ref, refThrough, verdict>>

Ev == TraceLog[l + 1]
Consume(name) == l < TraceLen /\ Ev.ev = name /\ l' = l + 1

Entry(e) == [m |-> e.m, u |-> e.u, count |-> e.count, st |-> SeqSet(e.st), min |-> e.min, max |-> e.max, ad |-> e.ad, at |-> e.at]
CEntry(e) == [c |-> e.c, m |-> e.m, u |-> e.u, count |-> e.count, st |-> SeqSet(e.st), min |-> e.min, max |-> e.max, ad |-> e.ad, at |-> e.at]
ToAgg(j) == [eps |-> {Entry(e) : e \in SeqSet(j.eps)}, cons |-> {CEntry(e) : e \in SeqSet(j.cons)}, ics |-> SeqSet(j.ics)]
DupLaw(j, a) == IF Cardinality(a.eps) # Len(j.eps) \/ Cardinality(a.cons) # Len(j.cons) \/ Cardinality(a.ics) # Len(j.ics)
                THEN "DuplicateEntry" ELSE "ok"
EmptyAgg == [eps |-> {}, cons |-> {}, ics |-> {}]

TInit ==
    /\ l = 1 /\ fam = <<>> /\ pos = 0 /\ hist = <<>> /\ through = FALSE /\ agg = EmptyAgg
    /\ refSet = FALSE /\ ref = EmptyAgg /\ refThrough = FALSE /\ verdict = "ok"

TStream ==
    /\ Consume("stream")
    /\ fam' = Ev.recs /\ pos' = 0 /\ hist' = <<>> /\ through' = FALSE /\ agg' = EmptyAgg
    /\ refSet' = FALSE /\ ref' = EmptyAgg /\ refThrough' = FALSE /\ verdict' = "ok"

TReset ==
    /\ Consume("reset")
    /\ pos' = 0 /\ hist' = <<>> /\ through' = FALSE /\ agg' = EmptyAgg /\ verdict' = "ok"
    /\ UNCHANGED <<fam, refSet, ref, refThrough>>

TBatch ==
    /\ Consume("batch")
    /\ LET n == Ev.n
           h2 == hist \o SubSeq(fam, pos + 1, pos + n)
           a == ToAgg(Ev.agg)
       IN  /\ hist' = h2 /\ pos' = pos + n /\ agg' = a
           /\ verdict' = IF "err" \in DOMAIN Ev THEN "Error"
                         ELSE IF pos + n > Len(fam) THEN "Incomplete"
                         ELSE IF DupLaw(Ev.agg, a) # "ok" THEN DupLaw(Ev.agg, a)
                         ELSE AggLaw(h2, SeqSet(Ev.attr), a, through)
    /\ UNCHANGED <<fam, through, refSet, ref, refThrough>>

TRestart ==
    /\ Consume("restart")
    /\ LET a == ToAgg(Ev.agg) IN
           /\ agg' = a
           \* a state file that cannot be read back loses every total that had been written
           /\ verdict' = IF "err" \in DOMAIN Ev THEN (IF agg = EmptyAgg THEN "ok" ELSE "RoundTrip-Unreadable")
                         ELSE RoundTripLaw(agg, a)
    /\ through' = TRUE
    /\ UNCHANGED <<fam, pos, hist, refSet, ref, refThrough>>

TFinal ==
    /\ Consume("final")
    /\ IF pos # Len(fam) THEN verdict' = "Incomplete" /\ UNCHANGED <<refSet, ref, refThrough>>
       ELSE IF ~refSet THEN refSet' = TRUE /\ ref' = agg /\ refThrough' = through /\ verdict' = "ok"
       ELSE verdict' = BatchIndepLaw(ref, agg, ~refThrough /\ ~through) /\ UNCHANGED <<refSet, ref, refThrough>>
    /\ UNCHANGED <<fam, pos, hist, through, agg>>

TNext == TStream \/ TReset \/ TBatch \/ TRestart \/ TFinal
TraceSpec == TInit /\ [][TNext]_tvars

Accept == verdict = "ok"
HWM == Mark(l)
Post == Report
================================================================================
