SPECIFICATION TraceSpec
INVARIANT Accept
CONSTRAINT HWM
POSTCONDITION Post
CHECK_DEADLOCK FALSE
