----------------------------- MODULE DiscoveryOps -----------------------------
(* C15 - implementation-shaped specification of the discovery aggregation:      *)
(*   discovery/runner.go       Run / GetUpdatedAggregations (one Batch action)  *)
(*   discovery/aggregation_converge.go  ConvergeAggregation (re-keying)         *)
(*   discovery/aggregation.go  ExtractAggs / extractEndpointAgg                 *)
(*   shared-model/discovery/combine.go  EndpointAgg.Combine (weighted average)  *)
(*   discovery/state.go + persistence_utils.go  UpdateAggregation (file) /      *)
(*                              InitializeState (Restart), timestamps persisted *)
(*                              with a resolution of one second                 *)
(*   toolkit-core/urltree       abstracted to what matters for attribution: per *)
(*                              group of sibling URLs the set of constant       *)
(*                              children and whether the group has converged    *)
(*                              into an inferred path parameter (threshold)     *)
(* Averages are kept in 1/1000 with flooring division (the code keeps float32). *)
(* Flags: Unweighted / NoStatusMerge / ConvergeOverwrite are breaking variants  *)
(* that TLC must refute (non-vacuity).                                          *)
EXTENDS DiscoveryP, SequencesExt, TLC

CONSTANTS Letters,        \* sequence of record templates [m, u, s, d, t, c, ity, iver, internal]
          TsPattern,      \* timestamp of the k-th record of a stream
          URLs, GroupOf, NormName,   \* URL structure: group of siblings of a URL, name of the converged group
          Threshold,      \* urltree maxSplitThreshold
          Unweighted, NoStatusMerge, ConvergeOverwrite

Groups == {GroupOf[u] : u \in URLs}

\* ------------------------------------------------------------------------------------------------ URL tree
EmptyTree == [consts |-> [g \in Groups |-> {}], conv |-> [g \in Groups |-> FALSE]]

\* InsertWithConvergenceIndication: <<tree', convergence occurred>>
Insert1(tr, u) ==
    LET g == GroupOf[u] IN
    IF u \in tr.consts[g] THEN <<tr, FALSE>>
    ELSE IF Cardinality(tr.consts[g]) >= Threshold
         THEN <<[tr EXCEPT !.consts[g] = {}, !.conv[g] = TRUE], TRUE>>
    ELSE IF tr.conv[g] THEN <<tr, FALSE>>
    ELSE <<[tr EXCEPT !.consts[g] = @ \cup {u}], FALSE>>

\* NormalizeURL (insert, then lookup) for a URL or an already normalised key
Norm(tr, k) ==
    IF k \notin URLs THEN k
    ELSE IF k \in tr.consts[GroupOf[k]] THEN k
    ELSE IF tr.conv[GroupOf[k]] THEN NormName[GroupOf[k]] ELSE k

AttrSet(tr) == {[u |-> u, n |-> Norm(tr, u)] : u \in URLs}

\* ------------------------------------------------------------------------------------------------ aggregates
EmptyAgg == [eps |-> {}, cons |-> {}, ics |-> {}]

NOf(st, c) == LET P == {p \in st : p.code = c} IN IF P = {} THEN 0 ELSE (CHOOSE p \in P : TRUE).n

\* EndpointAgg.Combine (a and b carry the same key fields)
CombineEntry(a, b) ==
    LET cnt == a.count + b.count IN
    [a EXCEPT
       !.count = cnt,
       !.st = IF NoStatusMerge THEN b.st \cup {p \in a.st : NOf(b.st, p.code) = 0}
              ELSE {[code |-> c, n |-> NOf(a.st, c) + NOf(b.st, c)] : c \in {p.code : p \in a.st \cup b.st}},
       !.min = IF a.min < b.min THEN a.min ELSE b.min,
       !.max = IF a.max > b.max THEN a.max ELSE b.max,
       !.ad = IF Unweighted THEN (a.ad + b.ad) \div 2 ELSE (a.ad * a.count + b.ad * b.count) \div cnt,
       !.at = IF Unweighted THEN (a.at + b.at) \div 2 ELSE (a.at * a.count + b.at * b.count) \div cnt]

\* utils.Map.Combine over entries keyed by K(_)
CombineSet(A, B, K(_)) ==
    {a \in A : ~\E b \in B : K(b) = K(a)} \cup {b \in B : ~\E a \in A : K(a) = K(b)}
    \cup {CombineEntry(a, CHOOSE b \in B : K(b) = K(a)) : a \in {x \in A : \E b \in B : K(b) = K(x)}}

EK(e) == <<e.m, e.u>>
CK(e) == <<e.c, e.m, e.u>>

\* extractEndpointAgg for the records (indices I of the batch b) of one key
ExtractEntry(b, I, base) ==
    LET n == Cardinality(I) IN
    [base EXCEPT
       !.count = n,
       !.st = {[code |-> c, n |-> Cardinality({i \in I : b[i].s = c})] : c \in {b[i].s : i \in I}},
       !.min = Min({b[i].ts : i \in I}), !.max = Max({b[i].ts : i \in I}),
       !.ad = (1000 * MapThenSumSet(LAMBDA i : b[i].d, I)) \div n,
       !.at = (1000 * MapThenSumSet(LAMBDA i : b[i].t, I)) \div n]

Blank == [count |-> 0, st |-> {}, min |-> 0, max |-> 0, ad |-> 0, at |-> 0]

ExtractAggs(tr, b) ==
    LET D == DOMAIN b IN
    [eps |-> {ExtractEntry(b, {i \in D : <<b[i].m, Norm(tr, b[i].u)>> = k}, [m |-> k[1], u |-> k[2]] @@ Blank)
                : k \in {<<b[i].m, Norm(tr, b[i].u)>> : i \in D}},
     cons |-> {ExtractEntry(b, {i \in D : <<Tag(b[i]), b[i].m, Norm(tr, b[i].u)>> = k}, [c |-> k[1], m |-> k[2], u |-> k[3]] @@ Blank)
                : k \in {<<Tag(b[i]), b[i].m, Norm(tr, b[i].u)>> : i \in D}},
     ics |-> {[ty |-> k[1], ver |-> k[2], ts |-> Max({b[i].ts : i \in {j \in D : <<IcTy(b[j]), IcVer(b[j])>> = k}})]
                : k \in {<<IcTy(b[i]), IcVer(b[i])>> : i \in D}}]

\* ConvergeAggregation: re-key the existing entries under the converged tree, combining the ones that now share a key
Rekey(tr, E, K(_)) ==
    LET R(e) == [e EXCEPT !.u = Norm(tr, e.u)]
        Ks == {K(R(e)) : e \in E}
        Merge(S) == LET e0 == CHOOSE e \in S : TRUE IN
                    IF ConvergeOverwrite THEN R(e0)
                    ELSE FoldSet(LAMBDA e, acc : CombineEntry(acc, R(e)), R(e0), S \ {e0})
    IN  {Merge({e \in E : K(R(e)) = k}) : k \in Ks}

CombineIcs(A, B) ==
    {a \in A : ~\E b \in B : b.ty = a.ty /\ b.ver = a.ver} \cup {b \in B : ~\E a \in A : b.ty = a.ty /\ b.ver = a.ver}
    \cup {[a EXCEPT !.ts = LET b == CHOOSE b \in B : b.ty = a.ty /\ b.ver = a.ver IN IF a.ts > b.ts THEN a.ts ELSE b.ts]
            : a \in {x \in A : \E b \in B : b.ty = x.ty /\ b.ver = x.ver}}

\* discovery.Run on one batch of records: <<tree', agg'>>
BatchStep(tr, agg, recs) ==
    LET live == SelectSeq(recs, LAMBDA r : ~r.internal)
        ins == FoldLeft(LAMBDA acc, r : LET x == Insert1(acc[1], r.u) IN <<x[1], acc[2] \/ x[2]>>, <<tr, FALSE>>, live)
        tr2 == ins[1]
        agg1 == IF ins[2] THEN [eps |-> Rekey(tr2, agg.eps, EK), cons |-> Rekey(tr2, agg.cons, CK), ics |-> agg.ics] ELSE agg
        new == ExtractAggs(tr2, live)
    IN  <<tr2, [eps |-> CombineSet(agg1.eps, new.eps, EK), cons |-> CombineSet(agg1.cons, new.cons, CK), ics |-> CombineIcs(agg1.ics, new.ics)]>>

\* ConvertToPersisted / ConvertFromPersisted: timestamps survive with a resolution of one second
PersistEntry(e) == [e EXCEPT !.min = FloorSec(e.min), !.max = FloorSec(e.max)]
Persisted(agg) == [eps |-> {PersistEntry(e) : e \in agg.eps}, cons |-> {PersistEntry(e) : e \in agg.cons},
                   ics |-> {[x EXCEPT !.ts = FloorSec(x.ts)] : x \in agg.ics}]
================================================================================
