--------------------------- MODULE DiscoveryTraceI ---------------------------
(* C15 - conformance of the implementation-shaped model to the code: the same    *)
(* recordings DiscoveryTrace judges by the laws of P are followed here by the    *)
(* model DiscoveryI (threshold 2, URLs of the MC_C15 alphabet): after every      *)
(* batch / restart the model's aggregate and attribution must equal what the     *)
(* real code reported (keys, counts, status maps, timestamps exactly; averages   *)
(* within the rounding bound).  A difference is MODEL-DRIFT (the exhaustive      *)
(* result on the model then says nothing about the code), never a violation.     *)
EXTENDS DiscoveryOps, C15Alphabet, TraceLib

VARIABLES l, fam, pos, tree, agg, drift
tvars == <<l, fam, pos, tree, agg, drift>>

Ev == TraceLog[l + 1]
Consume(name) == l < TraceLen /\ Ev.ev = name /\ l' = l + 1

Entry(e) == [m |-> e.m, u |-> e.u, count |-> e.count, st |-> SeqSet(e.st), min |-> e.min, max |-> e.max, ad |-> e.ad, at |-> e.at]
CEntry(e) == [c |-> e.c, m |-> e.m, u |-> e.u, count |-> e.count, st |-> SeqSet(e.st), min |-> e.min, max |-> e.max, ad |-> e.ad, at |-> e.at]
ToAgg(j) == [eps |-> {Entry(e) : e \in SeqSet(j.eps)}, cons |-> {CEntry(e) : e \in SeqSet(j.cons)}, ics |-> SeqSet(j.ics)]

TInit == l = 1 /\ fam = <<>> /\ pos = 0 /\ tree = EmptyTree /\ agg = EmptyAgg /\ drift = "ok"

TStream == Consume("stream") /\ fam' = Ev.recs /\ pos' = 0 /\ tree' = EmptyTree /\ agg' = EmptyAgg /\ drift' = "ok"
TReset == Consume("reset") /\ pos' = 0 /\ tree' = EmptyTree /\ agg' = EmptyAgg /\ drift' = "ok" /\ UNCHANGED fam

TBatch ==
    /\ Consume("batch")
    /\ LET x == BatchStep(tree, agg, SubSeq(fam, pos + 1, pos + Ev.n))
           real == ToAgg(Ev.agg)
           cmp == BatchIndepLaw(x[2], real, TRUE)
       IN  /\ tree' = x[1] /\ agg' = x[2] /\ pos' = pos + Ev.n
           /\ drift' = IF cmp # "ok" THEN "aggregate: " \o cmp
                       ELSE IF \E a \in SeqSet(Ev.attr) : Norm(x[1], a.u) # a.n THEN "attribution"
                       ELSE "ok"
    /\ UNCHANGED fam

TRestart ==
    /\ Consume("restart")
    /\ LET p == Persisted(agg)
           cmp == BatchIndepLaw(p, ToAgg(Ev.agg), TRUE)
       IN  agg' = p /\ drift' = IF "err" \in DOMAIN Ev THEN "restart: unreadable state file"
                                  ELSE IF cmp # "ok" THEN "restart: " \o cmp ELSE "ok"
    /\ UNCHANGED <<fam, pos, tree>>

TFinal == Consume("final") /\ drift' = "ok" /\ UNCHANGED <<fam, pos, tree, agg>>

TNext == TStream \/ TReset \/ TBatch \/ TRestart \/ TFinal
TraceSpec == TInit /\ [][TNext]_tvars

NoDrift == drift = "ok"
HWM == Mark(l)
Post == Report
================================================================================
