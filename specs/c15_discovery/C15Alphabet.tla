----------------------------- MODULE C15Alphabet -----------------------------
(* The record alphabet and URL structure of the bounded C15 instance (shared by  *)
(* the exhaustive check, the case generation and the model-conformance trace).   *)
EXTENDS Integers, Sequences

R(m, u, s, d, t, c, ity, iver, internal) ==
    [m |-> m, u |-> u, s |-> s, d |-> d, t |-> t, ts |-> 0, c |-> c, ity |-> ity, iver |-> iver, internal |-> internal]

\* u/1, u/2, u/3 are siblings (the third distinct one crosses Threshold = 2 and converges the group);
\* a and f share an endpoint with different status / duration; d differs by method only; e has no tag / interceptor
cLetters == <<
    R("GET",  "h.com/u/1", 200, 10,   12,   "A", "py", "1", FALSE),
    R("GET",  "h.com/u/2", 200, 30,   31,   "A", "py", "1", FALSE),
    R("GET",  "h.com/u/3", 500, 50,   55,   "B", "py", "1", FALSE),
    R("POST", "h.com/u/1", 201, 7,    9,    "B", "ts", "2", FALSE),
    R("GET",  "h.com/v/x", 200, 100,  120,  "",  "",   "",  FALSE),
    R("GET",  "h.com/u/1", 404, 1000, 1001, "A", "py", "1", FALSE),
    R("GET",  "h.com/u/2", 200, 2000, 2001, "A", "py", "1", TRUE)
>>
cTs == <<3100, 1200, 5900, 400, 4700, 2999, 7001, 3000>>
cURLs == {"h.com/u/1", "h.com/u/2", "h.com/u/3", "h.com/v/x"}
cGroupOf == [u \in cURLs |-> IF u = "h.com/v/x" THEN "h.com/v" ELSE "h.com/u"]
cNormName == [g \in {"h.com/u", "h.com/v"} |-> g \o "/{_param_1}"]
=============================================================================
