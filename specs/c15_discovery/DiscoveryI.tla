------------------------------ MODULE DiscoveryI ------------------------------
(* C15 - implementation-shaped specification, behaviour part: the operators of   *)
(* DiscoveryOps (one discovery.Run = BatchStep, persistence = Persisted) driven  *)
(* by every batch over the alphabet and by restarts; the laws of DiscoveryP as   *)
(* invariants of every reachable state.                                          *)
EXTENDS DiscoveryOps

CONSTANTS MaxLen, MaxBatch, MaxRestarts

\* ------------------------------------------------------------------------------------------------ behaviour
VARIABLES tree, agg, file, hist, through, restarts, rt
ivars == <<tree, agg, file, hist, through, restarts, rt>>

Init == /\ tree = EmptyTree /\ agg = EmptyAgg /\ file = EmptyAgg /\ hist = <<>>
        /\ through = FALSE /\ restarts = 0 /\ rt = "ok"

MkRec(letter, k) == [Letters[letter] EXCEPT !.ts = TsPattern[k]]

Batch == \E n \in 1..MaxBatch :
    /\ Len(hist) + n <= MaxLen
    /\ \E w \in [1..n -> 1..Len(Letters)] :
         LET recs == [k \in 1..n |-> MkRec(w[k], Len(hist) + k)]
             x == BatchStep(tree, agg, recs)
         IN  /\ tree' = x[1] /\ agg' = x[2] /\ file' = Persisted(x[2])
             /\ hist' = hist \o recs
    /\ UNCHANGED <<through, restarts, rt>>

Restart ==
    /\ hist # <<>> /\ restarts < MaxRestarts
    /\ agg' = file /\ through' = TRUE /\ restarts' = restarts + 1
    /\ rt' = RoundTripLaw(agg, file)
    /\ UNCHANGED <<tree, file, hist>>

Next == Batch \/ Restart
ISpec == Init /\ [][Next]_ivars

\* the laws of P on every reachable state of I
LawInv == AggLaw(hist, AttrSet(tree), agg, through) = "ok"
RoundTripInv == rt = "ok"
\* whatever the batching (and restarts) that led here: equivalent to handing the whole stream over at once
IndepInv == BatchIndepLaw(BatchStep(EmptyTree, EmptyAgg, hist)[2], agg, ~through) = "ok"
TreeIndepInv == hist # <<>> => BatchStep(EmptyTree, EmptyAgg, hist)[1] = tree

\* witnesses (expected to be violated)
W_NoConvergence == \A g \in Groups : ~tree.conv[g]
W_NoRekeyMerge == ~(\E g \in Groups : tree.conv[g]) \/ through \/ Len(hist) < MaxLen
================================================================================
