------------------------------ MODULE DiscoveryP ------------------------------
(* C15 - discovery statistics: property specification (P).                      *)
(*                                                                             *)
(* P is defined on the *history* of access-log records handed to the plugin     *)
(* and on what the plugin reports as its aggregate:                             *)
(*   h     sequence of records [m, u, s, d, t, ts, c, ity, iver, internal]      *)
(*         (method, URL, status, duration, total duration, timestamp in ms      *)
(*         relative to a second-aligned instant, consumer tag, interceptor      *)
(*         type/version, gateway-internal traffic flag)                         *)
(*   attr  the attribution of URLs to endpoints under the URL tree as it is     *)
(*         now: set of [u, n] (n = normalised URL).  It is an *input* of the    *)
(*         property: which URLs an inferred path parameter merges is a matter   *)
(*         of the URL tree, not of the statistics.                              *)
(*   agg   [eps  : set of [m, u, count, st : set of [code, n], min, max, ad, at],*)
(*          cons : the same per consumer tag (field c),                         *)
(*          ics  : set of [ty, ver, ts]]                                        *)
(*         ad / at = average durations in 1/1000.                               *)
(* Laws (each operator returns "ok" or the name of the first law broken):       *)
(*   Conserve   count of every endpoint = number of records attributed to it,   *)
(*              no record is lost, no endpoint is invented                      *)
(*   StatusSum  per endpoint and status code the count of that code = number of *)
(*              its records with that code (so the counts add up to `count`)    *)
(*   Extremes   min / max = the extreme timestamps of its records; once the     *)
(*              state went through the file: to the persisted resolution (1 s)  *)
(*   Means      |avg - true mean| <= Eps(count)  (float32 rounding, see Eps)    *)
(*   the same per consumer tag; interceptors: last seen = max timestamp         *)
(*   RoundTrip  reading the state back preserves keys, counts, status maps,     *)
(*              averages; timestamps to the persisted resolution                *)
(*   BatchIndep two ways of batching one stream end in equivalent aggregates    *)
EXTENDS Integers, Sequences, FiniteSets, FiniteSetsExt

SeqSet(s) == {s[i] : i \in DOMAIN s}

Live(h) == {i \in DOMAIN h : ~h[i].internal}              \* gateway-internal traffic is not discovered traffic

AttrOf(attr, u) == LET S == {a \in attr : a.u = u} IN IF S = {} THEN u ELSE (CHOOSE a \in S : TRUE).n
Tag(r) == IF r.c = "" THEN "N/A" ELSE r.c
IcTy(r) == IF r.ity = "" THEN "unknown" ELSE r.ity
IcVer(r) == IF r.ity = "" THEN "unknown" ELSE r.iver

FloorSec(x) == (x \div 1000) * 1000
Abs(x) == IF x < 0 THEN -x ELSE x

(* float32 rounding bound, in 1/1000, for durations <= MaxDur = 2048 ms.  An average over `count` records is built by  *)
(* at most count - 1 weighted merges  (avgA * cntA + avgB * cntB) / cnt  over float32 (relative error 2^-24 per         *)
(* operation, 4 operations per merge, no amplification: weights <= 1): < 0.5/1000 per merge; + 0.5 for the rounding    *)
(* of the reported value to 1/1000; the implementation-shaped model floors once per merge (< 1/1000).                  *)
Eps(count) == count + 1

\* ---------------------------------------------------------------------------------------------------------------
\* one endpoint entry e against the index set I of the records attributed to it
StatusOK(h, I, e) ==
    /\ Cardinality({p.code : p \in e.st}) = Cardinality(e.st)
    /\ \A c \in {h[i].s : i \in I} \cup {p.code : p \in e.st} :
         LET P == {p \in e.st : p.code = c}
             n == IF P = {} THEN 0 ELSE (CHOOSE p \in P : TRUE).n
         IN  n = Cardinality({i \in I : h[i].s = c})

ExtremeOK(reported, true, throughFile) ==
    IF throughFile THEN FloorSec(true) <= reported /\ reported <= true ELSE reported = true

MeanOK(avgMilli, sum, count) == Abs(avgMilli * count - 1000 * sum) <= Eps(count) * count

EntryLaw(h, I, e, throughFile) ==
    IF e.count # Cardinality(I) THEN "Conserve"
    ELSE IF I = {} THEN "ok"
    ELSE IF ~StatusOK(h, I, e) THEN "StatusSum"
    ELSE IF ~(ExtremeOK(e.min, Min({h[i].ts : i \in I}), throughFile) /\
              ExtremeOK(e.max, Max({h[i].ts : i \in I}), throughFile)) THEN "Extremes"
    ELSE IF ~(MeanOK(e.ad, MapThenSumSet(LAMBDA i : h[i].d, I), e.count) /\
              MeanOK(e.at, MapThenSumSet(LAMBDA i : h[i].t, I), e.count)) THEN "Means"
    ELSE "ok"

First(S) == IF S \ {"ok"} = {} THEN "ok" ELSE CHOOSE x \in S \ {"ok"} : TRUE

AggLaw(h, attr, agg, throughFile) ==
    LET L == Live(h)
        nu == [i \in DOMAIN h |-> AttrOf(attr, h[i].u)]         \* every record attributed once
        EK(i) == <<h[i].m, nu[i]>>
        CK(i) == <<Tag(h[i]), h[i].m, nu[i]>>
        IK(i) == <<IcTy(h[i]), IcVer(h[i])>>
    IN  IF Cardinality({<<e.m, e.u>> : e \in agg.eps}) # Cardinality(agg.eps) THEN "DuplicateEndpoint"
        ELSE IF \E i \in L : ~\E e \in agg.eps : <<e.m, e.u>> = EK(i) THEN "Conserve"          \* a record was lost
        ELSE LET r1 == First({EntryLaw(h, {i \in L : EK(i) = <<e.m, e.u>>}, e, throughFile) : e \in agg.eps}) IN
        IF r1 # "ok" THEN r1
        ELSE IF Cardinality({<<e.c, e.m, e.u>> : e \in agg.cons}) # Cardinality(agg.cons) THEN "Consumer-DuplicateEndpoint"
        ELSE IF \E i \in L : ~\E e \in agg.cons : <<e.c, e.m, e.u>> = CK(i) THEN "Consumer-Conserve"
        ELSE LET r2 == First({EntryLaw(h, {i \in L : CK(i) = <<e.c, e.m, e.u>>}, e, throughFile) : e \in agg.cons}) IN
        IF r2 # "ok" THEN "Consumer-" \o r2
        ELSE IF Cardinality({<<x.ty, x.ver>> : x \in agg.ics}) # Cardinality(agg.ics) THEN "Interceptor-Duplicate"
        ELSE IF \E i \in L : ~\E x \in agg.ics : <<x.ty, x.ver>> = IK(i) THEN "Interceptor-Lost"
        ELSE IF \E x \in agg.ics :
                  LET I == {i \in L : IK(i) = <<x.ty, x.ver>>} IN
                  I = {} \/ ~ExtremeOK(x.ts, Max({h[i].ts : i \in I}), throughFile) THEN "Interceptor-Extremes"
        ELSE "ok"

\* ---------------------------------------------------------------------------------------------------------------
TimeKept(before, after) == after = before \/ after = FloorSec(before)

EntryKept(a, b) ==
    /\ a.count = b.count /\ a.st = b.st
    /\ Abs(a.ad - b.ad) <= 1 /\ Abs(a.at - b.at) <= 1
    /\ TimeKept(a.min, b.min) /\ TimeKept(a.max, b.max)

RoundTripLaw(before, after) ==
    IF {<<e.m, e.u>> : e \in before.eps} # {<<e.m, e.u>> : e \in after.eps} \/ Cardinality(after.eps) # Cardinality(before.eps)
        THEN "RoundTrip-Keys"
    ELSE IF \E a \in before.eps, b \in after.eps : a.m = b.m /\ a.u = b.u /\ ~EntryKept(a, b) THEN "RoundTrip"
    ELSE IF {<<e.c, e.m, e.u>> : e \in before.cons} # {<<e.c, e.m, e.u>> : e \in after.cons}
            \/ Cardinality(after.cons) # Cardinality(before.cons) THEN "Consumer-RoundTrip-Keys"
    ELSE IF \E a \in before.cons, b \in after.cons : a.c = b.c /\ a.m = b.m /\ a.u = b.u /\ ~EntryKept(a, b) THEN "Consumer-RoundTrip"
    ELSE IF {<<x.ty, x.ver>> : x \in before.ics} # {<<x.ty, x.ver>> : x \in after.ics} THEN "Interceptor-RoundTrip-Keys"
    ELSE IF \E a \in before.ics, b \in after.ics : a.ty = b.ty /\ a.ver = b.ver /\ ~TimeKept(a.ts, b.ts) THEN "Interceptor-RoundTrip"
    ELSE "ok"

\* ---------------------------------------------------------------------------------------------------------------
SameTime(x, y, exact) == IF exact THEN x = y ELSE FloorSec(x) = FloorSec(y)

EntrySame(a, b, exact) ==
    /\ a.count = b.count /\ a.st = b.st
    /\ Abs(a.ad - b.ad) <= 2 * Eps(a.count) /\ Abs(a.at - b.at) <= 2 * Eps(a.count)
    /\ SameTime(a.min, b.min, exact) /\ SameTime(a.max, b.max, exact)

\* `exact`: neither run went through the file
BatchIndepLaw(x, y, exact) ==
    IF {<<e.m, e.u>> : e \in x.eps} # {<<e.m, e.u>> : e \in y.eps} THEN "BatchIndep-Keys"
    ELSE IF \E a \in x.eps, b \in y.eps : a.m = b.m /\ a.u = b.u /\ ~EntrySame(a, b, exact) THEN "BatchIndep"
    ELSE IF {<<e.c, e.m, e.u>> : e \in x.cons} # {<<e.c, e.m, e.u>> : e \in y.cons} THEN "Consumer-BatchIndep-Keys"
    ELSE IF \E a \in x.cons, b \in y.cons : a.c = b.c /\ a.m = b.m /\ a.u = b.u /\ ~EntrySame(a, b, exact) THEN "Consumer-BatchIndep"
    ELSE IF {<<i.ty, i.ver>> : i \in x.ics} # {<<i.ty, i.ver>> : i \in y.ics} THEN "Interceptor-BatchIndep-Keys"
    ELSE IF \E a \in x.ics, b \in y.ics : a.ty = b.ty /\ a.ver = b.ver /\ ~SameTime(a.ts, b.ts, exact) THEN "Interceptor-BatchIndep"
    ELSE "ok"
================================================================================
