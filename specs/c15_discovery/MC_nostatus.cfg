CONSTANTS
  Letters <- cLetters
  TsPattern <- cTs
  URLs <- cURLs
  GroupOf <- cGroupOf
  NormName <- cNormName
  Threshold = 2
  MaxLen = 3
  MaxBatch = 3
  MaxRestarts = 1
  Unweighted = FALSE
  NoStatusMerge = TRUE
  ConvergeOverwrite = FALSE
SPECIFICATION ISpec
INVARIANTS LawInv RoundTripInv IndepInv
CHECK_DEADLOCK FALSE
