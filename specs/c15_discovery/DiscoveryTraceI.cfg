CONSTANTS
  Letters <- cLetters
  TsPattern <- cTs
  URLs <- cURLs
  GroupOf <- cGroupOf
  NormName <- cNormName
  Threshold = 2
  Unweighted = FALSE
  NoStatusMerge = FALSE
  ConvergeOverwrite = FALSE
SPECIFICATION TraceSpec
INVARIANT NoDrift
CONSTRAINT HWM
POSTCONDITION Post
CHECK_DEADLOCK FALSE
