CONSTANTS
  Letters <- cLetters
  TsPattern <- cTs
  URLs <- cURLs
  GroupOf <- cGroupOf
  NormName <- cNormName
  Threshold = 2
  MaxLen = 4
  MaxBatch = 4
  MaxRestarts = 1
  Unweighted = FALSE
  NoStatusMerge = FALSE
  ConvergeOverwrite = TRUE
SPECIFICATION ISpec
INVARIANTS LawInv RoundTripInv IndepInv
CHECK_DEADLOCK FALSE
