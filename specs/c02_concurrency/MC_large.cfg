\* 3 transactions, Max 2, GC passes, clock: all interleavings
CONSTANTS
  Txn = {t1, t2, t3}
  Max = 2
  Expiry = 2
  GcPeriod = 2
  MaxNow = 4
  Restarts = 0
  Variant = "none"
SPECIFICATION ISpec
INVARIANTS BoundedI NoLeakI QuiescentI ExpiryI RegCleanI HeldHasSlotI
PROPERTY OnceOnlyI
VIEW View
SYMMETRY Sym
CHECK_DEADLOCK FALSE
