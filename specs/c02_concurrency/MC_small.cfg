\* 2 transactions (request: early / refused / held; response || proxy error), GC passes, clock: all interleavings
CONSTANTS
  Txn = {t1, t2}
  Max = 1
  Expiry = 2
  GcPeriod = 2
  MaxNow = 5
  Restarts = 1
  Variant = "none"
SPECIFICATION ISpec
INVARIANTS BoundedI NoLeakI QuiescentI ExpiryI RegCleanI HeldHasSlotI
PROPERTY OnceOnlyI
VIEW View
SYMMETRY Sym
CHECK_DEADLOCK FALSE
