------------------------------- MODULE MC_C02 -------------------------------
EXTENDS ConcurrencyI, TLC
\* the last event is output only (OnceOnlyI reads it on the transition itself)
View == <<now, arr, n, areq, amem, reg, pc, early, epc, efound, emem, gpc,
          IF gpc = "idle" THEN <<>> ELSE gsnap, glen, gi, galias, gitem, gcDue, nrestart, admAt>>
Sym == Permutations(Txn)
=============================================================================
