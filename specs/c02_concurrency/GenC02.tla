------------------------------- MODULE GenC02 -------------------------------
(* Behaviour generation for replay (spec -> code): random walks of ConcurrencyP *)
(* (tlc -simulate); the history of events is carried in `hist`, every walk that *)
(* reaches length GenDepth is printed as one JSON line.  Expire steps are part  *)
(* of the walk but not of the script (the real GC decides on its own).          *)
EXTENDS ConcurrencyP, TLC, Json
CONSTANT GenDepth
VARIABLES hist, lastReq, endedX
GInit == Init /\ hist = <<>> /\ lastReq = [t \in Txn |-> -1] /\ endedX = {}

\* every third step is a clock step (or a reclaim that the clock is waiting for), so that walks reach expiry
Tick == (\E d \in Steps : Advance(d)) \/ (\E t \in Txn, q \in Quota : Expire(t, q))

\* A transaction id is presented again only when its previous transaction is certainly over whatever the real
\* engine answered (the script must stay legal for the real run): it was ended explicitly (response / proxy
\* error) after its request, or it was requested more than max(expiry + GC period) ticks ago.
MaxEG == CHOOSE m \in {Expiry[q] + GcPeriod[q] : q \in Quota} : \A q \in Quota : Expiry[q] + GcPeriod[q] <= m
IdFree(t) == lastReq[t] = -1 \/ t \in endedX \/ now > lastReq[t] + MaxEG
GNext == /\ IF Len(hist) % 3 = 2 THEN Tick ELSE Next
         /\ hist' = Append(hist, last')
         /\ IF last'.ev = "req"
            THEN IdFree(last'.t) /\ lastReq' = [lastReq EXCEPT ![last'.t] = now] /\ endedX' = endedX \ {last'.t}
            ELSE IF last'.ev \in {"resp", "err"} /\ lastReq[last'.t] # -1
            THEN endedX' = endedX \cup {last'.t} /\ UNCHANGED lastReq
            ELSE UNCHANGED <<lastReq, endedX>>
GSpec == GInit /\ [][GNext]_<<vars, hist, lastReq, endedX>>
Emit == (Len(hist) = GenDepth) => PrintT(<<"VH", ToJson(hist)>>)

\* the configuration of the walk (checks/c02.py GEN_CONFIG is the same object for the executor)
gParent == ("qa" :> "-") @@ ("qb" :> "-") @@ ("cc" :> "qa")
gMax    == ("qa" :> 3) @@ ("qb" :> 1) @@ ("cc" :> 2)
gExpiry == ("qa" :> 4) @@ ("qb" :> 6) @@ ("cc" :> 4)      \* ticks of 500 ms
gGc     == ("qa" :> 4) @@ ("qb" :> 2) @@ ("cc" :> 4)
gLeaves == {<<"cc">>, <<"qa", "qb">>, <<"qb">>}
=============================================================================
