------------------------------- MODULE GenC02 -------------------------------
(* Behaviour generation for replay (spec -> code): random walks of ConcurrencyP *)
(* (tlc -simulate); the history of events is carried in `hist`, every walk that *)
(* reaches length GenDepth is printed as one JSON line.  Expire steps are part  *)
(* of the walk but not of the script (the real GC decides on its own).          *)
EXTENDS ConcurrencyP, TLC, Json
CONSTANT GenDepth
VARIABLES hist, used
GInit == Init /\ hist = <<>> /\ used = {}
\* every third step is a clock step (or a reclaim that the clock is waiting for), so that walks reach expiry
Tick == (\E d \in Steps : Advance(d)) \/ (\E t \in Txn, q \in Quota : Expire(t, q))
\* every request of a walk carries a fresh transaction id (whatever the real engine answers, the script stays legal)
GNext == /\ IF Len(hist) % 3 = 2 THEN Tick ELSE Next
         /\ hist' = Append(hist, last')
         /\ IF last'.ev = "req" THEN last'.t \notin used /\ used' = used \cup {last'.t} ELSE used' = used
GSpec == GInit /\ [][GNext]_<<vars, hist, used>>
Emit == (Len(hist) = GenDepth) => PrintT(<<"VH", ToJson(hist)>>)

\* the configuration of the walk (checks/c02.py GEN_CONFIG is the same object for the executor)
gParent == ("qa" :> "-") @@ ("qb" :> "-") @@ ("cc" :> "qa")
gMax    == ("qa" :> 3) @@ ("qb" :> 1) @@ ("cc" :> 2)
gExpiry == ("qa" :> 2) @@ ("qb" :> 3) @@ ("cc" :> 2)
gGc     == ("qa" :> 2) @@ ("qb" :> 1) @@ ("cc" :> 2)
gLeaves == {<<"cc">>, <<"qa", "qb">>, <<"qb">>}
=============================================================================
