--------------------------- MODULE ConcurrencyTrace ---------------------------
(* C02 - trace validation of recorded executions of the real engine             *)
(* (concurrency quotas driven through streams.Stream.ExecuteFlow / OnError on   *)
(* the mock clock) against the property spec ConcurrencyP.                      *)
(*                                                                             *)
(* trace.ndjson: line 1 = configuration, then                                   *)
(*   {"ev":"reset","now":t}                                                     *)
(*   {"ev":"adv","d":d}            clock advanced; the GC passes due have run   *)
(*   {"ev":"req","t":id,"qs":[..],"early":b,"out":..}   request handled alone   *)
(*   {"ev":"resp","t":id} / {"ev":"err","t":id}         response / proxy error  *)
(*   {"ev":"begin","id":i,"op":"req"|"resp"|"err",...} / {"ev":"end","id":i}    *)
(*        operations running concurrently; TLC places each one's linearization  *)
(*        point between its begin and end (Lin); requests judged in mode conc.  *)
(*   {"ev":"storm","ts":[ids],"qs":[..],"adm":[ids]}  simultaneous requests of     *)
(*        many goroutines on one flow; adm = the ids that were admitted           *)
(* Expiry is not observable: TLC places Expire steps wherever the spec allows.  *)
EXTENDS TraceLib, Integers, FiniteSets

Cfg == TraceLog[1]
SeqSet(s) == {s[i] : i \in 1..Len(s)}
Quota == SeqSet(Cfg.quotas)
Parent == Cfg.parent
Max == Cfg.Max
Expiry == Cfg.Expiry
GcPeriod == Cfg.GcPeriod
Txn == SeqSet(Cfg.txns)

VARIABLES now, inflight, deadline, last, l, pend, done

P == INSTANCE ConcurrencyP WITH Leaves <- {}, Steps <- {}, MaxNow <- 1000000000

tvars == <<now, inflight, deadline, last, l, pend, done>>

Ev == TraceLog[l + 1]
Consume(name) == l < TraceLen /\ Ev.ev = name /\ l' = l + 1

TInit == P!Init /\ l = 1 /\ pend = {} /\ done = {}

TReset ==
    /\ Consume("reset") /\ pend = {} /\ done = {}
    /\ now' = Ev.now
    /\ inflight' = [q \in Quota |-> {}]
    /\ deadline' = [q \in Quota |-> [t \in Txn |-> 0]]
    /\ last' = [ev |-> "reset"]
    /\ UNCHANGED <<pend, done>>

TAdv == Consume("adv") /\ pend = {} /\ P!Advance(Ev.d) /\ UNCHANGED <<pend, done>>

TReq == Consume("req") /\ pend = {} /\ P!Request(Ev.t, Ev.qs, Ev.early, Ev.out, "seq") /\ UNCHANGED <<pend, done>>
TResp == Consume("resp") /\ pend = {} /\ P!Response(Ev.t) /\ UNCHANGED <<pend, done>>
TErr == Consume("err") /\ pend = {} /\ P!ProxyError(Ev.t) /\ UNCHANGED <<pend, done>>

\* a storm of simultaneous requests on one flow, recorded as one event (which ids were admitted)
TStorm == Consume("storm") /\ pend = {} /\ P!Storm(SeqSet(Ev.ts), Ev.qs, SeqSet(Ev.adm)) /\ UNCHANGED <<pend, done>>

\* reclaiming an expired slot: only when it changes what the next events may do (keeps the search small)
TExpire == \E q \in Quota : \E t \in inflight[q] : P!Expire(t, q) /\ UNCHANGED <<l, pend, done>>

TBegin ==
    /\ Consume("begin")
    /\ pend' = pend \cup {Ev}
    /\ UNCHANGED <<now, inflight, deadline, last, done>>

TLin == \E p \in pend :
    /\ CASE p.op = "req"  -> P!Request(p.t, p.qs, p.early, p.out, "conc")
         [] p.op = "resp" -> P!Response(p.t)
         [] p.op = "err"  -> P!ProxyError(p.t)
    /\ pend' = pend \ {p}
    /\ done' = done \cup {p.id}
    /\ UNCHANGED l

TEnd ==
    /\ Consume("end") /\ Ev.id \in done
    /\ done' = done \ {Ev.id}
    /\ UNCHANGED <<now, inflight, deadline, last, pend>>

TNext == TReset \/ TAdv \/ TReq \/ TStorm \/ TResp \/ TErr \/ TExpire \/ TBegin \/ TLin \/ TEnd

TraceSpec == TInit /\ [][TNext]_tvars

Bounded == P!Bounded
ExpiryBound == P!ExpiryBound
HWM == Mark(l)
Post == Report
================================================================================
