\* 3 transactions, Max 2, one GC pass (nothing expires yet): all interleavings of requests and releases
CONSTANTS
  Txn = {t1, t2, t3}
  Max = 2
  Expiry = 2
  GcPeriod = 2
  MaxNow = 2
  Restarts = 0
  Variant = "none"
SPECIFICATION ISpec
INVARIANTS BoundedI NoLeakI QuiescentI ExpiryI RegCleanI HeldHasSlotI
PROPERTY OnceOnlyI
VIEW View
SYMMETRY Sym
CHECK_DEADLOCK FALSE
