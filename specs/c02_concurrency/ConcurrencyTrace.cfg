SPECIFICATION TraceSpec
INVARIANTS Bounded ExpiryBound
CONSTRAINT HWM
POSTCONDITION Post
CHECK_DEADLOCK FALSE
