----------------------------- MODULE ConcurrencyI -----------------------------
(* C02 - implementation-shaped specification of one concurrency quota           *)
(*   streams/resources/quota/concurrent_strategy.go  (Inc / Allowed / Dec,      *)
(*        runGC -> checkForExpiredRequests -> validateMemberIntegrity)          *)
(*   streams/lunar-context/memory_state.go  (AtomicSAddWithMaxValuesAllowed,    *)
(*        SMembers, SRem on a []string kept in the shared context)              *)
(*   streams/resources/resource_management.go  (request id -> quotas consulted, *)
(*        OnRequestDrop, OnResponseFinish)                                      *)
(*   streams/stream/stream.go, streams/streams.go  (early response ->           *)
(*        OnRequestDrop, then the response walk incl. QuotaProcessorDec;        *)
(*        OnError -> OnRequestDrop)                                             *)
(*                                                                             *)
(* The member set is a Go slice: `arr` is its backing array (stale values stay  *)
(* behind the length `n`), SRem shifts in place, append reallocates when the    *)
(* capacity is exhausted.  Every mutex-protected section is one atomic step:    *)
(*   request t:  sadd  -> setst (+verdict) -> (held | drop: Dec ; response walk: Dec) *)
(*   Dec:        d1 read the status map / d2 SRem / d3 delete from the map      *)
(*   response and proxy error of a held transaction are separate `enders` that  *)
(*   may run concurrently (Response || OnRequestDrop)                           *)
(*   GC:         g1 snapshot := SMembers, then per member  g2 SRem / g3 delete  *)
(* Variant names a deliberate deviation (non-vacuity runs); "alias_gc" and      *)
(* "first_only"-style defects of the pinned tree are among them.                *)
EXTENDS Integers, Sequences, FiniteSets

CONSTANTS Txn, Max, Expiry, GcPeriod, MaxNow,
          Restarts,   \* how many times an old transaction id may be presented again (a new request with a known id)
          Variant     \* "none" | "alias_gc" | "gc_keeps" | "ge_to_gt" | "dec_wrong" | "no_release" | "no_unregister" | "gc_wrong_key"

Nil == [t |-> "-", exp |-> -1]

VARIABLES
    now,
    arr, n,              \* backing array of the member slice and its length
    areq,                \* [Txn -> "none" | "allowed"]      (allowedReq: status)
    amem,                \* [Txn -> member]                   (allowedReq: member)
    reg,                 \* [Txn -> BOOLEAN]                  (request id -> quota association)
    pc, early,           \* per transaction: control state, early flag
    epc, efound, emem,   \* enders: [Txn -> ["resp","err","drop","walk" -> state]] and their locals
    gpc, gsnap, glen, gi, galias, gitem, gcDue,
    nrestart, admAt,     \* re-presentations so far; instant of the latest admission of each id (history)
    last

ivars == <<now, arr, n, areq, amem, reg, pc, early, epc, efound, emem,
           gpc, gsnap, glen, gi, galias, gitem, gcDue, nrestart, admAt, last>>

Enders == {"resp", "err", "drop", "walk"}

Init ==
    /\ now = 1
    /\ arr = <<>> /\ n = 0
    /\ areq = [t \in Txn |-> "none"]
    /\ amem = [t \in Txn |-> Nil]
    /\ reg = [t \in Txn |-> FALSE]
    /\ pc = [t \in Txn |-> "idle"]
    /\ early = [t \in Txn |-> FALSE]
    /\ epc = [t \in Txn |-> [e \in Enders |-> "idle"]]
    /\ efound = [t \in Txn |-> [e \in Enders |-> FALSE]]
    /\ emem = [t \in Txn |-> [e \in Enders |-> Nil]]
    /\ gpc = "idle" /\ gsnap = <<>> /\ glen = 0 /\ gi = 0 /\ galias = FALSE /\ gitem = Nil /\ gcDue = FALSE
    /\ nrestart = 0 /\ admAt = [t \in Txn |-> 0]
    /\ last = [ev |-> "init"]

Members == {arr[i] : i \in 1..n}
Holds(t) == \E m \in Members : m.t = t

-------------------------------------------------------------------------------
\* the slice operations (memory_state.go)

\* append(set, m): in place while capacity lasts, else a fresh array of doubled capacity
AppendArr(m) ==
    IF n < Len(arr) THEN [arr EXCEPT ![n + 1] = m]
    ELSE LET cap == IF Len(arr) = 0 THEN 1 ELSE 2 * Len(arr) IN
         [i \in 1..cap |-> IF i <= n THEN arr[i] ELSE IF i = n + 1 THEN m ELSE Nil]
Realloc == n >= Len(arr)

\* SRem: append(set[:i], set[i+1:]...) - shifts the tail left inside the same backing array
RemIdx(m) == IF \E i \in 1..n : arr[i] = m THEN CHOOSE i \in 1..n : arr[i] = m /\ \A j \in 1..(i-1) : arr[j] # m ELSE 0
RemArr(i) == [j \in 1..Len(arr) |-> IF j >= i /\ j < n THEN arr[j + 1]
                                  ELSE IF j = n /\ Variant # "alias_gc" THEN Nil   \* (the stale cell is only ever seen through an aliased snapshot)
                                  ELSE arr[j]]

DoSRem(m) ==
    LET i == IF Variant = "dec_wrong" /\ n > 0 /\ last'.ev # "gc" THEN 1 ELSE RemIdx(m) IN
    IF i = 0 THEN UNCHANGED <<arr, n>>
    ELSE arr' = RemArr(i) /\ n' = n - 1

\* a running GC pass keeps the array it took its snapshot from
GcKeepsOld == IF gpc # "idle" /\ galias THEN gsnap' = arr /\ galias' = FALSE ELSE UNCHANGED <<gsnap, galias>>

Full == IF Variant = "ge_to_gt" THEN n > Max ELSE n >= Max

-------------------------------------------------------------------------------
\* a transaction's request.  Steps that touch only the transaction's own entries are folded into
\* the neighbouring critical section (they commute with everything another goroutine can do).

\* what follows the end of ender e of t: the response paths drop the association (OnResponseFinish),
\* a short-circuit continues with its response walk (QuotaProcessorDec), the walk ends the transaction
AfterEnder(t, e, ep) ==
    [ep EXCEPT ![t][e] = "done", ![t]["walk"] = IF e = "drop" THEN "d1" ELSE ep[t]["walk"]]
RegAfter(t, e) == IF e \in {"resp", "walk"} /\ Variant # "no_unregister" THEN [reg EXCEPT ![t] = FALSE] ELSE reg
PcAfter(t, e) == IF e = "walk" THEN [pc EXCEPT ![t] = "ended"] ELSE pc

\* Limiter: GetQuota(quota, request id) ; Inc: AtomicSAddWithMaxValuesAllowed.
\* A full set is the rate-limit verdict: GenerateResponse -> OnRequestDrop (pops the association), then the walk.
SAdd(t, e) ==
    LET m == [t |-> t, exp |-> now + Expiry] IN
    /\ pc[t] = "idle"
    /\ IF areq[t] = "allowed"
       THEN \* Inc: "already processed" (a stale status entry of an earlier transaction with this id);
            \* Allowed answers from that entry: admitted without touching the member set
            /\ pc' = [pc EXCEPT ![t] = IF e THEN "ending" ELSE "held"]
            /\ reg' = IF e THEN reg ELSE [reg EXCEPT ![t] = TRUE]
            /\ epc' = IF e THEN [epc EXCEPT ![t]["drop"] = "d1"] ELSE epc
            /\ last' = [ev |-> "sadd", t |-> t, out |-> IF e THEN "early" ELSE "admit"]
            /\ UNCHANGED <<arr, n, amem, early, gsnap, galias>>
       ELSE IF Full
       THEN /\ pc' = [pc EXCEPT ![t] = "ending"]
            /\ reg' = reg                                   \* registered by GetQuota, popped by OnRequestDrop
            /\ epc' = [epc EXCEPT ![t]["drop"] = IF Variant # "no_release" THEN "d1" ELSE "done",
                                  ![t]["walk"] = IF Variant # "no_release" THEN "idle" ELSE "d1"]
            /\ last' = [ev |-> "sadd", t |-> t, out |-> "refuse"]
            /\ UNCHANGED <<arr, n, amem, early, gsnap, galias>>
       ELSE /\ arr' = AppendArr(m) /\ n' = n + 1
            /\ amem' = [amem EXCEPT ![t] = m]          \* (the member key is a local of Inc until setst)
            /\ early' = [early EXCEPT ![t] = e]
            /\ reg' = [reg EXCEPT ![t] = TRUE]
            /\ pc' = [pc EXCEPT ![t] = "setst"]
            /\ last' = [ev |-> "sadd", t |-> t, out |-> "-"]
            /\ IF Realloc THEN GcKeepsOld ELSE UNCHANGED <<gsnap, galias>>
            /\ UNCHANGED epc
    /\ admAt' = IF areq[t] = "allowed" \/ ~Full THEN [admAt EXCEPT ![t] = now] ELSE admAt
    /\ UNCHANGED <<nrestart, now, areq, efound, emem, gpc, glen, gi, gitem, gcDue>>

\* Inc: setReqStatus(reqAllowed) + member ; Allowed: the status check.
\* Answered early by a later processor: GenerateResponse -> OnRequestDrop, then the walk.
SetSt(t) ==
    LET o == IF early[t] THEN "early" ELSE "admit" IN
    /\ pc[t] = "setst"
    /\ areq' = [areq EXCEPT ![t] = "allowed"]
    /\ early' = [early EXCEPT ![t] = FALSE]
    /\ pc' = [pc EXCEPT ![t] = IF o = "admit" THEN "held" ELSE "ending"]
    /\ IF o = "admit" THEN UNCHANGED <<epc, reg>>
       ELSE /\ reg' = [reg EXCEPT ![t] = FALSE]
            /\ epc' = [epc EXCEPT ![t]["drop"] = IF Variant # "no_release" THEN "d1" ELSE "done",
                                  ![t]["walk"] = IF Variant # "no_release" THEN "idle" ELSE "d1"]
    /\ last' = [ev |-> "setst", t |-> t, out |-> o]
    /\ UNCHANGED <<nrestart, admAt, now, arr, n, amem, efound, emem, gpc, gsnap, glen, gi, galias, gitem, gcDue>>

-------------------------------------------------------------------------------
\* the ways a slot is given back.  Ender e of transaction t:
\*   "drop"  OnRequestDrop after an early / refusing response  (then "walk" follows)
\*   "walk"  the response walk of that short-circuit: QuotaProcessorDec, OnResponseFinish
\*   "resp"  the provider's response: QuotaProcessorDec, OnResponseFinish
\*   "err"   the proxy reported the transaction failed: OnRequestDrop (pops the association first
\*           and releases only if there was one)

StartEnd(t, e) ==
    /\ e \in {"resp", "err"} /\ pc[t] = "held" /\ epc[t][e] = "idle"
    /\ last' = [ev |-> "end-start", t |-> t, e |-> e]
    /\ IF e = "err"
       THEN /\ reg' = [reg EXCEPT ![t] = FALSE]
            /\ epc' = [epc EXCEPT ![t][e] = IF reg[t] /\ Variant # "no_release" THEN "d1" ELSE "done"]
       ELSE /\ UNCHANGED reg
            /\ epc' = [epc EXCEPT ![t][e] = "d1"]
    /\ UNCHANGED <<nrestart, admAt, now, arr, n, areq, amem, pc, early, efound, emem, gpc, gsnap, glen, gi, galias, gitem, gcDue>>

\* Dec step 1: read the status map
D1(t, e) ==
    /\ epc[t][e] = "d1"
    /\ last' = [ev |-> "d1", t |-> t, e |-> e]
    /\ IF areq[t] # "none"
       THEN /\ efound' = [efound EXCEPT ![t][e] = TRUE]
            /\ emem' = [emem EXCEPT ![t][e] = amem[t]]
            /\ epc' = [epc EXCEPT ![t][e] = "d2"]
            /\ UNCHANGED <<reg, pc>>
       ELSE /\ epc' = AfterEnder(t, e, epc) /\ reg' = RegAfter(t, e) /\ pc' = PcAfter(t, e)
            /\ UNCHANGED <<efound, emem>>
    /\ UNCHANGED <<nrestart, admAt, now, arr, n, areq, amem, early, gpc, gsnap, glen, gi, galias, gitem, gcDue>>

\* Dec step 2: SRem of the member read in step 1 (if the status is still `allowed`)
D2(t, e) ==
    /\ epc[t][e] = "d2"
    /\ last' = [ev |-> "d2", t |-> t, e |-> e]
    /\ IF areq[t] = "allowed" THEN DoSRem(emem[t][e]) ELSE UNCHANGED <<arr, n>>
    /\ epc' = [epc EXCEPT ![t][e] = "d3"]
    /\ UNCHANGED <<nrestart, admAt, now, areq, amem, reg, pc, early, efound, emem, gpc, gsnap, glen, gi, galias, gitem, gcDue>>

\* Dec step 3: delete from the status map; the ender is finished
D3(t, e) ==
    /\ epc[t][e] = "d3"
    /\ areq' = [areq EXCEPT ![t] = "none"]
    /\ amem' = [amem EXCEPT ![t] = Nil]
    /\ efound' = [efound EXCEPT ![t][e] = FALSE] /\ emem' = [emem EXCEPT ![t][e] = Nil]   \* (locals die)
    /\ epc' = AfterEnder(t, e, epc) /\ reg' = RegAfter(t, e) /\ pc' = PcAfter(t, e)
    /\ last' = [ev |-> "d3", t |-> t, e |-> e]
    /\ UNCHANGED <<nrestart, admAt, now, arr, n, early, gpc, gsnap, glen, gi, galias, gitem, gcDue>>

-------------------------------------------------------------------------------
\* the GC goroutine

G1 ==   \* allowedRequests := SMembers(...)
    /\ gcDue /\ gpc = "idle"
    /\ gpc' = "iter" /\ gi' = 1 /\ glen' = n
    /\ IF Variant = "alias_gc"
       THEN gsnap' = <<>> /\ galias' = TRUE                     \* the stored slice itself
       ELSE gsnap' = SubSeq(arr, 1, n) /\ galias' = FALSE       \* a copy
    /\ gitem' = Nil
    /\ last' = [ev |-> "gc", step |-> "snapshot"]
    /\ UNCHANGED <<nrestart, admAt, now, arr, n, areq, amem, reg, pc, early, epc, efound, emem, gcDue>>

GItem == IF galias THEN arr[gi] ELSE gsnap[gi]

G2 ==   \* next member: expired? -> SRem
    /\ gpc = "iter"
    /\ last' = [ev |-> "gc", step |-> "item"]
    /\ IF gi > glen
       THEN /\ gpc' = "idle" /\ gcDue' = FALSE /\ gi' = 0
            /\ UNCHANGED <<arr, n, gitem>>
       ELSE LET m == GItem IN
            IF m # Nil /\ now > m.exp /\ Variant # "gc_keeps"
            THEN /\ DoSRem(m) /\ gitem' = m /\ gpc' = "del" /\ UNCHANGED <<gi, gcDue>>
            ELSE /\ gi' = gi + 1 /\ UNCHANGED <<arr, n, gitem, gpc, gcDue>>
    /\ UNCHANGED <<nrestart, admAt, now, areq, amem, reg, pc, early, epc, efound, emem, gsnap, glen, galias>>

G3 ==   \* delete(allowedReq, member.ReqID)
    /\ gpc = "del"
    /\ areq' = IF Variant = "gc_wrong_key" THEN areq ELSE [areq EXCEPT ![gitem.t] = "none"]
    /\ gpc' = "iter" /\ gi' = gi + 1
    /\ last' = [ev |-> "gc", step |-> "del"]
    /\ UNCHANGED <<nrestart, admAt, now, arr, n, amem, reg, pc, early, epc, efound, emem, gsnap, glen, galias, gitem, gcDue>>

\* the id of a transaction that is over (ended, or abandoned and reclaimed after its expiry) is presented again
Over(t) == \/ pc[t] = "ended"
           \/ (pc[t] = "held" /\ (\A e \in Enders : epc[t][e] \in {"idle", "done"})
                /\ ((\E x \in {"resp", "err"} : epc[t][x] = "done") \/ (~Holds(t) /\ now > admAt[t] + Expiry)))
Restart(t) ==
    /\ nrestart < Restarts /\ Over(t)
    /\ gpc = "idle" /\ ~gcDue          \* (assumption) the re-presentation does not race a GC pass
    /\ nrestart' = nrestart + 1
    /\ pc' = [pc EXCEPT ![t] = "idle"]
    /\ epc' = [epc EXCEPT ![t] = [e \in Enders |-> "idle"]]
    /\ efound' = [efound EXCEPT ![t] = [e \in Enders |-> FALSE]]
    /\ emem' = [emem EXCEPT ![t] = [e \in Enders |-> Nil]]
    /\ last' = [ev |-> "restart", t |-> t]
    /\ UNCHANGED <<admAt, now, arr, n, areq, amem, reg, early, gpc, gsnap, glen, gi, galias, gitem, gcDue>>

\* the timer fires every GcPeriod ticks; the clock waits for a pass in progress
Advance ==
    /\ now < MaxNow /\ ~gcDue /\ gpc = "idle"
    /\ \A t \in Txn : pc[t] # "setst"      \* (assumption) the two steps of a request's Inc take less than a tick
    /\ now' = now + 1
    /\ gcDue' = ((now + 1) % GcPeriod = 0)
    /\ last' = [ev |-> "adv"]
    /\ UNCHANGED <<nrestart, admAt, arr, n, areq, amem, reg, pc, early, epc, efound, emem, gpc, gsnap, glen, gi, galias, gitem>>

Next ==
    \/ Advance \/ G1 \/ G2 \/ G3
    \/ \E t \in Txn : \/ \E e \in BOOLEAN : SAdd(t, e)
                      \/ Restart(t)
                      \/ SetSt(t)
                      \/ \E e \in Enders : StartEnd(t, e) \/ D1(t, e) \/ D2(t, e) \/ D3(t, e)

ISpec == Init /\ [][Next]_ivars

-------------------------------------------------------------------------------
\* the property over the implementation state

\* Bounded: never more members than the maximum, no member twice
BoundedI == n <= Max /\ \A i, j \in 1..n : (i # j) => arr[i].t # arr[j].t

\* an ended transaction (every ender that started has finished, at least one has) holds nothing
Quiet(t) == \A e \in Enders : epc[t][e] \in {"idle", "done"}
EndedT(t) == \/ pc[t] = "ended"
             \/ (pc[t] = "held" /\ Quiet(t) /\ \E e \in {"resp", "err"} : epc[t][e] = "done")
NoLeakI == \A t \in Txn : EndedT(t) => ~Holds(t)

\* Quiescent: once every started transaction has ended the quota is empty (a probe is admitted)
QuiescentI == (\A t \in Txn : pc[t] = "idle" \/ EndedT(t)) => n = 0

\* OnceOnly: a member leaves the set only through an end of its own transaction or through the GC after its expiry
OnceOnlyI == [][\A t \in Txn : (Holds(t) /\ ~Holds(t)') =>
                   \/ (last'.ev = "d2" /\ last'.t = t)
                   \/ (last'.ev = "gc" /\ \E m \in Members : m.t = t /\ now > m.exp)]_ivars

\* ExpiryBound: after a completed GC pass no member is left whose expiry lies before the pass
ExpiryI == (~gcDue /\ gpc = "idle") => \A m \in Members : (now - (now % GcPeriod)) <= m.exp

\* an admitted transaction holds a slot until one of its ends starts or its expiry passes
\* (a re-presented id is a new request: it is not admitted on the strength of an old admission)
HeldHasSlotI == \A t \in Txn :
    (pc[t] = "held" /\ (\A e \in Enders : epc[t][e] = "idle") /\ now <= admAt[t] + Expiry) => Holds(t)

\* the association map does not keep ended transactions
RegCleanI == \A t \in Txn : EndedT(t) => ~reg[t]
================================================================================
