-------------------------- MODULE ConcurrencyITrace --------------------------
(* C02 - validation of hook-level recordings against the member-set model of    *)
(* ConcurrencyI: every AtomicSAddWithMaxValuesAllowed / SRem on the in-memory    *)
(* shared state emits, under its mutex, one event                                *)
(*   {"ev":"cq.sadd","q":..,"member":m,"ok":b,"n":len}                           *)
(*   {"ev":"cq.srem","q":..,"member":m,"n":len}                                  *)
(* The set model: sadd succeeds iff fewer than Max members are present and then  *)
(* adds the member; srem removes exactly that member (if present); n is the      *)
(* resulting length.  A mismatch is MODEL-DRIFT, not a violation.                *)
EXTENDS TraceLib, Integers, FiniteSets

Cfg == TraceLog[1]
SeqSet(s) == {s[i] : i \in 1..Len(s)}
Quota == SeqSet(Cfg.quotas)
Max == Cfg.Max

VARIABLES members, l
tvars == <<members, l>>

Ev == TraceLog[l + 1]
Consume(name) == l < TraceLen /\ Ev.ev = name /\ l' = l + 1

TInit == members = [q \in Quota |-> {}] /\ l = 1
TReset == Consume("reset") /\ members' = [q \in Quota |-> {}]
TAdv == Consume("adv") /\ UNCHANGED members

TSAdd ==
    /\ Consume("cq.sadd")
    /\ Ev.ok = (Cardinality(members[Ev.q]) < Max[Ev.q])
    /\ Ev.ok => Ev.member \notin members[Ev.q]
    /\ members' = IF Ev.ok THEN [members EXCEPT ![Ev.q] = @ \cup {Ev.member}] ELSE members
    /\ Ev.n = Cardinality(members'[Ev.q])

TSRem ==
    /\ Consume("cq.srem")
    /\ members' = [members EXCEPT ![Ev.q] = @ \ {Ev.member}]
    /\ Ev.n = Cardinality(members'[Ev.q])

TNext == TReset \/ TAdv \/ TSAdd \/ TSRem
TraceSpec == TInit /\ [][TNext]_tvars
Bounded == \A q \in Quota : Cardinality(members[q]) <= Max[q]
HWM == Mark(l)
Post == Report
================================================================================
