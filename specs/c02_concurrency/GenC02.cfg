CONSTANTS
  Quota = {"qa", "qb", "cc"}
  Parent <- gParent
  Max <- gMax
  Expiry <- gExpiry
  GcPeriod <- gGc
  Txn = {"t0", "t1", "t2", "t3", "t4", "t5"}
  Leaves <- gLeaves
  Steps = {1}
  MaxNow = 1000
  GenDepth = 39
SPECIFICATION GSpec
INVARIANT Emit
CHECK_DEADLOCK FALSE
