SPECIFICATION TraceSpec
INVARIANT Bounded
CONSTRAINT HWM
POSTCONDITION Post
CHECK_DEADLOCK FALSE
