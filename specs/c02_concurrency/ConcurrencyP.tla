----------------------------- MODULE ConcurrencyP -----------------------------
(* C02 - concurrency quotas: property specification (P).                        *)
(*                                                                             *)
(* Observable events only, over transaction ids:                                *)
(*   Request(t, qs, early, out)  transaction t asks for a slot in every quota   *)
(*        of the sequence qs (a Limiter on quota q consults q, Parent[q], ...;  *)
(*        a flow with several Limiters consults their chains one after the      *)
(*        other).  out = "admit"  : a slot is held in every quota of qs;        *)
(*                 out = "early"  : admitted, but a later processor of the flow *)
(*                                  answered it at once - nothing stays held;   *)
(*                 out = "refuse" : the rate-limit verdict - nothing stays held *)
(*   Response(t) / ProxyError(t)  the transaction ended: its slots are free.    *)
(*   Expire(t)   (not observable) the slots of t are reclaimed; possible from   *)
(*        its expiry time on, and time cannot pass beyond expiry + GcPeriod     *)
(*        while t still holds a slot.                                           *)
(*                                                                             *)
(* mode "seq":  the request is handled on its own: it is refused only if one of *)
(*              its quotas has Max transactions in flight.                      *)
(* mode "conc": the request overlapped other operations: only the bound is      *)
(*              required (an admitted request found room in all its quotas).    *)
EXTENDS Integers, Sequences, FiniteSets

CONSTANTS
    Quota,      \* set of quota ids
    Parent,     \* [Quota -> Quota \cup {"-"}]
    Max,        \* [Quota -> Nat]  maximum number of transactions in flight
    Expiry,     \* [Quota -> Nat]  ticks after which a held slot may be reclaimed
    GcPeriod,   \* [Quota -> Nat]  ... and at most this much later it must have been
    Txn,        \* transaction ids
    Leaves,     \* set of sequences of quotas a request may address (model checking / generation only)
    Steps, MaxNow

VARIABLES
    now,
    inflight,   \* [Quota -> SUBSET Txn]
    deadline,   \* [Quota -> [Txn -> instant]]  (meaningful for members of inflight)
    last

vars == <<now, inflight, deadline, last>>

RECURSIVE Chain(_)
Chain(q) == IF Parent[q] = "-" THEN <<q>> ELSE <<q>> \o Chain(Parent[q])

RECURSIVE Chains(_)
Chains(qs) == IF qs = <<>> THEN <<>> ELSE Chain(qs[1]) \o Chains(Tail(qs))

Range(s) == {s[i] : i \in 1..Len(s)}

Init ==
    /\ now = 1
    /\ inflight = [q \in Quota |-> {}]
    /\ deadline = [q \in Quota |-> [t \in Txn |-> 0]]
    /\ last = [ev |-> "init"]

\* time passes; no held slot may outlive expiry + GcPeriod
Advance(d) ==
    /\ d > 0 /\ now + d <= MaxNow
    /\ \A q \in Quota : \A t \in inflight[q] : now + d <= deadline[q][t] + GcPeriod[q]
    /\ now' = now + d
    /\ last' = [ev |-> "adv", d |-> d]
    /\ UNCHANGED <<inflight, deadline>>

Room(q) == Cardinality(inflight[q]) < Max[q]

Request(t, qs, early, out, mode) ==
    LET ch == Chains(qs)  cs == Range(ch) IN
    /\ last' = [ev |-> "req", t |-> t, qs |-> qs, early |-> early, out |-> out, mode |-> mode]
    /\ \A q \in Quota : t \notin inflight[q]         \* (environment) ids are unique: t is not in flight anywhere
    /\ out \in {"admit", "early", "refuse"}
    /\ (out = "early") => early
    /\ (out = "admit") => ~early
    /\ (out # "refuse") => \A q \in cs : Room(q)                 \* Bounded
    /\ (out = "refuse" /\ mode = "seq") => \E q \in cs : ~Room(q)  \* no spurious refusal when handled alone
    /\ IF out = "admit"
       THEN /\ inflight' = [q \in Quota |-> IF q \in cs THEN inflight[q] \cup {t} ELSE inflight[q]]
            /\ deadline' = [q \in Quota |-> IF q \in cs THEN [deadline[q] EXCEPT ![t] = now + Expiry[q]] ELSE deadline[q]]
       ELSE UNCHANGED <<inflight, deadline>>
    /\ UNCHANGED now

\* A storm: the transactions ts ask at the same instant for a slot in every quota of qs; those in adm were admitted
\* (and hold their slots), the others were refused.  Compact form of overlapping Request(.., "conc") steps:
\* only the bound is required - all admitted ones together found room in every quota.
Storm(ts, qs, adm) ==
    LET cs == Range(Chains(qs)) IN
    /\ last' = [ev |-> "storm", ts |-> ts, qs |-> qs, adm |-> adm]
    /\ adm \subseteq ts
    /\ \A t \in ts, q \in Quota : t \notin inflight[q]         \* (environment) ids in flight are distinct
    /\ \A q \in cs : Cardinality(inflight[q]) + Cardinality(adm) <= Max[q]     \* Bounded
    /\ inflight' = [q \in Quota |-> IF q \in cs THEN inflight[q] \cup adm ELSE inflight[q]]
    /\ deadline' = [q \in Quota |-> IF q \in cs THEN [t \in Txn |-> IF t \in adm THEN now + Expiry[q] ELSE deadline[q][t]]
                                   ELSE deadline[q]]
    /\ UNCHANGED now

\* the ways a transaction ends; each frees the slots of t and of nobody else (OnceOnly)
Free(t) == inflight' = [q \in Quota |-> inflight[q] \ {t}]

Response(t) ==
    /\ Free(t) /\ last' = [ev |-> "resp", t |-> t] /\ UNCHANGED <<now, deadline>>

ProxyError(t) ==
    /\ Free(t) /\ last' = [ev |-> "err", t |-> t] /\ UNCHANGED <<now, deadline>>

Expire(t, q) ==
    /\ t \in inflight[q] /\ now >= deadline[q][t]
    /\ inflight' = [inflight EXCEPT ![q] = @ \ {t}]
    /\ last' = [ev |-> "expire", t |-> t, q |-> q]
    /\ UNCHANGED <<now, deadline>>

Next ==
    \/ \E d \in Steps : Advance(d)
    \/ \E t \in Txn, qs \in Leaves, e \in BOOLEAN, out \in {"admit", "early", "refuse"} : Request(t, qs, e, out, "seq")
    \/ \E t \in Txn : Response(t) \/ ProxyError(t)
    \/ \E t \in Txn, q \in Quota : Expire(t, q)

Spec == Init /\ [][Next]_vars

-------------------------------------------------------------------------------
\* The property over P's own variables

Bounded == \A q \in Quota : Cardinality(inflight[q]) <= Max[q]

\* a slot is freed only by an end of its own transaction (response, proxy error, expiry)
OnceOnly == [][\A q \in Quota, t \in Txn :
                 (t \in inflight[q] /\ t \notin inflight'[q]) =>
                     (last'.ev \in {"resp", "err", "expire"} /\ last'.t = t)]_vars

\* after an end event nothing of t stays held
NoLeak == [][(last'.ev \in {"resp", "err"}) => \A q \in Quota : last'.t \notin inflight'[q]]_vars

\* no slot outlives its expiry by more than the collection period
ExpiryBound == \A q \in Quota : \A t \in inflight[q] : now <= deadline[q][t] + GcPeriod[q]

\* handled alone, a request is never refused while every quota it needs has a free slot
\* (in particular: after all transactions ended, a probe is admitted - Quiescent)
Quiescent == [][(last'.ev = "req" /\ last'.mode = "seq" /\ last'.out = "refuse") =>
                  \E q \in Range(Chains(last'.qs)) : Cardinality(inflight[q]) >= Max[q]]_vars
================================================================================
