\* generation + check on a seeded sample (picks.ndjson) of the sets of <= 3 declarations over
\* patterns with <= 2 path segments (+ "/*"), repaired code
CONSTANTS
  MaxBody = 2
  MaxDecl = 3
  MaxUrl = 3
  ReuseOnLookup = FALSE
  FabricatedNorm = FALSE
  RejectCollision = TRUE
  EmptyParam = FALSE
  WildHostCheck = TRUE
  KF_Shadow = TRUE
  Source = "picks"
  NChunks = 64
  EmitPrefix = "s_"
SPECIFICATION Spec
INVARIANTS Accepted OrderIndependent OneReading
CHECK_DEADLOCK FALSE
