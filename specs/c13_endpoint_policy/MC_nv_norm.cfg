\* non-vacuity: lookupNode as it was before the fix (normalised URL and parameters of the abandoned branch on a wildcard fallback)
\* must be refuted
CONSTANTS
  MaxBody = 1
  MaxDecl = 2
  MaxUrl = 2
  ReuseOnLookup = FALSE
  FabricatedNorm = TRUE
  RejectCollision = TRUE
  EmptyParam = FALSE
  WildHostCheck = TRUE
  KF_Shadow = TRUE
  Source = "all"
  NChunks = 8
  EmitPrefix = ""
SPECIFICATION Spec
INVARIANTS Accepted OrderIndependent OneReading
CHECK_DEADLOCK FALSE
