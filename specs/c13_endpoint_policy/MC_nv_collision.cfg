\* non-vacuity: the insert as it was before the fix (a host label and a path segment of the same text share a node)
\* must be refuted
CONSTANTS
  MaxBody = 1
  MaxDecl = 2
  MaxUrl = 2
  ReuseOnLookup = FALSE
  FabricatedNorm = FALSE
  RejectCollision = FALSE
  EmptyParam = FALSE
  WildHostCheck = TRUE
  KF_Shadow = TRUE
  Source = "all"
  NChunks = 8
  EmitPrefix = ""
SPECIFICATION Spec
INVARIANTS Accepted OrderIndependent OneReading
CHECK_DEADLOCK FALSE
