\* non-vacuity: lookupNode as it was before the fix (a path wildcard remembered while host labels are consumed)
\* must be refuted
CONSTANTS
  MaxBody = 1
  MaxDecl = 2
  MaxUrl = 2
  ReuseOnLookup = FALSE
  FabricatedNorm = FALSE
  RejectCollision = TRUE
  EmptyParam = FALSE
  WildHostCheck = FALSE
  KF_Shadow = TRUE
  Source = "all"
  NChunks = 8
  EmitPrefix = ""
SPECIFICATION Spec
INVARIANTS Accepted OrderIndependent OneReading
CHECK_DEADLOCK FALSE
