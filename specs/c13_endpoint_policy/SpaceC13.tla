------------------------------- MODULE SpaceC13 -------------------------------
(* C13 - the bounded input space shared by the exhaustive check (MC_C13) and the case       *)
(* generator (GenC13): declaration sets, declaration orders, requests.                       *)
EXTENDS EndpointPolicyP, EndpointPolicyI, SequencesExt

CONSTANTS MaxBody,   \* pattern: at most MaxBody path segments before an optional "/*"
          MaxDecl,   \* at most MaxDecl declarations in a configuration
          MaxUrl     \* request URL: at most MaxUrl path segments

HostA   == <<"a", "com">>
PLits   == {"x", "y"}              \* literals of patterns
ULits   == {"x", "y", "z"}         \* literals of request URLs ("z" occurs in no pattern)
Methods == {"GET", "POST"}
PN      == <<"p", "q", "r", "id">> \* one parameter name per path position

Named(b) == [i \in 1..Len(b) |-> IF b[i] = PARAM THEN ParamSeg(PN[i]) ELSE b[i]]
Bodies   == {Named(b) : b \in SeqsUpTo(PLits \cup {PARAM}, MaxBody)}
\* ... plus the catch-all "*" (a wildcard written as host label) and two patterns on a host with one more label whose
\* text is also a path literal ("a.com.x" next to "a.com/x": a host label and a path segment of the same text)
Patterns == {Mk(HostA, b) : b \in Bodies} \cup {Mk(HostA, Append(b, WildSeg)) : b \in Bodies}
            \cup {Mk(<<WildSeg>>, <<>>), Mk(<<"a", "com", "x">>, <<>>), Mk(<<"a", "com", "x">>, <<WildSeg>>)}

DeclSeq == SetToSeq({[m |-> m, p |-> p] : m \in Methods, p \in Patterns})
NDecl   == Len(DeclSeq)

\* configurations = strictly increasing index tuples into DeclSeq (one per declaration SET)
Tuples(k) == IF k = 1 THEN {<<i>> : i \in 1..NDecl}
             ELSE IF k = 2 THEN {<<i, j>> : i \in 1..NDecl, j \in 1..NDecl} \cap {t \in (1..NDecl) \X (1..NDecl) : t[1] < t[2]}
             ELSE {t \in (1..NDecl) \X (1..NDecl) \X (1..NDecl) : t[1] < t[2] /\ t[2] < t[3]}
AllTuples == UNION {Tuples(k) : k \in 1..MaxDecl}

\* request URLs: the declared host with every path, plus host-shape variants - one more host label (equal to
\* a path literal) and one label fewer with the missing label as first path segment
HostLong  == <<"a", "com", "x">>
HostShort == <<"a">>
\* ... and degenerate spellings: EMPTY path segments ("a.com//x", "a.com/x//y") - but not at the end, the tree
\* trims trailing slashes: that is another spelling of the shorter URL
Urls == {u \in UrlsOver({HostA}, ULits \cup {""}, MaxUrl) : Len(Path(u)) = 0 \/ Path(u)[Len(Path(u))] # ""}
        \cup UrlsOver({HostLong}, {"x"}, 1)
        \cup {Mk(HostShort, <<"com">> \o s) : s \in SeqsUpTo({"x"}, 1)}
Reqs == {[m |-> m, u |-> u] : m \in Methods, u \in Urls}

\* Plugins of the declarations of a configuration. One mode assignment per configuration, chosen by the
\* index tuple: all "on", or exactly one declaration
\*   "off"   its remedy and its diagnosis are declared but disabled
\*   "none"  it declares no plugin at all
\*   "donly" its remedy is disabled, its diagnosis enabled
RECURSIVE SumIdx(_)
SumIdx(s) == IF Len(s) = 0 THEN 0 ELSE s[1] + SumIdx(Tail(s))
ModeOf(t, i) == LET n == Len(t)  k == SumIdx(t) % (3 * n + 1) IN
                IF k = i THEN "off" ELSE IF k = n + i THEN "none" ELSE IF k = 2 * n + i THEN "donly" ELSE "on"

\* the declarations of a configuration with their identities (id = position in the tuple)
DeclsOf(t) == [i \in 1..Len(t) |-> [m |-> DeclSeq[t[i]].m, p |-> DeclSeq[t[i]].p, id |-> i,
                                     r |-> "d" \o ToString(i), g |-> "g" \o ToString(i),
                                     pl |-> ModeOf(t, i),
                                     re |-> ModeOf(t, i) = "on", ge |-> ModeOf(t, i) \in {"on", "donly"}]]
Orders(k) == Permutations(1..k)
Apply(ds, ord) == [i \in 1..Len(ds) |-> ds[ord[i]]]
================================================================================
