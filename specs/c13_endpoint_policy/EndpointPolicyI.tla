--------------------------- MODULE EndpointPolicyI ---------------------------
(* C13 - implementation-shaped model: a transcription of                                   *)
(*   toolkit-core/urltree  insertWithConvergenceIndication (declaredURL = true, no          *)
(*                         convergence: EndpointTree has assumedPathParamsEnabled = false), *)
(*                         lookupNode / Lookup                                              *)
(*   engine/config         BuildEndpointPolicyTree                                          *)
(*   engine/runner         getRemedies / getDiagnoses                                       *)
(*                                                                                          *)
(* The trie is path-indexed: a node is the sequence of edge labels from the root            *)
(* (literal text, PARAM for the parametric child, "*" for the wildcard child).              *)
(*   nodes  set of node paths             host[n]  Node.IsPartOfHost                        *)
(*   pname[n]  ParametricChild.Name of n  val[n]   Node.Value: 0 = nil, else an address     *)
(* Node values are POINTERS to method maps; the heap  maps[address] = [method -> decl id]   *)
(* makes aliasing (two nodes holding the same map) visible - that is where O5 lives.        *)
(*                                                                                          *)
(* Deviations of the code are named by constants:                                           *)
(*   ReuseOnLookup   TRUE: the method map of a new declaration is the map returned by a     *)
(*                   Lookup of the new URL (code before the fix); FALSE: the map of the     *)
(*                   same declared URL text, else a new one (repaired code)                 *)
(*   FabricatedNorm  TRUE: on a wildcard fallback the normalised URL is built from the      *)
(*                   segments consumed so far and the parameters bound on the abandoned     *)
(*                   branch are returned (code before the fix); FALSE: the path of the      *)
(*                   wildcard node that matched and the parameters bound above it           *)
(*   WildHostCheck   TRUE: a wildcard child written as a path segment is not remembered as  *)
(*                   fallback while a host label is consumed (a path wildcard does not      *)
(*                   swallow host labels; repaired code); FALSE: always (before the fix:    *)
(*                   a.com/* answered for a.com.evil.net/x)                                 *)
(*   EmptyParam      TRUE: the parametric child also takes an EMPTY URL part ("a.com//y" for  *)
(*                   "a.com/{p}/y", p = ""); FALSE: a parameter needs a non-empty segment   *)
(*   RejectCollision TRUE: a declared URL that reaches an existing constant child of the   *)
(*                   other kind (host label vs path segment of the same text: a.com.x vs   *)
(*                   a.com/x) is refused - the configuration is not loaded; FALSE: the     *)
(*                   insert walks into that node (before the fix: both URLs on one node)   *)
EXTENDS UrlPattern, TLC

CONSTANTS ReuseOnLookup, FabricatedNorm, WildHostCheck, EmptyParam, RejectCollision

PARAM  == "{}"
NoNode == <<"-">>

EmptyTree == [nodes |-> {<<>>}, host |-> (<<>> :> FALSE), pname |-> <<>>, val |-> (<<>> :> 0), err |-> FALSE]

HasNode(t, n) == n \in t.nodes
AddNode(t, n, h) == [t EXCEPT !.nodes = @ \cup {n}, !.host = (n :> h) @@ @, !.val = (n :> 0) @@ @]

\* ---- insertWithConvergenceIndication(url, value, declaredURL = true) ------------------
\* (a parameter whose name differs from the existing one is an error in the code; the
\*  input spaces use one name per position, so that branch is not modelled)
Insert(t0, parts, addr) ==
    LET RECURSIVE Go(_, _, _)
        Go(t, i, cur) ==
          IF i > Len(parts) THEN [t EXCEPT !.val = (cur :> addr) @@ @]
          ELSE LET pt == parts[i] IN
            IF IsWild(pt.v) THEN
                \* currentNode.WildcardChild = &Node{...}: always a fresh node
                Go(AddNode(t, Append(cur, "*"), pt.h), i + 1, Append(cur, "*"))
            ELSE IF IsParam(pt.v) THEN
                IF HasNode(t, Append(cur, PARAM)) THEN Go(t, i + 1, Append(cur, PARAM))
                ELSE Go([AddNode(t, Append(cur, PARAM), pt.h) EXCEPT !.pname = (cur :> ParamName(pt.v)) @@ @],
                        i + 1, Append(cur, PARAM))
            ELSE IF HasNode(t, Append(cur, pt.v)) THEN
                     IF RejectCollision /\ t.host[Append(cur, pt.v)] # pt.h THEN [t EXCEPT !.err = TRUE]
                     ELSE Go(t, i + 1, Append(cur, pt.v))
                 ELSE Go(AddNode(t, Append(cur, pt.v), pt.h), i + 1, Append(cur, pt.v))
    IN Go(t0, 1, <<>>)

\* ---- lookupNode ---------------------------------------------------------------------
\* up = the normalised URL built so far, as parts [h, v]; fw / fwUp = remembered wildcard
\* node and (repaired code) the normalised URL that belongs to it
Res(match, node, params, up) == [match |-> match, node |-> node, params |-> params, up |-> up]

LookupNode(t, parts) ==
    LET RECURSIVE Go(_, _, _, _, _, _, _)
        Go(i, cur, params, fw, fwUp, fwPar, up) ==
          LET wc   == Append(cur, "*")
              hasW == HasNode(t, wc)
              wcUp == Append(up, [h |-> t.host[wc], v |-> "*"])
          IN
          IF i > Len(parts) THEN
              IF t.val[cur] # 0 THEN Res(TRUE, cur, params, up)
              ELSE IF hasW THEN Res(TRUE, wc, params, IF FabricatedNorm THEN up ELSE wcUp)
              ELSE IF fw # NoNode THEN
                  IF FabricatedNorm THEN Res(TRUE, fw, params, up) ELSE Res(TRUE, fw, fwPar, fwUp)
              ELSE Res(FALSE, cur, params, up)
          ELSE
            LET pt   == parts[i]
                remW == hasW /\ (~WildHostCheck \/ t.host[wc] \/ ~pt.h)
                fw2  == IF remW THEN wc ELSE fw
                fwU2 == IF remW THEN wcUp ELSE fwUp
                fwP2 == IF remW THEN params ELSE fwPar
                cc   == Append(cur, pt.v)
                pc   == Append(cur, PARAM)
            IN
            IF IsLit(pt.v) /\ HasNode(t, cc) /\ t.host[cc] = pt.h THEN
                Go(i + 1, cc, params, fw2, fwU2, fwP2, Append(up, pt))
            ELSE IF HasNode(t, pc) /\ t.host[pc] = pt.h /\ (EmptyParam \/ pt.v # "") THEN
                Go(i + 1, pc,
                   IF IsParam(pt.v) THEN params
                   ELSE {q \in params : q[1] # t.pname[cur]} \cup {<<t.pname[cur], pt.v>>},
                   fw2, fwU2, fwP2, Append(up, [h |-> pt.h, v |-> ParamSeg(t.pname[cur])]))
            ELSE IF IsParam(pt.v) THEN Res(FALSE, cur, params, up)
            ELSE IF fw2 # NoNode THEN
                IF FabricatedNorm THEN Res(TRUE, fw2, params, Append(up, [h |-> pt.h, v |-> "*"]))
                ELSE Res(TRUE, fw2, fwP2, fwU2)
            ELSE Res(FALSE, cur, params, up)
    IN Go(1, <<>>, {}, NoNode, <<>>, {}, <<>>)

\* text of a normalised URL: delimiter "." before host parts, "/" before path parts, trimmed
RECURSIVE RenderParts(_)
RenderParts(up) == IF Len(up) = 0 THEN ""
                   ELSE IF Len(up) = 1 THEN up[1].v
                   ELSE RenderParts(SubSeq(up, 1, Len(up) - 1)) \o (IF up[Len(up)].h THEN "." ELSE "/") \o up[Len(up)].v

\* ---- BuildEndpointPolicyTree ----------------------------------------------------------
\* ds: the declaration list, records [m, p, id]; state = [t, maps] (maps: address -> [method -> id])
BuildStep(st, ds, k) ==
    LET d     == ds[k]
        parts == Parts(d.p)
        lk    == LookupNode(st.t, parts)
        same  == {j \in 1..(k - 1) : ds[j].p = d.p}
        reuse == IF ReuseOnLookup THEN lk.match ELSE same # {}
        addr  == IF reuse
                 THEN (IF ReuseOnLookup THEN st.t.val[lk.node]
                       ELSE st.addrOf[CHOOSE j \in same : TRUE])
                 ELSE Len(st.maps) + 1
        maps2 == IF reuse THEN [st.maps EXCEPT ![addr] = (d.m :> d.id) @@ @]
                 ELSE Append(st.maps, (d.m :> d.id))
    IN [t |-> Insert(st.t, parts, addr), maps |-> maps2, addrOf |-> (k :> addr) @@ st.addrOf]

RECURSIVE BuildFrom(_, _, _)
BuildFrom(st, ds, k) == IF k > Len(ds) \/ st.t.err THEN st ELSE BuildFrom(BuildStep(st, ds, k), ds, k + 1)
Rejected(st) == st.t.err
Build(ds) == BuildFrom([t |-> EmptyTree, maps |-> <<>>, addrOf |-> <<>>], ds, 1)

\* ---- getRemedies / getDiagnoses (one enabled remedy and one diagnosis per declaration) ----
\* result: the declaration id selected (0 = none), normalised URL text, parameters
Select(st, m, u) ==
    LET lk == LookupNode(st.t, Parts(u)) IN
    IF lk.match /\ m \in DOMAIN st.maps[st.t.val[lk.node]]
    THEN [id |-> st.maps[st.t.val[lk.node]][m], norm |-> RenderParts(lk.up), params |-> lk.params]
    ELSE [id |-> 0, norm |-> "", params |-> {}]

\* the outcome in the vocabulary of EndpointPolicyP, decls = the declarations with names
IOut(st, decls, m, u) ==
    LET s  == Select(st, m, u)
        l  == LookupNode(st.t, Parts(u))
        lk == IF l.match THEN [match |-> TRUE, norm |-> RenderParts(l.up), params |-> l.params]
              ELSE [match |-> FALSE, norm |-> "", params |-> {}]
    IN
    IF s.id = 0 THEN [sel |-> {}, dsel |-> {}, lk |-> lk]
    ELSE LET d == CHOOSE d \in decls : d.id = s.id IN
         \* appendEndpointRemedies / appendEndpointDiagnoses: enabled plugins only
         [sel  |-> IF d.re THEN {[r |-> d.r, norm |-> s.norm, params |-> s.params]} ELSE {},
          dsel |-> IF d.ge THEN {[r |-> d.g, norm |-> s.norm, params |-> {}]} ELSE {},
          lk   |-> lk]
================================================================================
