-------------------------------- MODULE MC_C13 --------------------------------
(* C13 - exhaustive check  I => P  over a bounded input space and, in the same run, the     *)
(* generation of the cases for the real code.                                                *)
(*                                                                                          *)
(* For every declaration set (PickSet), every declaration order and every request the       *)
(* outcome of the implementation-shaped model (EndpointPolicyI) is computed and judged by    *)
(* the property spec (EndpointPolicyP.Verdict); all orders must give the same outcome.       *)
(* The per-set result is kept in `sum` (the invariants read it) and, when EmitPrefix # "",   *)
(* the whole group - declarations, orders, requests, the model's outcome and the property's  *)
(* verdict per (order, request) - is written to <EmitPrefix><i>_<j>_<k>.json for the         *)
(* executor.  A `chunk` level between the initial state and the sets lets TLC's workers      *)
(* share the evaluation (the worker that expands a state evaluates its successors).          *)
(*                                                                                          *)
(* Source = "all": every set of 1..MaxDecl declarations; "picks": the index tuples listed    *)
(* in <EmitPrefix>picks.ndjson (a seeded sample of a larger space, chosen by the driver).                *)
EXTENDS SpaceC13, Json

CONSTANTS KF_Shadow,   \* TRUE: the recorded finding "best pattern shadowed" is tolerated
          Source,      \* "all" | "picks"
          NChunks,
          EmitPrefix   \* "" = do not write case files

Picks  == ndJsonDeserialize(EmitPrefix \o "picks.ndjson")
TupleSource == IF Source = "all" THEN AllTuples ELSE {Picks[i] : i \in 1..Len(Picks)}

ChunkOf(t) == SumIdx(t) % NChunks

ReqSeq == SetToSeq(Reqs)

\* JSON-friendly form of an outcome
SelJ(S)  == SetToSeq({[r |-> s.r, norm |-> s.norm, params |-> SetToSeq(s.params)] : s \in S})
OutJ(o, v, cls) == [sel |-> SelJ(o.sel), dsel |-> SelJ(o.dsel), v |-> v, cls |-> SetToSeq(cls),
                    lk |-> [match |-> o.lk.match, norm |-> o.lk.norm, params |-> SetToSeq(o.lk.params)]]

\* input class of a case (for the coverage report of the driver; not part of any verdict): which kind of
\* declared pattern the model selected and whether the two readings of "most specific" differ
Classes(D, m, u, o) ==
    (IF o.sel = {} THEN {"none"} ELSE
       UNION {LET P == {d.p : d \in {e \in D : Render(e.p) = s.norm}} IN
              UNION {(IF EndsWild(p) THEN (IF MatchesStrictX(p, u) THEN {"wild-tail"} ELSE {"wild-zero"})
                      ELSE IF ParamPositions(p) # {} THEN {"param"} ELSE {"exact-literal"})
                     \cup (IF ParamPositions(p) # {} /\ EndsWild(p) THEN {"param+wild"} ELSE {}) : p \in P}
              : s \in o.sel})
    \cup (IF WinAll(D, m, u, 0) # WinOwn(D, m, u, 0) THEN {"method-hidden"} ELSE {})
    \cup (IF Cardinality({d \in D : MatchesX(d.p, u)}) >= 2 THEN {"overlap"} ELSE {})
    \cup (IF \E d \in WinAll(D, m, u, 0) \cup WinOwn(D, m, u, 0) : ~d.re THEN {"winner-disabled"} ELSE {})
    \cup (IF \E i \in 1..Len(Path(u)) : Path(u)[i] = "" THEN
             {"empty-segment"} \cup (IF o.sel # {} \/ o.lk.match THEN {"empty-segment-matched"} ELSE {}) ELSE {})
    \cup (IF Len(Host(u)) # 2 /\ \E d \in D : Matches(d.p, u) /\ ~MatchesX(d.p, u) THEN {"host-shape"} ELSE {})

Group(t) ==
    LET ds   == DeclsOf(t)
        D    == Range(ds)
        ords == SetToSeq(Orders(Len(t)))
    IN [tup    |-> t,
        decls  |-> [i \in 1..Len(ds) |-> [m |-> ds[i].m, h |-> Host(ds[i].p), p |-> Path(ds[i].p),
                                          t |-> ds[i].id, r |-> ds[i].r, g |-> ds[i].g, pl |-> ds[i].pl]],
        orders |-> ords,
        reqs   |-> [i \in 1..Len(ReqSeq) |-> [m |-> ReqSeq[i].m, h |-> Host(ReqSeq[i].u), p |-> Path(ReqSeq[i].u),
                                               \* how many declared patterns match this URL (overlap measure)
                                               nm |-> Cardinality({d \in D : MatchesX(d.p, ReqSeq[i].u)})]],
        exp    |-> [oi \in 1..Len(ords) |->
                     LET b == Build(Apply(ds, ords[oi])) IN
                     [ri \in 1..Len(ReqSeq) |->
                        LET o == IOut(b, D, ReqSeq[ri].m, ReqSeq[ri].u)
                        IN  OutJ(o, Verdict(D, ReqSeq[ri].m, ReqSeq[ri].u, o), Classes(D, ReqSeq[ri].m, ReqSeq[ri].u, o))]]]

Count(g, v) == Cardinality({<<oi, ri>> \in (1..Len(g.orders)) \X (1..Len(g.reqs)) : g.exp[oi][ri].v = v})
Summary(g) ==
    [bad    |-> Count(g, "bad"),
     shadow |-> Count(g, "shadow"),
     oi     |-> \A o1, o2 \in 1..Len(g.orders) : \A ri \in 1..Len(g.reqs) :
                   /\ Range(g.exp[o1][ri].sel) = Range(g.exp[o2][ri].sel)
                   /\ Range(g.exp[o1][ri].dsel) = Range(g.exp[o2][ri].dsel)
                   /\ g.exp[o1][ri].lk.match = g.exp[o2][ri].lk.match /\ g.exp[o1][ri].lk.norm = g.exp[o2][ri].lk.norm
                   /\ Range(g.exp[o1][ri].lk.params) = Range(g.exp[o2][ri].lk.params),
     nsel   |-> Cardinality({<<oi, ri>> \in (1..Len(g.orders)) \X (1..Len(g.reqs)) : Len(g.exp[oi][ri].sel) > 0}),
     ncases |-> Len(g.orders) * Len(g.reqs)]

FileOf(t) == EmitPrefix \o ToString(t[1])
             \o (IF Len(t) >= 2 THEN "_" \o ToString(t[2]) ELSE "")
             \o (IF Len(t) >= 3 THEN "_" \o ToString(t[3]) ELSE "") \o ".json"

Evaluate(t) == LET g == Group(t) IN
               IF EmitPrefix = "" \/ JsonSerialize(FileOf(t), g) THEN Summary(g) ELSE Summary(g)

VARIABLES phase, chunk, tup, sum
vars == <<phase, chunk, tup, sum>>

NoSum == [bad |-> 0, shadow |-> 0, oi |-> TRUE, nsel |-> 0, ncases |-> 0]

Init == phase = "start" /\ chunk = -1 /\ tup = <<>> /\ sum = NoSum

PickChunk == /\ phase = "start"
             /\ \E c \in 0..(NChunks - 1) : chunk' = c
             /\ phase' = "chunk" /\ UNCHANGED <<tup, sum>>

PickSet == /\ phase = "chunk"
           /\ \E t \in {x \in TupleSource : ChunkOf(x) = chunk} :
                /\ tup' = t
                /\ sum' = Evaluate(t)
           /\ phase' = "set" /\ UNCHANGED chunk

Next == PickChunk \/ PickSet
Spec == Init /\ [][Next]_vars

Accepted         == sum.bad = 0 /\ (KF_Shadow \/ sum.shadow = 0)
OrderIndependent == sum.oi

\* witnesses (expected to be violated: they show that the interesting cases are in the space)
NoSelection == sum.nsel = 0
NoShadow    == sum.shadow = 0
================================================================================
