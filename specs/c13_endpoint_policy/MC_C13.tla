-------------------------------- MODULE MC_C13 --------------------------------
(* C13 - exhaustive check  I => P  over a bounded input space and, in the same run, the     *)
(* generation of the cases for the real code.                                                *)
(*                                                                                          *)
(* For every declaration set (PickSet), every declaration order and every request the       *)
(* outcome of the implementation-shaped model (EndpointPolicyI) is computed and judged by    *)
(* the property spec (EndpointPolicyP.Verdict); all orders must give the same outcome.       *)
(* The per-set result is kept in `sum` (the invariants read it) and, when EmitPrefix # "",   *)
(* the whole group - declarations, orders, requests, the model's outcome and the property's  *)
(* verdict per (order, request) - is written to <EmitPrefix><i>_<j>_<k>.json for the         *)
(* executor.  A `chunk` level between the initial state and the sets lets TLC's workers      *)
(* share the evaluation (the worker that expands a state evaluates its successors).          *)
(*                                                                                          *)
(* Source = "all": every set of 1..MaxDecl declarations; "picks" (or "picks+sameurl"): the index tuples listed    *)
(* in <EmitPrefix>picks.ndjson (a seeded sample of a larger space, chosen by the driver).                *)
EXTENDS SpaceC13, Json

CONSTANTS KF_Shadow,   \* TRUE: the recorded finding "best pattern shadowed" is tolerated
          Source,      \* "all" | "picks"
          NChunks,
          EmitPrefix   \* "" = do not write case files

Picks  == ndJsonDeserialize(EmitPrefix \o "picks.ndjson")
\* "picks+sameurl": the picks and, coverage-directed, EVERY set of 3 declarations in which two declare the same URL for
\* different methods (their method map is shared: what a third, overlapping declaration does to it is order-sensitive)
SameUrl3 == {t \in Tuples(3) : \E i, j \in 1..3 : i < j /\ DeclSeq[t[i]].p = DeclSeq[t[j]].p}
TupleSource == IF Source = "all" THEN AllTuples
               ELSE {Picks[i] : i \in 1..Len(Picks)} \cup (IF Source = "picks+sameurl" THEN SameUrl3 ELSE {})

ChunkOf(t) == SumIdx(t) % NChunks

ReqSeq == SetToSeq(Reqs)

\* JSON-friendly form of an outcome
SelJ(S)  == SetToSeq({[r |-> s.r, norm |-> s.norm, params |-> SetToSeq(s.params)] : s \in S})
OutJ(o, am, sm, cls) ==
                   [sel |-> SelJ(o.sel), dsel |-> SelJ(o.dsel), cls |-> SetToSeq(cls),
                    \* the readings under which the property accepts this outcome / accepts it or puts it in the shadow class
                    am |-> SetToSeq(am), sm |-> SetToSeq(sm),
                    v |-> IF am # {} THEN "ok" ELSE IF sm # {} THEN "shadow" ELSE "bad",
                    lk |-> [match |-> o.lk.match, norm |-> o.lk.norm, params |-> SetToSeq(o.lk.params)]]

\* input class of a case (for the coverage report of the driver; not part of any verdict): which kind of
\* declared pattern the model selected and whether the two readings of "most specific" differ
Classes(D, m, u, o) ==
    (IF o.sel = {} THEN {"none"} ELSE
       UNION {LET P == {d.p : d \in {e \in D : Render(e.p) = s.norm}} IN
              UNION {(IF EndsWild(p) THEN (IF MatchesStrictX(p, u) THEN {"wild-tail"} ELSE {"wild-zero"})
                      ELSE IF ParamPositions(p) # {} THEN {"param"} ELSE {"exact-literal"})
                     \cup (IF ParamPositions(p) # {} /\ EndsWild(p) THEN {"param+wild"} ELSE {}) : p \in P}
              : s \in o.sel})
    \cup (IF WinAll(D, m, u, 0) # WinOwn(D, m, u, 0) THEN {"method-hidden"} ELSE {})
    \cup (IF Cardinality({d \in D : MatchesX(d.p, u)}) >= 2 THEN {"overlap"} ELSE {})
    \cup (IF \E d \in WinAll(D, m, u, 0) \cup WinOwn(D, m, u, 0) : ~d.re THEN {"winner-disabled"} ELSE {})
    \cup (IF \E i \in 1..Len(Path(u)) : Path(u)[i] = "" THEN
             {"empty-segment"} \cup (IF o.sel # {} \/ o.lk.match THEN {"empty-segment-matched"} ELSE {}) ELSE {})
    \cup (IF Len(Host(u)) # 2 /\ \E d \in D : Matches(d.p, u) /\ ~MatchesX(d.p, u) THEN {"host-shape"} ELSE {})

Group(t) ==
    LET ds   == DeclsOf(t)
        D    == Range(ds)
        ords == SetToSeq(Orders(Len(t)))
    IN [tup    |-> t,
        decls  |-> [i \in 1..Len(ds) |-> [m |-> ds[i].m, h |-> Host(ds[i].p), p |-> Path(ds[i].p),
                                          t |-> ds[i].id, r |-> ds[i].r, g |-> ds[i].g, pl |-> ds[i].pl]],
        orders |-> ords,
        reqs   |-> [i \in 1..Len(ReqSeq) |-> [m |-> ReqSeq[i].m, h |-> Host(ReqSeq[i].u), p |-> Path(ReqSeq[i].u),
                                               \* how many declared patterns match this URL (overlap measure)
                                               nm |-> Cardinality({d \in D : MatchesX(d.p, ReqSeq[i].u)})]],
        exp    |-> [oi \in 1..Len(ords) |->
                     LET b == Build(Apply(ds, ords[oi])) IN
                     \* rej: the loader refuses the configuration in this order (no outcome to judge)
                     [rej  |-> Rejected(b),
                      outs |-> IF Rejected(b) THEN <<>> ELSE
                        [ri \in 1..Len(ReqSeq) |->
                        LET o == IOut(b, D, ReqSeq[ri].m, ReqSeq[ri].u)
                            am == AM(D, ReqSeq[ri].m, ReqSeq[ri].u, o)
                            \* (the shadow class only matters when no reading accepts outright)
                            sm == IF am = 0..3 THEN am ELSE SM(D, ReqSeq[ri].m, ReqSeq[ri].u, o)
                        IN  OutJ(o, am, sm, Classes(D, ReqSeq[ri].m, ReqSeq[ri].u, o))]]]]

Live(g) == {oi \in 1..Len(g.orders) : ~g.exp[oi].rej}
Cases(g) == Live(g) \X (1..Len(g.reqs))
Count(g, v) == Cardinality({c \in Cases(g) : g.exp[c[1]].outs[c[2]].v = v})
RECURSIVE Meet(_, _)
Meet(S, acc) == IF S = {} THEN acc ELSE LET c == CHOOSE c \in S : TRUE IN Meet(S \ {c}, acc \cap c)
Summary(g) ==
    [bad    |-> Count(g, "bad"),
     shadow |-> Count(g, "shadow"),
     oi     |-> /\ \A o1, o2 \in 1..Len(g.orders) : g.exp[o1].rej = g.exp[o2].rej
                /\ \A o1, o2 \in Live(g) : \A ri \in 1..Len(g.reqs) :
                   /\ Range(g.exp[o1].outs[ri].sel) = Range(g.exp[o2].outs[ri].sel)
                   /\ Range(g.exp[o1].outs[ri].dsel) = Range(g.exp[o2].outs[ri].dsel)
                   /\ g.exp[o1].outs[ri].lk.match = g.exp[o2].outs[ri].lk.match /\ g.exp[o1].outs[ri].lk.norm = g.exp[o2].outs[ri].lk.norm
                   /\ Range(g.exp[o1].outs[ri].lk.params) = Range(g.exp[o2].outs[ri].lk.params),
     nsel   |-> Cardinality({c \in Cases(g) : Len(g.exp[c[1]].outs[c[2]].sel) > 0}),
     \* the readings under which EVERY outcome of this configuration is accepted (or in the tolerated shadow class)
     modes  |-> Meet({Range(IF KF_Shadow THEN g.exp[c[1]].outs[c[2]].sm ELSE g.exp[c[1]].outs[c[2]].am) : c \in Cases(g)}, 0..3),
     nrej   |-> Len(g.orders) - Cardinality(Live(g)),
     ncases |-> Cardinality(Cases(g))]

FileOf(t) == EmitPrefix \o ToString(t[1])
             \o (IF Len(t) >= 2 THEN "_" \o ToString(t[2]) ELSE "")
             \o (IF Len(t) >= 3 THEN "_" \o ToString(t[3]) ELSE "") \o ".json"

Evaluate(t) == LET g == Group(t) IN
               IF EmitPrefix = "" \/ JsonSerialize(FileOf(t), g) THEN Summary(g) ELSE Summary(g)

VARIABLES phase, chunk, tup, sum
vars == <<phase, chunk, tup, sum>>

NoSum == [bad |-> 0, shadow |-> 0, oi |-> TRUE, nsel |-> 0, modes |-> 0..3, nrej |-> 0, ncases |-> 0]

Init == phase = "start" /\ chunk = -1 /\ tup = <<>> /\ sum = NoSum

PickChunk == /\ phase = "start"
             /\ \E c \in 0..(NChunks - 1) : chunk' = c
             /\ phase' = "chunk" /\ UNCHANGED <<tup, sum>>

PickSet == /\ phase = "chunk"
           /\ \E t \in {x \in TupleSource : ChunkOf(x) = chunk} :
                /\ tup' = t
                /\ sum' = Evaluate(t)
           /\ phase' = "set" /\ UNCHANGED chunk

Next == PickChunk \/ PickSet
Spec == Init /\ [][Next]_vars

Accepted         == sum.bad = 0 /\ (KF_Shadow \/ sum.shadow = 0)
OrderIndependent == sum.oi
\* the modelled implementation is right under ONE reading everywhere: the zero-tail wildcard matches, a parameter needs a
\* non-empty segment (reading 0)
OneReading       == 0 \in sum.modes

\* witnesses (expected to be violated: they show that the interesting cases are in the space)
NoSelection == sum.nsel = 0
NoShadow    == sum.shadow = 0
================================================================================
