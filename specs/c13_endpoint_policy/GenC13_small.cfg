\* seeded sample (q_picks.ndjson) of the sets of 3 declarations over patterns with <= 1 path segment (+ "/*"), repaired code
CONSTANTS
  MaxBody = 1
  MaxDecl = 3
  MaxUrl = 2
  ReuseOnLookup = FALSE
  FabricatedNorm = FALSE
  RejectCollision = TRUE
  EmptyParam = FALSE
  WildHostCheck = TRUE
  KF_Shadow = TRUE
  Source = "picks+sameurl"
  NChunks = 32
  EmitPrefix = "q_"
SPECIFICATION Spec
INVARIANTS Accepted OrderIndependent OneReading
CHECK_DEADLOCK FALSE
