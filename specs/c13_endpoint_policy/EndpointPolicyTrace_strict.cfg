CONSTANTS
  ModeSet = {0, 1, 2, 3}
  TolerateShadow = FALSE
SPECIFICATION TraceSpec
CONSTRAINT HWM
POSTCONDITION Post
CHECK_DEADLOCK FALSE
