\* quick: every set of <= 3 declarations over patterns with <= 1 path segment (+ "/*"), repaired code
CONSTANTS
  MaxBody = 1
  MaxDecl = 3
  MaxUrl = 2
  ReuseOnLookup = FALSE
  FabricatedNorm = FALSE
  EmptyParam = FALSE
  WildHostCheck = TRUE
  KF_Shadow = TRUE
  Source = "all"
  NChunks = 32
  EmitPrefix = "g_"
SPECIFICATION Spec
INVARIANTS Accepted OrderIndependent
CHECK_DEADLOCK FALSE
