\* non-vacuity: BuildEndpointPolicyTree as it was before the fix (method map found by a Lookup of the new URL)
\* must be refuted
CONSTANTS
  MaxBody = 1
  MaxDecl = 2
  MaxUrl = 2
  ReuseOnLookup = TRUE
  FabricatedNorm = FALSE
  EmptyParam = FALSE
  WildHostCheck = TRUE
  KF_Shadow = TRUE
  Source = "all"
  NChunks = 8
  EmitPrefix = ""
SPECIFICATION Spec
INVARIANTS Accepted OrderIndependent
CHECK_DEADLOCK FALSE
