\* generation + check on a seeded sample (picks.ndjson) of the sets of <= 3 declarations over
\* patterns with <= 3 path segments, request URLs with <= 4 segments (+ "/*"), repaired code
CONSTANTS
  MaxBody = 3
  MaxDecl = 3
  MaxUrl = 4
  ReuseOnLookup = FALSE
  FabricatedNorm = FALSE
  RejectCollision = TRUE
  EmptyParam = FALSE
  WildHostCheck = TRUE
  KF_Shadow = TRUE
  Source = "picks"
  NChunks = 64
  EmitPrefix = "t_"
SPECIFICATION Spec
INVARIANTS Accepted OrderIndependent OneReading
CHECK_DEADLOCK FALSE
