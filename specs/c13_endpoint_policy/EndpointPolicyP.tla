--------------------------- MODULE EndpointPolicyP ---------------------------
(* C13 - property specification (the statement of properties.jsonl, executable).           *)
(*                                                                                          *)
(* Declarations D: a set of records [m, p, r, g, re, ge]                                    *)
(*     m method, p pattern (UrlPattern: <<host, path>>), r / g = name of the remedy /       *)
(*     diagnosis declared there (names identify the declaration), re / ge = that remedy /   *)
(*     diagnosis is declared AND enabled.  A declaration whose plugins are all disabled, or  *)
(*     that declares no plugin at all, is still a declared endpoint: it takes part in       *)
(*     "most specific declared pattern", it just has nothing to apply.                      *)
(* Request (m, u).  Observed outcome: [sel, dsel, lk]; sel / dsel = the scoped remedies /    *)
(* diagnoses the dispatcher selected: sets of records [r, norm, params]                      *)
(*     r name, norm = reported normalised URL (text), params = set of <<name, value>>;       *)
(* lk = [match, norm, params]: what the policy tree's Lookup reports for the URL alone.       *)
(*                                                                                          *)
(* Accept(D, m, u, out) is TRUE exactly for the outcomes the statement permits:             *)
(*   OnlyOwn   every selected name is declared (enabled) for method m on a pattern          *)
(*             matching u                                                                   *)
(*   BestWins  the selected names are the enabled ones of the most specific matching        *)
(*             pattern. The statement does not say whether "most specific" ranges over the  *)
(*             patterns declared for the request's method or over all declared patterns     *)
(*             (then a more specific pattern declared for another method only hides the     *)
(*             less specific one): both readings are accepted.                              *)
(*   NormOK    the reported normalised URL is (the text of) a declared pattern matching u   *)
(*   ParamsOK  the reported path parameters are u's segments at that pattern's parameters   *)
(* Matching is UrlPattern!MatchesWX: a wildcard written as a path segment stands for path   *)
(* segments only ("a.com/*" does not match "a.com.evil.net/x").                              *)
(* Whether "a.com/x/*" matches "a.com/x" (wildcard facing no segment) is not fixed by the   *)
(* statement, nor whether a parameter may stand for an empty segment: an outcome is         *)
(* accepted if it is right under one combination of the readings, consistently for the      *)
(* whole outcome.  Empty segments are segments: "a.com//y" is not "a.com/y".                *)
(* Order independence is a relation between outcomes (EndpointPolicyTrace / MC_C13).        *)
EXTENDS UrlPattern

\* mt encodes the two points the statement leaves open: mt % 2 = how many segments a trailing wildcard needs at
\* least (0: "a.com/x/*" matches "a.com/x"), mt >= 2 = a parameter may stand for an EMPTY segment ("a.com//y" for
\* "a.com/{p}/y").  A URL is its segment sequence, empty segments included: "a.com//y" has two path segments and
\* is not "a.com/y".
ParamFacesEmpty(p, u) == \E i \in ParamPositions(p) : i <= NParts(u) /\ Parts(u)[i].v = ""
M(p, u, mt) == MatchesWX(p, u, mt % 2) /\ (mt >= 2 \/ ~ParamFacesEmpty(p, u))

DeclsFor(D, m, u, mt)   == {d \in D : d.m = m /\ M(d.p, u, mt)}
PatsMatching(D, u, mt)  == {d.p : d \in {e \in D : M(e.p, u, mt)}}

\* winners under the two readings of "most specific declared pattern"
WinAll(D, m, u, mt) == {d \in DeclsFor(D, m, u, mt) : d.p \in MostSpecific(PatsMatching(D, u, mt), u)}
WinOwn(D, m, u, mt) == LET O == DeclsFor(D, m, u, mt) IN {d \in O : d.p \in MostSpecific({e.p : e \in O}, u)}

\* the names a set of declarations contributes: remedies ("r") or diagnoses ("g"), enabled ones only
Names(S, k) == IF k = "r" THEN {d.r : d \in {e \in S : e.re}} ELSE {d.g : d \in {e \in S : e.ge}}

NormOK(D, u, mt, s)   == \E d \in D : Render(d.p) = s.norm /\ M(d.p, u, mt)
ParamsOK(D, u, mt, s) == \E d \in D : Render(d.p) = s.norm /\ M(d.p, u, mt) /\ s.params = ParamPairs(d.p, u)

\* what EndpointPolicyTree.Lookup itself reports for the URL (whatever the method): [match, norm, params]
LookupOK(D, u, mt, lk) == lk.match => ParamsOK(D, u, mt, lk)

AcceptW(D, m, u, out, mt) ==
    LET own  == DeclsFor(D, m, u, mt)
        wa   == {d \in own : d.p \in MostSpecific(PatsMatching(D, u, mt), u)}
        wo   == {d \in own : d.p \in MostSpecific({e.p : e \in own}, u)}
        rn   == {s.r : s \in out.sel}
        gn   == {s.r : s \in out.dsel}
    IN
    /\ rn \subseteq Names(own, "r")                                 \* OnlyOwn
    /\ rn = Names(wa, "r") \/ rn = Names(wo, "r")                   \* BestWins
    /\ \A s \in out.sel : ParamsOK(D, u, mt, s)                     \* NormOK /\ ParamsOK
    /\ gn \subseteq Names(own, "g")
    /\ gn = Names(wa, "g") \/ gn = Names(wo, "g")
    /\ \A s \in out.dsel : NormOK(D, u, mt, s)
    /\ LookupOK(D, u, mt, out.lk)

\* the empty-segment reading only matters for a URL that has one
Modes(u) == IF \E i \in 1..NParts(u) : Parts(u)[i].v = "" THEN 0..3 ELSE 0..1
Accept(D, m, u, out) == \E mt \in Modes(u) : AcceptW(D, m, u, out, mt)

-------------------------------------------------------------------------------
(* Known-finding class "best pattern shadowed" (recorded with bin/kf, not part of the     *)
(* property): the most specific matching pattern b has a parameter at a position where      *)
(* another declared pattern q, equal to b before that position, has the URL's literal; a    *)
(* trie descent that prefers the literal child and never backtracks cannot reach b.         *)
(* AcceptShadow is Accept with BestWins weakened in exactly that situation: the names must  *)
(* then be those of ONE matching pattern for the method, or nothing.                        *)

ShadowedBy(b, q, u) ==
    \E i \in 1..BodyLen(b) :
        /\ IsParam(Parts(b)[i].v)
        /\ BodyLen(q) >= i
        /\ IsLit(Parts(q)[i].v) /\ Parts(q)[i].v = Parts(u)[i].v /\ Parts(q)[i].h = Parts(u)[i].h
        /\ \A j \in 1..(i - 1) :
              /\ Kind(Parts(q)[j].v) = Kind(Parts(b)[j].v)
              /\ Parts(q)[j].h = Parts(b)[j].h
              /\ IsLit(Parts(b)[j].v) => Parts(q)[j].v = Parts(b)[j].v
Shadowed(b, D, u) == \E q \in {d.p : d \in D} : ShadowedBy(b, q, u)

ShadowWins(D, m, u, mt, names, k) ==
    /\ \/ \E b \in MostSpecific(PatsMatching(D, u, mt), u) : Shadowed(b, D, u)
       \/ \E b \in MostSpecific({e.p : e \in DeclsFor(D, m, u, mt)}, u) : Shadowed(b, D, u)
    /\ \/ names = {}
       \/ \E q \in PatsMatching(D, u, mt) : names = Names({e \in DeclsFor(D, m, u, mt) : e.p = q}, k)

AcceptShadowW(D, m, u, out, mt) ==
    LET own  == DeclsFor(D, m, u, mt)
        wa   == WinAll(D, m, u, mt)
        wo   == WinOwn(D, m, u, mt)
        rn   == {s.r : s \in out.sel}
        gn   == {s.r : s \in out.dsel}
    IN
    /\ rn \subseteq Names(own, "r")
    /\ \/ rn = Names(wa, "r") \/ rn = Names(wo, "r")
       \/ ShadowWins(D, m, u, mt, rn, "r")
    /\ \A s \in out.sel : ParamsOK(D, u, mt, s)
    /\ gn \subseteq Names(own, "g")
    /\ \/ gn = Names(wa, "g") \/ gn = Names(wo, "g")
       \/ ShadowWins(D, m, u, mt, gn, "g")
    /\ \A s \in out.dsel : NormOK(D, u, mt, s)
    /\ LookupOK(D, u, mt, out.lk)

AcceptShadow(D, m, u, out) == \E mt \in Modes(u) : AcceptShadowW(D, m, u, out, mt)

\* The readings are a property of the IMPLEMENTATION, not of a single outcome: an implementation must be right under
\* ONE reading for everything it does.  AM / SM = the readings (modes 0..3) under which an outcome is accepted /
\* accepted or in the shadow class; the drivers intersect them over all outcomes of a run.
\* (for a URL without empty segment the readings 2, 3 coincide with 0, 1)
Extend(base, u) == IF Modes(u) = 0..3 THEN base ELSE base \cup {mt + 2 : mt \in base}
AM(D, m, u, out) == Extend({mt \in Modes(u) : AcceptW(D, m, u, out, mt)}, u)
SM(D, m, u, out) == Extend({mt \in Modes(u) : AcceptShadowW(D, m, u, out, mt)}, u)

\* verdict of a single outcome (some reading accepts it)
Verdict(D, m, u, out) == IF Accept(D, m, u, out) THEN "ok"
                         ELSE IF AcceptShadow(D, m, u, out) THEN "shadow" ELSE "bad"
================================================================================
