\* witness: with the recorded finding NOT tolerated the shadow class must show up as a counterexample
CONSTANTS
  MaxBody = 2
  MaxDecl = 2
  MaxUrl = 3
  ReuseOnLookup = FALSE
  FabricatedNorm = FALSE
  RejectCollision = TRUE
  EmptyParam = FALSE
  WildHostCheck = TRUE
  KF_Shadow = FALSE
  Source = "all"
  NChunks = 64
  EmitPrefix = ""
SPECIFICATION Spec
INVARIANTS Accepted OrderIndependent OneReading
CHECK_DEADLOCK FALSE
