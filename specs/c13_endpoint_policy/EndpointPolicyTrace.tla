------------------------- MODULE EndpointPolicyTrace -------------------------
(* C13 - trace validation: what the REAL code answered, judged by the property spec.        *)
(*                                                                                          *)
(* trace.ndjson: line 1 = {"ev":"config"}; then                                             *)
(*   {"ev":"group","decls":[{"m":..,"h":[..],"p":[..],"r":"d1","g":"g1","pl":"on"},...]}    *)
(*        pl = plugins of the declaration: "on" | "off" (declared, disabled) | "none" |       *)
(*        "donly" (remedy disabled, diagnosis enabled)                                        *)
(*        a configuration: the declared endpoints (a SET - the order is in the out events)   *)
(*   {"ev":"req","m":..,"h":[..],"p":[..]}      a request against the current configuration  *)
(*   {"ev":"out","ord":[2,1,3],"sel":[{"r":..,"norm":..,"params":[[n,v],..]},..],"dsel":[..],*)
(*    "lk":{"match":b,"norm":..,"params":[..]}}                                               *)
(*        what the dispatcher selected for the current request when the endpoints were       *)
(*        declared in the order ord                                                          *)
(* An out event is a step of the specification iff EndpointPolicyP accepts the outcome      *)
(* (Verdict = "ok") and it equals the outcome of every earlier order for the same request   *)
(* (order independence).  With TolerateShadow = TRUE the recorded finding class "shadow"    *)
(* is let through and reported on a line  <<"KF-SHADOW", line>>; a rejection because of     *)
(* order dependence alone is announced on a line  <<"ORDER-DEP", line>>, any other          *)
(* rejection on a line  <<"NOT-ACCEPTED", line, verdict>>.                                  *)
EXTENDS TraceLib, EndpointPolicyP, TLC

CONSTANT TolerateShadow

VARIABLES l, D, rq, first
tvars == <<l, D, rq, first>>

NoOut == [none |-> TRUE]

Ev == TraceLog[l + 1]
Consume(name) == l < TraceLen /\ Ev.ev = name /\ l' = l + 1

SeqSet(s) == {s[i] : i \in 1..Len(s)}
SelOf(s)  == {[r |-> x.r, norm |-> x.norm, params |-> {<<q[1], q[2]>> : q \in SeqSet(x.params)}] : x \in SeqSet(s)}
OutOf(e)  == [sel |-> SelOf(e.sel), dsel |-> SelOf(e.dsel),
              lk |-> [match |-> e.lk.match, norm |-> e.lk.norm, params |-> {<<q[1], q[2]>> : q \in SeqSet(e.lk.params)}]]

TInit == l = 1 /\ D = {} /\ rq = NoOut /\ first = NoOut

TGroup == /\ Consume("group")
          /\ D' = {[m |-> d.m, p |-> Mk(d.h, d.p), r |-> d.r, g |-> d.g,
                    re |-> d.pl = "on", ge |-> d.pl \in {"on", "donly"}] : d \in SeqSet(Ev.decls)}
          /\ rq' = NoOut /\ first' = NoOut

TReq == /\ Consume("req")
        /\ rq' = [m |-> Ev.m, u |-> Mk(Ev.h, Ev.p)]
        /\ first' = NoOut /\ UNCHANGED D

TOut == /\ Consume("out") /\ rq # NoOut
        /\ LET out == OutOf(Ev)
               v   == Verdict(D, rq.m, rq.u, out)
           IN /\ IF v = "ok" THEN TRUE
                 ELSE IF v = "shadow" /\ TolerateShadow THEN PrintT(<<"KF-SHADOW", l + 1>>)
                 ELSE PrintT(<<"NOT-ACCEPTED", l + 1, v>>) /\ FALSE
              /\ IF first = NoOut \/ first = out THEN TRUE
                 ELSE PrintT(<<"ORDER-DEP", l + 1>>) /\ FALSE
              /\ first' = out
        /\ UNCHANGED <<D, rq>>

TNext == TGroup \/ TReq \/ TOut
TraceSpec == TInit /\ [][TNext]_tvars

HWM == Mark(l)
Post == Report
================================================================================
