------------------------- MODULE EndpointPolicyTrace -------------------------
(* C13 - trace validation: what the REAL code answered, judged by the property spec.        *)
(*                                                                                          *)
(* trace.ndjson: line 1 = {"ev":"config"}; then                                             *)
(*   {"ev":"group","decls":[{"m":..,"h":[..],"p":[..],"r":"d1","g":"g1","pl":"on"},...]}    *)
(*        pl = plugins of the declaration: "on" | "off" (declared, disabled) | "none" |       *)
(*        "donly" (remedy disabled, diagnosis enabled)                                        *)
(*        a configuration: the declared endpoints (a SET - the order is in the out events)   *)
(*   {"ev":"req","m":..,"h":[..],"p":[..]}      a request against the current configuration  *)
(*   {"ev":"out","ord":[2,1,3],"sel":[{"r":..,"norm":..,"params":[[n,v],..]},..],"dsel":[..],*)
(*    "lk":{"match":b,"norm":..,"params":[..]}}                                               *)
(*        what the dispatcher selected for the current request when the endpoints were       *)
(*        declared in the order ord                                                          *)
(* The points the statement leaves open (EndpointPolicyP modes) are open per IMPLEMENTATION: *)
(* `modes` = the readings that explain every outcome seen so far (never reset).              *)
(* An out event is a step of the specification iff EndpointPolicyP accepts the outcome      *)
(* under a reading still open and it equals the outcome of every earlier order for the same request   *)
(* (order independence).  With TolerateShadow = TRUE the recorded finding class "shadow"    *)
(* is let through and reported on a line  <<"KF-SHADOW", line>>; a rejection because of     *)
(* order dependence alone is announced on a line  <<"ORDER-DEP", line>>, any other          *)
(* rejection on a line  <<"NOT-ACCEPTED", line, verdict>>.                                  *)
EXTENDS TraceLib, EndpointPolicyP, TLC

CONSTANTS TolerateShadow,
          ModeSet   \* the readings (EndpointPolicyP modes) still open for this implementation

VARIABLES l, D, rq, first, modes
tvars == <<l, D, rq, first, modes>>

NoOut == [none |-> TRUE]

Ev == TraceLog[l + 1]
Consume(name) == l < TraceLen /\ Ev.ev = name /\ l' = l + 1

SeqSet(s) == {s[i] : i \in 1..Len(s)}
SelOf(s)  == {[r |-> x.r, norm |-> x.norm, params |-> {<<q[1], q[2]>> : q \in SeqSet(x.params)}] : x \in SeqSet(s)}
OutOf(e)  == [sel |-> SelOf(e.sel), dsel |-> SelOf(e.dsel),
              lk |-> [match |-> e.lk.match, norm |-> e.lk.norm, params |-> {<<q[1], q[2]>> : q \in SeqSet(e.lk.params)}]]

TInit == l = 1 /\ D = {} /\ rq = NoOut /\ first = NoOut /\ modes = ModeSet

TGroup == /\ Consume("group")
          /\ D' = {[m |-> d.m, p |-> Mk(d.h, d.p), r |-> d.r, g |-> d.g,
                    re |-> d.pl = "on", ge |-> d.pl \in {"on", "donly"}] : d \in SeqSet(Ev.decls)}
          /\ rq' = NoOut /\ first' = NoOut /\ UNCHANGED modes

TReq == /\ Consume("req")
        /\ rq' = [m |-> Ev.m, u |-> Mk(Ev.h, Ev.p)]
        /\ first' = NoOut /\ UNCHANGED <<D, modes>>

TOut == /\ Consume("out") /\ rq # NoOut
        /\ LET out == OutOf(Ev)
               okm == AM(D, rq.m, rq.u, out) \cap modes
               shm == IF TolerateShadow THEN SM(D, rq.m, rq.u, out) \cap modes ELSE {}
               nm  == okm \cup shm
           IN /\ IF okm # {} THEN TRUE
                 ELSE IF shm # {} THEN PrintT(<<"KF-SHADOW", l + 1>>)
                 ELSE PrintT(<<"NOT-ACCEPTED", l + 1, modes>>) /\ FALSE
              /\ IF first = NoOut \/ first = out THEN TRUE
                 ELSE PrintT(<<"ORDER-DEP", l + 1>>) /\ FALSE
              /\ first' = out
              \* one reading for everything: only the readings that explain this outcome too stay open
              /\ modes' = nm
              /\ IF nm = modes THEN TRUE ELSE PrintT(<<"MODES", l + 1, nm>>)
        /\ UNCHANGED <<D, rq>>

TNext == TGroup \/ TReq \/ TOut
TraceSpec == TInit /\ [][TNext]_tvars

HWM == Mark(l)
Post == Report
================================================================================
