\* thorough: every set of <= 2 declarations over patterns with <= 2 path segments (+ "/*"), repaired code
CONSTANTS
  MaxBody = 2
  MaxDecl = 2
  MaxUrl = 3
  ReuseOnLookup = FALSE
  FabricatedNorm = FALSE
  RejectCollision = TRUE
  EmptyParam = FALSE
  WildHostCheck = TRUE
  KF_Shadow = TRUE
  Source = "all"
  NChunks = 64
  EmitPrefix = "p_"
SPECIFICATION Spec
INVARIANTS Accepted OrderIndependent OneReading
CHECK_DEADLOCK FALSE
