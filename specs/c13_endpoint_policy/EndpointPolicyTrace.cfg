CONSTANTS
  ModeSet = {0, 1, 2, 3}
  TolerateShadow = TRUE
SPECIFICATION TraceSpec
CONSTRAINT HWM
POSTCONDITION Post
CHECK_DEADLOCK FALSE
