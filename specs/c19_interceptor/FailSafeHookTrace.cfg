SPECIFICATION TraceSpec
INVARIANT Report1
POSTCONDITION Post
CHECK_DEADLOCK FALSE
