---------------------------- MODULE MC_C19Filter ----------------------------
(* The enumerated input space of the traffic filter, used three ways:           *)
(*  (1) I => P over every case (constant-level ASSUME, checked by TLC);         *)
(*  (2) written out with JsonSerialize as the cases replayed into the real      *)
(*      TrafficFilter (spec -> code);                                           *)
(*  (3) non-vacuity: with a flag of TrafficFilterI set the ASSUME must fail.           *)
EXTENDS TrafficFilterI, TLC, Json, SequencesExt

D(h, kind, ip, v6, rsv) == [h |-> h, hlow |-> h, hcanon |-> h, kind |-> kind, ip |-> ip, v6 |-> v6, rsv |-> rsv]
\* a destination typed in another case than its canonical (lower-case) form
DC(h, canon, kind, ip, v6, rsv) == [h |-> h, hlow |-> canon, hcanon |-> canon, kind |-> kind, ip |-> ip, v6 |-> v6, rsv |-> rsv]
\* a list item as typed: raw, raw in lower case, the destination it denotes ("" = none), valid as typed / without blanks
E(raw, low, canon, valid, tvalid) == [raw |-> raw, low |-> low, canon |-> canon, valid |-> valid, tvalid |-> tvalid]

\* destinations asked about
Hosts == <<
    D("api.pub.com",   "name", <<93, 184, 216, 34>>, "", "ok"),
    D("db.corp",       "name", <<10, 1, 2, 3>>,      "", "ok"),
    D("lo.corp",       "name", <<127, 0, 0, 5>>,     "", "ok"),
    D("k8s.corp",      "name", <<172, 16, 5, 4>>,    "", "ok"),
    D("edge.corp",     "name", <<172, 31, 255, 255>>,"", "ok"),
    D("out.corp",      "name", <<172, 32, 0, 1>>,    "", "ok"),
    D("lan.corp",      "name", <<192, 168, 1, 9>>,   "", "ok"),
    D("near.corp",     "name", <<192, 169, 0, 1>>,   "", "ok"),
    D("hundred.corp",  "name", <<100, 1, 1, 1>>,     "", "ok"),
    D("onetwenty.corp","name", <<120, 0, 0, 1>>,     "", "ok"),
    D("localhost",     "name", <<127, 0, 0, 1>>,     "", "ok"),
    D("nx.invalid",    "name", <<>>,                 "", "fail"),
    D("a..b",          "junk", <<>>,                 "", "unicode"),
    D("not a host!",   "junk", <<>>,                 "", "fail"),
    D("256.1.1.1",     "junk", <<>>,                 "", "fail"),
    DC("None", "none", "name", <<>>,                 "", "fail"),
    DC("API.PUB.COM", "api.pub.com", "name", <<93, 184, 216, 34>>, "", "ok"),
    D("8.8.8.8",       "ip4",  <<8, 8, 8, 8>>,       "", "literal"),
    D("10.0.0.7",      "ip4",  <<10, 0, 0, 7>>,      "", "literal"),
    D("11.0.0.1",      "ip4",  <<11, 0, 0, 1>>,      "", "literal"),
    D("127.0.0.1",     "ip4",  <<127, 0, 0, 1>>,     "", "literal"),
    D("172.20.1.1",    "ip4",  <<172, 20, 1, 1>>,    "", "literal"),
    D("172.15.1.1",    "ip4",  <<172, 15, 1, 1>>,    "", "literal"),
    D("192.168.0.1",   "ip4",  <<192, 168, 0, 1>>,   "", "literal"),
    D("193.168.0.1",   "ip4",  <<193, 168, 0, 1>>,   "", "literal"),
    D("::1",           "ip6",  <<>>,                 "loopback", "literal"),
    D("2606:4700::1111","ip6", <<>>,                 "global",   "literal")
>>

\* items the lists are built from: plain items, an invalid one, and the ways a list gets typed - blanks around an item
\* ("a, b"), an empty item (trailing comma), a blank item, another letter case
Items == <<
    E("api.pub.com",  "api.pub.com",  "api.pub.com", TRUE,  TRUE),
    E("db.corp",      "db.corp",      "db.corp",     TRUE,  TRUE),
    E("localhost",    "localhost",    "localhost",   TRUE,  TRUE),
    E("8.8.8.8",      "8.8.8.8",      "8.8.8.8",     TRUE,  TRUE),
    E("10.0.0.7",     "10.0.0.7",     "10.0.0.7",    TRUE,  TRUE),
    E("::1",          "::1",          "::1",         TRUE,  TRUE),
    E("not a host!",  "not a host!",  "not a host!", FALSE, FALSE),
    E(" 8.8.8.8",     " 8.8.8.8",     "8.8.8.8",     FALSE, TRUE),
    E("api.pub.com ", "api.pub.com ", "api.pub.com", FALSE, TRUE),
    E("API.Pub.com",  "api.pub.com",  "api.pub.com", TRUE,  TRUE),
    E("",             "",             "",            FALSE, FALSE),
    E(" ",            " ",            "",            FALSE, FALSE)
>>
Item(i) == [raw |-> Items[i].raw, low |-> Items[i].low, canon |-> Items[i].canon]
Valid == {Items[i].raw : i \in {k \in DOMAIN Items : Items[k].valid}}
TValid == {Items[i].raw : i \in {k \in DOMAIN Items : Items[k].tvalid}}

Headers == <<"absent", "empty", "true", "false", "yes">>

\* lists of at most two items (in pool order; an empty item after another one = trailing comma)
Lists == LET n == Len(Items) IN
    {<<>>} \cup {<<Item(i)>> : i \in 1..n}
           \cup {<<Item(p[1]), Item(p[2])>> : p \in {q \in (1..n) \X (1..n) : q[1] < q[2]}}

Case(d, a, b, hd, res) ==
    [allow |-> a, block |-> b, host |-> d.h, hlow |-> d.hlow, hcanon |-> d.hcanon, kind |-> d.kind, ip |-> d.ip, v6 |-> d.v6, rsv |-> d.rsv,
     header |-> hd, res |-> res]

Input(d, a, b, hd) == Case(d, a, b, hd, "")

\* (1) the transcription of the algorithm satisfies the property on every case
Refines ==
    \A a \in Lists, b \in Lists, i \in DOMAIN Hosts, k \in DOMAIN Headers :
        LET c == Input(Hosts[i], a, b, Headers[k]) IN Permitted([c EXCEPT !.res = Result(c, Valid, TValid)])

NCases == Cardinality(Lists) * Cardinality(Lists) * Len(Hosts) * Len(Headers)

\* cases on which the property actually forbids routing, and on which it leaves the answer free
NMustNot == Cardinality({<<a, b, i, k>> \in Lists \X Lists \X (DOMAIN Hosts) \X (DOMAIN Headers) :
                MustNotRoute(Input(Hosts[i], a, b, Headers[k]))})

ASSUME PrintT(<<"FILTER-CASES", NCases, NMustNot>>)
ASSUME Refines

\* (2) the input space, for replay
ListSeq == SetToSeq(Lists)
ASSUME JsonSerialize("filter_space.json",
          [hosts |-> Hosts, headers |-> Headers, lists |-> ListSeq])

VARIABLE x
Spec == x = 0 /\ [][UNCHANGED x]_x
=============================================================================
