---------------------------- MODULE MC_C19Filter ----------------------------
(* The enumerated input space of the traffic filter, used three ways:           *)
(*  (1) I => P over every case (constant-level ASSUME, checked by TLC);         *)
(*  (2) written out with JsonSerialize as the cases replayed into the real      *)
(*      TrafficFilter (spec -> code);                                           *)
(*  (3) non-vacuity: with a flag of TrafficFilterI set the ASSUME must fail.           *)
EXTENDS TrafficFilterI, TLC, Json, SequencesExt

D(h, kind, ip, rsv) == [h |-> h, hlow |-> h, hcanon |-> h, kind |-> kind, ip |-> ip, ip6 |-> <<>>, rsv |-> rsv]
\* a destination typed in another case than its canonical (lower-case) form
DC(h, canon, kind, ip, rsv) == [h |-> h, hlow |-> canon, hcanon |-> canon, kind |-> kind, ip |-> ip, ip6 |-> <<>>, rsv |-> rsv]
\* an IPv6 literal: spelling, lower-case spelling, value (eight 16-bit groups)
D6(h, low, g) == [h |-> h, hlow |-> low, hcanon |-> low, kind |-> "ip6", ip |-> <<>>, ip6 |-> g, rsv |-> "literal"]
\* a list item as typed: raw, raw in lower case, the destination it denotes ("" = none), valid as typed / without blanks
E(raw, low, canon, valid, tvalid) == [raw |-> raw, low |-> low, canon |-> canon, valid |-> valid, tvalid |-> tvalid]

\* destinations asked about
Hosts == <<
    D("api.pub.com",   "name", <<93, 184, 216, 34>>, "ok"),
    D("db.corp",       "name", <<10, 1, 2, 3>>, "ok"),
    D("lo.corp",       "name", <<127, 0, 0, 5>>, "ok"),
    D("k8s.corp",      "name", <<172, 16, 5, 4>>, "ok"),
    D("edge.corp",     "name", <<172, 31, 255, 255>>, "ok"),
    D("out.corp",      "name", <<172, 32, 0, 1>>, "ok"),
    D("lan.corp",      "name", <<192, 168, 1, 9>>, "ok"),
    D("near.corp",     "name", <<192, 169, 0, 1>>, "ok"),
    D("hundred.corp",  "name", <<100, 1, 1, 1>>, "ok"),
    D("onetwenty.corp","name", <<120, 0, 0, 1>>, "ok"),
    D("localhost",     "name", <<127, 0, 0, 1>>, "ok"),
    D("nx.invalid",    "name", <<>>, "fail"),
    D("a..b",          "junk", <<>>, "unicode"),
    D("not a host!",   "junk", <<>>, "fail"),
    D("256.1.1.1",     "junk", <<>>, "fail"),
    DC("None", "none", "name", <<>>, "fail"),
    DC("API.PUB.COM", "api.pub.com", "name", <<93, 184, 216, 34>>, "ok"),
    D("8.8.8.8",       "ip4",  <<8, 8, 8, 8>>, "literal"),
    D("10.0.0.7",      "ip4",  <<10, 0, 0, 7>>, "literal"),
    D("11.0.0.1",      "ip4",  <<11, 0, 0, 1>>, "literal"),
    D("127.0.0.1",     "ip4",  <<127, 0, 0, 1>>, "literal"),
    D("172.20.1.1",    "ip4",  <<172, 20, 1, 1>>, "literal"),
    D("172.15.1.1",    "ip4",  <<172, 15, 1, 1>>, "literal"),
    D("192.168.0.1",   "ip4",  <<192, 168, 0, 1>>, "literal"),
    D("193.168.0.1",   "ip4",  <<193, 168, 0, 1>>, "literal"),
    D("127.1",         "name", <<127, 0, 0, 1>>, "ok"),                  \* inet_aton spellings are resolved by gethostbyname
    D("[::1]",         "junk", <<>>, "fail"),                            \* bracketed / zoned forms are not address literals here
    D("fe80::1%eth0",  "junk", <<>>, "fail"),
    D6("::1",                    "::1",                    <<0, 0, 0, 0, 0, 0, 0, 1>>),
    D6("0:0:0:0:0:0:0:1",        "0:0:0:0:0:0:0:1",        <<0, 0, 0, 0, 0, 0, 0, 1>>),
    D6("fe80::1",                "fe80::1",                <<65152, 0, 0, 0, 0, 0, 0, 1>>),
    D6("FE80::ABCD",             "fe80::abcd",             <<65152, 0, 0, 0, 0, 0, 0, 43981>>),
    D6("febf::1",                "febf::1",                <<65215, 0, 0, 0, 0, 0, 0, 1>>),
    D6("fc00::1",                "fc00::1",                <<64512, 0, 0, 0, 0, 0, 0, 1>>),
    D6("fd12:3456:789a::1",      "fd12:3456:789a::1",      <<64786, 13398, 30874, 0, 0, 0, 0, 1>>),
    D6("::ffff:127.0.0.1",       "::ffff:127.0.0.1",       <<0, 0, 0, 0, 0, 65535, 32512, 1>>),
    D6("::ffff:7f00:1",          "::ffff:7f00:1",          <<0, 0, 0, 0, 0, 65535, 32512, 1>>),
    D6("::ffff:10.1.2.3",        "::ffff:10.1.2.3",        <<0, 0, 0, 0, 0, 65535, 2561, 515>>),
    D6("0:0:0:0:0:ffff:a01:203", "0:0:0:0:0:ffff:a01:203", <<0, 0, 0, 0, 0, 65535, 2561, 515>>),
    D6("::FFFF:192.168.1.1",     "::ffff:192.168.1.1",     <<0, 0, 0, 0, 0, 65535, 49320, 257>>),
    D6("::ffff:172.16.0.9",      "::ffff:172.16.0.9",      <<0, 0, 0, 0, 0, 65535, 44048, 9>>),
    D6("::ffff:172.32.0.9",      "::ffff:172.32.0.9",      <<0, 0, 0, 0, 0, 65535, 44064, 9>>),
    D6("::ffff:8.8.8.8",         "::ffff:8.8.8.8",         <<0, 0, 0, 0, 0, 65535, 2056, 2056>>),
    D6("::10.0.0.7",             "::10.0.0.7",             <<0, 0, 0, 0, 0, 0, 2560, 7>>),
    D6("::",                     "::",                     <<0, 0, 0, 0, 0, 0, 0, 0>>),
    D6("2606:4700::1111",        "2606:4700::1111",        <<9734, 18176, 0, 0, 0, 0, 0, 4369>>)
>>

\* items the lists are built from: plain items, an invalid one, and the ways a list gets typed - blanks around an item
\* ("a, b"), an empty item (trailing comma), a blank item, another letter case
Items == <<
    E("api.pub.com",  "api.pub.com",  "api.pub.com", TRUE,  TRUE),
    E("db.corp",      "db.corp",      "db.corp",     TRUE,  TRUE),
    E("localhost",    "localhost",    "localhost",   TRUE,  TRUE),
    E("8.8.8.8",      "8.8.8.8",      "8.8.8.8",     TRUE,  TRUE),
    E("10.0.0.7",     "10.0.0.7",     "10.0.0.7",    TRUE,  TRUE),
    E("::1",          "::1",          "::1",         TRUE,  TRUE),
    E("not a host!",  "not a host!",  "not a host!", FALSE, FALSE),
    E(" 8.8.8.8",     " 8.8.8.8",     "8.8.8.8",     FALSE, TRUE),
    E("api.pub.com ", "api.pub.com ", "api.pub.com", FALSE, TRUE),
    E("API.Pub.com",  "api.pub.com",  "api.pub.com", TRUE,  TRUE),
    E("",             "",             "",            FALSE, FALSE),
    E(" ",            " ",            "",            FALSE, FALSE)
>>
Item(i) == [raw |-> Items[i].raw, low |-> Items[i].low, canon |-> Items[i].canon]
Valid == {Items[i].raw : i \in {k \in DOMAIN Items : Items[k].valid}}
TValid == {Items[i].raw : i \in {k \in DOMAIN Items : Items[k].tvalid}}

Headers == <<"absent", "empty", "true", "false", "yes">>

\* lists of at most two items (in pool order; an empty item after another one = trailing comma)
Lists == LET n == Len(Items) IN
    {<<>>} \cup {<<Item(i)>> : i \in 1..n}
           \cup {<<Item(p[1]), Item(p[2])>> : p \in {q \in (1..n) \X (1..n) : q[1] < q[2]}}

Case(d, a, b, hd, res) ==
    [allow |-> a, block |-> b, host |-> d.h, hlow |-> d.hlow, hcanon |-> d.hcanon, kind |-> d.kind, ip |-> d.ip, ip6 |-> d.ip6, rsv |-> d.rsv,
     header |-> hd, res |-> res]

Input(d, a, b, hd) == Case(d, a, b, hd, "")

\* (1) the transcription of the algorithm satisfies the property on every case
Refines ==
    \A a \in Lists, b \in Lists, i \in DOMAIN Hosts, k \in DOMAIN Headers :
        LET c == Input(Hosts[i], a, b, Headers[k]) IN Permitted([c EXCEPT !.res = Result(c, Valid, TValid)])

NCases == Cardinality(Lists) * Cardinality(Lists) * Len(Hosts) * Len(Headers)

\* cases on which the property actually forbids routing, and on which it leaves the answer free
\* (summed per allow list: TLC builds the counted sets explicitly, limit 10^6 elements)
NMustNot == LET LS == SetToSeq(Lists)
                N[k \in 0..Len(LS)] ==
                    IF k = 0 THEN 0
                    ELSE N[k - 1] + Cardinality({<<b, i, h>> \in Lists \X (DOMAIN Hosts) \X (DOMAIN Headers) :
                                                  MustNotRoute(Input(Hosts[i], LS[k], b, Headers[h]))})
            IN  N[Len(LS)]

ASSUME Refines
ASSUME PrintT(<<"FILTER-CASES", NCases, NMustNot>>)

\* (2) the input space, for replay
ListSeq == SetToSeq(Lists)
ASSUME JsonSerialize("filter_space.json",
          [hosts |-> Hosts, headers |-> Headers, lists |-> ListSeq])

VARIABLE x
Spec == x = 0 /\ [][UNCHANGED x]_x
=============================================================================
