------------------------------ MODULE FailSafeI ------------------------------
(* C19 - implementation-shaped specification of                                *)
(*   lunar_interceptor/interceptor/fail_safe.py : FailSafe                      *)
(*     __exit__ / _on_error / _ensure_enter_fail_safe / state_ok /              *)
(*     _ensure_exit_fail_safe                                                   *)
(* used the way the hooks use it (hooks/requests.py, aiohttp.py, tornado.py):   *)
(*     with fail_safe:                                                          *)
(*         if fail_safe.state_ok and traffic_filter.is_allowed(...): <gateway>  *)
(* One action per observable event; the Python object is single-threaded per    *)
(* call (no lock), so a call is one atomic step; legs already in flight are     *)
(* the read = FALSE calls.                                                      *)
(*                                                                             *)
(* Variant flags (CONSTANTS):                                                   *)
(*   StrictCool      cool-down test `>` instead of `>=`          (must be refuted) *)
(*   NoReset         a success does not clear the counter       (must be refuted) *)
(*   SwallowApp      application exceptions are handled too     (must be refuted) *)
(*   ResetOnRecover  counter cleared when the cool-down ends    (benign: must refine P) *)
(*   StaleGuard      _ensure_enter_fail_safe returns early when the (lazily      *)
(*                   maintained) flag is already False: a failure reported after *)
(*                   the period, before anybody asked, does not open the breaker *)
(*                                                              (must be refuted) *)
EXTENDS FailSafeRel

CONSTANTS Ns, Cs, MaxNow, Steps, StrictCool, NoReset, SwallowApp, ResetOnRecover, StaleGuard

VARIABLES cfgN, cfgC,      \* _max_errors_allowed, _cooldown_time
          okflag,          \* _state_ok
          cnt,             \* _error_counter
          started,         \* _cooldown_started_at
          now,             \* time()
          last             \* the observable event just produced
ivars == <<cfgN, cfgC, okflag, cnt, started, now, last>>

Init ==
    /\ cfgN \in Ns /\ cfgC \in Cs
    /\ okflag = TRUE /\ cnt = 0 /\ started = 0 /\ now = 0
    /\ last = Ev("init", 0, FALSE, "", TRUE, "none")

\* _ensure_exit_fail_safe: <<state_ok, counter>> afterwards
Elapsed == IF StrictCool THEN now - started > cfgC ELSE now - started >= cfgC
AfterRead == IF ~okflag /\ Elapsed
             THEN <<TRUE, IF ResetOnRecover THEN 0 ELSE cnt>>
             ELSE <<okflag, cnt>>

\* __exit__ for the outcome of the with-block, from <<state_ok, counter>> = oc:
\* result <<state_ok', counter', started', raised>>
Exit(oc, out) ==
    CASE out \in {"ok", "skip", "bypass"} ->                         \* exc_type is None
            <<oc[1], IF NoReset THEN oc[2] ELSE 0, started, "none">>
      [] out = "gwerr" \/ (out = "appexc" /\ SwallowApp) ->          \* issubclass(exc_type, handle_on): _on_error
            IF cfgN > oc[2] + 1 \/ (StaleGuard /\ ~oc[1])
            THEN <<oc[1], oc[2] + 1, started, "none">>
            ELSE <<FALSE, oc[2] + 1, now, "none">>                   \* _ensure_enter_fail_safe
      [] out = "appexc" /\ ~SwallowApp -> <<oc[1], oc[2], started, "same">>         \* return False: re-raised by the interpreter

Apply(x, e) ==
    /\ okflag' = x[1] /\ cnt' = x[2] /\ started' = x[3]
    /\ last' = e
    /\ UNCHANGED <<cfgN, cfgC, now>>

Advance(d) ==
    /\ now + d <= MaxNow
    /\ now' = now + d
    /\ last' = Ev("adv", d, FALSE, "", TRUE, "none")
    /\ UNCHANGED <<cfgN, cfgC, okflag, cnt, started>>

Ask ==
    LET r == AfterRead IN
    Apply(<<r[1], r[2], started>>, Ev("ask", 0, FALSE, "", r[1], "none"))

\* a call that reads state_ok first
Call(out) ==
    LET r == AfterRead
        x == Exit(r, IF r[1] THEN out ELSE "bypass")
    IN  Apply(x, Ev("call", 0, TRUE, out, r[1], x[4]))

\* a leg already in flight reports its outcome (no read)
Late(out) ==
    LET x == Exit(<<okflag, cnt>>, out)
    IN  Apply(x, Ev("call", 0, FALSE, out, TRUE, x[4]))

Next ==
    \/ \E d \in Steps : Advance(d)
    \/ Ask
    \/ \E out \in Outs : Call(out)
    \/ \E out \in Outs \ {"skip"} : Late(out)

ISpec == Init /\ [][Next]_ivars
================================================================================
