-------------------------- MODULE TrafficFilterTrace --------------------------
(* C19 - the recorded decisions of the real TrafficFilter judged by TrafficFilterP.     *)
(* trace.ndjson: line 1 = {"ev":"config",...}, then one line per case (input of  *)
(* the case as TrafficFilterP describes it + res = what is_allowed really answered).    *)
(* The decisions are independent, so the judgement is one constant-level         *)
(* evaluation: the set of lines P does not permit is printed.                    *)
EXTENDS TrafficFilterP, TraceLib

Bad == {i \in 2..TraceLen : ~Permitted(TraceLog[i])}
Constrained == Cardinality({i \in 2..TraceLen : MustNotRoute(TraceLog[i])})
ASSUME PrintT(<<"FILTER-JUDGED", TraceLen - 1, Constrained, Cardinality(Bad)>>)
ASSUME PrintT(<<"FILTER-BAD", Bad>>)

VARIABLE x
Spec == x = 0 /\ [][UNCHANGED x]_x
================================================================================
