---------------------------- MODULE TrafficFilterP ----------------------------
(* C19 - traffic filter: property specification (P).                            *)
(*                                                                             *)
(* One case = one decision  is_allowed(host, headers)  of a TrafficFilter       *)
(* configured with an allow list and a block list:                              *)
(*   [allow, block : sequences of list items [raw, low, canon] (see Denoted),     *)
(*    host   : the destination string, hlow / hcanon : lower case / canonical,   *)
(*    kind   : "name" | "ip4" | "ip6" | "junk",                                 *)
(*    ip     : <<a,b,c,d>> the IPv4 address (the literal, or what the name      *)
(*             resolves to), <<>> when there is none,                           *)
(*    v6     : "" | "loopback" | "global"       (IPv6 literals)                 *)
(*    rsv    : "literal" | "ok" | "fail" | "unicode"  how resolution ends       *)
(*             (fail = resolver error, unicode = the resolver rejects the name) *)
(*    header : value of the per-request x-lunar-allow header or "absent"/"empty"*)
(*    res    : "yes" | "no" (routed through the gateway or not) | "raise" |     *)
(*             "other"]                                                         *)
(*                                                                             *)
(* The property, as permissive as its statement:                                *)
(*   NeverRaises : the decision is a boolean, never an exception                *)
(*   a destination is NOT routed when it is excluded by the lists, when it is   *)
(*   (or resolves to) a loopback / private-range address, or when it cannot be  *)
(*   resolved.  An explicit allow-list entry and the per-request header         *)
(*   x-lunar-allow: true are the operator's override (README: "To redirect      *)
(*   internal traffic, add the relevant host or IP to the Allow List"); with    *)
(*   both lists present only the allow list counts (README).  Nothing is        *)
(*   demanded in the other direction (not routing is always safe).              *)
EXTENDS Integers, Sequences, FiniteSets

SeqSet(s) == {s[i] : i \in DOMAIN s}

\* A list is the sequence of its comma-separated items as the operator wrote them; an item is [raw, canon, ...] with
\* canon = the destination the item denotes: the item without surrounding blanks, host names in lower case (DNS names
\* are case-insensitive), "" for an empty / blank item (trailing comma).  A destination is in a list when an item denotes
\* it - "excluded by the lists" is about destinations, not about how the list was typed.
Denoted(list) == {list[i].canon : i \in DOMAIN list} \ {""}
\* the list variable is set to a non-empty value
Given(list) == Len(list) > 1 \/ (Len(list) = 1 /\ list[1].raw # "")

\* loopback 127/8, private 10/8, 172.16/12, 192.168/16
Internal4(o) ==
    \/ o[1] = 10
    \/ o[1] = 127
    \/ (o[1] = 172 /\ o[2] >= 16 /\ o[2] <= 31)
    \/ (o[1] = 192 /\ o[2] = 168)

Internal(c) ==
    \/ (c.ip # <<>> /\ Internal4(c.ip))
    \/ c.v6 = "loopback"

Unresolvable(c) == c.rsv \in {"fail", "unicode"}

AllowGiven(c) == Given(c.allow)
Excluded(c) == IF AllowGiven(c) THEN c.hcanon \notin Denoted(c.allow) ELSE c.hcanon \in Denoted(c.block)
Override(c) == c.header = "true" \/ (AllowGiven(c) /\ c.hcanon \in Denoted(c.allow))

MustNotRoute(c) ==
    /\ c.header # "true"
    /\ \/ Excluded(c)
       \/ (~Override(c) /\ (Internal(c) \/ Unresolvable(c)))

NeverRaises(c) == c.res \in {"yes", "no"}

Permitted(c) == NeverRaises(c) /\ (MustNotRoute(c) => c.res = "no")
================================================================================
