---------------------------- MODULE TrafficFilterP ----------------------------
(* C19 - traffic filter: property specification (P).                            *)
(*                                                                             *)
(* One case = one decision  is_allowed(host, headers)  of a TrafficFilter       *)
(* configured with an allow list and a block list:                              *)
(*   [allow, block : sequences of list items [raw, low, canon] (see Denoted),     *)
(*    host   : the destination string, hlow / hcanon : lower case / canonical,   *)
(*    kind   : "name" | "ip4" | "ip6" | "junk",                                 *)
(*    ip     : <<a,b,c,d>> the IPv4 address (the literal, or what the name      *)
(*             resolves to), <<>> when there is none,                           *)
(*    ip6    : <<g1..g8>> the eight 16-bit groups of an IPv6 literal, <<>>       *)
(*             otherwise (the VALUE of the address, whatever its spelling)       *)
(*    rsv    : "literal" | "ok" | "fail" | "unicode"  how resolution ends       *)
(*             (fail = resolver error, unicode = the resolver rejects the name) *)
(*    header : value of the per-request x-lunar-allow header or "absent"/"empty"*)
(*    res    : "yes" | "no" (routed through the gateway or not) | "raise" |     *)
(*             "other"]                                                         *)
(*                                                                             *)
(* The property, as permissive as its statement:                                *)
(*   NeverRaises : the decision is a boolean, never an exception                *)
(*   a destination is NOT routed when it is excluded by the lists, when it is   *)
(*   (or resolves to) a loopback / private-range address, or when it cannot be  *)
(*   resolved.  An explicit allow-list entry and the per-request header         *)
(*   x-lunar-allow: true are the operator's override (README: "To redirect      *)
(*   internal traffic, add the relevant host or IP to the Allow List"); with    *)
(*   both lists present only the allow list counts (README).  Nothing is        *)
(*   demanded in the other direction (not routing is always safe).              *)
EXTENDS Integers, Sequences, FiniteSets

SeqSet(s) == {s[i] : i \in DOMAIN s}

\* A list is the sequence of its comma-separated items as the operator wrote them; an item is [raw, canon, ...] with
\* canon = the destination the item denotes: the item without surrounding blanks, host names in lower case (DNS names
\* are case-insensitive), "" for an empty / blank item (trailing comma).  A destination is in a list when an item denotes
\* it - "excluded by the lists" is about destinations, not about how the list was typed.
Denoted(list) == {list[i].canon : i \in DOMAIN list} \ {""}
\* the list variable is set to a non-empty value
Given(list) == Len(list) > 1 \/ (Len(list) = 1 /\ list[1].raw # "")

\* loopback 127/8, private 10/8, 172.16/12, 192.168/16
Internal4(o) ==
    \/ o[1] = 10
    \/ o[1] = 127
    \/ (o[1] = 172 /\ o[2] >= 16 /\ o[2] <= 31)
    \/ (o[1] = 192 /\ o[2] = 168)

\* IPv6, stated over the value of the address (independent of how an implementation looks ranges up):
\*   ::1 loopback;  fc00::/7 unique local;  fe80::/10 link local;
\*   ::ffff:a.b.c.d IPv4-mapped: it IS the IPv4 destination a.b.c.d (dual-stack sockets connect to it as such).
\* Nothing is demanded for the deprecated IPv4-compatible form ::a.b.c.d, NAT64, 6to4, :: (not loopback / private ranges).
Mapped(g) == \A i \in 1..5 : g[i] = 0 /\ g[6] = 65535
Embedded4(g) == <<g[7] \div 256, g[7] % 256, g[8] \div 256, g[8] % 256>>
Internal6(g) ==
    \/ g = <<0, 0, 0, 0, 0, 0, 0, 1>>
    \/ (g[1] >= 64512 /\ g[1] <= 65023)            \* fc00::/7
    \/ (g[1] >= 65152 /\ g[1] <= 65215)            \* fe80::/10
    \/ (Mapped(g) /\ Internal4(Embedded4(g)))

Internal(c) ==
    \/ (c.ip # <<>> /\ Internal4(c.ip))
    \/ (c.ip6 # <<>> /\ Internal6(c.ip6))

Unresolvable(c) == c.rsv \in {"fail", "unicode"}

AllowGiven(c) == Given(c.allow)
Excluded(c) == IF AllowGiven(c) THEN c.hcanon \notin Denoted(c.allow) ELSE c.hcanon \in Denoted(c.block)
Override(c) == c.header = "true" \/ (AllowGiven(c) /\ c.hcanon \in Denoted(c.allow))

MustNotRoute(c) ==
    /\ c.header # "true"
    /\ \/ Excluded(c)
       \/ (~Override(c) /\ (Internal(c) \/ Unresolvable(c)))

NeverRaises(c) == c.res \in {"yes", "no"}

Permitted(c) == NeverRaises(c) /\ (MustNotRoute(c) => c.res = "no")
================================================================================
