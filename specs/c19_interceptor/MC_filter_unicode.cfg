CONSTANTS
  RaiseOnV6 = FALSE
  RaiseOnUnicode = TRUE
  BlockInverted = FALSE
SPECIFICATION Spec
CHECK_DEADLOCK FALSE
