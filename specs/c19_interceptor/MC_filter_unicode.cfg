CONSTANTS
  RaiseOnV6 = FALSE
  RaiseOnUnicode = TRUE
  BlockInverted = FALSE
  CaseSensitive = FALSE
  StripOnValidate = FALSE
  MappedByPrefix = FALSE
SPECIFICATION Spec
CHECK_DEADLOCK FALSE
