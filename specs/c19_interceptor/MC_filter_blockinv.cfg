CONSTANTS
  RaiseOnV6 = FALSE
  RaiseOnUnicode = FALSE
  BlockInverted = TRUE
SPECIFICATION Spec
CHECK_DEADLOCK FALSE
