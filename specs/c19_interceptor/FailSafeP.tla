------------------------------ MODULE FailSafeP ------------------------------
(* C19 - the property specification P as a TLA+ behaviour spec: the breaker as  *)
(* the property sees it (FailSafeRel!Succ) driven by every event with every      *)
(* observation the property permits.  Bounded for model checking.                *)
EXTENDS FailSafeRel

\* P as a behaviour specification (bounded for model checking)
CONSTANTS Ns, Cs, MaxNow, Steps

VARIABLES st, last
vars == <<st, last>>

Events ==
    {Ev("adv", d, FALSE, "", TRUE, "none") : d \in Steps}
    \cup {Ev("ask", 0, FALSE, "", a, "none") : a \in BOOLEAN}
    \cup {Ev("call", 0, rd, o, a, r) : rd \in BOOLEAN, o \in Outs, a \in BOOLEAN, r \in Raises}

Init == \E n \in Ns, c \in Cs : st = PInit(n, c) /\ last = Ev("init", 0, FALSE, "", TRUE, "none")

Next == \E e \in Events :
    /\ (e.ev = "adv" => st.now + e.d <= MaxNow)
    /\ (e.ev = "call" /\ ~e.read => e.ans)
    /\ st' \in Succ(st, e)
    /\ last' = e

Spec == Init /\ [][Next]_vars

\* sanity of P itself ------------------------------------------------------------
TypeOK == st.run >= st.req /\ st.req >= 0 /\ st.cs <= st.now
\* the breaker only opens on at least N gateway failures in a row
TripProp == [][(last'.ev = "call" /\ Tick(st).ok /\ ~st'.ok) => (st'.run >= st.N /\ last'.out = "gwerr")]_vars
\* a closed breaker never carries a full required run
NoPendingTrip == st.ok => st.req < st.N
\* while the cool-down lasts the answer is FALSE, afterwards TRUE
CoolProp == [][last'.ev = "ask" =>
                 last'.ans = (st.ok \/ st.now - st.cs >= st.C)]_vars
\* an application exception is never swallowed
PropagateProp == [][(last'.ev = "call" /\ last'.out = "appexc" /\ (last'.ans \/ ~last'.read)) =>
                      last'.raised = "same" /\ st'.ok = Tick(st).ok /\ st'.run = st.run]_vars
================================================================================
