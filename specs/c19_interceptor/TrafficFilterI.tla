---------------------------- MODULE TrafficFilterI ----------------------------
(* C19 - traffic filter: transcription of                                       *)
(*   interceptor/traffic_filter.py : TrafficFilter.__init__ (list validation),  *)
(*   is_allowed, _check_for_header_based_filter, _check_allowed, _check_blocked,*)
(*   _is_external / _is_external_ip / _is_external_domain                       *)
(* as a function of one case (the result cache does not change any result for a *)
(* fixed resolver).  `valid` = set of list entries that pass _validate_host or  *)
(* _validate_ip.  Flags: RaiseOnV6 / RaiseOnUnicode = behaviour at the pinned   *)
(* commit (IPv4Address("::1") raises; UnicodeError of the resolver is not       *)
(* caught); BlockInverted = a breaking variant.                                 *)
EXTENDS TrafficFilterP

CONSTANTS RaiseOnV6, RaiseOnUnicode, BlockInverted,
          CaseSensitive,       \* pinned commit: items and destination compared as typed (an upper-case item never matches)
          MappedByPrefix,      \* breaking variant: IPv4-mapped literals unwrapped but the range table chosen by the first characters
          StripOnValidate      \* breaking variant: items validated without their blanks but stored and compared with them

Filter(s, Keep(_)) == LET F[i \in 0..Len(s)] == IF i = 0 THEN <<>> ELSE IF Keep(s[i]) THEN Append(F[i-1], s[i]) ELSE F[i-1]
                      IN F[Len(s)]

\* valid / tvalid: the raw items that pass _validate_host or _validate_ip as typed / without surrounding blanks
Result(c, valid, tvalid) ==
    LET ok(x) == x.raw \in (IF StripOnValidate THEN tvalid ELSE valid)
        key(x) == IF CaseSensitive THEN x.raw ELSE x.low
        hkey == IF CaseSensitive THEN c.host ELSE c.hlow
        given(l) == Len(l) > 1 \/ (Len(l) = 1 /\ l[1].raw # "")
        allow1 == Filter(c.allow, LAMBDA x : x.raw \in valid)         \* _validate_allow removes unsupported values
        block0 == IF given(c.block) THEN c.block ELSE <<>>
        blockUsed == IF allow1 # <<>> THEN <<>> ELSE block0          \* "Found AllowList skipping the BlockList"
        stateOk == \A i \in DOMAIN blockUsed : ok(blockUsed[i])
        external ==
            CASE c.kind = "ip4" -> IF Internal4(c.ip) \/ c.ip = <<0, 0, 0, 0>> THEN "no" ELSE "yes"
              \* IPv6Address.is_global, as far as the enumerated addresses go: not ::, not loopback / unique local / link local,
              \* an IPv4-mapped address as global as the IPv4 address it carries
              [] c.kind = "ip6" -> IF RaiseOnV6 THEN "raise"
                                   ELSE IF MappedByPrefix /\ Mapped(c.ip6) THEN "yes"      \* table chosen by the spelling "::"
                                   ELSE IF c.ip6 = <<0, 0, 0, 0, 0, 0, 0, 0>> \/ Internal6(c.ip6) THEN "no" ELSE "yes"
              [] OTHER -> CASE c.rsv = "ok" -> IF Internal4(c.ip) \/ c.ip = <<0, 0, 0, 0>> THEN "no" ELSE "yes"
                            [] c.rsv = "unicode" -> IF RaiseOnUnicode THEN "raise" ELSE "no"
                            [] OTHER -> "no"
        inBlock == hkey \in {key(blockUsed[k]) : k \in DOMAIN blockUsed}
    IN  IF ~stateOk THEN "no"
        ELSE IF c.header \notin {"absent", "empty"} THEN (IF c.header = "true" THEN "yes" ELSE "no")
        ELSE IF given(c.allow) THEN (IF hkey \in {key(allow1[k]) : k \in DOMAIN allow1} THEN "yes" ELSE "no")
        ELSE IF (IF BlockInverted THEN ~inBlock ELSE inBlock) /\ blockUsed # <<>> THEN "no"
        ELSE external
================================================================================
