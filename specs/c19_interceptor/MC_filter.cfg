CONSTANTS
  RaiseOnV6 = FALSE
  RaiseOnUnicode = FALSE
  BlockInverted = FALSE
SPECIFICATION Spec
CHECK_DEADLOCK FALSE
