CONSTANTS
  RaiseOnV6 = FALSE
  RaiseOnUnicode = FALSE
  BlockInverted = FALSE
  CaseSensitive = FALSE
  StripOnValidate = FALSE
  MappedByPrefix = FALSE
SPECIFICATION Spec
CHECK_DEADLOCK FALSE
