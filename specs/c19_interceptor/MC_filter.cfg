CONSTANTS
  RaiseOnV6 = FALSE
  RaiseOnUnicode = FALSE
  BlockInverted = FALSE
  CaseSensitive = FALSE
  StripOnValidate = FALSE
SPECIFICATION Spec
CHECK_DEADLOCK FALSE
