------------------------------ MODULE GenC19Cov ------------------------------
(* Coverage-directed generation from the state graph of the implementation-     *)
(* shaped model: TLC explores FailSafeI breadth-first with the path hidden by a *)
(* VIEW (every distinct model state is expanded once, reached by a shortest     *)
(* path) and the ACTION_CONSTRAINT prints, for *every transition* of the graph, *)
(* the path to its source state followed by its event - one history per edge of *)
(* the model's state graph.  Events are printed as integer codes (decoded by    *)
(* the driver):  first element N*100 + C;  1 = ask;  100 + d = advance by d;     *)
(* 10 + out (read) / 15 + out (no read) with out 1 ok, 2 gwerr, 3 appexc, 4 skip *)
EXTENDS FailSafeI, TLC

VARIABLE path

OutCode(o) == CASE o = "ok" -> 1 [] o = "gwerr" -> 2 [] o = "appexc" -> 3 [] o = "skip" -> 4
Code(e) == CASE e.ev = "adv" -> 100 + e.d
             [] e.ev = "ask" -> 1
             [] e.ev = "call" -> (IF e.read THEN 10 ELSE 15) + OutCode(e.out)

CInit == Init /\ path = <<cfgN * 100 + cfgC>>
CNext == Next /\ path' = Append(path, Code(last'))
CSpec == CInit /\ [][CNext]_<<ivars, path>>

CView == <<cfgN, cfgC, okflag, cnt, started, now>>
CBound == cnt <= cfgN + 2
Emit == PrintT(<<"VP", path'>>)
=============================================================================
