CONSTANTS
  Ns = {1, 2, 3}
  Cs = {1, 2, 3}
  MaxNow = 6
  Steps = {1, 2}
  StrictCool = FALSE
  NoReset = TRUE
  SwallowApp = FALSE
  ResetOnRecover = FALSE
SPECIFICATION MCSpec
INVARIANT Refines
CONSTRAINT Bound
VIEW View
CHECK_DEADLOCK FALSE
