-------------------------- MODULE FailSafeHookTrace --------------------------
(* C19 at the level of the hooks: recorded executions of the real RequestsHook    *)
(* (hooks/requests.py) wired to the real FailSafe and TrafficFilter over a         *)
(* scripted transport, judged by the same FailSafeRel as the unit level plus the   *)
(* clauses on who serves the caller (the Served / F7 Fallback clauses stated for   *)
(* the Java and TypeScript interceptors in specs/x04_interceptor_impls/            *)
(* FailSafeRelV, restated here over the hook-level observation).                   *)
(*                                                                               *)
(* Same tree format as FailSafeTrace; besides reset / ask / adv a node is          *)
(*   req: one application request                                                  *)
(*     dest     "pub" (allowed, public) | "excl" (on the block list) | "int"       *)
(*              (resolves to a private-range address)                              *)
(*     final    what the gateway leg ends in if it runs: "ok" | "gwerr" (an error  *)
(*              response - x-lunar-error - or a connection error, on the first or  *)
(*              on a retried attempt of the x-lunar-retry-after sequence) |         *)
(*              "appexc" (an exception that does not come from the gateway)        *)
(*     provider "ok" | "raise": what the provider does when called directly        *)
(*   observed:  gw / prov = sends to the gateway / to the provider,                *)
(*              via = who produced the response the application got ("gateway" |   *)
(*              "direct" | "" none), araised = what reached the application        *)
(*              ("none" | "provider" = the provider's own error object | "same" =  *)
(*              the exception raised in the gateway leg | "other")                 *)
EXTENDS FailSafeRel, TraceLib

VARIABLES node, S
tvars == <<node, S>>

Kids(n) == LET ks == TraceLog[n].k IN {ks[i] : i \in DOMAIN ks}

LegRan(e) == e.gw > 0

\* what the provider's direct answer means for the application: its response, or its own error untouched
DirectAnswer(e) == IF e.provider = "ok" THEN e.araised = "none" /\ e.via = "direct" ELSE e.araised = "provider"

Served(e) ==
    /\ (e.dest # "pub" => e.gw = 0)                                       \* excluded / internal destinations never reach the gateway
    /\ (LegRan(e) /\ e.final = "ok" => e.araised = "none" /\ e.via = "gateway")
    /\ (LegRan(e) /\ e.final = "gwerr" => DirectAnswer(e))                 \* F7 Fallback: a failed gateway leg is covered by a direct call
    /\ (LegRan(e) /\ e.final = "appexc" => e.araised = "same")             \* Propagate
    /\ (~LegRan(e) => DirectAnswer(e))                                     \* bypassed / kept off the gateway

\* the request as an event of FailSafeRel: one read of the breaker, then the outcome of the leg
\* (a provider-side error never left the with-block of the fail-safe: it is not the fail-safe's business)
AsCall(e, out, ans) == Ev("call", 0, TRUE, out, ans, IF e.araised = "same" THEN "same" ELSE IF e.araised = "other" THEN "other" ELSE "none")

ReqSet(S0, e) ==
    IF ~Served(e) THEN {}
    ELSE IF e.dest = "pub" THEN SuccSet(S0, AsCall(e, IF LegRan(e) THEN e.final ELSE "ok", LegRan(e)))
    ELSE SuccSet(S0, AsCall(e, "skip", TRUE)) \cup SuccSet(S0, AsCall(e, "skip", FALSE))     \* the read is not observable here

StepSet(S0, e) == IF e.ev = "reset" THEN {PInit(e.N, e.C)}
                  ELSE IF e.ev = "req" THEN ReqSet(S0, e)
                  ELSE SuccSet(S0, e)

TInit == node = 1 /\ S = {}
TNext == /\ (node = 1 \/ S # {})
         /\ \E c \in Kids(node) : node' = c /\ S' = StepSet(S, TraceLog[c])
TraceSpec == TInit /\ [][TNext]_tvars

Rejected == node # 1 /\ S = {}
Report1 == Rejected => PrintT(<<"REJ", node>>)
Post == PrintT(<<"TREE", TLCGet("stats").distinct, TraceLen>>)
================================================================================
