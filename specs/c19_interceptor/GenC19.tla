------------------------------- MODULE GenC19 -------------------------------
(* Behaviour generation (spec -> code): random walks of the implementation-     *)
(* shaped model FailSafeI (tlc -simulate) with larger thresholds / cool-downs   *)
(* and longer histories than the exhaustive tree; the history of events with    *)
(* the model's predicted observations is printed as one JSON line per walk.     *)
(* The events (without observations) are replayed into the real class; the real *)
(* observations are judged by FailSafeTrace, a difference to the prediction is  *)
(* reported as model drift.                                                     *)
EXTENDS FailSafeI, TLC, Json
CONSTANT GenDepth
VARIABLE hist
GInit == Init /\ hist = <<[ev |-> "reset", N |-> cfgN, C |-> cfgC]>>
GNext == Next /\ hist' = Append(hist, last')
GSpec == GInit /\ [][GNext]_<<ivars, hist>>
Emit == (Len(hist) = GenDepth) => PrintT(<<"VH", ToJson(hist)>>)
=============================================================================
