CONSTANTS
  Ns = {1, 2, 3}
  Cs = {1, 2, 3}
  MaxNow = 5
  Steps = {1, 2}
  StrictCool = FALSE
  NoReset = FALSE
  SwallowApp = FALSE
  ResetOnRecover = TRUE
  StaleGuard = FALSE
SPECIFICATION MCSpec
INVARIANT Refines
CONSTRAINT Bound
VIEW View
CHECK_DEADLOCK FALSE
