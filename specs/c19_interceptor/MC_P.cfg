CONSTANTS
  Ns = {1, 2, 3}
  Cs = {1, 2, 3}
  MaxNow = 8
  Steps = {1, 2}
SPECIFICATION Spec
INVARIANTS TypeOK NoPendingTrip
PROPERTIES TripProp CoolProp PropagateProp
CHECK_DEADLOCK FALSE
