CONSTANTS
  Ns = {4}
  Cs = {3}
  MaxNow = 8
  Steps = {1, 2}
  StrictCool = FALSE
  NoReset = FALSE
  SwallowApp = FALSE
  ResetOnRecover = FALSE
  StaleGuard = FALSE
SPECIFICATION CSpec
VIEW CView
CONSTRAINT CBound
ACTION_CONSTRAINT Emit
CHECK_DEADLOCK FALSE
