CONSTANTS
  RaiseOnV6 = FALSE
  RaiseOnUnicode = FALSE
  BlockInverted = FALSE
  CaseSensitive = FALSE
  StripOnValidate = TRUE
  MappedByPrefix = FALSE
SPECIFICATION Spec
CHECK_DEADLOCK FALSE
