CONSTANTS
  Ns = {1, 2, 3, 4, 5}
  Cs = {1, 2, 3, 5, 10}
  MaxNow = 24
  Steps = {1, 2, 5}
  StrictCool = FALSE
  NoReset = FALSE
  SwallowApp = FALSE
  ResetOnRecover = FALSE
SPECIFICATION MCSpec
INVARIANT Refines
CONSTRAINT Bound
VIEW View
CHECK_DEADLOCK FALSE
