CONSTANTS
  Ns = {1, 2, 3, 4}
  Cs = {1, 2, 3, 4}
  MaxNow = 8
  Steps = {1, 2, 3}
  StrictCool = FALSE
  NoReset = FALSE
  SwallowApp = FALSE
  ResetOnRecover = FALSE
  StaleGuard = FALSE
SPECIFICATION MCSpec
INVARIANT Refines
CONSTRAINT Bound
VIEW View
CHECK_DEADLOCK FALSE
