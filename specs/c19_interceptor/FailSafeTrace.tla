---------------------------- MODULE FailSafeTrace ----------------------------
(* C19 - validation of recorded executions of the real FailSafe class against   *)
(* the property spec (FailSafeRel).                                             *)
(*                                                                             *)
(* trace.ndjson is a *tree* of observed events (py/c19_exec.py): line i = node  *)
(* i, line 1 = root, field k = child node ids.  Children of the root are        *)
(* "reset" nodes (a fresh FailSafe configured with N, C); every path from a     *)
(* reset node downwards is one recorded history, histories sharing a prefix     *)
(* share its nodes (all event sequences up to a depth = the full tree; a        *)
(* single long recording = a chain).                                            *)
(*                                                                             *)
(* TLC walks the tree; S = set of P-states compatible with the observations on  *)
(* the path to `node` (subset construction: P is nondeterministic where the     *)
(* statement leaves freedom).  A node whose observation no P-state permits      *)
(* gets S = {} : it is reported as  <<"REJ", node>>  and not explored further.  *)
(* Acceptance: no REJ line and every node visited (distinct states = lines).    *)
EXTENDS FailSafeRel, TraceLib

VARIABLES node, S
tvars == <<node, S>>

Kids(n) == LET ks == TraceLog[n].k IN {ks[i] : i \in DOMAIN ks}

StepSet(S0, e) == IF e.ev = "reset" THEN {PInit(e.N, e.C)} ELSE SuccSet(S0, e)

TInit == node = 1 /\ S = {}
TNext == /\ (node = 1 \/ S # {})
         /\ \E c \in Kids(node) : node' = c /\ S' = StepSet(S, TraceLog[c])
TraceSpec == TInit /\ [][TNext]_tvars

Rejected == node # 1 /\ S = {}
Report1 == Rejected => PrintT(<<"REJ", node>>)
Post == PrintT(<<"TREE", TLCGet("stats").distinct, TraceLen>>)
================================================================================
