CONSTANTS
  RaiseOnV6 = FALSE
  RaiseOnUnicode = FALSE
  BlockInverted = FALSE
  CaseSensitive = FALSE
  StripOnValidate = FALSE
  MappedByPrefix = TRUE
SPECIFICATION Spec
CHECK_DEADLOCK FALSE
