CONSTANTS
  RaiseOnV6 = FALSE
  RaiseOnUnicode = FALSE
  BlockInverted = FALSE
  CaseSensitive = TRUE
  StripOnValidate = FALSE
  MappedByPrefix = FALSE
SPECIFICATION Spec
CHECK_DEADLOCK FALSE
