----------------------------- MODULE FailSafeRel -----------------------------
(* C19 - interceptor fail-safe (circuit breaker): property specification (P).   *)
(*                                                                             *)
(* Observable events only (what an application thread can see of FailSafe):     *)
(*   adv   the clock moves by d seconds                                         *)
(*   ask   the breaker is asked (`state_ok`), it answers ans                    *)
(*   call  one intercepted request as the hooks issue it:                       *)
(*           with fail_safe:                                                    *)
(*               if fail_safe.state_ok [and traffic_filter allows]: <gateway>   *)
(*         read = TRUE : state_ok is read first and answers ans; the gateway    *)
(*                       leg runs only when ans = TRUE                          *)
(*         read = FALSE: a leg that was already in flight reports its outcome   *)
(*                       (a concurrent request that started before the trip)    *)
(*         out  = "ok"     the gateway leg succeeded                            *)
(*                "gwerr"  gateway-side failure (error header / connection)     *)
(*                "appexc" an exception that does not come from the gateway     *)
(*                "skip"   the traffic filter kept the call off the gateway     *)
(*         raised = what left the `with` block: "none" | "same" (the very       *)
(*                  exception object raised inside) | "other"                   *)
(*                                                                             *)
(* The specification *is* the property, exactly as permissive as its statement: *)
(*   Trip      tripping is REQUIRED when the run of gateway failures since the  *)
(*             last gateway success or recovery (req) reaches N, and PERMITTED  *)
(*             only when the run since the last gateway success (run) is >= N   *)
(*             (the documented "another cool-down after a single error" and a   *)
(*             breaker that starts counting afresh after recovery both conform) *)
(*   Cool      while open and now - cs < C every ask answers FALSE, from        *)
(*             now - cs >= C on it answers TRUE (the gateway is tried again)    *)
(*   Reset     a gateway success clears both runs                               *)
(*   Propagate an exception that does not come from the gateway leaves the      *)
(*             `with` block as the same object and changes nothing              *)
(* Freedom the statement leaves and P therefore keeps:  what happens to a       *)
(* gateway error itself (swallowed or not);  whether a failure reported while   *)
(* the breaker is open restarts the cool-down;  whether calls that were kept    *)
(* off the gateway interrupt a run of failures (they drop the requirement,      *)
(* not the permission).                                                         *)
(*                                                                             *)
(* P is written as a successor *relation on P-states*  Succ(s, e)  so that the   *)
(* same definition serves (a) P as a TLA+ behaviour spec, (b) the refinement     *)
(* check I => P by subset construction (MC_C19) and (c) validation of recorded   *)
(* executions of the real Python class (FailSafeTrace).                          *)
EXTENDS Integers, Sequences, FiniteSets

\* an event record always carries every field (uniform records keep TLC comparisons well-typed)
Ev(ev, d, read, out, ans, raised) ==
    [ev |-> ev, d |-> d, read |-> read, out |-> out, ans |-> ans, raised |-> raised]

Outs == {"ok", "gwerr", "appexc", "skip"}
Raises == {"none", "same", "other"}

\* P-state: configuration (N = failures to trip, C = cool-down seconds) and the breaker as the property sees it
PInit(n, c) == [N |-> n, C |-> c, ok |-> TRUE, run |-> 0, req |-> 0, cs |-> 0, now |-> 0]

\* the cool-down is over: the gateway is tried again (recovery).  Recovery is placed at the first read of the
\* breaker after the cool-down elapsed - between the two nothing distinguishes a breaker that re-closed by itself
\* from one that re-closes when asked, and the requirement run (req) restarts there.
Recover(s) == IF ~s.ok /\ s.now - s.cs >= s.C THEN [s EXCEPT !.ok = TRUE, !.req = 0] ELSE s

Cap(x, n) == IF x > n THEN n ELSE x

\* a gateway-side failure is reported
GwFail(s) ==
    LET run2 == Cap(s.run + 1, s.N)       \* only "run >= N" is ever tested: saturate (keeps the state space finite)
        req2 == Cap(s.req + 1, s.N)
        t == [s EXCEPT !.run = run2, !.req = req2]
    IN  IF s.ok
        THEN IF req2 >= s.N THEN {[t EXCEPT !.ok = FALSE, !.cs = s.now]}                      \* required
             ELSE IF run2 >= s.N THEN {t, [t EXCEPT !.ok = FALSE, !.cs = s.now]}              \* permitted
             ELSE {t}                                                                         \* forbidden
        ELSE {t, [t EXCEPT !.cs = s.now]}        \* already open: the cool-down may or may not start over

\* outcome `out` of a gateway leg (or of the filter) with `raised` leaving the with-block
Body(s, out, raised) ==
    CASE out = "ok"     -> IF raised = "none" THEN {[s EXCEPT !.run = 0, !.req = 0]} ELSE {}
      [] out = "skip"   -> IF raised = "none" THEN {[s EXCEPT !.req = 0]} ELSE {}
      [] out = "appexc" -> IF raised = "same" THEN {s} ELSE {}
      [] out = "gwerr"  -> GwFail(s)
      [] OTHER          -> {}

\* set of P-states after event e (with its observation) from P-state s; {} = the property forbids the observation
Succ(s, e) ==
    CASE e.ev = "adv"  -> IF e.d >= 0 THEN {[s EXCEPT !.now = s.now + e.d]} ELSE {}
      [] e.ev = "ask"  -> LET r == Recover(s) IN IF e.ans = r.ok THEN {r} ELSE {}
      [] e.ev = "call" ->
            IF e.read
            THEN LET r == Recover(s) IN
                 IF e.ans # r.ok THEN {}
                 ELSE IF ~e.ans THEN (IF e.raised = "none" THEN {r} ELSE {})       \* bypassed: the leg did not run
                 ELSE Body(r, e.out, e.raised)
            ELSE Body(s, e.out, e.raised)      \* no read: recovery is only ever observed (and placed) at a read
      [] OTHER -> {}

SuccSet(S, e) == UNION {Succ(s, e) : s \in S}
================================================================================
