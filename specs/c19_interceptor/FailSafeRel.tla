----------------------------- MODULE FailSafeRel -----------------------------
(* C19 - interceptor fail-safe (circuit breaker): property specification (P).   *)
(*                                                                             *)
(* Observable events only (what an application thread can see of FailSafe):     *)
(*   adv   the clock moves by d seconds                                         *)
(*   ask   the breaker is asked (`state_ok`), it answers ans                    *)
(*   call  one intercepted request as the hooks issue it:                       *)
(*           with fail_safe:                                                    *)
(*               if fail_safe.state_ok [and traffic_filter allows]: <gateway>   *)
(*         read = TRUE : state_ok is read first and answers ans; the gateway    *)
(*                       leg runs only when ans = TRUE                          *)
(*         read = FALSE: a leg that was already in flight reports its outcome   *)
(*                       (a concurrent request that started before the trip)    *)
(*         out  = "ok"     the gateway leg succeeded                            *)
(*                "gwerr"  gateway-side failure (error header / connection)     *)
(*                "appexc" an exception that does not come from the gateway     *)
(*                "skip"   the traffic filter kept the call off the gateway     *)
(*         raised = what left the `with` block: "none" | "same" (the very       *)
(*                  exception object raised inside) | "other"                   *)
(*                                                                             *)
(* The specification *is* the property, exactly as permissive as its statement: *)
(*   Trip      tripping is REQUIRED when the run of gateway failures since the  *)
(*             last gateway success or recovery (req) reaches N, and PERMITTED  *)
(*             only when the run since the last gateway success (run) is >= N   *)
(*             (the documented "another cool-down after a single error" and a   *)
(*             breaker that starts counting afresh after recovery both conform) *)
(*   Cool      while open and now - cs < C every ask answers FALSE, from        *)
(*             now - cs >= C on it answers TRUE (the gateway is tried again)    *)
(*   Reset     a gateway success clears both runs                               *)
(*   Propagate an exception that does not come from the gateway leaves the      *)
(*             `with` block as the same object and changes nothing              *)
(* Freedom the statement leaves and P therefore keeps:  what happens to a       *)
(* gateway error itself (swallowed or not);  whether a failure reported while   *)
(* the cool-down period still lasts restarts it (one reported after the period  *)
(* is a failure of a closed breaker);  whether calls that were kept off the     *)
(* gateway interrupt a run of failures (they drop the requirement, not the      *)
(* permission);  whether the requirement run restarts when the period ends or   *)
(* at the first read after it.                                                  *)
(*                                                                             *)
(* P is written as a successor *relation on P-states*  Succ(s, e)  so that the   *)
(* same definition serves (a) P as a TLA+ behaviour spec, (b) the refinement     *)
(* check I => P by subset construction (MC_C19) and (c) validation of recorded   *)
(* executions of the real Python class (FailSafeTrace).                          *)
EXTENDS Integers, Sequences, FiniteSets

\* an event record always carries every field (uniform records keep TLC comparisons well-typed)
Ev(ev, d, read, out, ans, raised) ==
    [ev |-> ev, d |-> d, read |-> read, out |-> out, ans |-> ans, raised |-> raised]

Outs == {"ok", "gwerr", "appexc", "skip"}
Raises == {"none", "same", "other"}

\* P-state: configuration (N = failures to trip, C = cool-down seconds) and the breaker as the property sees it
PInit(n, c) == [N |-> n, C |-> c, ok |-> TRUE, run |-> 0, req |-> 0, cs |-> 0, now |-> 0, pend |-> FALSE]

\* "... sends traffic directly to the provider FOR THE COOL-DOWN PERIOD, then tries the gateway again": the period is a
\* matter of the clock, so the breaker is closed again from the instant now - cs >= C on, whether or not anybody has asked
\* it since.  A gateway failure reported after that instant is therefore a failure of a *closed* breaker (it counts towards
\* a new trip and, if it trips, the bypass lasts a full cool-down from that failure); only failures reported *within* the
\* period leave the choice of restarting it.  Tick is applied before every event except a clock advance.
\* pend: the recovery has not been observed by a read yet.  An implementation that re-closes lazily (when asked) cannot
\* restart its requirement run before that read, so at the first read after a recovery req may be restarted once more.
Tick(s) == IF ~s.ok /\ s.now - s.cs >= s.C THEN [s EXCEPT !.ok = TRUE, !.req = 0, !.pend = TRUE] ELSE s
AtRead(s) == LET r == Tick(s) IN
             IF r.pend THEN {[r EXCEPT !.pend = FALSE], [r EXCEPT !.pend = FALSE, !.req = 0]} ELSE {r}

Cap(x, n) == IF x > n THEN n ELSE x

\* a gateway-side failure is reported
GwFail(s) ==
    LET run2 == Cap(s.run + 1, s.N)       \* only "run >= N" is ever tested: saturate (keeps the state space finite)
        req2 == Cap(s.req + 1, s.N)
        t == [s EXCEPT !.run = run2, !.req = req2]
    IN  IF s.ok
        THEN IF req2 >= s.N THEN {[t EXCEPT !.ok = FALSE, !.cs = s.now]}                      \* required
             ELSE IF run2 >= s.N THEN {t, [t EXCEPT !.ok = FALSE, !.cs = s.now]}              \* permitted
             ELSE {t}                                                                         \* forbidden
        ELSE {t, [t EXCEPT !.cs = s.now]}        \* open and within the period: the cool-down may or may not start over

\* outcome `out` of a gateway leg (or of the filter) with `raised` leaving the with-block
Body(s, out, raised) ==
    CASE out = "ok"     -> IF raised = "none" THEN {[s EXCEPT !.run = 0, !.req = 0]} ELSE {}
      [] out = "skip"   -> IF raised = "none" THEN {[s EXCEPT !.req = 0]} ELSE {}
      [] out = "appexc" -> IF raised = "same" THEN {s} ELSE {}
      [] out = "gwerr"  -> GwFail(s)
      [] OTHER          -> {}

\* set of P-states after event e (with its observation) from P-state s; {} = the property forbids the observation
Succ(s, e) ==
    CASE e.ev = "adv"  -> IF e.d >= 0 THEN {[s EXCEPT !.now = s.now + e.d]} ELSE {}
      [] e.ev = "ask"  -> {r \in AtRead(s) : e.ans = r.ok}
      [] e.ev = "call" ->
            IF e.read
            THEN UNION {IF e.ans # r.ok THEN {}
                        ELSE IF ~e.ans THEN (IF e.raised = "none" THEN {r} ELSE {})       \* bypassed: the leg did not run
                        ELSE Body(r, e.out, e.raised) : r \in AtRead(s)}
            ELSE Body(Tick(s), e.out, e.raised)      \* a leg already in flight reports its outcome, nobody reads the breaker
      [] OTHER -> {}

SuccSet(S, e) == UNION {Succ(s, e) : s \in S}
================================================================================
