CONSTANTS
  Ns = {1, 2, 3}
  Cs = {1, 2, 3}
  MaxNow = 5
  Steps = {1, 2}
  StrictCool = FALSE
  NoReset = FALSE
  SwallowApp = FALSE
  ResetOnRecover = FALSE
  StaleGuard = FALSE
SPECIFICATION MCSpec
INVARIANT W_NeverPropagated
CONSTRAINT Bound
CHECK_DEADLOCK FALSE
