CONSTANTS
  RaiseOnV6 = TRUE
  RaiseOnUnicode = FALSE
  BlockInverted = FALSE
  CaseSensitive = FALSE
  StripOnValidate = FALSE
SPECIFICATION Spec
CHECK_DEADLOCK FALSE
