CONSTANTS
  RaiseOnV6 = TRUE
  RaiseOnUnicode = FALSE
  BlockInverted = FALSE
SPECIFICATION Spec
CHECK_DEADLOCK FALSE
