------------------------------- MODULE MC_C19 -------------------------------
(* I => P by subset construction: alongside the implementation-shaped model the *)
(* set S of all P-states compatible with the events observed so far is tracked; *)
(* the implementation refines the property iff S never becomes empty (trace     *)
(* inclusion for a finitely branching P; no refinement mapping needed although   *)
(* P keeps history - run / req - that I does not).                               *)
EXTENDS FailSafeI, TLC

VARIABLE S
mcvars == <<ivars, S>>

MCInit == Init /\ S = {PInit(cfgN, cfgC)}
MCNext == Next /\ S' = SuccSet(S, last')
MCSpec == MCInit /\ [][MCNext]_mcvars

Refines == S # {}

\* `last` only carries the observation of the step just taken: not part of the state identity
View == <<cfgN, cfgC, okflag, cnt, started, now, S>>

\* the counter of the implementation is unbounded (failures reported while open): bounded instance
Bound == cnt <= cfgN + 2

\* witnesses (expected to be VIOLATED: they show the interesting situations are reached)
W_NeverOpen == okflag
W_NeverPermittedOnly == Cardinality(S) < 2          \* the trip-permitted-but-not-required zone is reached
W_NeverRecovered == ~(last.ev = "ask" /\ last.ans /\ cnt >= cfgN)
W_NeverPropagated == ~(last.ev = "call" /\ last.raised = "same")
W_NeverLateWhileOpen == ~(last.ev = "call" /\ ~last.read /\ last.out = "gwerr" /\ cnt > cfgN)
=============================================================================
