------------------------------- MODULE MC_C07 -------------------------------
EXTENDS ActionsI, TLC, TLCExt

H(seq) == seq
A(k, h, st, b, p, ho, q, rm) == [k |-> k, h |-> h, st |-> st, b |-> b, p |-> p, ho |-> ho, q |-> q, rm |-> rm]
a1 == <<"a", "1">>  a2 == <<"a", "2">>  b1 == <<"b", "1">>  b2 == <<"b", "2">>

Maps5 == {<<>>, <<a1>>, <<a2>>, <<b1>>, <<a1, b2>>}
Maps9 == {<<>>, <<a1>>, <<a2>>, <<b1>>, <<b2>>, <<a1, b1>>, <<a1, b2>>, <<a2, b1>>, <<a2, b2>>}

Early1 == A("early", <<a1>>, 429, "e1", "", "", "", <<>>)
Early2 == A("early", <<>>, 503, "e2", "", "", "", <<>>)

ReqSmall ==
    {NoOp, Early1, Early2}
    \cup {A("modh", h, 0, "", "", "", "", <<>>) : h \in Maps5}
    \cup {A("modreq", <<a2>>, 0, "", "/p1", "", "", <<>>), A("modreq", <<b2>>, 0, "B1", "", "h1", "", <<>>),
          A("modreq", <<>>, 0, "B2", "/p2", "", "x=1", <<>>)}
    \cup {A("gen", <<a1>>, 0, "G1", "", "", "", <<>>), A("gen", <<b1>>, 0, "", "", "", "", <<"a">>)}

ReqLarge ==
    {NoOp, Early1, Early2}
    \cup {A("modh", h, 0, "", "", "", "", <<>>) : h \in Maps9}
    \cup {A("modreq", h, 0, b, p, "", "", <<>>) : h \in {<<>>, <<a2>>, <<b2>>, <<a1, b1>>}, b \in {"", "B1"}, p \in {"", "/p1"}}
    \cup {A("modreq", <<a1>>, 0, "B2", "/p2", "h1", "x=1", <<>>)}
    \cup {A("gen", <<a1>>, 0, "G1", "", "", "", <<>>), A("gen", <<b1>>, 0, "", "", "", "", <<"a">>),
          A("gen", <<a2, b2>>, 0, "G2", "", "", "", <<"b">>)}

RespSmall ==
    {NoOp}
    \cup {A("modresp", <<a1>>, 200, "r1", "", "", "", <<>>), A("modresp", <<a2>>, 500, "r2", "", "", "", <<>>),
          A("modresp", <<b1>>, 200, "r1", "", "", "", <<>>), A("modresp", <<>>, 0, "", "", "", "", <<>>),
          A("modresp", <<a1, b2>>, 201, "r3", "", "", "", <<>>)}
    \cup {A("retry", <<>>, 0, "", "", "", "", <<>>), A("retry", <<a1>>, 0, "", "", "", "", <<>>),
          A("retry", <<a2, b1>>, 0, "", "", "", "", <<>>)}

RespLarge ==
    {NoOp}
    \cup {A("modresp", h, st, b, "", "", "", <<>>) : h \in Maps5, st \in {200, 500}, b \in {"r1", "r2"}}
    \cup {A("modresp", <<>>, 0, "", "", "", "", <<>>)}
    \cup {A("retry", h, 0, "", "", "", "", <<>>) : h \in Maps5}

\* non-vacuity witness: the cells <<side, kind of the accumulator, kind of the next action>> of the two pairwise tables
\* that the exploration actually evaluated (register 2, -workers 1), printed by the POSTCONDITION of MC_small_cov.cfg
CovAction == TLCSet(2, TLCGetOrDefault(2, {}) \cup {<<side, acc.k, s'[Len(s')].k>>})
CovReport == TLCGet("stats").diameter >= 0 /\ PrintT(<<"CELLS", TLCGetOrDefault(2, {})>>)

\* sanity of the property spec itself (evaluated once, at start-up)
RelMaps == {Pairs(h) : h \in Maps9}
RECURSIVE SeqsUpTo(_, _)
SeqsUpTo(S, n) == IF n = 0 THEN {<<>>} ELSE LET T == SeqsUpTo(S, n - 1) IN T \cup {Append(t, x) : t \in {u \in T : Len(u) = n - 1}, x \in S}

ASSUME LawAssoc(RelMaps) /\ LawIdem(RelMaps)
ASSUME LawRefInP(SeqsUpTo(ReqSmall, 2)) /\ LawRefInPResp(SeqsUpTo(RespSmall, 2))
ASSUME LawNoopIdentity(SeqsUpTo(ReqSmall, 2))
ASSUME LawEarlyZero(SeqsUpTo(ReqSmall, 2), Early1) /\ LawEarlyZero(SeqsUpTo(ReqSmall, 2), Early2)
=============================================================================
