CONSTANTS
  ReqAlphabet <- ReqSmall
  RespAlphabet <- RespSmall
  MaxLen = 3
  Bug = "retry_wins"
SPECIFICATION ISpec
INVARIANT Conforms
CHECK_DEADLOCK FALSE
