CONSTANTS
  ReqAlphabet = {}
  RespAlphabet = {}
  MaxLen = 0
  Bug = "none"
SPECIFICATION TraceSpec
CONSTRAINT HWM
POSTCONDITION Post
CHECK_DEADLOCK FALSE
