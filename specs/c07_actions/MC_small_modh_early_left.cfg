CONSTANTS
  ReqAlphabet <- ReqSmall
  RespAlphabet <- RespSmall
  MaxLen = 3
  Bug = "modh_early_left"
SPECIFICATION ISpec
INVARIANT Conforms
CHECK_DEADLOCK FALSE
