CONSTANTS
  ReqAlphabet <- ReqSmall
  RespAlphabet <- RespSmall
  MaxLen = 0
  Bug = "none"
  GenLen = 3
INIT GInit
NEXT GNext
CHECK_DEADLOCK FALSE
