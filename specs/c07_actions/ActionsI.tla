------------------------------ MODULE ActionsI ------------------------------
(* C07 - implementation-shaped specification: transcription of                  *)
(*   actions/request_action_prioritize.go   (ReqPrioritize, 5 x 5 cases)         *)
(*   actions/response_action_prioritize.go  (RespPrioritize, 3 x 3 cases)        *)
(*   utils/headers_transformations.go       (MergeHeaders)                       *)
(*   actions/*_transformers.go              (ReqToSpoeActions / RespToSpoeActions)*)
(* and of the left fold starting from NoOp in routing/messages_handler.go       *)
(* (getSPOEReqActions / getSPOERespActions) and runner/plugin_runner.go         *)
(* (runOnRequest / runOnResponse): one step of Next = one iteration of the loop. *)
(* Actions are values: the result of a fold depends only on the values of its    *)
(* sequence.  The code must therefore not change an action (or its header map)   *)
(* it was handed - checked on the real code by histories of folds that share     *)
(* action instances and header map objects, each fold judged on its own.         *)
(*                                                                              *)
(* Bug selects a deliberately broken variant (non-vacuity: TLC must refute it)   *)
(* or a variant the property statement does not forbid (TLC must accept it):     *)
(*   "none"                 the code as it is                                    *)
(*   "swap_merge"           MergeHeaders arguments swapped            (refuted)  *)
(*   "modh_early_left"      ModifyHeaders (+) Early returns the left  (refuted)  *)
(*   "resp_noop_self"       response NoOp returns itself              (refuted)  *)
(*   "gen_modh_drop"        Generate (+) ModifyHeaders keeps only the later (refuted) *)
(*   "status_later"         merged ModifyResponse takes status/body of the later (accepted) *)
(*   "retry_wins"           ModifyResponse never displaces a Retry    (accepted) *)
EXTENDS ActionsP

CONSTANTS ReqAlphabet, RespAlphabet, MaxLen, Bug

VARIABLES side, s, acc
ivars == <<side, s, acc>>

MergeHeaders(first, second) ==
    IF Bug = "swap_merge" THEN {p \in second : p[1] \notin KeysOf(first)} \cup first
    ELSE {p \in first : p[1] \notin KeysOf(second)} \cup second

Blank == Rel(NoOp)

\* the ModifyRequestAction built in the three "other is ModifyRequest" cases: merged headers, and path / query /
\* host / body copied from the other action when non-empty (the fields of the receiver are dropped)
ModReqFrom(x, y) == [Blank EXCEPT !.k = "modreq", !.h = MergeHeaders(x.h, y.h),
                                  !.p = y.p, !.q = y.q, !.ho = y.ho, !.b = y.b]

ReqPrioritize(x, y) ==   \* x.ReqPrioritize(y)
    CASE x.k = "noop" -> y
      [] x.k = "early" -> x
      [] x.k = "modh" ->
            (CASE y.k = "early" -> IF Bug = "modh_early_left" THEN x ELSE y
              [] y.k = "noop" -> x
              [] y.k = "modh" -> [Blank EXCEPT !.k = "modh", !.h = MergeHeaders(x.h, y.h)]
              [] y.k = "modreq" -> ModReqFrom(x, y)
              [] y.k = "gen" -> [Blank EXCEPT !.k = "gen", !.h = MergeHeaders(x.h, y.h), !.rm = y.rm, !.b = y.b])
      [] x.k = "modreq" ->
            (CASE y.k = "early" -> y
              [] y.k = "noop" -> x
              [] y.k = "modh" -> [x EXCEPT !.h = MergeHeaders(x.h, y.h)]       \* a new action with the receiver's other fields
              [] y.k = "modreq" -> ModReqFrom(x, y)
              [] y.k = "gen" -> [Blank EXCEPT !.k = "gen", !.h = MergeHeaders(x.h, y.h), !.rm = y.rm, !.b = y.b])
      [] x.k = "gen" ->
            (CASE y.k = "early" -> y
              [] y.k = "noop" -> x
              [] y.k = "modh" -> [Blank EXCEPT !.k = "modh",
                                               !.h = IF Bug = "gen_modh_drop" THEN y.h ELSE MergeHeaders(x.h, y.h)]
              [] y.k = "modreq" -> ModReqFrom(x, y)
              [] y.k = "gen" -> [Blank EXCEPT !.k = "gen", !.h = MergeHeaders(x.h, y.h), !.rm = x.rm \o y.rm, !.b = y.b])

RespPrioritize(x, y) ==  \* x.RespPrioritize(y)
    CASE x.k = "noop" -> IF Bug = "resp_noop_self" THEN x ELSE y
      [] x.k = "modresp" ->
            (CASE y.k = "noop" -> x
              [] y.k = "modresp" -> [Blank EXCEPT !.k = "modresp", !.h = MergeHeaders(x.h, y.h),
                                                  !.b = IF Bug = "status_later" THEN y.b ELSE x.b,
                                                  !.st = IF Bug = "status_later" THEN y.st ELSE x.st]
              [] y.k = "retry" -> y)
      [] x.k = "retry" ->
            (CASE y.k = "noop" -> x
              [] y.k = "modresp" -> IF Bug = "retry_wins" THEN x ELSE y
              [] y.k = "retry" -> [Blank EXCEPT !.k = "retry", !.h = MergeHeaders(x.h, y.h)])

Opt(cond, name) == IF cond THEN <<name>> ELSE <<>>

ReqToSpoeActions(a) ==
    CASE a.k = "early" ->
            [NoOut EXCEPT !.names = <<"return_early_response", "status_code", "response_body", "response_headers">>,
                          !.early = TRUE, !.st = a.st, !.body = a.b, !.rh = SetSeq(a.h)]
      [] a.k = "modreq" ->
            [NoOut EXCEPT !.names = <<"modify_request", "request_headers">> \o Opt(a.p # "", "request_path")
                                     \o Opt(a.q # "", "request_query_params") \o Opt(a.ho # "", "request_host")
                                     \o Opt(a.b # "", "request_body"),
                          !.modreq = TRUE, !.qh = SetSeq(a.h), !.path = a.p, !.query = a.q, !.host = a.ho, !.qbody = a.b]
      [] a.k = "modh" -> [NoOut EXCEPT !.names = <<"request_headers">>, !.qh = SetSeq(a.h)]
      [] a.k = "gen" -> [NoOut EXCEPT !.names = <<"generate_request", "request_headers", "request_body">>,
                                       !.gen = TRUE, !.qh = SetSeq(a.h), !.qbody = a.b]
      [] OTHER -> NoOut

RespToSpoeActions(a) ==
    CASE a.k = "modresp" ->
            [NoOut EXCEPT !.names = <<"modify_response", "response_headers", "response_body", "status_code">>,
                          !.modresp = TRUE, !.rh = SetSeq(a.h), !.body = a.b, !.st = a.st]
      [] a.k = "retry" -> [NoOut EXCEPT !.names = <<"retry_request", "retry_headers">>, !.retry = TRUE, !.th = SetSeq(a.h)]
      [] OTHER -> NoOut

Init == side \in {"req", "resp"} /\ s = <<>> /\ acc = Blank

Step(a) ==
    /\ s' = Append(s, a)
    /\ acc' = IF side = "req" THEN ReqPrioritize(acc, Rel(a)) ELSE RespPrioritize(acc, Rel(a))
    /\ UNCHANGED side

Next == /\ Len(s) < MaxLen
        /\ \E a \in (IF side = "req" THEN ReqAlphabet ELSE RespAlphabet) : Step(a)

ISpec == Init /\ [][Next]_ivars

\* I => P: whatever the fold has produced so far, its encoding is permitted by the property for the sequence so far
Conforms == IF side = "req" THEN ReqOK(s, ReqToSpoeActions(acc)) ELSE RespOK(s, RespToSpoeActions(acc))

\* how often the fold agrees with the canonical member of P exactly (not required; reported)
SameAsRef == IF side = "req" THEN acc = RefReq(s) ELSE acc = RefResp(s)
================================================================================
