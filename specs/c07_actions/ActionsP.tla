------------------------------ MODULE ActionsP ------------------------------
(* C07 - combined actions: property specification (P).                         *)
(*                                                                             *)
(* Observables: the sequence `s` of actions produced for one request (or one   *)
(* response) by the processors / remedies, and the decoded SPOE variables `o`  *)
(* handed to the proxy.  P is a relation  ReqOK(s, o) / RespOK(s, o)  written  *)
(* from the property statement and exactly as permissive as it:                *)
(*   request : first early response if any, unchanged (status, body, headers); *)
(*             otherwise a request modification whose header edits are the     *)
(*             right-biased union of all header edits; a no-op only if all     *)
(*             were no-ops.  The statement does not say which kind of          *)
(*             modification results nor which body / path / host / query a     *)
(*             merged modification carries: any of the operands' (or none).    *)
(*   response: a no-op never displaces a modification or a retry; response     *)
(*             modifications merge their header edits the same way.  The       *)
(*             statement does not rank retry against modification, does not    *)
(*             say which status / body a merged modification carries and does  *)
(*             not say how retries combine: left open here.                    *)
(*   encoding: one action only - the variables are those of one action kind    *)
(*             and carry exactly its status, body and headers.                 *)
(*                                                                             *)
(* An action is a record of uniform shape                                      *)
(*   [k, h, st, b, p, ho, q, rm]   k \in {"noop","early","modh","modreq","gen",*)
(*                                         "modresp","retry"}                  *)
(*   h = header edits as a sequence of <<name, value>> pairs (names unique),   *)
(*   st = status, b = body, p/ho/q = path/host/query ("" = unchanged),         *)
(*   rm = header names to remove (GenerateRequest only; never encoded).        *)
(* A decoded output is a record                                                *)
(*   [names, early, modreq, gen, modresp, retry, st, body, rh, qh, qbody,      *)
(*    path, host, query, th, bad]                                              *)
(*   names = sequence of SPOE variable names set; rh/qh/th = response_headers /*)
(*   request_headers / retry_headers parsed to pairs; bad = decode problems.   *)
EXTENDS Integers, Sequences, FiniteSets

ToSet(s) == {s[i] : i \in 1..Len(s)}
Pairs(h) == {<<h[i][1], h[i][2]>> : i \in 1..Len(h)}
KeysOf(R) == {p[1] : p \in R}

\* right-biased union of two header relations: the later edit wins on conflict
Merge(F, G) == {p \in F : p[1] \notin KeysOf(G)} \cup G

RECURSIVE UnionH(_)
\* right-biased union of the header edits of a sequence of actions, in order
UnionH(s) == IF s = <<>> THEN {} ELSE Merge(UnionH(SubSeq(s, 1, Len(s) - 1)), Pairs(s[Len(s)].h))

NonNoop(s) == SelectSeq(s, LAMBDA a : a.k # "noop")
Of(s, kind) == SelectSeq(s, LAMBDA a : a.k = kind)

EarlyNames == {"return_early_response", "status_code", "response_body", "response_headers"}
ReqModNames == {"modify_request", "generate_request", "request_headers", "request_body",
                "request_path", "request_host", "request_query_params"}
ModRespNames == {"modify_response", "response_headers", "response_body", "status_code"}
RetryNames == {"retry_request", "retry_headers"}

-------------------------------------------------------------------------------
\* request side

ReqOK(s, o) ==
    LET E == {i \in 1..Len(s) : s[i].k = "early"}
        nz == NonNoop(s)
        N == ToSet(o.names)
    IN  /\ o.bad = <<>>
        /\ IF E # {}
           THEN LET a == s[CHOOSE i \in E : \A j \in E : i <= j] IN       \* the first early response, unchanged
                /\ o.early
                /\ N \subseteq EarlyNames            \* (a variable left out reads as status -1 / empty body / no headers)
                /\ o.st = a.st /\ o.body = a.b /\ Pairs(o.rh) = Pairs(a.h)
           ELSE IF nz = <<>>
           THEN \* all no-ops: a no-op (or a request modification that edits nothing)
                /\ ~o.early
                /\ N \subseteq {"modify_request", "request_headers"}
                /\ Pairs(o.qh) = {}
           ELSE \* a request modification carrying the union of all header edits
                /\ ~o.early
                /\ N # {} /\ N \subseteq ReqModNames
                /\ Pairs(o.qh) = UnionH(s)
                /\ o.qbody \in {""} \cup {nz[i].b : i \in 1..Len(nz)}
                /\ o.path \in {""} \cup {nz[i].p : i \in 1..Len(nz)}
                /\ o.host \in {""} \cup {nz[i].ho : i \in 1..Len(nz)}
                /\ o.query \in {""} \cup {nz[i].q : i \in 1..Len(nz)}

-------------------------------------------------------------------------------
\* response side

\* positions of nz at which a merged response modification may start: the beginning, or right after a retry
\* (whether modifications made before a displacing retry survive is not fixed by the statement)
Starts(nz) == {i \in 1..Len(nz) : (i = 1 \/ nz[i - 1].k = "retry")
                                   /\ \E j \in i..Len(nz) : nz[j].k = "modresp"}

RespOK(s, o) ==
    LET nz == NonNoop(s)
        N == ToSet(o.names)
        M == Of(nz, "modresp")
        R == Of(nz, "retry")
    IN  /\ o.bad = <<>>
        /\ IF nz = <<>> THEN N = {}                                  \* nothing but no-ops: a no-op
           ELSE \/ /\ M # <<>>                                       \* a response modification ...
                   /\ o.modresp /\ ~o.retry
                   /\ N # {} /\ N \subseteq ModRespNames
                   /\ \E i \in Starts(nz) :
                         Pairs(o.rh) = UnionH(Of(SubSeq(nz, i, Len(nz)), "modresp"))
                   /\ o.st \in {M[i].st : i \in 1..Len(M)}
                   /\ o.body \in {M[i].b : i \in 1..Len(M)}
                \/ /\ R # <<>>                                       \* ... or a retry; never a no-op
                   /\ o.retry /\ ~o.modresp
                   /\ N # {} /\ N \subseteq RetryNames
                   /\ Pairs(o.th) \subseteq UNION {Pairs(R[i].h) : i \in 1..Len(R)}

-------------------------------------------------------------------------------
\* Reference fold (one canonical member of the permitted set; used to generate expected results, for the
\* sanity laws below and to show that the relation is satisfiable for every sequence).

NoOp == [k |-> "noop", h |-> <<>>, st |-> 0, b |-> "", p |-> "", ho |-> "", q |-> "", rm |-> <<>>]

\* the same action with its header edits as a relation (set of pairs)
Rel(a) == [a EXCEPT !.h = Pairs(a.h)]

LastNonEmpty(vals) ==   \* the last non-empty string of a sequence, "" if none
    LET I == {i \in 1..Len(vals) : vals[i] # ""} IN
    IF I = {} THEN "" ELSE vals[CHOOSE i \in I : \A j \in I : j <= i]

Strength(k) == CASE k = "gen" -> 3 [] k = "modreq" -> 2 [] k = "modh" -> 1 [] OTHER -> 0

FoldReqP(s) ==
    LET E == {i \in 1..Len(s) : s[i].k = "early"}
        nz == NonNoop(s)
    IN  IF E # {} THEN Rel(s[CHOOSE i \in E : \A j \in E : i <= j])
        ELSE IF nz = <<>> THEN Rel(NoOp)
        ELSE LET kind == (CHOOSE a \in ToSet(nz) : \A c \in ToSet(nz) : Strength(c.k) <= Strength(a.k)).k IN
             [NoOp EXCEPT !.k = kind, !.h = UnionH(s),
                          !.b = LastNonEmpty([i \in 1..Len(nz) |-> nz[i].b]),
                          !.p = IF kind = "modreq" THEN LastNonEmpty([i \in 1..Len(nz) |-> nz[i].p]) ELSE "",
                          !.ho = IF kind = "modreq" THEN LastNonEmpty([i \in 1..Len(nz) |-> nz[i].ho]) ELSE "",
                          !.q = IF kind = "modreq" THEN LastNonEmpty([i \in 1..Len(nz) |-> nz[i].q]) ELSE ""]

FoldRespP(s) ==
    LET nz == NonNoop(s) IN
    IF nz = <<>> THEN Rel(NoOp)
    ELSE LET last == nz[Len(nz)]
             run == CHOOSE i \in 1..Len(nz) : /\ \A j \in i..Len(nz) : nz[j].k = last.k
                                              /\ (i = 1 \/ nz[i - 1].k # last.k)
             seg == SubSeq(nz, run, Len(nz))
         IN [NoOp EXCEPT !.k = last.k, !.h = UnionH(seg), !.st = seg[1].st, !.b = seg[1].b]

\* Encode(a): the SPOE variables with exactly the action's status / body / headers (header relation kept as a set)
NoOut == [names |-> <<>>, early |-> FALSE, modreq |-> FALSE, gen |-> FALSE, modresp |-> FALSE, retry |-> FALSE,
          st |-> -1, body |-> "", rh |-> <<>>, qh |-> <<>>, qbody |-> "", path |-> "", host |-> "", query |-> "",
          th |-> <<>>, bad |-> <<>>]

SetSeq(S) == LET RECURSIVE F(_) F(T) == IF T = {} THEN <<>> ELSE LET x == CHOOSE y \in T : TRUE IN <<x>> \o F(T \ {x}) IN F(S)

EncodeReq(a) ==  \* a.h is a header relation (set of pairs) here
    CASE a.k = "early" -> [NoOut EXCEPT !.names = SetSeq(EarlyNames), !.early = TRUE, !.st = a.st, !.body = a.b,
                                         !.rh = SetSeq(a.h)]
      [] a.k = "modh" -> [NoOut EXCEPT !.names = <<"request_headers">>, !.qh = SetSeq(a.h)]
      [] a.k = "modreq" -> [NoOut EXCEPT !.names = <<"modify_request", "request_headers">>, !.modreq = TRUE,
                                          !.qh = SetSeq(a.h), !.qbody = a.b, !.path = a.p, !.host = a.ho, !.query = a.q]
      [] a.k = "gen" -> [NoOut EXCEPT !.names = <<"generate_request", "request_headers", "request_body">>, !.gen = TRUE,
                                       !.qh = SetSeq(a.h), !.qbody = a.b]
      [] OTHER -> NoOut

EncodeResp(a) ==
    CASE a.k = "modresp" -> [NoOut EXCEPT !.names = SetSeq(ModRespNames), !.modresp = TRUE, !.st = a.st, !.body = a.b,
                                           !.rh = SetSeq(a.h)]
      [] a.k = "retry" -> [NoOut EXCEPT !.names = SetSeq(RetryNames), !.retry = TRUE, !.th = SetSeq(a.h)]
      [] OTHER -> NoOut

RefReq(s) == FoldReqP(s)
RefResp(s) == FoldRespP(s)


\* sanity laws of the property itself, over a given set of header relations / sequences (checked by TLC as ASSUMEs
\* of the model-checking module)
LawAssoc(HS) == \A F \in HS, G \in HS, K \in HS : Merge(Merge(F, G), K) = Merge(F, Merge(G, K))
LawIdem(HS) == \A F \in HS : Merge(F, F) = F /\ Merge(F, {}) = F /\ Merge({}, F) = F
LawRefInP(SS) == \A s \in SS : ReqOK(s, EncodeReq(RefReq(s)))
LawRefInPResp(SS) == \A s \in SS : RespOK(s, EncodeResp(RefResp(s)))
LawNoopIdentity(SS) == \A s \in SS : RefReq(s) = RefReq(<<NoOp>> \o s) /\ RefReq(s) = RefReq(s \o <<NoOp>>)
LawEarlyZero(SS, e) == \A s \in SS : (\A i \in 1..Len(s) : s[i].k # "early") => RefReq(s \o <<e>>) = Rel(e) /\ RefReq(<<e>> \o s) = Rel(e)
================================================================================
