CONSTANTS
  ReqAlphabet <- ReqSmall
  RespAlphabet <- RespSmall
  MaxLen = 3
  Bug = "resp_noop_self"
SPECIFICATION ISpec
INVARIANT Conforms
CHECK_DEADLOCK FALSE
