CONSTANTS
  ReqAlphabet <- ReqSmall
  RespAlphabet <- RespSmall
  MaxLen = 3
  Bug = "status_later"
SPECIFICATION ISpec
INVARIANT Conforms
CHECK_DEADLOCK FALSE
