CONSTANTS
  ReqAlphabet <- ReqSmall
  RespAlphabet <- RespSmall
  MaxLen = 3
  Bug = "swap_merge"
SPECIFICATION ISpec
INVARIANT Conforms
CHECK_DEADLOCK FALSE
