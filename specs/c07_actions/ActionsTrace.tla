---------------------------- MODULE ActionsTrace ----------------------------
(* C07 - trace validation.  trace.ndjson holds one event per executed case:      *)
(*   {"ev":"req"|"resp","id":n,"via":..,"seq":[actions],"out":{decoded SPOE vars}} *)
(* (function-like property: the event carries the input and the real output, the  *)
(* step guard is the property relation ReqOK / RespOK of ActionsP).  A case the   *)
(* property does not permit is reported as  <<"REJECT", line, id>>  and the       *)
(* validation goes on, so that one run lists every rejected case.                 *)
(* In the same pass the real output is compared with what the implementation-     *)
(* shaped model ActionsI computes for the sequence; a difference is reported as   *)
(* <<"DRIFT", line, id>> (the code no longer behaves like the model - not a       *)
(* violation of the property).                                                    *)
EXTENDS ActionsI, TraceLib

VARIABLE l

Ev == TraceLog[l + 1]

Permitted(e) ==
    CASE e.ev = "req" -> ReqOK(e.seq, e.out)
      [] e.ev = "resp" -> RespOK(e.seq, e.out)
      [] OTHER -> FALSE

RECURSIVE FoldI(_, _, _)
FoldI(sd, a, q) == IF q = <<>> THEN a
                   ELSE FoldI(sd, IF sd = "req" THEN ReqPrioritize(a, Rel(Head(q))) ELSE RespPrioritize(a, Rel(Head(q))), Tail(q))

SameOut(o, m) ==
    /\ ToSet(o.names) = ToSet(m.names) /\ Len(o.names) = Len(m.names)
    /\ o.early = m.early /\ o.modreq = m.modreq /\ o.gen = m.gen /\ o.modresp = m.modresp /\ o.retry = m.retry
    /\ o.st = m.st /\ o.body = m.body /\ o.qbody = m.qbody /\ o.path = m.path /\ o.host = m.host /\ o.query = m.query
    /\ Pairs(o.rh) = Pairs(m.rh) /\ Pairs(o.qh) = Pairs(m.qh) /\ Pairs(o.th) = Pairs(m.th)

LikeModel(e) ==
    LET r == FoldI(e.ev, Blank, e.seq) IN
    SameOut(e.out, IF e.ev = "req" THEN ReqToSpoeActions(r) ELSE RespToSpoeActions(r))

\* the variables of ActionsI are not used by the validation (the fold is recomputed per event)
TInit == l = 0 /\ side = "req" /\ s = <<>> /\ acc = Blank
TNext == /\ l < TraceLen
         /\ l' = l + 1 /\ UNCHANGED ivars
         /\ IF Permitted(Ev) THEN TRUE ELSE PrintT(<<"REJECT", l + 1, Ev.id>>)
         /\ IF Ev.ev \in {"req", "resp"} /\ ~LikeModel(Ev) THEN PrintT(<<"DRIFT", l + 1, Ev.id>>) ELSE TRUE

TraceSpec == TInit /\ [][TNext]_<<l, ivars>>
HWM == Mark(l)
Post == Report
=============================================================================
