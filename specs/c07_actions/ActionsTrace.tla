---------------------------- MODULE ActionsTrace ----------------------------
(* C07 - trace validation.  trace.ndjson holds one event per executed case:      *)
(*   {"ev":"req"|"resp","id":n,"via":..,"seq":[actions],"out":{decoded SPOE vars}} *)
(* (function-like property: the event carries the input and the real output, the  *)
(* step guard is the property relation ReqOK / RespOK of ActionsP).  A case the   *)
(* property does not permit is reported as  <<"REJECT", line, id>>  and the       *)
(* validation goes on, so that one run lists every rejected case.                 *)
EXTENDS ActionsP, TraceLib

VARIABLE l

Ev == TraceLog[l + 1]

Permitted(e) ==
    CASE e.ev = "req" -> ReqOK(e.seq, e.out)
      [] e.ev = "resp" -> RespOK(e.seq, e.out)
      [] OTHER -> FALSE

TInit == l = 0
TNext == /\ l < TraceLen
         /\ l' = l + 1
         /\ IF Permitted(Ev) THEN TRUE ELSE PrintT(<<"REJECT", l + 1, Ev.id>>)

TraceSpec == TInit /\ [][TNext]_l
HWM == Mark(l)
Post == Report
=============================================================================
