CONSTANTS
  ReqAlphabet <- ReqSmall
  RespAlphabet <- RespSmall
  MaxLen = 4
  Bug = "none"
SPECIFICATION ISpec
INVARIANT Conforms
CHECK_DEADLOCK FALSE
