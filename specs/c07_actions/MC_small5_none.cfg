CONSTANTS
  ReqAlphabet <- ReqSmall
  RespAlphabet <- RespSmall
  MaxLen = 5
  Bug = "none"
SPECIFICATION ISpec
INVARIANT Conforms
CHECK_DEADLOCK FALSE
