CONSTANTS
  ReqAlphabet <- ReqSmall
  RespAlphabet <- RespSmall
  MaxLen = 3
  Bug = "none"
SPECIFICATION ISpec
INVARIANT Conforms
ACTION_CONSTRAINT CovAction
POSTCONDITION CovReport
CHECK_DEADLOCK FALSE
