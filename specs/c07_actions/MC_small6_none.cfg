CONSTANTS
  ReqAlphabet <- ReqSmall
  RespAlphabet <- RespSmall
  MaxLen = 6
  Bug = "none"
SPECIFICATION ISpec
INVARIANT Conforms
CHECK_DEADLOCK FALSE
