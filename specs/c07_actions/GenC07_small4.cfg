CONSTANTS
  ReqAlphabet <- ReqSmall
  RespAlphabet <- RespSmall
  MaxLen = 0
  Bug = "none"
  GenLen = 4
INIT GInit
NEXT GNext
CHECK_DEADLOCK FALSE
