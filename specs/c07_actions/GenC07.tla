------------------------------- MODULE GenC07 -------------------------------
(* spec -> code: the input space of the fold as a constant set.  Every sequence *)
(* over the alphabets up to length GenLen is written with the canonical member  *)
(* of the set of results the property permits (RefReq / RefResp of ActionsP) to *)
(* gen_cases.json; the executor replays them into the real code and the real    *)
(* outputs are judged by ActionsTrace.                                          *)
EXTENDS MC_C07, Json

CONSTANT GenLen

Ref(sd, q) == IF sd = "req" THEN RefReq(q) ELSE RefResp(q)
\* the reference result with its header relation as a sequence of pairs
Flat(a) == [a EXCEPT !.h = SetSeq(a.h)]
CaseOf(sd, q) == [side |-> sd, via |-> "routing", seq |-> q, ref |-> Flat(Ref(sd, q))]

Cases == {CaseOf("req", q) : q \in SeqsUpTo(ReqAlphabet, GenLen)}
         \cup {CaseOf("resp", q) : q \in SeqsUpTo(RespAlphabet, GenLen)}

ASSUME JsonSerialize("gen_cases.json", [cases |-> Cases])
ASSUME PrintT(<<"GEN-CASES", Cardinality(Cases)>>)

GInit == side = "req" /\ s = <<>> /\ acc = Blank
GNext == UNCHANGED ivars
=============================================================================
