CONSTANTS
  ReqAlphabet <- ReqLarge
  RespAlphabet <- RespLarge
  MaxLen = 4
  Bug = "none"
SPECIFICATION ISpec
INVARIANT Conforms
CHECK_DEADLOCK FALSE
