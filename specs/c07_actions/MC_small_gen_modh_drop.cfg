CONSTANTS
  ReqAlphabet <- ReqSmall
  RespAlphabet <- RespSmall
  MaxLen = 3
  Bug = "gen_modh_drop"
SPECIFICATION ISpec
INVARIANT Conforms
CHECK_DEADLOCK FALSE
