CONSTANTS
  ReqAlphabet <- ReqSmall
  RespAlphabet <- RespSmall
  MaxLen = 3
  Bug = "none"
SPECIFICATION ISpec
INVARIANT Conforms
CHECK_DEADLOCK FALSE
