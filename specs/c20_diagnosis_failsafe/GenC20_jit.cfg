CONSTANTS
  NSet = {0, 1, 2, 3, 4}
  MSSet = {0, 1, 3, 4, 5, 8}
  CDSet = {0, 3, 7, 11}
  IVSet = {1, 2, 3}
  Jit = {0, 1, 2}
  Lat = {0, 1}
  MaxLen = 14
  MaxT = 0
  Gaps = {}
  Bug = "none"
SPECIFICATION GSpec
INVARIANT Emit
CHECK_DEADLOCK FALSE
