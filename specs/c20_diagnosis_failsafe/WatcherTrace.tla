---------------------------- MODULE WatcherTrace ----------------------------
(* C20 - trace validation of recorded executions of the real failsafe.StateChangeWatcher       *)
(* (lock-step clock, scripted predicate) against the property monitor WatcherP.               *)
(* trace.ndjson: line 1 = {"ev":"config"}, then histories                                      *)
(*   {"ev":"reset","N":..,"ms":..,"cd":..,"iv":..}     fresh watcher, clock at tick 0          *)
(*   {"ev":"obs","b":..,"t":..,"j":..,"lat":..}        the predicate returned b at tick t      *)
(*   {"ev":"react","k":"unhealthy"|"healthy","t":..}   a reaction callback ran at tick t       *)
(* A step is possible only if P allows the event: rejection = violation.                       *)
EXTENDS TraceLib, WatcherP

VARIABLE l
tvars == <<pvars, l>>

Ev == TraceLog[l + 1]
Consume(name) == l < TraceLen /\ Ev.ev = name /\ l' = l + 1

TInit ==
    /\ l = 1
    /\ N = 1 /\ MS = 0 /\ CD = 0
    /\ runVal = TRUE /\ runLen = 0 /\ runStart = 0
    /\ lastReact = "none" /\ coolUntil = 0 /\ tlast = 0 /\ nreact = 0 /\ qualified = FALSE
    /\ last = [ev |-> "init"]

TReset ==
    /\ Consume("reset")
    /\ N' = Ev.N /\ MS' = Ev.ms /\ CD' = Ev.cd
    /\ runVal' = TRUE /\ runLen' = 0 /\ runStart' = 0
    /\ lastReact' = "none" /\ coolUntil' = 0 /\ tlast' = 0 /\ nreact' = 0 /\ qualified' = FALSE
    /\ last' = [ev |-> "reset"]

TObs == Consume("obs") /\ Obs(Ev.b, Ev.t)

TReact == Consume("react") /\ React(Ev.k, Ev.t)

TNext == TReset \/ TObs \/ TReact

TraceSpec == TInit /\ [][TNext]_tvars

HWM == Mark(l)
Post == Report
================================================================================
