------------------------------ MODULE WatcherP ------------------------------
(* C20 - diagnosis fail-safe reacts only to stable health changes and never flaps: property    *)
(* spec (P), a monitor over the observable event log                                           *)
(*   obs(b, t)     the watcher obtained health observation b at instant t                      *)
(*   react(k, t)   the reaction k ("unhealthy" | "healthy") fired at instant t                 *)
(* Instants are abstract ticks.  The statement constrains reactions only (it does not oblige   *)
(* the watcher to react, nor to stop observing during the cool-down):                          *)
(*   Alternate   reactions alternate, the first one is "unhealthy"                             *)
(*   Stable      a reaction for state x fires only when the observations obtained so far end   *)
(*               with at least N consecutive observations equal to x whose first one is at     *)
(*               least MinStable old                                                           *)
(*   NoCooldown  no reaction fires before t_unhealthy + Cooldown                               *)
(*   NoFlap      a flapping signal never triggers any reaction.  This clause is unconditional  *)
(*               and the settings range over everything, incl. the degenerate N <= 1 with a    *)
(*               stable period of 0, where Stable alone would let the very reading that STARTS *)
(*               a change fire a reaction - and a signal that alternates at every check would  *)
(*               then trigger a reaction at every check.  How the two clauses combine: at the  *)
(*               moment of a reaction the future readings are unknown, so the only way never   *)
(*               to react to a signal that changes at every check is not to react to a value   *)
(*               read once: the value must have been CONFIRMED by the following reading.  A    *)
(*               value read twice in a row is no longer "changing at every check", and beyond  *)
(*               that the statement's own measure of stability (N checks, stable period)       *)
(*               applies.  So a reaction needs a run of at least max(N, 2) equal observations  *)
(*               (first one at least MinStable old) - nothing more is demanded.  Kept also as  *)
(*               an invariant: reacted => a qualifying run existed.                            *)
EXTENDS Integers, Sequences

VARIABLES
    N, MS, CD,                 \* consecutive count, minimum stable period, cool-down (ticks)
    runVal, runLen, runStart,  \* maximal suffix of equal observations: value, length, instant of its first one
    lastReact,                 \* "none" | "unhealthy" | "healthy"
    coolUntil,                 \* no reaction before this instant
    tlast,                     \* instant of the last event (time never goes back)
    nreact,                    \* number of reactions so far
    qualified,                 \* some run so far had >= N observations and became >= MS old (for NoFlap)
    last

pvars == <<N, MS, CD, runVal, runLen, runStart, lastReact, coolUntil, tlast, nreact, qualified, last>>

KindOf(b) == IF b THEN "healthy" ELSE "unhealthy"

Qual(len, age) == len >= N /\ len >= 2 /\ age >= MS          \* Stable and NoFlap combined

Obs(b, t) ==
    /\ t >= tlast
    /\ IF runLen > 0 /\ runVal = b
       THEN /\ runLen' = runLen + 1 /\ UNCHANGED <<runVal, runStart>>
            /\ qualified' = (qualified \/ Qual(runLen + 1, t - runStart))
       ELSE /\ runVal' = b /\ runLen' = 1 /\ runStart' = t
            /\ qualified' = (qualified \/ Qual(1, 0))
    /\ tlast' = t
    /\ last' = [ev |-> "obs", b |-> b, t |-> t]
    /\ UNCHANGED <<N, MS, CD, lastReact, coolUntil, nreact>>

AlternateOK(k) == IF lastReact = "none" THEN k = "unhealthy" ELSE k # lastReact
StableOK(k, t) == Qual(runLen, t - runStart) /\ KindOf(runVal) = k
CooldownOK(t) == t >= coolUntil

ObserveReact(k, t) ==
    /\ lastReact' = k
    /\ coolUntil' = IF k = "unhealthy" THEN t + CD ELSE coolUntil
    /\ tlast' = t
    /\ nreact' = nreact + 1
    /\ qualified' = (qualified \/ Qual(runLen, t - runStart))
    /\ last' = [ev |-> "react", k |-> k, t |-> t]
    /\ UNCHANGED <<N, MS, CD, runVal, runLen, runStart>>

React(k, t) ==
    /\ t >= tlast
    /\ AlternateOK(k) /\ StableOK(k, t) /\ CooldownOK(t)
    /\ ObserveReact(k, t)

-------------------------------------------------------------------------------
\* stand-alone behaviours of P (sanity model checking of P itself)
CONSTANTS NSet, MSSet, CDSet, MaxT, Gaps

PInit ==
    /\ N \in NSet /\ MS \in MSSet /\ CD \in CDSet
    /\ runVal = TRUE /\ runLen = 0 /\ runStart = 0
    /\ lastReact = "none" /\ coolUntil = 0 /\ tlast = 0 /\ nreact = 0 /\ qualified = FALSE
    /\ last = [ev |-> "init"]

PNext ==
    \E g \in Gaps : tlast + g <= MaxT /\
        (\/ \E b \in BOOLEAN : Obs(b, tlast + g)
         \/ \E k \in {"unhealthy", "healthy"} : React(k, tlast + g))

Spec == PInit /\ [][PNext]_pvars

NoFlap == nreact > 0 => qualified
================================================================================
