CONSTANTS
  NSet = {}
  MSSet = {}
  CDSet = {}
  MaxT = 0
  Gaps = {}
SPECIFICATION TraceSpec
INVARIANT NoFlap
CONSTRAINT HWM
POSTCONDITION Post
CHECK_DEADLOCK FALSE
