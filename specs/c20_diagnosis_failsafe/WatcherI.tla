------------------------------ MODULE WatcherI ------------------------------
(* C20 - implementation-shaped specification of failsafe/state_change_watcher.go : run(),      *)
(* one action per loop iteration, composed with the property monitor of WatcherP.             *)
(*                                                                                             *)
(*   Iter(b, j, lat): [the cool-down sleep of the previous iteration ends (j ticks late)]      *)
(*                    wait until MinTimeBetweenCalls after the last run (woken j ticks late),  *)
(*                    the predicate takes lat ticks and returns b; count consecutive equal     *)
(*                    observations; when count >= N and the run is MinStable old and no         *)
(*                    reaction was triggered for this run and b differs from the stable state: *)
(*                    react, (unhealthy: sleep the cool-down), stable := b, triggered := TRUE  *)
(*                                                                                             *)
(* Bug # "none" are deliberately broken variants for the non-vacuity runs:                     *)
(*   "count0"     count >= N replaced by count > 0                                             *)
(*   "nocooldown" no sleep after the unhealthy reaction                                        *)
(*   "nostable"   stable state not updated (reacts again on the next run of the same value)    *)
(*   "periodfirst" period measured from the previous run's start (changeStart not reset)       *)
(*   "flat"       the reading that starts a change is itself counted and evaluated             *)
EXTENDS WatcherP, TLC

CONSTANTS IVSet,       \* values of MinTimeBetweenCalls (ticks)
          Jit, Lat,    \* sets of wake-up lateness / predicate latency (ticks)
          MaxLen, Bug

VARIABLES IV, lastState, count, changeStart, triggered, stable, now, lastRunAt, started, sleeping, len

ivars == <<IV, lastState, count, changeStart, triggered, stable, now, lastRunAt, started, sleeping, len>>
vars == <<pvars, ivars>>

Never == -1000000          \* zero time.Time: infinitely long ago

IInit ==
    /\ PInit
    /\ IV \in IVSet
    /\ lastState = TRUE /\ stable = TRUE /\ count = 0 /\ changeStart = Never /\ triggered = FALSE
    /\ now = 0 /\ lastRunAt = Never /\ started = FALSE /\ sleeping = FALSE /\ len = 0

\* instant at which the predicate returns in an iteration that starts now
ObsTime(j, lat) ==
    LET t0 == IF sleeping /\ CD > 0 THEN now + CD + j ELSE now        \* cool-down sleep of the previous iteration
        t1 == IF started THEN t0 + IV + j ELSE t0                      \* lastRunAt = t0; first iteration does not wait
    IN  t1 + lat

Iter(b, j, lat) ==
    LET t == ObsTime(j, lat)
        changed == b # lastState
        cnt == IF changed THEN 1 ELSE count + 1
        cs == IF changed /\ Bug # "periodfirst" THEN t ELSE changeStart
        trg == IF changed THEN FALSE ELSE triggered
        enough == IF Bug = "count0" THEN cnt > 0 ELSE cnt >= N
        fire == (~changed \/ Bug = "flat") /\ enough /\ t - cs >= MS /\ ~trg /\ b # stable
    IN
    /\ now' = t /\ lastRunAt' = t /\ started' = TRUE
    /\ lastState' = b /\ count' = cnt /\ changeStart' = cs
    /\ IF fire
       THEN /\ triggered' = TRUE
            /\ stable' = IF Bug = "nostable" THEN stable ELSE b
            /\ sleeping' = (~b /\ Bug # "nocooldown")
       ELSE /\ triggered' = trg /\ stable' = stable /\ sleeping' = FALSE
    \* observable events of the iteration, fed to the monitor: obs, then possibly react (two monitor steps folded)
    /\ LET afterObsLen == IF runLen > 0 /\ runVal = b THEN runLen + 1 ELSE 1
           afterObsStart == IF runLen > 0 /\ runVal = b THEN runStart ELSE t
       IN  /\ runVal' = b /\ runLen' = afterObsLen /\ runStart' = afterObsStart
           /\ IF fire
              THEN /\ lastReact' = KindOf(b)
                   /\ coolUntil' = IF ~b THEN t + CD ELSE coolUntil
                   /\ nreact' = nreact + 1
                   /\ last' = [ev |-> "react", k |-> KindOf(b), t |-> t,
                               ok |-> (AlternateOK(KindOf(b)) /\ Qual(afterObsLen, t - afterObsStart) /\ CooldownOK(t))]
              ELSE /\ UNCHANGED <<lastReact, coolUntil, nreact>>
                   /\ last' = [ev |-> "obs", b |-> b, t |-> t, ok |-> TRUE]
           /\ qualified' = (qualified \/ Qual(afterObsLen, t - afterObsStart))
    /\ tlast' = t
    /\ UNCHANGED <<N, MS, CD, IV>>

INext ==
    /\ len < MaxLen /\ len' = len + 1
    /\ \E b \in BOOLEAN, j \in Jit, lat \in Lat : Iter(b, j, lat)

ISpec == IInit /\ [][INext]_vars

\* I => P: every reaction the implementation-shaped model fires is allowed by the monitor
Accepted == last.ev = "react" => last.ok
================================================================================
