------------------------------- MODULE MC_C20 -------------------------------
EXTENDS WatcherI
\* witnesses for non-vacuity of the exploration (expected to be VIOLATED in side cfgs)
NoHealthyAgain == ~(last.ev = "react" /\ last.k = "healthy")
NoThirdReaction == nreact < 3
=============================================================================
