\* sanity of the monitor itself: P's own behaviours satisfy NoFlap
CONSTANTS
  NSet = {0, 1, 2, 3}
  MSSet = {0, 2, 3}
  CDSet = {0, 3}
  MaxT = 8
  Gaps = {1, 2}
SPECIFICATION Spec
INVARIANT NoFlap
CHECK_DEADLOCK FALSE
