------------------------------- MODULE GenC20 -------------------------------
(* Case generation (spec -> code): the scripts (settings + observation sequence with wake-up   *)
(* lateness and predicate latency) of every behaviour of WatcherI of length MaxLen, printed as *)
(* one JSON line each: exhaustively (breadth-first, GenC20.cfg / GenC20_12.cfg) or by random   *)
(* walks (-simulate, GenC20_jit.cfg).  The real watcher's log for each script is judged by     *)
(* WatcherP and compared with the model by WatcherITrace.                                      *)
EXTENDS WatcherI, Json
VARIABLE hist
GInit == IInit /\ hist = <<[ev |-> "reset", N |-> N, ms |-> MS, cd |-> CD, iv |-> IV]>>
GNext == /\ len < MaxLen /\ len' = len + 1
         /\ \E b \in BOOLEAN, j \in Jit, lat \in Lat :
               Iter(b, j, lat) /\ hist' = Append(hist, [ev |-> "step", b |-> b, j |-> j, lat |-> lat])
GSpec == GInit /\ [][GNext]_<<vars, hist>>
Emit == (len = MaxLen) => PrintT(<<"VH", ToJson(hist)>>)
=============================================================================
