---------------------------- MODULE WatcherITrace ----------------------------
(* C20 - conformance of the implementation-shaped model WatcherI: the same recordings, every   *)
(* observation instant and every reaction must be predicted exactly by the model.             *)
(* A rejection here with acceptance by WatcherP is MODEL-DRIFT, not a violation.               *)
EXTENDS TraceLib, WatcherI

VARIABLE l
tvars == <<vars, l>>

Ev == TraceLog[l + 1]
Ev2 == TraceLog[l + 2]

TInit ==
    /\ l = 1
    /\ N = 1 /\ MS = 0 /\ CD = 0
    /\ runVal = TRUE /\ runLen = 0 /\ runStart = 0
    /\ lastReact = "none" /\ coolUntil = 0 /\ tlast = 0 /\ nreact = 0 /\ qualified = FALSE
    /\ last = [ev |-> "init"]
    /\ IV = 1
    /\ lastState = TRUE /\ stable = TRUE /\ count = 0 /\ changeStart = Never /\ triggered = FALSE
    /\ now = 0 /\ lastRunAt = Never /\ started = FALSE /\ sleeping = FALSE /\ len = 0

TReset ==
    /\ l < TraceLen /\ Ev.ev = "reset" /\ l' = l + 1
    /\ N' = Ev.N /\ MS' = Ev.ms /\ CD' = Ev.cd
    /\ runVal' = TRUE /\ runLen' = 0 /\ runStart' = 0
    /\ lastReact' = "none" /\ coolUntil' = 0 /\ tlast' = 0 /\ nreact' = 0 /\ qualified' = FALSE
    /\ last' = [ev |-> "reset"]
    /\ IV' = Ev.iv
    /\ lastState' = TRUE /\ stable' = TRUE /\ count' = 0 /\ changeStart' = Never /\ triggered' = FALSE
    /\ now' = 0 /\ lastRunAt' = Never /\ started' = FALSE /\ sleeping' = FALSE /\ len' = 0

\* one loop iteration = the obs line and, iff the model fires, the react line that follows it
TIter ==
    /\ l < TraceLen /\ Ev.ev = "obs"
    /\ Iter(Ev.b, Ev.j, Ev.lat)
    /\ now' = Ev.t
    /\ IF last'.ev = "react"
       THEN /\ l + 1 < TraceLen /\ Ev2.ev = "react" /\ Ev2.k = last'.k /\ Ev2.t = last'.t
            /\ l' = l + 2
       ELSE /\ (l + 1 < TraceLen => Ev2.ev # "react")
            /\ l' = l + 1
    /\ UNCHANGED len

TNext == TReset \/ TIter

TraceSpec == TInit /\ [][TNext]_tvars

HWM == Mark(l)
Post == Report
================================================================================
