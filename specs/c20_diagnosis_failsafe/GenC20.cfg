CONSTANTS
  NSet = {0, 1, 2, 3}
  MSSet = {0, 2, 4}
  CDSet = {0, 7}
  IVSet = {2}
  Jit = {0}
  Lat = {0}
  MaxLen = 8
  MaxT = 0
  Gaps = {}
  Bug = "none"
SPECIFICATION GSpec
INVARIANT Emit
CHECK_DEADLOCK FALSE
