\* all boolean observation sequences up to length 12, all small settings, exact wake-ups
CONSTANTS
  NSet = {0, 1, 2, 3}
  MSSet = {0, 2, 4}
  CDSet = {0, 7}
  IVSet = {2}
  Jit = {0}
  Lat = {0}
  MaxLen = 9
  MaxT = 0
  Gaps = {}
  Bug = "flat"
SPECIFICATION ISpec
INVARIANTS Accepted NoFlap
CHECK_DEADLOCK FALSE
