\* late wake-ups and slow predicates, odd stable periods: sequences up to length 7
CONSTANTS
  NSet = {0, 1, 2, 3}
  MSSet = {0, 1, 3, 4, 5}
  CDSet = {0, 7}
  IVSet = {1, 2, 3}
  Jit = {0, 1}
  Lat = {0, 1}
  MaxLen = 7
  MaxT = 0
  Gaps = {}
  Bug = "none"
SPECIFICATION ISpec
INVARIANTS Accepted NoFlap
CHECK_DEADLOCK FALSE
