CONSTANTS
  NSet = {}
  MSSet = {}
  CDSet = {}
  MaxT = 0
  Gaps = {}
  IVSet = {2}
  Jit = {}
  Lat = {}
  MaxLen = 0
  Bug = "none"
SPECIFICATION TraceSpec
CONSTRAINT HWM
POSTCONDITION Post
CHECK_DEADLOCK FALSE
