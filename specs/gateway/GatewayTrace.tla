----------------------------- MODULE GatewayTrace -----------------------------
(* Trace validation of whole-engine histories (harness/cmd/gateway) against the  *)
(* composition GatewayP.                                                          *)
(*   line 1  {"ev":"config","cfg":..,"QKind":..,"QMax":..,"QW":..,"LimQ":..,"GenStatus":..}        *)
(*   {"ev":"reset","now":t}                      fresh engine, clock at t (ticks of 500 ms)  *)
(*   {"ev":"adv","d":d}                                                              *)
(*   {"ev":"tx","dir":"req","id":t,"x":txn as FilterP,"seq":[{flow,sid,key,dir,out,sys,q,acts}..],"inv":[user flows   *)
(*        counted as invoked],"acts":[..],"out":{decoded SPOE variables},"status":s,"outcome":"ok"|"error"|"panic"}   *)
(*   {"ev":"tx","dir":"res","id":t,"x":txn,"seq":[..],"acts":[..],"out":{..},"outcome":..}                          *)
(*   {"ev":"err","id":t}                          the proxy reported transaction t failed    *)
(* A request transaction is consumed in several steps: TBegin judges selection,   *)
(* walk and answer; TQuota takes one step of the quota specifications for every   *)
(* processor execution of the transaction that consults a quota for the first     *)
(* time in this transaction; TFinish closes it.                                   *)
EXTENDS TraceLib, FlowGraphP

C0 == TraceLog[1]
VARIABLES now, lo, hi, charged, admitted, fwlast, inflight, deadline, cqlast,
          rmode, rA, rAF, rranges, rB, rcnt, rlast,
          cnow, cands, held, open, cum, clast,
          l, cur, pos, seen

TxIds == {TraceLog[i].id : i \in {j \in 2..TraceLen : TraceLog[j].ev = "tx"}}
SqIds == {TraceLog[i].sq : i \in {j \in 2..TraceLen : TraceLog[j].ev = "tx"}}

G == INSTANCE GatewayP WITH TxIds <- TxIds, SqIds <- SqIds, StRange <- C0.StRange, RetryA <- C0.RetryA, RCache <- C0.RCache, WCache <- C0.WCache, CacheTtl <- C0.CacheTtl, Cfg <- C0.cfg, QIds <- DOMAIN C0.QKind, QKind <- C0.QKind, QMax <- C0.QMax, QW <- C0.QW, QExp <- C0.QExp, QGc <- C0.QGc,
                            LimQ <- C0.LimQ, GenStatus <- C0.GenStatus, SetH <- C0.SetH

gvars == <<now, lo, hi, charged, admitted, fwlast, inflight, deadline, cqlast, rmode, rA, rAF, rranges, rB, rcnt, rlast, cnow, cands, held, open, cum, clast, l, cur, pos, seen>>
qstate == <<lo, hi, charged, admitted, fwlast, inflight, deadline, cqlast>>
rvars == <<rmode, rA, rAF, rranges, rB, rcnt, rlast>>
cvars == <<cnow, cands, held, open, cum, clast>>

Ev == TraceLog[l + 1]
Idle == pos = 0
Consume(name) == Idle /\ l < TraceLen /\ Ev.ev = name /\ l' = l + 1
NoTx == [ev |-> "none"]

TInit ==
    /\ now = 2
    /\ lo = [q \in G!Fixed |-> [g \in G!Groups |-> -1]] /\ hi = [q \in G!Fixed |-> [g \in G!Groups |-> -1]]
    /\ charged = [q \in G!Fixed |-> [g \in G!Groups |-> 0]] /\ admitted = [q \in G!Fixed |-> [g \in G!Groups |-> 0]]
    /\ fwlast = [ev |-> "init"]
    /\ inflight = [q \in G!Conc |-> {}] /\ deadline = [q \in G!Conc |-> [t \in TxIds |-> 0]] /\ cqlast = [ev |-> "init"]
    /\ G!RetryInit /\ G!CacheInit
    /\ l = 1 /\ cur = NoTx /\ pos = 0 /\ seen = {}

TReset ==
    /\ Consume("reset")
    /\ now' = Ev.now
    /\ lo' = [q \in G!Fixed |-> [g \in G!Groups |-> -1]] /\ hi' = [q \in G!Fixed |-> [g \in G!Groups |-> -1]]
    /\ charged' = [q \in G!Fixed |-> [g \in G!Groups |-> 0]] /\ admitted' = [q \in G!Fixed |-> [g \in G!Groups |-> 0]]
    /\ fwlast' = [ev |-> "reset"]
    /\ inflight' = [q \in G!Conc |-> {}] /\ deadline' = [q \in G!Conc |-> [t \in TxIds |-> 0]] /\ cqlast' = [ev |-> "reset"]
    /\ G!RetryReset /\ G!CacheReset
    /\ UNCHANGED <<cur, pos, seen>>

\* time passes (one event per tick); no held concurrency slot may outlive its expiry by more than the collection period (C02)
TAdv == /\ Consume("adv") /\ G!CQ!Advance(Ev.d) /\ G!RetryAdv /\ G!CacheAdv(Ev.d)
        /\ UNCHANGED <<lo, hi, charged, admitted, fwlast, cur, pos, seen>>

\* reclaiming an expired slot is not observable: TLC places it wherever C02 allows - in front of a request or of a clock tick, the only
\* events whose judgement depends on it (a reclaim commutes with everything else)
TExpire == /\ Idle /\ l < TraceLen /\ (Ev.ev = "adv" \/ (Ev.ev = "tx" /\ Ev.dir = "req"))
           /\ \E q \in G!Conc : \E t \in inflight[q] : G!CQ!Expire(t, q)
           /\ UNCHANGED <<lo, hi, charged, admitted, fwlast, rvars, cvars, l, cur, pos, seen>>

\* the walk of one user flow within a request transaction (C04).  The flow that answered the request is judged with
\* the resume rule; another selected flow runs its request side completely or - when an earlier flow answered - not at
\* all, and its response side as an ordinary response walk when the answer is processed.
FlowWalk(e, f) ==
    LET cfg == G!CfgFor(e.seq)          \* a ReadCache that answered this transaction is read as an answering processor
        mine == SelectSeq(e.seq, LAMBDA x : x.sid = "" /\ x.flow = f)
        rq == SelectSeq(mine, LAMBDA x : x.dir = "req")
        rs == SelectSeq(mine, LAMBDA x : x.dir = "res")
        answered == \E i \in 1..Len(rq) : G!Answers(rq[i])
    IN IF ~WellFormed(cfg, f) THEN "ok"        \* the property says nothing about configurations with no single reading
       ELSE IF answered THEN UserVerdict(cfg, f, "req", mine, e.outcome)
       ELSE IF Len(rq) > 0 /\ UserVerdict(cfg, f, "req", rq, e.outcome) # "ok" THEN UserVerdict(cfg, f, "req", rq, e.outcome)
       ELSE IF Len(rs) > 0 THEN UserVerdict(cfg, f, "res", rs, e.outcome)
       ELSE "ok"

\* A transaction may end with an error only where the configuration explains it (the executor projects the engine's message on
\* a class): a Limiter wired on the response side refuses the stream type (accepted by the loader, observation G3); a WriteCache met
\* on the response walk of an early response finds no response (observation G7).
LimOnRes == \E i \in 1..Len(C0.cfg.flows) : \E j \in 1..Len(C0.cfg.flows[i].res) :
               LET c == C0.cfg.flows[i].res[j] IN (c.f.k = "P" /\ c.f.n \in DOMAIN C0.LimQ) \/ (c.t.k = "P" /\ c.t.n \in DOMAIN C0.LimQ)
ErrorExplained(e) ==
    \/ e.errclass = "invalid-stream-type" /\ LimOnRes
    \/ e.errclass = "response-not-found" /\ e.dir = "req" /\ G!AnsweredEarly(e.seq) /\ DOMAIN C0.WCache # {"-"}

\* ---- a request transaction: selection (C03), walk per selected flow (C04), answer (C07)
\* The user flows that ran = those with a processor execution + those the engine counted as invoked.  A flow whose filter
\* accepts the request ("yes") has to run unless an earlier flow answered the request; a flow whose filter refuses it ("no")
\* must not run on either side.  After an answer the response sides of the flows selected for the answer run: their filters
\* are judged on the same transaction seen as a response (constraints not observable there are "either", C03 zone Z3).
ReqJudgement(e) ==
    LET x == G!TxnOf(e.x)
        xr == [x EXCEPT !.side = "resp"]
        ranq == G!UserFlowsDir(e.seq, "req") \cup G!SetOf(e.inv)
        rans == G!UserFlowsDir(e.seq, "res")
        sysran == {e.seq[i].q : i \in {j \in 1..Len(e.seq) : G!IsSysInc(e.seq[j])}}
        decran == {e.seq[i].q : i \in {j \in 1..Len(e.seq) : e.seq[j].sys = "dec"}}
    IN
    IF e.outcome = "panic" THEN "engine-panicked"
    ELSE IF ~(ranq \cup rans \subseteq G!FlowNames) THEN "unknown-flow-ran"
    ELSE IF \E f \in ranq : G!FlowV(f, x) = "no" THEN "flow-ran-although-its-filter-does-not-match"
    ELSE IF \E f \in rans : G!FlowV(f, xr) = "no" THEN "flow-response-side-ran-although-its-filter-does-not-match"
    ELSE IF e.outcome = "ok" /\ ~G!AnsweredEarly(e.seq) /\ \E f \in G!FlowNames : G!FlowV(f, x) = "yes" /\ f \notin ranq
         THEN "flow-did-not-run-although-its-filter-matches"
    ELSE IF \E f \in G!UserFlowsIn(e.seq) : FlowWalk(e, f) # "ok" THEN "walk-does-not-follow-the-graph"
    ELSE IF \E i, j \in 1..Len(e.seq) : i < j /\ G!Answers(e.seq[i])
                                          /\ e.seq[j].sid = "" /\ e.seq[j].dir = "req"
         THEN "request-side-of-another-flow-runs-after-the-answer"
    ELSE IF \E q \in sysran : q \notin DOMAIN C0.QKind \/ G!QuotaV(q, x) = "no" THEN "quota-system-flow-ran-although-the-quota-filter-does-not-match"
    ELSE IF e.outcome = "ok" /\ \E q \in DOMAIN C0.QKind : G!QuotaV(q, x) = "yes" /\ q \notin sysran
         THEN "quota-system-flow-did-not-run"
    \* an answered request passes the response side: the releasing system flow of every concurrency quota whose filter accepts it runs
    ELSE IF e.outcome = "ok" /\ G!AnsweredEarly(e.seq) /\ \E q \in G!Conc : G!QuotaV(q, xr) = "yes" /\ q \notin decran
         THEN "quota-releasing-system-flow-did-not-run"
    ELSE IF \E q \in decran : q \notin G!Conc \/ G!QuotaV(q, xr) = "no" THEN "quota-releasing-system-flow-ran-although-the-quota-filter-does-not-match"
    ELSE IF e.outcome = "ok" /\ e.status # G!ExpectedStatus(e.seq) THEN "answer-is-not-the-first-early-response"
    ELSE IF e.outcome = "ok" /\ e.acts # G!FlatActs(e.seq) THEN "recorded-actions-are-not-those-of-the-processor-executions"
    ELSE IF e.outcome = "ok" /\ \E i \in 1..Len(e.seq) : ~G!ProcActsOK(e, i) THEN "processor-handed-back-an-action-its-configuration-does-not-explain"
    ELSE IF e.outcome = "ok" /\ ~G!Act!ReqOK(e.acts, e.out) THEN "answer-is-not-the-combination-of-the-actions(C07)"
    ELSE IF e.outcome = "ok" /\ ~G!ReqAnswerOK(e) THEN "answer-does-not-carry-what-the-executed-processors-are-configured-to-do"
    ELSE IF ~G!RetryAccepted(e) THEN "retry-not-permitted-by-the-configured-attempts(C17)"
    ELSE IF ~G!CacheReqOK(e) THEN "cache-answer-not-permitted(X02)"
    ELSE IF e.outcome = "error" /\ ~ErrorExplained(e) THEN "transaction-failed-with-an-error-the-configuration-does-not-explain"
    ELSE "ok"

\* the line of a request transaction is consumed when its last step is taken (TFinish): the high-water mark of l then always
\* names the last event that was explained completely
TBeginReq ==
    /\ Idle /\ l < TraceLen /\ Ev.ev = "tx" /\ Ev.dir = "req"
    /\ LET v == ReqJudgement(Ev) IN IF v = "ok" THEN TRUE ELSE PrintT(<<"REJECT", l + 1, Ev.id, v>>) /\ FALSE
    /\ cur' = Ev /\ pos' = 1 /\ seen' = {}
    /\ G!RetryStep(Ev) /\ G!CacheReqStep(Ev)
    /\ UNCHANGED <<now, qstate, l>>

\* ---- one processor execution of the current request transaction
Step == cur.seq[pos]
\* A concurrency quota is consulted once per transaction (ConcurrencyP judges one Request per transaction).  A fixed-window
\* quota is consulted by EVERY Limiter execution: the engine forgets a request's verdict once a Limiter has read it, so a
\* transaction that passes two Limiters on one quota (two selected flows sharing a quota) is charged twice - observed on the
\* real engine and modelled as it is (DESIGN.md section 14, observation G1); the bound of C01 is not affected by it.
Again(q) == q \in seen /\ q \in G!Conc
TSkip ==
    /\ pos > 0 /\ pos <= Len(cur.seq)
    /\ (G!QuotaOf(Step) = "" \/ Again(G!QuotaOf(Step)))
    /\ pos' = pos + 1 /\ UNCHANGED <<now, qstate, l, cur, seen, rvars, cvars>>

TQuota ==
    /\ pos > 0 /\ pos <= Len(cur.seq)
    /\ LET q == G!QuotaOf(Step)
           want == IF G!IsLim(Step) THEN G!LimVerdict(Step) ELSE G!Exposed(cur.seq, q)
       IN /\ q # "" /\ ~Again(q)
          /\ \E out \in {"admit", "refuse"} :
               /\ (want # "any" => out = want)
               /\ IF q \in G!Fixed
                  THEN G!FW!Arrive(q, "default", 1, out, "seq") /\ UNCHANGED <<inflight, deadline, cqlast>>
                  ELSE /\ G!CQ!Request(cur.id, <<q>>, G!AnsweredEarly(cur.seq),
                                       IF out = "refuse" THEN "refuse" ELSE IF G!AnsweredEarly(cur.seq) THEN "early" ELSE "admit", "seq")
                       /\ UNCHANGED <<lo, hi, charged, admitted, fwlast>>
          /\ seen' = seen \cup {q}
    /\ pos' = pos + 1 /\ UNCHANGED <<l, cur, rvars, cvars>>

TFinish ==
    /\ pos > 0 /\ pos > Len(cur.seq)
    /\ pos' = 0 /\ cur' = NoTx /\ seen' = {} /\ l' = l + 1
    /\ UNCHANGED <<now, qstate, rvars, cvars>>

\* ---- responses and proxy errors give the slots back
\* the flows whose filter accepts the response and that have something to run on the response side must run; a flow whose
\* filter refuses the response (status code, method, url) must not
ResJudgement(e) ==
    LET x == G!TxnOf(e.x)
        ran == G!UserFlowsIn(e.seq)
        HasWork(f) == WellFormed(C0.cfg, f) /\ Len(Entry(C0.cfg, FlowOf(C0.cfg, f), "res")) > 0
        decran == {e.seq[i].q : i \in {j \in 1..Len(e.seq) : e.seq[j].sys = "dec"}}
    IN
    IF e.outcome = "panic" THEN "engine-panicked"
    ELSE IF ~(ran \subseteq G!FlowNames) THEN "unknown-flow-ran"
    ELSE IF \E i \in 1..Len(e.seq) : e.seq[i].dir # "res" THEN "request-side-processor-ran-for-a-response"
    ELSE IF \E f \in ran : G!FlowV(f, x) = "no" THEN "flow-ran-although-its-filter-does-not-match"
    ELSE IF e.outcome = "ok" /\ \E f \in G!FlowNames : G!FlowV(f, x) = "yes" /\ HasWork(f) /\ f \notin ran
         THEN "flow-did-not-run-although-its-filter-matches"
    ELSE IF \E f \in ran : WellFormed(C0.cfg, f) /\ UserVerdict(C0.cfg, f, "res", SelectSeq(e.seq, LAMBDA y : y.sid = "" /\ y.flow = f), e.outcome) # "ok"
         THEN "response-walk-does-not-follow-the-graph"
    ELSE IF e.outcome = "ok" /\ \E q \in G!Conc : G!QuotaV(q, x) = "yes" /\ q \notin decran THEN "quota-releasing-system-flow-did-not-run"
    ELSE IF \E q \in decran : q \notin G!Conc \/ G!QuotaV(q, x) = "no" THEN "quota-releasing-system-flow-ran-although-the-quota-filter-does-not-match"
    ELSE IF e.outcome = "ok" /\ e.acts # G!FlatActs(e.seq) THEN "recorded-actions-are-not-those-of-the-processor-executions"
    ELSE IF e.outcome = "ok" /\ \E i \in 1..Len(e.seq) : ~G!ProcActsOK(e, i) THEN "processor-handed-back-an-action-its-configuration-does-not-explain"
    ELSE IF e.outcome = "ok" /\ ~G!Act!RespOK(e.acts, e.out) THEN "answer-is-not-the-combination-of-the-actions(C07)"
    ELSE IF e.outcome = "ok" /\ ~G!ResAnswerOK(e) THEN "answer-does-not-carry-what-the-executed-processors-are-configured-to-do"
    ELSE IF ~G!StatusFilterOK(e) THEN "status-filter-processor-answer-contradicts-its-range"
    ELSE IF ~G!RetryAccepted(e) THEN "retry-not-permitted-by-the-configured-attempts(C17)"
    ELSE IF e.outcome = "error" /\ ~ErrorExplained(e) THEN "transaction-failed-with-an-error-the-configuration-does-not-explain"
    ELSE "ok"

TRes ==
    /\ Consume("tx") /\ Ev.dir = "res"
    /\ LET v == ResJudgement(Ev) IN IF v = "ok" THEN TRUE ELSE PrintT(<<"REJECT", l + 1, Ev.id, v>>) /\ FALSE
    \* The slots of the transaction are given back by the releasing system flow of the quota (<id>_QuotaProcessorDec), which hangs on
    \* the QUOTA's filter.  When it did not run - the response walk ended with an error before it (observation G3), or a Limiter took
    \* the slot from a flow outside the quota's filter (observation G2) - the slot comes back by expiry only, which C02's statement
    \* permits ("at the latest when its expiry time passes"): for such a response both outcomes are accepted.
    /\ LET holds == {q \in G!Conc : Ev.id \in inflight[q]}
           decq == {Ev.seq[i].q : i \in {j \in 1..Len(Ev.seq) : Ev.seq[j].sys = "dec"}}
       IN \/ G!CQ!Response(Ev.id)
          \/ ((Ev.outcome = "error" \/ ~(holds \subseteq decq)) /\ UNCHANGED <<now, inflight, deadline, cqlast>>)
    /\ G!RetryStep(Ev) /\ G!CacheResStep(Ev)
    /\ UNCHANGED <<lo, hi, charged, admitted, fwlast, cur, pos, seen>>

TErr == Consume("err") /\ G!CQ!ProxyError(Ev.id) /\ UNCHANGED <<lo, hi, charged, admitted, fwlast, cur, pos, seen, rvars, cvars>>

TNext == TReset \/ TAdv \/ TExpire \/ TBeginReq \/ TSkip \/ TQuota \/ TFinish \/ TRes \/ TErr

TraceSpec == TInit /\ [][TNext]_gvars

FwBound == G!FW!Bound
CqBound == G!CQ!Bounded /\ G!CQ!ExpiryBound
RetryBound == G!RT!Bounded
CacheBound == G!XC!SizeBound
HWM == Mark(l)
Post == Report
================================================================================
