SPECIFICATION TraceSpec
INVARIANTS FwBound CqBound
CONSTRAINT HWM
POSTCONDITION Post
CHECK_DEADLOCK FALSE
