SPECIFICATION TraceSpec
INVARIANTS FwBound CqBound RetryBound CacheBound
CONSTRAINT HWM
POSTCONDITION Post
CHECK_DEADLOCK FALSE
