SPECIFICATION TraceSpec
INVARIANTS FwBound CqBound RetryBound
CONSTRAINT HWM
POSTCONDITION Post
CHECK_DEADLOCK FALSE
