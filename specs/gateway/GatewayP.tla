------------------------------- MODULE GatewayP -------------------------------
(* Gateway - composition of the per-subsystem property specifications into the   *)
(* life of a transaction through one flows-mode engine (growth item of DESIGN.md *)
(* section 5):                                                                    *)
(*    select the flows of the transaction          (C03, restricted to exact URLs *)
(*                                                  and the host wildcard)        *)
(*    walk each flow's processor graph             (C04: FlowGraphP!TxVerdict)    *)
(*    quotas consulted on the way                  (C01: FixedWindowP!Arrive,     *)
(*                                                  C02: ConcurrencyP!Request)    *)
(*    the answer sent back                         (C07: the first early response *)
(*                                                  wins, its status unchanged)   *)
(*    response / proxy error give slots back       (C02: Response, ProxyError)    *)
(* It is a specification of *recorded whole-engine histories*: GatewayTrace walks *)
(* through the processor executions of every transaction (observed at the         *)
(* proc.exec point) and takes one step of the quota specifications per quota      *)
(* consultation, so that what one subsystem decides is what the next one sees:    *)
(* a Limiter's output must be the verdict its quota's specification permits in    *)
(* the state left by all earlier transactions, an early answer must give back     *)
(* the concurrency slots taken earlier in the same transaction, a request that    *)
(* two flows (or a quota's system flow and a Limiter) charge to one quota is      *)
(* charged once.                                                                  *)
(*                                                                               *)
(* Configuration (JSON of the trace's first line, see checks/gateway.py):         *)
(*   cfg    = [flows |-> <<flow..>>, quotas |-> <<[id, kind, url]..>>]   as FlowGraphP *)
(*   QMax, QW, QKind : [quota id -> ...],  LimQ : [Limiter key -> quota id]       *)
EXTENDS FlowGraphP

CONSTANTS Cfg, QIds, QKind, QMax, QW, QUrl, LimQ, GenStatus, HostWild, TxIds

VARIABLES now,
          lo, hi, charged, admitted, fwlast,        \* FixedWindowP (fixed-window quotas)
          inflight, deadline, cqlast                \* ConcurrencyP (concurrency quotas)

Fixed == {q \in QIds : QKind[q] = "fixed"}
Conc  == {q \in QIds : QKind[q] = "conc"}
Groups == {"default"}
BigT == 1000000000

FW == INSTANCE FixedWindowP WITH
        Quota <- Fixed, Parent <- [q \in Fixed |-> "-"], Max <- QMax, W <- QW,
        Grouped <- [q \in Fixed |-> FALSE], Group <- Groups, Gran <- 2,
        Costs <- {}, Steps <- {}, MaxNow <- BigT, last <- fwlast

CQ == INSTANCE ConcurrencyP WITH
        Quota <- Conc, Parent <- [q \in Conc |-> "-"], Max <- QMax,
        Expiry <- [q \in Conc |-> BigT], GcPeriod <- [q \in Conc |-> BigT],
        Txn <- TxIds, Leaves <- {}, Steps <- {}, MaxNow <- BigT, last <- cqlast

fwvars == <<lo, hi, charged, admitted, fwlast>>
cqvars == <<inflight, deadline, cqlast>>

\* ------------------------------------------------------------------ selection (C03, restricted)
MatchesUrl(pat, url) == pat = url \/ pat = HostWild
SelectedFlows(url) == {Cfg.flows[i].name : i \in {j \in 1..Len(Cfg.flows) : MatchesUrl(Cfg.flows[j].url, url)}}
MatchingQuotas(url) == {q \in QIds : MatchesUrl(QUrl[q], url)}

UserFlowsIn(seq) == {seq[i].flow : i \in {j \in 1..Len(seq) : seq[j].sid = ""}}

\* ------------------------------------------------------------------ what a processor execution means for the quotas
\* a processor of a quota's generated system flow carries sys = "inc" | "dec" and q = the quota id (projection of its key
\* "<id>_QuotaProcessorInc" / "<id>_QuotaProcessorDec" done by the recorder); user-flow processors carry sys = ""
IsSysInc(e) == e.sys = "inc" /\ e.dir = "req"
IsLim(e) == e.sid = "" /\ e.key \in DOMAIN LimQ
\* A quota that some processor of a user flow refers to is charged where it is referred to; the increment of its generated
\* system flow is then switched off (streams.attachSystemFlows).  A quota nobody refers to is charged by its system flow
\* for every transaction its filter matches.
Referenced == {LimQ[k] : k \in DOMAIN LimQ}
\* quota consulted by a processor execution ("" = none)
QuotaOf(e) == IF IsSysInc(e) /\ e.q \in QIds /\ e.q \notin Referenced THEN e.q ELSE IF IsLim(e) THEN LimQ[e.key] ELSE ""
LimVerdict(e) == IF e.out = "below_limit" THEN "admit" ELSE "refuse"

\* the verdict the transaction's Limiters expose for quota q ("any" when no Limiter on q ran)
Exposed(seq, q) ==
    LET I == {i \in 1..Len(seq) : IsLim(seq[i]) /\ LimQ[seq[i].key] = q}
    IN IF I = {} THEN "any" ELSE LimVerdict(seq[CHOOSE i \in I : \A j \in I : i <= j])
\* all Limiters of one transaction on one quota agree (it is charged, and judged, once)
LimitersAgree(seq) ==
    \A i, j \in 1..Len(seq) : (IsLim(seq[i]) /\ IsLim(seq[j]) /\ LimQ[seq[i].key] = LimQ[seq[j].key]) => seq[i].out = seq[j].out

\* ------------------------------------------------------------------ the answer (C07: the first early response wins)
ReqGens(seq) == SelectSeq(seq, LAMBDA e : e.sid = "" /\ e.dir = "req" /\ KindAny(Cfg, e.key) = "Gen")
AnsweredEarly(seq) == Len(ReqGens(seq)) > 0
ExpectedStatus(seq) == IF AnsweredEarly(seq) THEN GenStatus[ReqGens(seq)[1].key] ELSE 0
================================================================================
