------------------------------- MODULE GatewayP -------------------------------
(* Gateway - composition of the per-subsystem property specifications into the   *)
(* life of a transaction through one flows-mode engine (growth item of DESIGN.md *)
(* section 5).                                                                    *)
(*                                                                               *)
(* STATEMENT (derived from the repository's own documentation: README.md          *)
(* "Configure the flow.yaml and quota.yaml files", the processor descriptions in  *)
(* streams/processors/registry/*.yaml, the comments of streams/streams.go,        *)
(* streams/stream/stream.go and streams/resources):                               *)
(*  S1 selection   a transaction runs the flows whose own filter (url pattern with *)
(*                 path parameters / trailing wildcard, method, headers, query    *)
(*                 parameters, status code) accepts it - and a quota's generated  *)
(*                 system flow runs for the transactions the QUOTA's filter       *)
(*                 accepts                                       (= C03 FilterP)  *)
(*  S2 walk        within a flow the processors run along the connections, on the *)
(*                 conditions they really produced; a processor that answers the  *)
(*                 request ends the request walk - nothing else of the request    *)
(*                 side runs, neither in this flow nor in a later one - and the   *)
(*                 response walk continues from it            (= C04 FlowGraphP)  *)
(*  S3 quotas      "the plugin will enforce a limit of N requests per interval":  *)
(*                 a Limiter answers below_limit / above_limit as its quota       *)
(*                 permits in the state left by ALL earlier transactions of all   *)
(*                 flows (= C01 FixedWindowP, C02 ConcurrencyP); a quota nobody   *)
(*                 refers to is charged by its system flow; an answered request   *)
(*                 "drops the request slot from the quota" (stream.go), a         *)
(*                 response or a proxy error gives it back                        *)
(*  S4 answer      what goes back to the proxy is the combination of the actions  *)
(*                 of the processors that ran (= C07 ActionsP): the first early   *)
(*                 response unchanged, else the union of all header edits         *)
(*  S6 retries     "RetryProcessor allows you to retry requests that have failed ...  *)
(*                 you can define the number of retries ... as well as the status  *)
(*                 codes that should trigger a retry" (retry_processor.yaml; the   *)
(*                 status codes are a Filter with status_code_range in front): per *)
(*                 Retry processor and sequence at most `attempts` retries, none   *)
(*                 for a status outside the range (= C17 RetryP, flows mode); the  *)
(*                 re-sent request is a request like any other (selected, walked,  *)
(*                 charged to the quotas again)                                    *)
(*  S7 cache       ReadCache answers from the cache only with a response WriteCache   *)
(*                 saw for the same key parts, until ttl_seconds have passed; a   *)
(*                 fresh stored 2xx response is served (= X02 XCacheP).  A cached *)
(*                 answer is an answer like GenerateResponse's: the request walk  *)
(*                 ends, the slot is dropped, the response walk continues from it *)
(*  S5 safety      handling a transaction never crashes the engine (C05)          *)
(* It is a specification of *recorded whole-engine histories*: GatewayTrace walks *)
(* through the processor executions of every transaction (observed at the         *)
(* proc.exec point) and takes one step of the quota specifications per quota      *)
(* consultation, so that what one subsystem decides is what the next one sees.    *)
(*                                                                               *)
(* Configuration (JSON of the trace's first line, see checks/gateway.py):         *)
(*   Cfg    = [flows |-> <<flow..>>, quotas |-> <<quota..>>]   flow as FlowGraphP *)
(*            plus its filter pat / m / h / q / s as FilterP; quota = [id, kind,  *)
(*            pat, m, h, q, s]                                                    *)
(*   QMax, QW, QKind : [quota id -> ...],  LimQ : [Limiter key -> quota id]       *)
(*   QExp, QGc : [quota id -> request_expiration_sec / gc_interval_sec in ticks]  *)
(*   GenStatus : [GenerateResponse key -> status],  SetH : [TransformAPICall key  *)
(*   -> <<side, header name, value>>] (a "set" rule on a request / response header) *)
(*   StRange : [Filter key -> <<from, to>>] (status_code_range),                   *)
(*   RetryA : [Retry key -> attempts]                                              *)
(*   RCache : [ReadCache key -> header name of its one caching key part],          *)
(*   WCache : [WriteCache key -> the same], CacheTtl = ttl_seconds                 *)
EXTENDS FlowGraphP

CONSTANTS Cfg, QIds, QKind, QMax, QW, QExp, QGc, LimQ, GenStatus, SetH, StRange, RetryA, RCache, WCache, CacheTtl, TxIds, SqIds

VARIABLES now,
          lo, hi, charged, admitted, fwlast,        \* FixedWindowP (fixed-window quotas)
          inflight, deadline, cqlast,               \* ConcurrencyP (concurrency quotas)
          rmode, rA, rAF, rranges, rB, rcnt, rlast, \* RetryP (Retry processors)
          cnow, cands, held, open, cum, clast       \* XCacheP (ReadCache / WriteCache of the one caching flow)

Fixed == {q \in QIds : QKind[q] = "fixed"}
Conc  == {q \in QIds : QKind[q] = "conc"}
Groups == {"default"}
BigT == 1000000000

FW == INSTANCE FixedWindowP WITH
        Quota <- Fixed, Parent <- [q \in Fixed |-> "-"], Max <- QMax, W <- QW,
        Grouped <- [q \in Fixed |-> FALSE], Group <- Groups, Gran <- 2,
        Costs <- {}, Steps <- {}, MaxNow <- BigT, last <- fwlast

CQ == INSTANCE ConcurrencyP WITH
        Quota <- Conc, Parent <- [q \in Conc |-> "-"], Max <- QMax,
        Expiry <- [q \in Conc |-> QExp[q]], GcPeriod <- [q \in Conc |-> QGc[q]],
        Txn <- TxIds, Leaves <- {}, Steps <- {}, MaxNow <- BigT, last <- cqlast

fwvars == <<lo, hi, charged, admitted, fwlast>>
cqvars == <<inflight, deadline, cqlast>>

\* ------------------------------------------------------------------ selection (S1 = C03)
F == INSTANCE FilterP
Act == INSTANCE ActionsP        \* C07 (used from the cache and the answer sections)

SetOf(s) == {s[i] : i \in 1..Len(s)}
FFlow(j, name, typ) == [name |-> name, pat |-> <<j.pat[1], j.pat[2]>>, m |-> SetOf(j.m), h |-> SetOf(j.h),
                        q |-> SetOf(j.q), s |-> SetOf(j.s), typ |-> typ]
QName(id) == "Q:" \o id
UserF  == {FFlow(Cfg.flows[i], Cfg.flows[i].name, "user") : i \in 1..Len(Cfg.flows)}
QuotaF == {FFlow(Cfg.quotas[i], QName(Cfg.quotas[i].id), "sysStart") : i \in 1..Len(Cfg.quotas)}
\* user flows and the quotas' system flows live in one filter tree: the patterns of both take part in "more specific"
AllF == UserF \cup QuotaF

TxnOf(j) == [side |-> j.side, url |-> <<j.url[1], j.url[2]>>, method |-> j.method, hdr |-> SetOf(j.hdr),
             qry |-> SetOf(j.qry), status |-> j.status]
\* three-valued verdict of C03 ("yes" must run / "no" must not run / "either") for a user flow / a quota's system flow
FlowV(name, x)  == LET f == CHOOSE g \in UserF : g.name = name IN F!Verdict(f, x, AllF)
QuotaV(id, x)   == LET f == CHOOSE g \in QuotaF : g.name = QName(id) IN F!Verdict(f, x, AllF)
FlowNames == {f.name : f \in UserF}

UserFlowsIn(seq) == {seq[i].flow : i \in {j \in 1..Len(seq) : seq[j].sid = ""}}
UserFlowsDir(seq, d) == {seq[i].flow : i \in {j \in 1..Len(seq) : seq[j].sid = "" /\ seq[j].dir = d}}

\* ------------------------------------------------------------------ what a processor execution means for the quotas
\* a processor of a quota's generated system flow carries sys = "inc" | "dec" and q = the quota id (projection of its key
\* "<id>_QuotaProcessorInc" / "<id>_QuotaProcessorDec" done by the recorder); user-flow processors carry sys = ""
IsSysInc(e) == e.sys = "inc" /\ e.dir = "req"
IsLim(e) == e.sid = "" /\ e.key \in DOMAIN LimQ
\* A quota that some processor of a user flow refers to is charged where it is referred to; the increment of its generated
\* system flow is then switched off (streams.attachSystemFlows).  A quota nobody refers to is charged by its system flow
\* for every transaction its filter matches.
Referenced == {LimQ[k] : k \in DOMAIN LimQ}
\* quota consulted by a processor execution ("" = none)
QuotaOf(e) == IF IsSysInc(e) /\ e.q \in QIds /\ e.q \notin Referenced THEN e.q ELSE IF IsLim(e) THEN LimQ[e.key] ELSE ""
LimVerdict(e) == IF e.out = "below_limit" THEN "admit" ELSE "refuse"

\* the verdict the transaction's Limiters expose for quota q ("any" when no Limiter on q ran)
Exposed(seq, q) ==
    LET I == {i \in 1..Len(seq) : IsLim(seq[i]) /\ LimQ[seq[i].key] = q}
    IN IF I = {} THEN "any" ELSE LimVerdict(seq[CHOOSE i \in I : \A j \in I : i <= j])

\* ------------------------------------------------------------------ answering processors
\* a processor execution that answers the request: GenerateResponse, or ReadCache with a hit
Answers(e) == e.sid = "" /\ e.dir = "req" /\ (KindAny(Cfg, e.key) = "Gen" \/ (e.key \in DOMAIN RCache /\ e.out = "cache_hit"))
ReqGens(seq) == SelectSeq(seq, Answers)
\* FlowGraphP knows one answering kind ("Gen": ends the request walk, the response walk resumes at its response connections).  A
\* ReadCache answers only on a hit: for a transaction with a hit the configuration is read with that processor as an answering
\* one and its response connections (declared under the condition cache_hit) as the connections of the answer.
HitKeys(seq) == {seq[i].key : i \in {j \in 1..Len(seq) : seq[j].sid = "" /\ seq[j].dir = "req" /\ seq[j].key \in DOMAIN RCache /\ seq[j].out = "cache_hit"}}
CfgFor(seq) ==
    LET H == HitKeys(seq)
        Proc(p) == IF p.key \in H THEN [p EXCEPT !.kind = "Gen"] ELSE p
        Conn(c) == IF c.f.k = "P" /\ c.f.n \in H THEN [c EXCEPT !.f = [c.f EXCEPT !.c = ""]] ELSE c
        Flow(fl) == [fl EXCEPT !.procs = [j \in 1..Len(fl.procs) |-> Proc(fl.procs[j])],
                               !.res = [j \in 1..Len(fl.res) |-> Conn(fl.res[j])]]
    IN IF H = {} THEN Cfg ELSE [Cfg EXCEPT !.flows = [i \in 1..Len(Cfg.flows) |-> Flow(Cfg.flows[i])]]
AnsweredEarly(seq) == Len(ReqGens(seq)) > 0
ExpectedStatus(seq) == IF AnsweredEarly(seq) THEN (IF ReqGens(seq)[1].key \in DOMAIN GenStatus THEN GenStatus[ReqGens(seq)[1].key]
                                                  ELSE ReqGens(seq)[1].acts[1].st) ELSE 0
GenHeaders == {<<"Content-Type", "text/plain">>}

\* ------------------------------------------------------------------ retries (S6 = C17, flows mode)
\* one budget per (Retry processor, sequence id): every processor bounds its own retries
RKeys == {<<k, sq>> : k \in DOMAIN RetryA \ {"-"}, sq \in SqIds}
RT == INSTANCE RetryP WITH Sids <- RKeys, Modes <- {}, AttemptsSet <- {}, RangesC <- {}, Statuses <- {}, Steps <- {},
        mode <- rmode, A <- rA, AF <- rAF, ranges <- rranges, B <- rB, cnt <- rcnt, last <- rlast
rvars == <<rmode, rA, rAF, rranges, rB, rcnt, rlast>>
RetryRanges == <<<<500, 599>>>>          \* every status Filter of the generated configurations has this range (RetryP has one `ranges`)
\* budgets are kept for the (processor, sequence) pairs met so far only; a pair not met yet has its full budget
Bud(s) == IF RetryA[s[1]] > 0 THEN RetryA[s[1]] ELSE 0
BOf(s) == IF s \in DOMAIN rB THEN rB[s] ELSE {Bud(s)}
CntOf(s) == IF s \in DOMAIN rcnt THEN rcnt[s] ELSE 0
RetryInit ==
    /\ rmode = "flows" /\ rA = 0 /\ rranges = RetryRanges
    /\ rAF = <<>> /\ rB = <<>> /\ rcnt = <<>> /\ rlast = [ev |-> "reset"]
RetryReset ==
    /\ rAF' = <<>> /\ rB' = <<>> /\ rcnt' = <<>> /\ rlast' = [ev |-> "reset"]
    /\ UNCHANGED <<rmode, rA, rranges>>
FlowOfProc(k) == Cfg.flows[CHOOSE i \in 1..Len(Cfg.flows) : HasProc(Cfg.flows[i], k)].name
\* the Retry processors that had the chance to see transaction e: those of the flows whose response side ran
RetrySeen(e) == {k \in DOMAIN RetryA \ {"-"} : FlowOfProc(k) \in UserFlowsDir(e.seq, "res")}
RetryOut(e, k) == LET I == {i \in 1..Len(e.seq) : e.seq[i].sid = "" /\ e.seq[i].key = k /\ e.seq[i].dir = "res"}
                  IN IF I = {} THEN "none" ELSE e.seq[CHOOSE i \in I : TRUE].out
\* G6 (observation): on the response walk of an EARLY response there is no response message; a Filter with a status_code_range
\* answers "hit" whatever the range, so the Retry processor behind it runs, counts one attempt of the sequence and asks for a retry
\* that nobody carries out (the action is dropped).  Modelled as it is: for such a walk the status counts as inside the conditions
\* exactly when the Retry processor was reached.
RetryCond(e, k) == IF e.dir = "res" THEN RT!InCond(e.x.status) ELSE RetryOut(e, k) # "none"
RetryTouched(e) == {<<k, e.sq>> : k \in RetrySeen(e)}
RetryNew(e, s) == RT!StepB(BOf(s), RetryCond(e, s[1]), FALSE, RetryOut(e, s[1]), Bud(s))
RetryAccepted(e) == \A s \in RetryTouched(e) : RetryNew(e, s) # {}
RetryStep(e) ==
    LET T == RetryTouched(e) IN
    /\ rB' = [s \in DOMAIN rB \cup T |-> IF s \in T THEN RetryNew(e, s) ELSE rB[s]]
    /\ rcnt' = [s \in DOMAIN rB \cup T |-> IF s \in T THEN (IF RetryOut(e, s[1]) = "retry" THEN CntOf(s) + 1 ELSE 0) ELSE rcnt[s]]
    /\ rAF' = [s \in DOMAIN rB \cup T |-> RetryA[s[1]]]
    /\ rlast' = [ev |-> "resp", s |-> e.sq]
    /\ UNCHANGED <<rmode, rA, rranges>>
\* the statement is silent about time: any passage of time may make the gateway forget a sequence (RetryP!Adv)
RetryAdv == /\ rB' = [s \in DOMAIN rB |-> rB[s] \cup {Bud(s)}] /\ rcnt' = [s \in DOMAIN rB |-> 0] /\ rlast' = [ev |-> "adv"]
            /\ UNCHANGED <<rmode, rA, rAF, rranges>>
\* a Filter with a status_code_range on the response side answers "hit" exactly for the statuses of its range (registry:
\* "filtering by status code range"); on the walk of an early response see G6
StatusFilterOK(e) == \A i \in 1..Len(e.seq) :
    (e.seq[i].sid = "" /\ e.seq[i].key \in DOMAIN StRange /\ e.seq[i].dir = "res" /\ e.dir = "res")
        => (e.seq[i].out = "hit") = (StRange[e.seq[i].key][1] <= e.x.status /\ e.x.status <= StRange[e.seq[i].key][2])

\* ------------------------------------------------------------------ the cache (S7 = X02 XCacheP)
\* The executor gives the ReadCache and the WriteCache of the caching flow one common store (in this build every processor owns a
\* private one - X02's deviation "private_stores" - and nothing would ever be served); one key part, so no joined-key collisions.
XC == INSTANCE XCacheP WITH Ttl <- CacheTtl, RecMax <- -1, MaxMb <- 100, MiB <- 1048576, OverMul <- 6, OverAdd <- 2048,
        Dev <- {}, now <- cnow, last <- clast
cvars == <<cnow, cands, held, open, cum, clast>>
CacheInit == cnow = 0 /\ cands = {} /\ held = {} /\ open = <<>> /\ cum = 0 /\ clast = [ev |-> "init"]
CacheReset == cnow' = 0 /\ cands' = {} /\ held' = {} /\ open' = <<>> /\ cum' = 0 /\ clast' = [ev |-> "reset"]
CacheAdv(d) == cnow' = cnow + 500 * d /\ clast' = [ev |-> "adv"] /\ UNCHANGED <<cands, held, open, cum>>
HdrVal(x, name) == LET V == {p[2] : p \in {q \in SetOf(x.hdr) : q[1] = name}} IN IF V = {} THEN <<"absent">> ELSE <<"v", CHOOSE v \in V : TRUE>>
CacheIdx(e) == {i \in 1..Len(e.seq) : e.seq[i].sid = "" /\ e.seq[i].dir = "req" /\ e.seq[i].key \in DOMAIN RCache}
CacheKeyOf(e, i) == <<HdrVal(e.x, RCache[e.seq[i].key])>>
CacheOutOf(s) == IF s.out = "cache_hit" /\ Len(s.acts) = 1
                 THEN [kind |-> "hit", st |-> s.acts[1].st, body |-> <<"lit", s.acts[1].b>>, h |-> Act!Pairs(s.acts[1].h)] ELSE XC!Miss
\* a request that consulted the cache (at most once: one caching flow): is the answer one XCacheP permits now?
CacheReqOK(e) == \A i \in CacheIdx(e) : XC!Accepts(CacheKeyOf(e, i), CacheOutOf(e.seq[i]))
\* G7 (observation): a request answered early (by a hit or by another flow) passes the response side of every selected flow; a
\* WriteCache met there fails ("response not found"), the whole transaction ends with an error, the engine hands NO answer to the
\* proxy and the request travels on to the provider.  The request of an answered transaction is not kept for its response (the
\* stream has become a response stream, APIStream.StoreRequest returns), so WriteCache finds no key for that response: it is not stored.
CacheHdr == RCache[CHOOSE k \in DOMAIN RCache : TRUE]
Remember(e, k) == [t \in DOMAIN open \cup {e.id} |-> IF t = e.id THEN k ELSE open[t]]
CacheReqStep(e) ==
    IF CacheIdx(e) = {}
    \* G8 (observation): the caching flow's ReadCache was not consulted - its filter refused the request (a header / query-parameter
    \* constraint) or an earlier flow's processors came first - but the request goes on, and on the response side, where header and
    \* query constraints are not applied (C03 zone Z3), the flow is selected and WriteCache stores the response under the key of the
    \* stored request: it is served later to requests the filter accepts.  Modelled as it is: every request that goes on may be stored.
    THEN IF DOMAIN RCache # {"-"} /\ ~AnsweredEarly(e.seq)
         THEN open' = Remember(e, <<HdrVal(e.x, CacheHdr)>>) /\ UNCHANGED <<cnow, cands, held, cum, clast>>
         ELSE UNCHANGED cvars
    ELSE LET i == CHOOSE j \in CacheIdx(e) : TRUE
             k == CacheKeyOf(e, i)
             o == CacheOutOf(e.seq[i])
         IN /\ held' = XC!HeldAfter(k, o)
            /\ open' = IF ~AnsweredEarly(e.seq) THEN Remember(e, k) ELSE open
            /\ clast' = [ev |-> "req", id |-> e.id]
            /\ UNCHANGED <<cnow, cands, cum>>
\* a response that WriteCache saw
CacheSaw(e) == \E i \in 1..Len(e.seq) : e.seq[i].sid = "" /\ e.seq[i].dir = "res" /\ e.seq[i].key \in DOMAIN WCache
CacheResStep(e) ==
    IF CacheSaw(e) /\ e.outcome = "ok"
    THEN XC!Response(e.id, e.x.status, <<"lit", e.body>>, SetOf(e.x.hdr), e.bsz, e.hsz)
    ELSE UNCHANGED cvars

\* ------------------------------------------------------------------ the answer (S4 = C07)


IsSet(key, side) == key \in DOMAIN SetH /\ SetH[key][1] = side
SetPair(key) == <<SetH[key][2], SetH[key][3]>>

RECURSIVE FlatActs(_)
FlatActs(seq) == IF seq = <<>> THEN <<>> ELSE Head(seq).acts \o FlatActs(Tail(seq))

\* What the i-th processor execution of transaction e may hand back, from its configuration alone.
\*   GenerateResponse on the request side: one early response with the configured status / body / content type
\*   TransformAPICall "set header" on its own side: one modification carrying the configured pair; its other header edits restate
\*     the message as it was (the transaction's own headers and what earlier set rules of this transaction wrote)
\*   every other processor (Filter, Limiter, UserDefinedMetrics, the quota's system processors, a processor running on the side it
\*     does nothing on): nothing, or no-ops
\* G5 (observation): on the response walk of an EARLY response the set rules of response-side processors do not apply - the
\*     processor runs but hands back a no-op (there is no response message yet); by C07 the early response goes out unchanged anyway.
ProcActsOK(e, i) ==
    LET s == e.seq[i]
        as == s.acts
        mine == {SetPair(e.seq[j].key) : j \in {k \in 1..(i - 1) : e.seq[k].sid = "" /\ e.seq[k].dir = s.dir /\ e.seq[k].key \in DOMAIN SetH}}
        own == SetOf(e.x.hdr) \cup mine
        AllNoop == \A j \in 1..Len(as) : as[j].k = "noop"
    IN
    IF s.sid # "" THEN AllNoop
    ELSE IF KindAny(Cfg, s.key) = "Gen" /\ s.dir = "req"
         THEN Len(as) = 1 /\ as[1].k = "early" /\ as[1].st = GenStatus[s.key] /\ as[1].b = s.key /\ Act!Pairs(as[1].h) = GenHeaders
    ELSE IF IsSet(s.key, "req") /\ s.dir = "req"
         THEN Len(as) = 1 /\ as[1].k \in {"modreq", "modh"} /\ SetPair(s.key) \in Act!Pairs(as[1].h)
              /\ Act!Pairs(as[1].h) \ {SetPair(s.key)} \subseteq own
    ELSE IF IsSet(s.key, "res") /\ s.dir = "res" /\ e.dir = "res"
         THEN Len(as) = 1 /\ as[1].k = "modresp" /\ as[1].st = e.x.status /\ SetPair(s.key) \in Act!Pairs(as[1].h)
              /\ Act!Pairs(as[1].h) \ {SetPair(s.key)} \subseteq own
    ELSE IF IsSet(s.key, "res") /\ s.dir = "res"                                     \* G5
         THEN Len(as) <= 1 /\ \A j \in 1..Len(as) : as[j].k \in {"noop", "modresp"}
    ELSE IF s.key \in DOMAIN RCache /\ s.dir = "req"           \* what a hit carries is judged by XCacheP (CacheReqOK)
         THEN IF s.out = "cache_hit" THEN Len(as) = 1 /\ as[1].k = "early" ELSE Len(as) <= 1 /\ AllNoop
    ELSE IF s.key \in DOMAIN RetryA /\ s.dir = "res" /\ e.dir = "res" /\ s.out = "retry"
         THEN Len(as) = 1 /\ as[1].k = "retry" /\ Act!Pairs(as[1].h) = {}
    ELSE IF s.key \in DOMAIN RetryA THEN as = <<>>          \* "failed" hands back nothing; on the walk of an early response see G6
    ELSE AllNoop

\* the answer a user of the configuration relies on, from the configuration and the executed processors alone:
\* an answered request carries the first answering processor's status and body; otherwise every header written by a set rule
\* that ran carries the value of the LAST rule that ran for it (request side: towards the provider, response side: towards the client)
LastSet(seq, d, name) ==
    LET I == {i \in 1..Len(seq) : seq[i].sid = "" /\ seq[i].dir = d /\ IsSet(seq[i].key, d) /\ SetH[seq[i].key][2] = name}
    IN IF I = {} THEN "" ELSE SetH[seq[CHOOSE i \in I : \A j \in I : j <= i].key][3]
SetNames(seq, d) == {SetH[seq[i].key][2] : i \in {j \in 1..Len(seq) : seq[j].sid = "" /\ seq[j].dir = d /\ IsSet(seq[j].key, d)}}

ReqAnswerOK(e) ==
    IF AnsweredEarly(e.seq)
    THEN LET a == ReqGens(e.seq)[1].acts[1] IN        \* (what a GenerateResponse / a ReadCache hands back is judged by ProcActsOK / XCacheP)
         e.out.early /\ e.out.st = ExpectedStatus(e.seq) /\ e.out.st = a.st /\ e.out.body = a.b /\ Act!Pairs(e.out.rh) = Act!Pairs(a.h)
    ELSE ~e.out.early /\ \A n \in SetNames(e.seq, "req") : <<n, LastSet(e.seq, "req", n)>> \in Act!Pairs(e.out.qh)
ResAnswerOK(e) ==
    /\ ~e.out.early
    \* the proxy is asked to send the request again only if a Retry processor said so (whether a retry or a modification wins when
    \* both were asked for is left open by C07)
    /\ e.out.retry => \E k \in RetrySeen(e) : RetryOut(e, k) = "retry"
    /\ ~e.out.retry => \A n \in SetNames(e.seq, "res") : <<n, LastSet(e.seq, "res", n)>> \in Act!Pairs(e.out.rh)
    /\ (SetNames(e.seq, "res") # {} /\ ~e.out.retry) => e.out.st = e.x.status
================================================================================
