------------------------------- MODULE MC_X01 -------------------------------
(* X01 - exhaustive check  I => P  on bounded instances, non-vacuity witnesses, and behaviour  *)
(* generation for replay (spec -> code).                                                       *)
(* The engine model I (PolicyTxnI) is driven through every history of inputs up to the bounds  *)
(* of the configuration file  mc_cfg.json  (written by checks/x01.py: policy versions + the      *)
(* request alphabet); every event it produces is fed to the monitor P (PolicyTxnP.SuccAll).    *)
(*   Accepted   the set of monitor states never becomes empty: every behaviour of I is a        *)
(*              behaviour P permits                                                            *)
(* Witness invariants (expected to be VIOLATED: they show that the instance reaches the         *)
(* situation): PerAlive / CfgAlive - a history after which only the engine-as-it-is hypothesis  *)
(* explains what was observed (the documented reading is refuted by the model of the engine);   *)
(* NoEarly, NoBlock, NoEarlyMod, NoPinnedDiff, NoDiag - coverage of the clauses.               *)
EXTENDS Integers, Sequences, FiniteSets, TLC, Json

CONSTANT Bug

\* the configuration is bound by INSTANCE (a constant definition TLC evaluates once), not by a cfg-file override
\* (TLC re-evaluates an overriding definition at every reference: the file would be read again and again)
MCCfg == JsonDeserialize("mc_cfg.json")
B == MCCfg.mc                      \* bounds and alphabet

INSTANCE PolicyTxnI WITH Cfg <- MCCfg

VARIABLES is, S, nev, ntx, nap, open, hist
mvars == <<is, S, nev, ntx, nap, open, hist>>

Ids == <<"t1", "t2", "t3", "t4", "t5", "t6", "t7", "t8">>
SeqSet(sq) == {sq[i] : i \in 1..Len(sq)}

Init == /\ is = IInit(B.now0) /\ S = PInit(B.now0)
        /\ nev = 0 /\ ntx = 0 /\ nap = 0 /\ open = {} /\ hist = <<>>

Take(in) ==
    LET r == IStep(is, in) IN
    /\ is' = r.st
    /\ S' = SuccAll(S, r.ev)
    /\ nev' = nev + 1
    /\ hist' = Append(hist, [in |-> in, view |-> IF in.ev \in {"req", "res"} THEN EvView(r.ev) ELSE [none |-> TRUE],
                             early |-> in.ev = "req" /\ r.ev.out.early])
    /\ ntx' = IF in.ev = "req" THEN ntx + 1 ELSE ntx
    /\ nap' = IF in.ev = "apply" THEN nap + 1 ELSE nap
    /\ open' = IF in.ev = "req" /\ ~r.ev.out.early THEN open \cup {in.id}
               ELSE IF in.ev = "res" THEN open \ {in.id} ELSE open

Next ==
    /\ nev < B.maxev /\ S # {}
    /\ \/ /\ ntx < B.maxtx
          /\ \E q \in SeqSet(B.reqs), ea \in SeqSet(B.earlies), g \in SeqSet(B.grps) :
                Take([ev |-> "req", id |-> Ids[ntx + 1], m |-> q.m, h |-> q.h, p |-> q.p, early |-> ea, grp |-> g])
       \/ \E id \in open, st \in SeqSet(B.statuses) : Take([ev |-> "res", id |-> id, status |-> st])
       \/ /\ nap < B.maxap
          /\ \E v \in 1..Len(Versions) : v # is.vers[Len(is.vers)] /\ Take([ev |-> "apply", v |-> v])
       \/ \E d \in SeqSet(B.steps) : is.now + d <= B.maxnow /\ Take([ev |-> "adv", d |-> d])

Spec == Init /\ [][Next]_mvars

View == <<is, S, nev, ntx, nap, open>>

Accepted == S # {}

\* ---- witnesses (each must be violated on the instance that names it)
PerAlive == \E s \in S : s.am = "per"
CfgAlive == \E s \in S : s.um = "cfg"
Last == hist[Len(hist)]
NoEarly      == ~(Len(hist) > 0 /\ Last.early)
NoBlock      == ~(Len(hist) > 0 /\ Last.in.ev = "req" /\ \E i \in 1..Len(Last.view.seq) :
                      Last.view.seq[i].k = "early" /\ Last.view.seq[i].b = "Too many requests")
NoEarlyMod   == ~(Len(hist) > 0 /\ Last.early /\ Last.view.hasra)
NoDiag       == ~(Len(hist) > 0 /\ Last.in.ev = "res" /\ Len(Last.view.diag) > 0)
\* a response handled under a pinned version that is no longer the current one and whose chain differs
NoPinnedDiff == ~(Len(hist) > 0 /\ Last.in.ev = "res" /\
                  LET t == is.txs[Last.in.id]  pv == is.vers[is.pins[Last.in.id]]  cv == is.vers[Len(is.vers)] IN
                  pv # cv /\ GetPlugins(pv, t.m, t.u, "rems", "globals") # GetPlugins(cv, t.m, t.u, "rems", "globals"))
NoTwoEarly   == ~(Len(hist) > 0 /\ Last.in.ev = "req" /\
                  Cardinality({i \in 1..Len(Last.view.seq) : Last.view.seq[i].k = "early"}) >= 2)

\* ---- generation: every walk that reaches the depth bound is printed as one JSON line (tlc -simulate)
Emit == (nev = B.maxev) => PrintT(<<"VH", ToJson(hist)>>)
=============================================================================
