------------------------------ MODULE PolicyTxnP ------------------------------
(* X01 - policy-mode dispatch: the life of a transaction through the remedy and diagnosis   *)
(* plugins.  Property specification (P); the policy-mode counterpart of specs/gateway.       *)
(*                                                                                           *)
(* STATEMENT (derived from the repository's own documentation; what a user of policies.yaml  *)
(* relies on):                                                                               *)
(*  S1 chain      The remedies applied to a request are the ENABLED remedies of the most     *)
(*                specific declared endpoint whose method and URL pattern match the request  *)
(*                (C13) followed by the ENABLED global remedies, each once, each list in the  *)
(*                order it is written.  A disabled remedy is never applied.                  *)
(*                  readme-files/SPOA.md: "When a request arrives on a method and endpoint    *)
(*                  with a set policy, the policy's plugins will run in order";               *)
(*                  config/policies_reader.go: "Every endpoint-specific chain is appended     *)
(*                  with all global remedies"; config/endpoint_policy_tree.go: "remedies and  *)
(*                  diagnoses will run in the order they are written";                        *)
(*                  remedy_fixed_early_response.feature (disabled account_orchestration).     *)
(*  S2 plugins    fixed_response answers with its configured status exactly when the request *)
(*                carries  Early-Response: true  (remedy_fixed_early_response.feature);       *)
(*                account_orchestration sets the token headers of one of its round_robin      *)
(*                accounts, the first on a fresh gateway, then rotating in the written order  *)
(*                (remedy_account_orchestration.feature: requests 1,3 -> account 1; 2,4 ->    *)
(*                account 2); authentication (api_key) sets the token headers of its account  *)
(*                (remedy_authentication.feature); strategy_based_throttling passes or answers *)
(*                with its status as C09 (ThrottleP) permits in the state left by all earlier *)
(*                requests; retry adds  x-lunar-retry-after: <initial cooldown>  to a response *)
(*                of a new sequence whose status is within its conditions (remedy_retry.feature). *)
(*  S3 fold       The answer handed to the proxy is the fold of these actions (C07, ActionsP):*)
(*                the first early response wins, otherwise the header edits are merged, the   *)
(*                later winning (chain_remedies.feature).  Whether remedies after the one     *)
(*                that answered are still applied is not documented: both are accepted.       *)
(*  S4 early      An early response passes through the response side of the same chain before *)
(*                it is returned: status and body stay, response-side header edits are added  *)
(*                (chain_remedies.feature: fixed_response 418 + retry => 418 with             *)
(*                x-lunar-retry-after).                                                       *)
(*  S5 response   The response of a transaction is handled by the chain selected for the      *)
(*                transaction's method and URL from the policy version that was current when  *)
(*                its request was first seen (C11), in the same order.                        *)
(*  S6 diagnosis  A transaction whose response (or early response) was seen is handed, once,  *)
(*                to every enabled diagnosis of the matched endpoint and every enabled global *)
(*                diagnosis of that pinned version, and to no other; nothing is exported for  *)
(*                a request that is merely forwarded (proxy/README.md: "When a diagnosis      *)
(*                policy is defined on an endpoint, its transaction data is sent ... and      *)
(*                processed asynchronously").                                                 *)
(*  S7 stats      request_active_remedies / response_active_remedies list, per remedy type,   *)
(*                the results of its remedies that did something, in chain order              *)
(*                (remedy_stats.feature).                                                     *)
(*                                                                                           *)
(* Where the documentation and the engine disagree P accepts BOTH, as hypotheses that must    *)
(* explain a whole history (see the final report / DESIGN notes):                             *)
(*   am = "per"    every account_orchestration remedy rotates over its own accounts (docs)    *)
(*   am = "shared" one counter is shared by all account_orchestration remedies (engine)       *)
(*   um = "cfg"    authentication uses the account configured in the pinned version (docs)    *)
(*   um = "memo"   the headers first produced for a (method, endpoint) are kept for the life   *)
(*                 of the gateway, whatever later versions configure (engine)                 *)
(*                                                                                           *)
(* P is a nondeterministic monitor given as a successor FUNCTION on sets of monitor states:   *)
(* Succ(s, e) = the states after observing event e in state s ({} = e is not permitted in s). *)
(* A history is accepted iff the set of states never becomes empty (PolicyTxnTrace, MC_X01).  *)
(* It re-uses  EndpointPolicyP (selection: WinAll / WinOwn / Names, both readings of "most    *)
(* specific", both readings of a trailing wildcard),  ActionsP (ReqOK / RespOK, Merge, UnionH) *)
(* and  ThrottleP (Permits / KeyOf / Counts / Prune over the monitor state).                  *)
(*                                                                                           *)
(* Configuration Cfg (JSON of the trace's first line / of MC's cfg file, see checks/x01.py):   *)
(*   versions  sequence of policy files  [globals, gdiags, endpoints, accounts, apikeys]      *)
(*     remedy     [name, on, k, st, accts, acct, from, to, cd, att]  k in fixed|acct|thr|auth|retry *)
(*     diagnosis  [name, on, exp, k]   exp = exporter name, k in har|void                     *)
(*     endpoint   [m, h, p, rems, diags]                                                      *)
(*   thr       constants of ThrottleP for the throttling remedies (by name; "-" = dummy)      *)
(*   groups    group header values ("-" = no header), ttl = retention in ticks (500 ms)       *)
EXTENDS Integers, Sequences, FiniteSets, TLC

CONSTANT Cfg

E == INSTANCE EndpointPolicyP
A == INSTANCE ActionsP

Versions == Cfg.versions
ThrNames == DOMAIN Cfg.thr.W
GroupSet == {Cfg.groups[i] : i \in 1..Len(Cfg.groups)}
WSet     == {Cfg.thr.W[r] : r \in ThrNames}
BigT     == 1000000000

T(s) == INSTANCE ThrottleP WITH Remedy <- ThrNames, Group <- GroupSet, W0 <- Cfg.thr.W, WChoices <- WSet,
            Allowed <- Cfg.thr.Allowed, Pct <- Cfg.thr.Pct, DefBehav <- Cfg.thr.DefBehav, DefPct <- Cfg.thr.DefPct,
            MaxNow <- BigT, Steps <- {},
            now <- s.now, W <- Cfg.thr.W, olds <- s.olds, curs <- s.curs, last <- s.tlast

-------------------------------------------------------------------------------
\* monitor states

With(f, k, v) == [y \in DOMAIN f \cup {k} |-> IF y = k THEN v ELSE f[y]]

PState(t, am, um) ==
    [now |-> t, cur |-> 1, applied |-> FALSE, tx |-> <<>>,
     olds |-> [r \in ThrNames |-> [g \in GroupSet |-> <<>>]],
     curs |-> [r \in ThrNames |-> [g \in GroupSet |-> <<>>]], tlast |-> [ev |-> "init"],
     am |-> am, next |-> <<>>, cnt |-> 0,
     um |-> um, memo |-> <<>>]

PInit(t) == {PState(t, am, um) : am \in {"per", "shared"}, um \in {"cfg", "memo"}}

-------------------------------------------------------------------------------
\* S1: the chain (EndpointPolicyP)

Readings == {<<mt, w>> : mt \in {0, 1}, w \in {"all", "own"}}
Pat(ep) == E!Mk(ep.h, ep.p)

RECURSIVE Flat(_, _, _)
\* the plugins of all endpoints in the order written: <<[r |-> plugin, ep |-> endpoint index], ..>>
Flat(eps, fld, i) ==
    IF i > Len(eps) THEN <<>>
    ELSE [j \in 1..Len(eps[i][fld]) |-> [r |-> eps[i][fld][j], ep |-> i]] \o Flat(eps, fld, i + 1)

\* declarations in the vocabulary of EndpointPolicyP (one per declared plugin; an endpoint that declares none
\* still is a declared endpoint)
Decls(v, fld) ==
    LET eps == Versions[v].endpoints IN
    UNION {IF Len(eps[i][fld]) = 0
           THEN {[m |-> eps[i].m, p |-> Pat(eps[i]), r |-> "-none-", g |-> "-", re |-> FALSE, ge |-> FALSE]}
           ELSE {[m |-> eps[i].m, p |-> Pat(eps[i]), r |-> eps[i][fld][j].name, g |-> "-",
                  re |-> eps[i][fld][j].on, ge |-> FALSE] : j \in 1..Len(eps[i][fld])}
           : i \in 1..Len(eps)}

\* evaluated once (constant level): the declarations and the plugins in written order, per version
DeclTab == [v \in 1..Len(Versions) |-> [rems |-> Decls(v, "rems"), diags |-> Decls(v, "diags")]]
FlatTab == [v \in 1..Len(Versions) |-> [rems |-> Flat(Versions[v].endpoints, "rems", 1), diags |-> Flat(Versions[v].endpoints, "diags", 1)]]

Win(D, m, u, rd) == IF rd[2] = "all" THEN E!WinAll(D, m, u, rd[1]) ELSE E!WinOwn(D, m, u, rd[1])

\* enabled plugins of the winning endpoint in the order written, then the enabled global ones
ChainVia(v, m, u, rd, fld, gfld) ==
    LET sel == E!Names(Win(DeclTab[v][fld], m, u, rd), "r")
        er  == SelectSeq(FlatTab[v][fld], LAMBDA x : x.r.name \in sel)
        gl  == SelectSeq(Versions[v][gfld], LAMBDA r : r.on)
    IN er \o [i \in 1..Len(gl) |-> [r |-> gl[i], ep |-> 0]]

Chains(v, m, u)     == {ChainVia(v, m, u, rd, "rems", "globals") : rd \in Readings}
DiagChains(v, m, u) == {ChainVia(v, m, u, rd, "diags", "gdiags") : rd \in Readings}

NormOf(v, x) == IF x.ep = 0 THEN "" ELSE E!Render(Pat(Versions[v].endpoints[x.ep]))

-------------------------------------------------------------------------------
\* S2: what one remedy may do with one request / response

Status(r) == IF r.st = 0 THEN 429 ELSE r.st
Toks(v, acc) == A!Pairs(Versions[v].accounts[acc])
Keys(v, acc) == A!Pairs(Versions[v].apikeys[acc])
HdrKinds == {"noop", "modreq", "modh"}

ReqHdrs(e) == {<<"x-txn", e.id>>}
              \cup (IF e.early # "" THEN {<<"early-response", e.early>>} ELSE {})
              \cup (IF e.grp # "-" THEN {<<"x-group", e.grp>>} ELSE {})

\* the i-th account explains action a: its tokens are set, except those the request already carries
AcctExplains(v, r, i, a, before) ==
    LET tk == Toks(v, r.accts[i])  h == A!Pairs(a.h) IN
    /\ a.k \in HdrKinds
    /\ h \subseteq tk
    /\ (tk \ h) \subseteq before
    /\ (a.k = "noop" => h = {})

\* rotation: the states after remedy r used its i-th account
AcctNext(s, r, i) ==
    LET n == Len(r.accts) IN
    IF s.am = "shared"
    THEN (IF i = (s.cnt % n) + 1 THEN {[s EXCEPT !.cnt = (s.cnt + 1) % n]} ELSE {})
    ELSE LET want == IF r.name \in DOMAIN s.next THEN s.next[r.name] ELSE IF s.applied THEN 0 ELSE 1 IN
         IF want = 0 \/ want = i \/ want > n
         THEN {[s EXCEPT !.next = With(s.next, r.name, (i % n) + 1)]} ELSE {}

AuthNext(s, v, m, x, a) ==
    LET tk == Keys(v, x.r.acct)  h == A!Pairs(a.h)  key == <<m, NormOf(v, x)>> IN
    IF a.k \notin HdrKinds \/ (a.k = "noop" /\ h # {}) THEN {}
    ELSE IF s.um = "cfg" THEN (IF h = tk THEN {s} ELSE {})
    ELSE IF key \in DOMAIN s.memo THEN (IF h = s.memo[key] THEN {s} ELSE {})
    ELSE (IF h = tk THEN {[s EXCEPT !.memo = With(s.memo, key, tk)]} ELSE {})

ThrNext(s, r, g, a) ==
    LET out == IF a.k = "noop" THEN "pass" ELSE IF a.k = "early" /\ a.st = Status(r) THEN "block" ELSE "bad"
        key == T(s)!KeyOf(r.name, g)
    IN IF out # "bad" /\ T(s)!Permits(r.name, g, out)
       THEN {IF out = "pass" /\ T(s)!Counts(r.name, key)
             THEN [s EXCEPT !.curs[r.name][key] = Append(@, s.now)] ELSE s}
       ELSE {}

\* the monitor states after remedy x (of version v) answered the request e with action a
ApplyReq(s, v, x, a, e, before) ==
    LET r == x.r IN
    CASE r.k = "fixed" -> IF \/ (e.early = "true" /\ a.k = "early" /\ a.st = r.st)
                             \/ (e.early # "true" /\ a.k = "noop") THEN {s} ELSE {}
      [] r.k = "retry" -> IF a.k = "noop" THEN {s} ELSE {}
      [] r.k = "thr"   -> ThrNext(s, r, e.grp, a)
      [] r.k = "acct"  -> UNION {AcctNext(s, r, i) : i \in {j \in 1..Len(r.accts) : AcctExplains(v, r, j, a, before)}}
      [] r.k = "auth"  -> AuthNext(s, v, e.m, x, a)
      [] OTHER -> {}

\* the monitor states after the remedies chain[1..] produced the actions seq[1..] (a recursive FUNCTION over the position:
\* SANY does not let a state that flows into the parameterized instance T(s) pass through a recursive operator)
Walk(S0, v, chain, seq, e) ==
    LET f[i \in 0..Len(seq)] ==
            IF i = 0 THEN S0
            ELSE LET before == A!Merge(ReqHdrs(e), A!UnionH(SubSeq(seq, 1, i - 1))) IN
                 UNION {ApplyReq(s, v, chain[i], seq[i], e, before) : s \in f[i - 1]}
    IN f[Len(seq)]

\* response side: only retry acts
RespExpect(r, st, a) ==
    IF r.k = "retry" /\ r.att >= 1 /\ r.from <= st /\ st <= r.to
    THEN a.k = "modresp" /\ A!Pairs(a.h) = {<<"x-lunar-retry-after", ToString(r.cd)>>}
    ELSE a.k = "noop"

\* every remedy of the chain sees the response once, in chain order.  What a remedy sees after an earlier remedy of the
\* chain modified the response is not documented: the response as it came (each plugin sees the response), or the modified
\* one - the engine hands on the modifying action's status, which is 0 for a retry remedy's header-only modification, so
\* a second retry remedy on the chain stays silent (doc/code disagreement D3: both accepted)
RespSideOK(c, st, rseq) ==
    /\ Len(rseq) = Len(c)
    /\ \A i \in 1..Len(c) :
          IF \E j \in 1..(i - 1) : rseq[j].k = "modresp"
          THEN \/ RespExpect(c[i].r, st, rseq[i])
               \/ RespExpect(c[i].r, 0, rseq[i])
               \* the per-sequence retry bookkeeping is shared by the retry remedies of a chain (C17): the cool-down a
               \* later one announces after an earlier one acted is not documented
               \/ (c[i].r.k = "retry" /\ rseq[i].k = "modresp" /\ A!KeysOf(A!Pairs(rseq[i].h)) = {"x-lunar-retry-after"})
          ELSE RespExpect(c[i].r, st, rseq[i])

-------------------------------------------------------------------------------
\* S7: active remedies

TypeName(k) == CASE k = "fixed" -> "fixed_response" [] k = "acct" -> "account_orchestration"
                 [] k = "thr" -> "strategy_based_throttling" [] k = "auth" -> "authentication"
                 [] k = "retry" -> "retry" [] OTHER -> "undefined"
ResName(k) == CASE k = "early" -> "obtained_response" [] k = "modreq" -> "modified_request"
                [] k = "modh" -> "modified_headers" [] k = "gen" -> "generate_request"
                [] k = "modresp" -> "modified_response" [] k = "retry" -> "retry_request" [] OTHER -> "no_op"

ExpActive(c, seq) ==
    LET act == {i \in 1..Len(seq) : seq[i].k # "noop"}
        of(t) == SelectSeq([i \in 1..Len(seq) |-> i], LAMBDA i : i \in act /\ TypeName(c[i].r.k) = t)
    IN {<<t, [j \in 1..Len(of(t)) |-> ResName(seq[of(t)[j]].k)]>> : t \in {TypeName(c[i].r.k) : i \in act}}

ActiveSet(a) == {<<a[i][1], a[i][2]>> : i \in 1..Len(a)}

RActiveOK(c, e) == LET ex == ExpActive(c, e.rseq) IN
                   (e.hasra => ActiveSet(e.ractive) = ex) /\ (ex # {} => e.hasra)

-------------------------------------------------------------------------------
\* S6: diagnoses

CountIn(sq, x) == Cardinality({i \in 1..Len(sq) : sq[i] = x})
DiagOK(v, m, u, diag) ==
    \E dc \in DiagChains(v, m, u) :
        LET ex  == [i \in 1..Len(dc) |-> <<dc[i].r.exp, dc[i].r.k>>]
            got == [i \in 1..Len(diag) |-> <<diag[i].exp, diag[i].k>>]
        IN /\ Len(ex) = Len(got)
           /\ \A i \in 1..Len(ex) : CountIn(ex, ex[i]) = CountIn(got, ex[i])
           /\ \A i \in 1..Len(diag) : diag[i].k = "har" => diag[i].mine

-------------------------------------------------------------------------------
\* a request

MinOf(S) == CHOOSE x \in S : \A y \in S : x <= y

\* header edits the response side may add to an early response (ActionsP: the right-biased union since the start or
\* the last retry)
RespMods(rseq) ==
    LET nz == A!NonNoop(rseq) IN
    IF A!Of(nz, "modresp") = <<>> THEN {{}}
    ELSE {A!UnionH(A!Of(SubSeq(nz, i, Len(nz)), "modresp")) : i \in A!Starts(nz)}

\* everything about a request event that does not depend on the monitor state: "ok" or the first clause broken
ReqStatic(e, v, u, c) ==
    LET seq == e.seq
        n   == Len(seq)
        Ei  == {i \in 1..n : seq[i].k = "early"}
    IN  IF ~e.answered THEN "not-answered"
        ELSE IF e.out.bad # <<>> THEN "undecodable-answer"
        ELSE IF ~(n = Len(c) \/ (n < Len(c) /\ n >= 1 /\ seq[n].k = "early")) THEN "S1-number-of-remedies-applied"
        ELSE IF ~(e.hasa /\ ActiveSet(e.active) = ExpActive(c, seq)) THEN "S7-request-active-remedies"
        ELSE IF Ei = {}
        THEN (IF ~A!ReqOK(seq, e.out) THEN "S3-fold"
              ELSE IF e.rseq # <<>> \/ e.hasra THEN "S4-response-side-ran-without-early-response"
              ELSE IF e.diag # <<>> THEN "S6-export-for-a-forwarded-request"
              ELSE "ok")
        ELSE LET first == seq[MinOf(Ei)] IN
             IF ~RespSideOK(c, first.st, e.rseq) THEN "S4-response-side-of-the-chain"
             ELSE IF ~A!ReqOK(seq, [e.out EXCEPT !.rh = first.h]) THEN "S3-first-early-response-wins"
             ELSE IF ~(\E md \in RespMods(e.rseq) : A!Pairs(e.out.rh) = A!Merge(A!Pairs(first.h), md))
                  THEN "S4-early-response-headers"
             ELSE IF ~RActiveOK(c, e) THEN "S7-response-active-remedies"
             ELSE IF ~DiagOK(v, e.m, u, e.diag) THEN "S6-diagnoses"
             ELSE "ok"

\* all monitor states of S share the current version and the known transactions (the hypotheses differ): the chains and
\* the state-independent clauses are evaluated once per event
ReqSuccAll(S, e) ==
    IF S = {} THEN {}
    ELSE LET any == CHOOSE s \in S : TRUE
             v   == any.cur
             u   == E!Mk(e.h, e.p)
             okc == {c \in Chains(v, e.m, u) : ReqStatic(e, v, u, c) = "ok"}
         IN IF e.id \in DOMAIN any.tx THEN {}
            ELSE {[s2 EXCEPT !.tx = With(s2.tx, e.id, [m |-> e.m, u |-> u, v |-> v, t0 |-> any.now])]
                  : s2 \in UNION {Walk(S, v, c, e.seq, e) : c \in okc}}

ReqSucc(s, e) == ReqSuccAll({s}, e)

-------------------------------------------------------------------------------
\* a response (S5: the pinned version)

ResStatic(e, v, t, c) ==
    IF ~e.answered THEN "not-answered"
    ELSE IF e.out.bad # <<>> THEN "undecodable-answer"
    ELSE IF e.seq # <<>> THEN "request-side-ran-on-a-response"
    ELSE IF ~RespSideOK(c, e.status, e.rseq) THEN "S5-response-side-of-the-pinned-chain"
    ELSE IF ~A!RespOK(e.rseq, e.out) THEN "S3-fold"
    ELSE IF ~RActiveOK(c, e) THEN "S7-response-active-remedies"
    ELSE IF ~DiagOK(v, t.m, t.u, e.diag) THEN "S6-diagnoses"
    ELSE "ok"

PinnedVersions(s, t) == IF s.now - t.t0 <= Cfg.ttl THEN {t.v} ELSE {t.v, s.cur}

ResSuccAll(S, e) ==
    IF S = {} THEN {}
    ELSE LET any == CHOOSE s \in S : TRUE IN
         IF e.id \notin DOMAIN any.tx THEN {}
         ELSE LET t == any.tx[e.id] IN
              IF \E v \in PinnedVersions(any, t) : \E c \in Chains(v, t.m, t.u) : ResStatic(e, v, t, c) = "ok"
              THEN S ELSE {}

ResSucc(s, e) == ResSuccAll({s}, e)

-------------------------------------------------------------------------------
\* time and policy reloads

AdvSucc(s, e) ==
    {[s EXCEPT !.now = s.now + e.d, !.olds = T(s)!Prune(s.olds, s.now + e.d), !.curs = T(s)!Prune(s.curs, s.now + e.d)]}

\* apply_policies with file v: the new version is current for transactions that start afterwards; a rotation that
\* restarts on a reload is still a rotation (per-remedy reading)
ApplySucc(s, e) ==
    IF e.ok THEN {[s EXCEPT !.cur = e.v, !.applied = TRUE, !.next = <<>>]} ELSE {s}

Succ(s, e) ==
    CASE e.ev = "req"   -> ReqSucc(s, e)
      [] e.ev = "res"   -> ResSucc(s, e)
      [] e.ev = "adv"   -> AdvSucc(s, e)
      [] e.ev = "apply" -> ApplySucc(s, e)
      [] OTHER -> {}

SuccAll(S, e) ==
    CASE e.ev = "req" -> ReqSuccAll(S, e)
      [] e.ev = "res" -> ResSuccAll(S, e)
      [] OTHER -> UNION {Succ(s, e) : s \in S}

-------------------------------------------------------------------------------
\* diagnostics for a rejected event (not part of the verdict): the clause broken under the first hypothesis / chain

WalkDies(s, v, c, e) ==
    LET f[i \in 0..Len(e.seq)] ==
            IF i = 0 THEN {s}
            ELSE LET before == A!Merge(ReqHdrs(e), A!UnionH(SubSeq(e.seq, 1, i - 1))) IN
                 UNION {ApplyReq(x, v, c[i], e.seq[i], e, before) : x \in f[i - 1]}
        dead == {i \in 1..Len(e.seq) : f[i] = {}}
    IN IF dead = {} THEN "ok"
       ELSE LET i == MinOf(dead) IN "S2-" \o c[i].r.k \o "-remedy-" \o c[i].r.name \o "-action-not-permitted"

Why(S, e) ==
    IF S = {} THEN "no-state"
    ELSE LET s == CHOOSE x \in S : TRUE IN
         IF e.ev = "req"
         THEN (IF e.id \in DOMAIN s.tx THEN "transaction-id-reused"
               ELSE LET u == E!Mk(e.h, e.p)
                        c == CHOOSE x \in Chains(s.cur, e.m, u) : TRUE
                        st == ReqStatic(e, s.cur, u, c)
                        wd == WalkDies(s, s.cur, c, e)
                    IN IF st \in {"not-answered", "undecodable-answer", "S1-number-of-remedies-applied"} THEN st
                       ELSE IF wd # "ok" THEN wd ELSE st)
         ELSE IF e.ev = "res"
         THEN (IF e.id \notin DOMAIN s.tx THEN "response-of-unknown-transaction"
               ELSE LET t == s.tx[e.id]
                        c == CHOOSE x \in Chains(t.v, t.m, t.u) : TRUE
                    IN ResStatic(e, t.v, t, c))
         ELSE "event-not-permitted"
================================================================================
