---------------------------- MODULE PolicyTxnTrace ----------------------------
(* X01 - trace validation of recorded histories of the real policy-mode message handler       *)
(* (harness/cmd/x01) against the property specification PolicyTxnP, and - as a side line -      *)
(* comparison with the implementation-shaped model PolicyTxnI.                                 *)
(*   line 1  {"ev":"config","versions":[..],"thr":{..},"groups":[..],"ttl":n}                   *)
(*   {"ev":"reset","now":t}        fresh engine on version 1, clock at t (ticks of 500 ms)       *)
(*   {"ev":"adv","d":d}   {"ev":"apply","v":k,"ok":b}                                           *)
(*   {"ev":"req","id":..,"m":..,"h":[..],"p":[..],"early":..,"grp":..,"seq":[actions],"rseq":[actions],    *)
(*    "out":{decoded SPOE variables},"active":[[type,[results]]..],"ractive":[..],"hasa":b,"hasra":b,       *)
(*    "answered":b,"diag":[{"exp":..,"k":..,"mine":b}..]}                                       *)
(*   {"ev":"res","id":..,"status":n, seq .. diag as above}                                     *)
(* An event is a step of the trace specification iff the set of monitor states of P stays non-empty.  *)
(* A rejected event is announced as  <<"REJECT", line, id, clause>>;  an event that P accepts but the   *)
(* model I predicted differently as  <<"DRIFT", line, id>>  (MODEL-DRIFT, not a verdict).              *)
EXTENDS TraceLib, Integers, FiniteSets

TraceCfg == TraceLog[1]
INSTANCE PolicyTxnI WITH Cfg <- TraceCfg, Bug <- "none"

VARIABLES l, S, is, drift
tvars == <<l, S, is, drift>>

Ev == TraceLog[l + 1]
Consume == l < TraceLen /\ l' = l + 1

TInit == l = 1 /\ S = {} /\ is = IInit(0) /\ drift = FALSE

TReset ==
    /\ Consume /\ Ev.ev = "reset"
    /\ S' = PInit(Ev.now) /\ is' = IInit(Ev.now) /\ drift' = FALSE

In(e) == CASE e.ev = "req" -> [ev |-> "req", id |-> e.id, m |-> e.m, h |-> e.h, p |-> e.p, early |-> e.early, grp |-> e.grp]
           [] e.ev = "res" -> [ev |-> "res", id |-> e.id, status |-> e.status]
           [] e.ev = "apply" -> [ev |-> "apply", v |-> e.v]
           [] OTHER -> [ev |-> "adv", d |-> e.d]

\* the model's engine state follows the inputs; a failed apply changes nothing
IFollow(e) == IF e.ev = "apply" /\ ~e.ok THEN [st |-> is, ev |-> e]
              ELSE IF e.ev = "res" /\ e.id \notin DOMAIN is.txs THEN [st |-> is, ev |-> e]
              ELSE IStep(is, In(e))

TStep ==
    /\ Consume /\ Ev.ev \in {"req", "res", "adv", "apply"}
    /\ LET S2 == SuccAll(S, Ev) IN
       /\ IF S2 # {} THEN TRUE
          ELSE PrintT(<<"REJECT", l + 1, IF "id" \in DOMAIN Ev THEN Ev.id ELSE "-", Why(S, Ev)>>) /\ FALSE
       /\ S' = S2
    /\ LET r == IFollow(Ev) IN
       /\ is' = r.st
       /\ drift' = (drift \/ (Ev.ev \in {"req", "res"} /\ EvView(r.ev) # EvView(Ev)))
       /\ IF ~drift /\ drift' THEN PrintT(<<"DRIFT", l + 1, Ev.id>>) ELSE TRUE

TNext == TReset \/ TStep
TraceSpec == TInit /\ [][TNext]_tvars

HWM == Mark(l)
Post == Report
=============================================================================
