------------------------------ MODULE PolicyTxnI ------------------------------
(* X01 - implementation-shaped model (I) of the policy-mode path of the engine: a          *)
(* transcription of                                                                         *)
(*   routing/messages_handler.go   processRequest / processResponse (policy mode):          *)
(*                                 GetTxnPoliciesData(id) then Dispatch*                     *)
(*   config/policies_accessor.go   first lookup pins the id to the current version,          *)
(*                                 apply installs a new current version (no vacuum: the       *)
(*                                 bounded histories stay inside the retention period)        *)
(*   runner/plugin_dispatcher.go   getRemedies / getDiagnoses / shouldDiagnose,               *)
(*                                 DispatchOnRequest incl. obtainModifiedEarlyResponse,       *)
(*                                 DispatchOnResponse / getOnResponseRunResult                *)
(*   runner/plugin_runner.go       runOnRequest / runOnResponse (loop, active remedies,       *)
(*                                 EnsureRequestIsUpdated, left fold)                         *)
(*   runner/diagnosis_worker.go    request cached at request time, task run with the          *)
(*                                 policies pinned for the transaction id                     *)
(*   services/remedies             fixed_response, account_orchestration (ONE counter for     *)
(*                                 all remedies), authentication/api_key (headers memoised    *)
(*                                 per method + normalised endpoint URL), retry (first         *)
(*                                 response of a sequence), strategy_based_throttling         *)
(* composed from the implementation-shaped models of the listed properties:                  *)
(*   EndpointPolicyI (urltree insert / lookupNode / BuildEndpointPolicyTree / Select),        *)
(*   ActionsI (ReqPrioritize / RespPrioritize tables, encoders), ThrottleI (Ensure, Ratio100).*)
(* One operator per call of the real code; a step of the engine = IStep(is, input), which      *)
(* returns the new engine state and the event an observer records (same shape as the events   *)
(* of harness/cmd/x01).                                                                       *)
(*                                                                                           *)
(* Bug selects a deliberately broken variant (non-vacuity: TLC must refute it) or a variant   *)
(* the statement permits (TLC must accept it):                                                *)
(*   "none"            the engine as it is                                                    *)
(*   "globals_first"   global remedies before the endpoint's                    (refuted)     *)
(*   "ignore_enabled"  disabled plugins are applied too                         (refuted)     *)
(*   "resp_current"    the response is dispatched with the current version      (refuted)     *)
(*   "acct_stuck"      account orchestration never advances                     (refuted)     *)
(*   "early_skips_resp" an early response does not pass the response side       (refuted)     *)
(*   "diag_on_request" the diagnosis task is handed over at request time        (refuted)     *)
(*   "last_early_wins" the fold keeps the last early response                   (refuted)     *)
(*   "diag_current"    the diagnosis worker reads the current version           (refuted)     *)
(*   "short_circuit"   remedies after the answering one are not applied         (accepted)    *)
(*   "acct_per_remedy" one rotation counter per account_orchestration remedy    (accepted)    *)
(*   "auth_no_memo"    authentication reads the account of the pinned version   (accepted)    *)
EXTENDS PolicyTxnP

CONSTANT Bug

EI == INSTANCE EndpointPolicyI WITH ReuseOnLookup <- FALSE, FabricatedNorm <- FALSE, WildHostCheck <- TRUE,
                                     EmptyParam <- FALSE, RejectCollision <- TRUE    \* the URL tree as repaired (2d3f081, 9733f21)
AI == INSTANCE ActionsI WITH ReqAlphabet <- {}, RespAlphabet <- {}, MaxLen <- 0, Bug <- "none",
                             side <- "req", s <- <<>>, acc <- <<>>
TI(x) == INSTANCE ThrottleI WITH Remedy <- ThrNames, Group <- GroupSet, W0 <- Cfg.thr.W, WChoices <- WSet,
            Allowed <- Cfg.thr.Allowed, Pct <- Cfg.thr.Pct, DefBehav <- Cfg.thr.DefBehav, DefPct <- Cfg.thr.DefPct,
            MaxNow <- BigT, Steps <- {}, StrictAfter <- FALSE, StaleWindow <- FALSE,
            now <- x.now, W <- Cfg.thr.W, counter <- x.counter, wend <- x.wend, wsize <- x.wsize, last <- [ev |-> "i"]

IInit(t) ==
    [now |-> t, vers |-> <<1>>, pins |-> <<>>, txs |-> <<>>, cnt |-> 0, cnts |-> <<>>, memo |-> <<>>, dcache |-> {},
     counter |-> [r \in ThrNames |-> [g \in GroupSet |-> 0]],
     wend |-> [r \in ThrNames |-> [g \in GroupSet |-> 0]],
     wsize |-> [r \in ThrNames |-> [g \in GroupSet |-> 0]]]

NoAct == A!NoOp
Early(st, b, h) == [NoAct EXCEPT !.k = "early", !.st = st, !.b = b, !.h = h]
ModReq(h) == [NoAct EXCEPT !.k = "modreq", !.h = h]

-------------------------------------------------------------------------------
\* getRemedies / getDiagnoses / shouldDiagnose

Tree(v) == LET eps == Versions[v].endpoints IN
           EI!Build([i \in 1..Len(eps) |-> [m |-> eps[i].m, p |-> Pat(eps[i]), id |-> i]])

\* evaluated once (constant level)
TreeTab == [v \in 1..Len(Versions) |-> Tree(v)]

Enabled(ps) == IF Bug = "ignore_enabled" THEN ps ELSE SelectSeq(ps, LAMBDA r : r.on)

GetPlugins(v, m, u, fld, gfld) ==
    LET sel == EI!Select(TreeTab[v], m, u)
        ep  == IF sel.id = 0 THEN <<>> ELSE Enabled(Versions[v].endpoints[sel.id][fld])
        er  == [i \in 1..Len(ep) |-> [r |-> ep[i], ep |-> sel.id, norm |-> sel.norm]]
        g   == Enabled(Versions[v][gfld])
        gl  == [i \in 1..Len(g) |-> [r |-> g[i], ep |-> 0, norm |-> ""]]
    IN IF Bug = "globals_first" /\ fld = "rems" THEN gl \o er ELSE er \o gl

ShouldDiagnose(v, m, u) ==
    \/ \E i \in 1..Len(Versions[v].gdiags) : Versions[v].gdiags[i].on
    \/ LET sel == EI!Select(TreeTab[v], m, u) IN
       sel.id # 0 /\ \E i \in 1..Len(Versions[v].endpoints[sel.id].diags) : Versions[v].endpoints[sel.id].diags[i].on

-------------------------------------------------------------------------------
\* the plugins: [st |-> engine state after the call, a |-> the action returned]

HasHdr(hdrs, n, val) == <<n, val>> \in hdrs
SeqOfPairs(sq) == sq           \* header lists of the configuration already are sequences of <<name, value>>

FixedReq(x, r, hdrs) ==
    [st |-> x, a |-> IF HasHdr(hdrs, "early-response", "true")
                     THEN Early(r.st, "{\"message\": \"GO Lunar\"}", <<<<"powered-by", "Lunar Interventions Inc.">>>>)
                     ELSE NoAct]

AcctReq(x, v, r, hdrs) ==
    LET n    == Len(r.accts)
        own  == IF r.name \in DOMAIN x.cnts THEN x.cnts[r.name] ELSE 0
        c0   == IF Bug = "acct_per_remedy" THEN own ELSE x.cnt
        idx  == (c0 % n) + 1
        tk   == Versions[v].accounts[r.accts[idx]]
        set  == SelectSeq(tk, LAMBDA t : ~HasHdr(hdrs, t[1], t[2]))       \* "Token already present in request"
        x2   == IF Bug = "acct_stuck" THEN x
                ELSE IF Bug = "acct_per_remedy" THEN [x EXCEPT !.cnts = With(x.cnts, r.name, (c0 + 1) % n)]
                ELSE [x EXCEPT !.cnt = (c0 + 1) % n]
    IN [st |-> x2, a |-> IF set = <<>> THEN NoAct ELSE ModReq(set)]

AuthReq(x, v, m, pl) ==
    LET key == <<m, pl.norm>>
        tk  == Versions[v].apikeys[pl.r.acct]
        use == IF Bug # "auth_no_memo" /\ key \in DOMAIN x.memo THEN x.memo[key] ELSE tk
        x2  == IF key \in DOMAIN x.memo THEN x ELSE [x EXCEPT !.memo = With(x.memo, key, tk)]
    IN [st |-> x2, a |-> IF use = <<>> THEN NoAct ELSE ModReq(use)]

ThrReq(x, r, gh) ==
    LET g == TI(x)!KeyOf(r.name, gh)
        ratio == TI(x)!Ratio100(r.name, g)
        blocked == Early(Status(r), "Too many requests", <<<<"content-type", "text/plain">>>>)
    IN IF ratio = -1
       THEN [st |-> x, a |-> IF Cfg.thr.DefBehav[r.name] = "block" THEN blocked ELSE NoAct]
       ELSE LET en   == TI(x)!Ensure(r.name, g)
                max  == TI(x)!Ceil100(Cfg.thr.Allowed[r.name] * ratio)
                pass == en[1] < max
            IN [st |-> [x EXCEPT !.counter[r.name][g] = IF pass THEN en[1] + 1 ELSE en[1],
                                 !.wend[r.name][g] = en[2], !.wsize[r.name][g] = Cfg.thr.W[r.name]],
                a |-> IF pass THEN NoAct ELSE blocked]

PluginReq(x, v, m, pl, grp, hdrs) ==
    LET r == pl.r IN
    CASE r.k = "fixed" -> FixedReq(x, r, hdrs)
      [] r.k = "acct"  -> AcctReq(x, v, r, hdrs)
      [] r.k = "auth"  -> AuthReq(x, v, m, pl)
      [] r.k = "thr"   -> ThrReq(x, r, grp)
      [] OTHER         -> [st |-> x, a |-> NoAct]

PluginResp(r, status) ==
    IF r.k = "retry" /\ r.att >= 1 /\ r.from <= status /\ status <= r.to
    THEN [NoAct EXCEPT !.k = "modresp", !.h = <<<<"x-lunar-retry-after", ToString(r.cd)>>>>]
    ELSE NoAct

-------------------------------------------------------------------------------
\* runOnRequest / runOnResponse

\* [st, seq, acc, hdrs]: engine state, the actions in order, the prioritized action, the request headers as updated so far
\* (a recursive FUNCTION over the loop index, see PolicyTxnP.Walk)
RunReq(x, v, m, chain, grp, hdrs0) ==
    LET f[i \in 0..Len(chain)] ==
            IF i = 0 THEN [st |-> x, seq |-> <<>>, acc |-> AI!Blank, hdrs |-> hdrs0]
            ELSE LET pr == f[i - 1] IN
                 IF Bug = "short_circuit" /\ pr.acc.k = "early" THEN pr
                 ELSE LET r  == PluginReq(pr.st, v, m, chain[i], grp, pr.hdrs)
                          ra == AI!Rel(r.a)
                          h2 == IF r.a.k \in {"modreq", "modh"} THEN AI!MergeHeaders(pr.hdrs, ra.h) ELSE pr.hdrs   \* EnsureRequestIsUpdated
                          a2 == IF Bug = "last_early_wins" /\ ra.k = "early" THEN ra ELSE AI!ReqPrioritize(pr.acc, ra)
                      IN [st |-> r.st, seq |-> Append(pr.seq, r.a), acc |-> a2, hdrs |-> h2]
    IN f[Len(chain)]

RECURSIVE FoldResp(_, _, _)
FoldResp(rseq, i, acc) == IF i > Len(rseq) THEN acc ELSE FoldResp(rseq, i + 1, AI!RespPrioritize(acc, AI!Rel(rseq[i])))

RECURSIVE RunResp(_, _, _, _)
\* runOnResponse: the actions in chain order; EnsureResponseIsUpdated hands the action's status (0 for a header-only
\* ModifyResponseAction) on to the remedies that follow
RunResp(chain, i, status, rseq) ==
    IF i > Len(chain) THEN rseq
    ELSE LET a == PluginResp(chain[i].r, status) IN
         RunResp(chain, i + 1, IF a.k = "modresp" THEN a.st ELSE status, Append(rseq, a))

ActiveOf(chain, seq) ==
    LET types == {TypeName(chain[i].r.k) : i \in {j \in 1..Len(seq) : seq[j].k # "noop"}}
        of(t) == SelectSeq([i \in 1..Len(seq) |-> i], LAMBDA i : seq[i].k # "noop" /\ TypeName(chain[i].r.k) = t)
    IN A!SetSeq({<<t, [j \in 1..Len(of(t)) |-> ResName(seq[of(t)[j]].k)]>> : t \in types})

\* the diagnosis worker's task for transaction id: policies pinned for the id, getDiagnoses, one export each
Exports(x, id, m, u) ==
    LET v  == IF Bug = "diag_current" THEN x.vers[Len(x.vers)] ELSE x.vers[x.pins[id]]
        ds == GetPlugins(v, m, u, "diags", "gdiags")
    IN [i \in 1..Len(ds) |-> [exp |-> ds[i].r.exp, k |-> ds[i].r.k, mine |-> ds[i].r.k = "har"]]

-------------------------------------------------------------------------------
\* processRequest (policy mode)

IReq(x0, id, m, h, p, early, grp) ==
    LET u     == E!Mk(h, p)
        x1    == IF id \in DOMAIN x0.pins THEN x0
                 ELSE [x0 EXCEPT !.pins = With(x0.pins, id, Len(x0.vers)), !.txs = With(x0.txs, id, [m |-> m, u |-> u])]
        v     == x1.vers[x1.pins[id]]
        chain == GetPlugins(v, m, u, "rems", "globals")
        hdrs  == ReqHdrs([id |-> id, early |-> early, grp |-> grp])
        run   == RunReq(x1, v, m, chain, grp, hdrs)
        diagn == ShouldDiagnose(v, m, u)
        x2    == IF diagn THEN [run.st EXCEPT !.dcache = @ \cup {id}] ELSE run.st
        isE   == run.acc.k = "early"
        respS == isE /\ Bug # "early_skips_resp"
        rseq  == IF respS THEN RunResp(chain, 1, run.acc.st, <<>>) ELSE <<>>
        racc  == FoldResp(rseq, 1, AI!Blank)
        mod   == respS /\ racc.k = "modresp"
        final == IF mod THEN [run.acc EXCEPT !.h = AI!MergeHeaders(run.acc.h, racc.h)] ELSE run.acc
        dnow  == (respS \/ Bug = "diag_on_request") /\ diagn
    IN [st |-> x2,
        ev |-> [ev |-> "req", id |-> id, m |-> m, h |-> h, p |-> p, early |-> early, grp |-> grp,
                seq |-> run.seq, rseq |-> rseq, out |-> AI!ReqToSpoeActions(final),
                active |-> ActiveOf(chain, run.seq), hasa |-> TRUE,
                ractive |-> IF mod THEN ActiveOf(chain, rseq) ELSE <<>>, hasra |-> mod,
                answered |-> TRUE,
                diag |-> IF dnow THEN Exports(x2, id, m, u) ELSE <<>>]]

\* processResponse (policy mode)
IRes(x, id, status) ==
    LET t     == x.txs[id]
        v     == IF Bug = "resp_current" THEN x.vers[Len(x.vers)] ELSE x.vers[x.pins[id]]
        chain == GetPlugins(v, t.m, t.u, "rems", "globals")
        rseq  == RunResp(chain, 1, status, <<>>)
        racc  == FoldResp(rseq, 1, AI!Blank)
        dnow  == ShouldDiagnose(v, t.m, t.u) /\ id \in x.dcache
    IN [st |-> x,
        ev |-> [ev |-> "res", id |-> id, status |-> status, seq |-> <<>>, rseq |-> rseq,
                out |-> AI!RespToSpoeActions(racc), active |-> <<>>, hasa |-> FALSE,
                ractive |-> ActiveOf(chain, rseq), hasra |-> TRUE, answered |-> TRUE,
                diag |-> IF dnow THEN Exports(x, id, t.m, t.u) ELSE <<>>]]

IApply(x, v) == [st |-> [x EXCEPT !.vers = Append(@, v)], ev |-> [ev |-> "apply", v |-> v, ok |-> TRUE]]
IAdv(x, d)   == [st |-> [x EXCEPT !.now = @ + d], ev |-> [ev |-> "adv", d |-> d]]

\* one step of the engine on an input (a script event of harness/cmd/x01)
IStep(x, in) ==
    CASE in.ev = "req"   -> IReq(x, in.id, in.m, in.h, in.p, in.early, in.grp)
      [] in.ev = "res"   -> IRes(x, in.id, in.status)
      [] in.ev = "apply" -> IApply(x, in.v)
      [] in.ev = "adv"   -> IAdv(x, in.d)

-------------------------------------------------------------------------------
\* comparison of a recorded event with the event the model predicts (conformance of I; a difference is MODEL-DRIFT,
\* never a verdict): actions by kind / status / body / header relation, answer by its decoded fields
ActView(a) == [k |-> a.k, st |-> a.st, b |-> a.b, h |-> A!Pairs(a.h)]
OutView(o) == [early |-> o.early, modreq |-> o.modreq, modresp |-> o.modresp, retry |-> o.retry, st |-> o.st, body |-> o.body,
               rh |-> A!Pairs(o.rh), qh |-> A!Pairs(o.qh), names |-> A!ToSet(o.names)]
EvView(e) ==
    [seq |-> [i \in 1..Len(e.seq) |-> ActView(e.seq[i])], rseq |-> [i \in 1..Len(e.rseq) |-> ActView(e.rseq[i])],
     out |-> OutView(e.out), active |-> ActiveSet(e.active), hasa |-> e.hasa,
     ractive |-> ActiveSet(e.ractive), hasra |-> e.hasra, answered |-> e.answered,
     diag |-> [i \in 1..Len(e.diag) |-> <<e.diag[i].exp, e.diag[i].k, e.diag[i].mine>>]]
================================================================================
