------------------------------ MODULE FlowEngineI ------------------------------
(* C04 / C05 - implementation-shaped model (I), part 2: the engine.            *)
(*                                                                             *)
(* Explicit-stack transcription of                                             *)
(*   streams/streams.go        ExecuteFlow / executeReq / executeRes / executeFlow *)
(*   streams/stream/stream.go  ExecuteFlow (the recursion over a node's edges)  *)
(* for one transaction handled by one user flow of a loaded configuration.      *)
(* One action per processor execution (ProcStep) and per edge examined          *)
(* (EdgeStep); the outputs of Cond / Lim processors are chosen                 *)
(* nondeterministically, so TLC explores every combination of branch outcomes.  *)
(*                                                                             *)
(* A frame [n, i, out, sc] is one activation of stream.ExecuteFlow: node, index *)
(* of the next edge, the processor's output, and the local shortCircuitNode.    *)
(* Deviations of the code that the repaired engine no longer has are named by   *)
(* constants so that both designs can be checked.                              *)
EXTENDS FlowGraphI

CONSTANTS
    Configs,               \* set of configurations explored
    StopAfterAnswer,       \* TRUE (the code since 8834928): once a branch answered the request no further edge of any caller is followed
                           \* FALSE (before): sibling edges are still iterated and overwrite the short-circuit node
    ResumeAllEdges,        \* TRUE (since 8932fc2): the response walk resumes at every connection of the answering processor,
                           \*                  also when the response direction has no stream entry point
                           \* FALSE (before): only at edges[0]; skipped for a rootless response direction; from the root when no edge
    StepCap                \* exploration cap on processor executions (> every Bound)

VARIABLES
    cfg,      \* the configuration
    fname,    \* the user flow that handles the transaction
    txdir,    \* "req" | "res": kind of transaction
    b,        \* BuildFlow(cfg, flow)
    sdir,     \* current stream type (switches to "res" for the early-response walk)
    stack,    \* activation frames of stream.ExecuteFlow
    exec,     \* executed processors <<[flow, key, dir, out]>>
    steps,
    sc,       \* short-circuit node handed to executeReq ("" = none)
    phase,    \* "start" | "walk" | "resume" | "done"
    outcome   \* "" | "ok" | "error"

vars == <<cfg, fname, txdir, b, sdir, stack, exec, steps, sc, phase, outcome>>

RunOuts(kind, dir) ==
    CASE kind = "Cond" -> {"hit", "miss"}
      [] kind = "Plain" -> {""}
      [] kind = "Gen" -> {""}
      [] kind = "Lim" -> IF dir = "req" THEN {"below_limit", "above_limit"} ELSE {}
      [] OTHER -> {}

D(dir) == IF dir = "req" THEN b.req ELSE b.res
Frame(n) == [n |-> n, i |-> 0, out |-> "", sc |-> ""]

\* constant-level tables (TLC evaluates them once): the accepted configurations and their built graphs
Accepted == {g \in Configs : Accepts(g) = "accepted"}
Starts == UNION {{[cfg |-> g, fname |-> g.flows[i].name, b |-> BuildFlow(g, g.flows[i])] : i \in 1..Len(g.flows)} : g \in Accepted}

Init ==
    /\ \E s \in Starts : cfg = s.cfg /\ fname = s.fname /\ b = s.b
    /\ txdir \in {"req", "res"}
    /\ sdir = txdir
    /\ stack = <<>> /\ exec = <<>> /\ steps = 0 /\ sc = "" /\ phase = "start" /\ outcome = ""

Finish(o) == phase' = "done" /\ outcome' = o /\ stack' = <<>>

\* streams.executeFlow without a start node: undefined direction or missing root => nothing runs
Start ==
    /\ phase = "start"
    /\ IF ~Defined(D(sdir)) \/ D(sdir).root = ""
       THEN Finish("ok") /\ UNCHANGED <<sc>>
       ELSE stack' = <<Frame(D(sdir).root)>> /\ phase' = "walk" /\ UNCHANGED <<outcome, sc>>
    /\ UNCHANGED <<cfg, fname, txdir, b, sdir, exec, steps>>

\* the top activation returns `ret` to its caller
Return(ret) ==
    IF Len(stack) = 1
    THEN /\ stack' = <<>>
         /\ sc' = ret
    ELSE /\ stack' = [SubSeq(stack, 1, Len(stack) - 1) EXCEPT ![Len(stack) - 1].sc = ret]
         /\ UNCHANGED sc

\* node.GetProcessor().Execute + the early-response hand-over
ProcStep ==
    /\ steps <= StepCap
    /\ phase \in {"walk", "resume"} /\ stack # <<>>
    /\ LET top == stack[Len(stack)]
           kind == KindAny(cfg, top.n) IN
       /\ top.i = 0
       /\ IF RunOuts(kind, sdir) = {}
          THEN /\ Finish("error") /\ UNCHANGED <<exec, steps, sc>>        \* Execute returned an error
          ELSE \E o \in RunOuts(kind, sdir) :
               /\ exec' = Append(exec, [flow |-> fname, sid |-> "", key |-> top.n, dir |-> sdir, out |-> o])
               /\ steps' = steps + 1
               /\ IF kind = "Gen" /\ sdir = "req"
                  THEN IF HasNode(b.res, top.n)
                       THEN Return(top.n) /\ UNCHANGED <<phase, outcome>>
                       ELSE Finish("error") /\ UNCHANGED sc                  \* failed to get response node
                  ELSE /\ stack' = [stack EXCEPT ![Len(stack)] = [@ EXCEPT !.i = 1, !.out = o]]
                       /\ UNCHANGED <<sc, phase, outcome>>
    /\ UNCHANGED <<cfg, fname, txdir, b, sdir>>

\* one iteration of `for _, edge := range node.GetEdges()`
EdgeStep ==
    /\ phase \in {"walk", "resume"} /\ stack # <<>>
    /\ LET top == stack[Len(stack)]
           es == EdgesOf(D(sdir), top.n) IN
       /\ top.i > 0
       /\ IF top.i > Len(es) \/ (StopAfterAnswer /\ top.sc # "")
          THEN Return(top.sc)
          ELSE LET e == es[top.i] IN
               IF e.t = "" \/ e.c # top.out
               THEN stack' = [stack EXCEPT ![Len(stack)].i = top.i + 1] /\ UNCHANGED sc
               ELSE stack' = Append([stack EXCEPT ![Len(stack)].i = top.i + 1], Frame(e.t)) /\ UNCHANGED sc
    /\ UNCHANGED <<cfg, fname, txdir, b, sdir, exec, steps, phase, outcome>>

\* the walk of the current stream type is over (executeReq / executeRes epilogue)
WalkOver ==
    /\ phase \in {"walk", "resume"} /\ stack = <<>>
    /\ IF phase = "walk" /\ sdir = "req" /\ sc # ""
       THEN \* early response: executeRes(.., shortCircuit) -> executeFlow(flow, startFromNode = sc)
            LET r == b.res
                es == EdgesOf(r, sc)
                targets == IF ResumeAllEdges
                           THEN SelectSeq(es, LAMBDA e : e.t # "")
                           ELSE IF Len(es) = 0 THEN <<[from |-> "", c |-> "", t |-> r.root]>>
                           ELSE IF es[1].t = "" THEN <<>> ELSE <<es[1]>>
            IN /\ sdir' = "res"
               /\ IF ~Defined(r) \/ (~ResumeAllEdges /\ r.root = "") \/ Len(targets) = 0
                  THEN Finish("ok") /\ UNCHANGED sc
                  ELSE /\ phase' = "resume"
                       \* frames are pushed in reverse so that the first target runs first; each returns to nobody
                       /\ stack' = [k \in 1..Len(targets) |-> Frame(targets[Len(targets) + 1 - k].t)]
                       /\ sc' = ""
                       /\ UNCHANGED outcome
       ELSE Finish("ok") /\ UNCHANGED <<sc, sdir>>
    /\ UNCHANGED <<cfg, fname, txdir, b, exec, steps>>

Next == Start \/ ProcStep \/ EdgeStep \/ WalkOver

Spec == Init /\ [][Next]_vars

\* ---------------------------------------------------------------- properties
Done == phase = "done"

\* C04: what the engine executed is a walk of the configured graph
FollowsGraph == Done => TxVerdict(cfg, fname, txdir, exec, <<>>, outcome) = "ok"

\* C05: an accepted configuration handles every transaction within the bound
Safe == steps <= Bound(cfg)

\* the verdict as a value, for witness classification
Verdict == IF Done THEN TxVerdict(cfg, fname, txdir, exec, <<>>, outcome) ELSE "running"
================================================================================
