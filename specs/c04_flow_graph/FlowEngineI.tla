------------------------------ MODULE FlowEngineI ------------------------------
(* C04 / C05 - implementation-shaped model (I), part 2: the engine.            *)
(*                                                                             *)
(* Explicit-stack transcription of                                             *)
(*   streams/streams.go        ExecuteFlow / executeReq / executeRes / executeFlow *)
(*   streams/stream/stream.go  ExecuteFlow (the recursion over a node's edges)  *)
(* for one transaction handled by one user flow of a loaded configuration.      *)
(* One action per processor execution (ProcStep) and per edge examined          *)
(* (EdgeStep); the outputs of Cond / Lim processors are chosen                 *)
(* nondeterministically, so TLC explores every combination of branch outcomes.  *)
(*                                                                             *)
(* A frame [n, i, out, sc] is one activation of stream.ExecuteFlow: node, index *)
(* of the next edge, the processor's output, and the local shortCircuitNode.    *)
(* Deviations of the code that the repaired engine no longer has are named by   *)
(* constants so that both designs can be checked.                              *)
EXTENDS FlowGraphI

CONSTANTS
    Configs,               \* set of configurations explored
    StopAfterAnswer,       \* TRUE (the code since 8834928): once a branch answered the request no further edge of any caller is followed
                           \* FALSE (before): sibling edges are still iterated and overwrite the short-circuit node
    ResumeAllEdges,        \* TRUE (since 8932fc2): the response walk resumes at every connection of the answering processor,
                           \*                  also when the response direction has no stream entry point
                           \* FALSE (before): only at edges[0]; skipped for a rootless response direction; from the root when no edge
    StartNodePerFlow,      \* TRUE (the code): only the flow that answered continues from the answering processor, every other
                           \*       user flow of the transaction walks its response direction from its own entry point
                           \* FALSE (a mutation): the start node is kept for the flows visited after the answering flow
    StepCap                \* exploration cap on processor executions (> every Bound)

VARIABLES
    cfg,      \* the configuration
    order,    \* the user flows selected for the transaction, in the order the engine runs them on a request
    bs,       \* bs[k] = BuildFlow(cfg, flow order[k])
    txdir,    \* "req" | "res": kind of transaction
    sdir,     \* current stream type (switches to "res" for the early-response walk)
    pos,      \* index in `order` of the flow being walked (requests: 1..n, responses: n..1)
    gpos,     \* index of the flow whose graph the current walk uses (= pos in the code as it is)
    stack,    \* activation frames of stream.ExecuteFlow
    exec,     \* executed processors <<[flow, sid, key, dir, out]>>
    steps,
    sc,       \* short-circuit node returned by the walk in progress ("" = none)
    scn,      \* the processor that answered the request ("" = none) and
    scpos,    \* the index of its flow (0 = none): streams.shortCircuitOperation
    phase,    \* "start" | "walk" | "resume" | "done"
    outcome   \* "" | "ok" | "error"

vars == <<cfg, order, bs, txdir, sdir, pos, gpos, stack, exec, steps, sc, scn, scpos, phase, outcome>>
fixed == <<cfg, order, bs, txdir>>

RunOuts(kind, dir) ==
    CASE kind = "Cond" -> {"hit", "miss"}
      [] kind = "Plain" -> {""}
      [] kind = "Gen" -> {""}
      [] kind = "Lim" -> IF dir = "req" THEN {"below_limit", "above_limit"} ELSE {}
      [] OTHER -> {}

G(k, dir) == IF dir = "req" THEN bs[k].req ELSE bs[k].res
Frame(n) == [n |-> n, i |-> 0, out |-> "", sc |-> ""]

\* constant-level tables (TLC evaluates them once): the accepted configurations, the flows that share a filter URL
\* (they are selected together; both engine orders are explored) and their built graphs
RECURSIVE OrderPerms(_)
OrderPerms(s) == IF Len(s) <= 1 THEN {s}
                 ELSE UNION {{<<s[i]>> \o p : p \in OrderPerms([j \in 1..(Len(s) - 1) |-> IF j < i THEN s[j] ELSE s[j + 1]])} : i \in 1..Len(s)}
NamesAt(g, u) == LET RECURSIVE N(_)
                     N(i) == IF i > Len(g.flows) THEN <<>>
                             ELSE (IF g.flows[i].url = u THEN <<g.flows[i].name>> ELSE <<>>) \o N(i + 1)
                 IN N(1)
Accepted == {g \in Configs : Accepts(g) = "accepted"}
Starts == UNION {UNION {{[cfg |-> g, order |-> o, bs |-> [k \in 1..Len(o) |-> BuildFlow(g, FlowOf(g, o[k]))]] :
                             o \in OrderPerms(NamesAt(g, u))} : u \in {g.flows[i].url : i \in 1..Len(g.flows)}} : g \in Accepted}

Init ==
    /\ \E s \in Starts : cfg = s.cfg /\ order = s.order /\ bs = s.bs
    /\ txdir \in {"req", "res"}
    /\ sdir = txdir
    /\ pos = (IF txdir = "req" THEN 1 ELSE Len(order)) /\ gpos = pos
    /\ stack = <<>> /\ exec = <<>> /\ steps = 0 /\ sc = "" /\ scn = "" /\ scpos = 0 /\ phase = "start" /\ outcome = ""

Finish(o) == phase' = "done" /\ outcome' = o /\ stack' = <<>>

\* streams.executeFlow for the flow at `pos`: undefined direction or missing root => nothing runs; after an early response
\* the flow that answered continues from the response-side connections of the answering processor
Start ==
    /\ phase = "start"
    /\ LET resumeHere == sdir = "res" /\ scpos > 0 /\ (pos = scpos \/ (~StartNodePerFlow /\ pos < scpos))
           own == G(pos, sdir)
       IN IF resumeHere
          THEN LET r == G(scpos, "res")
                   es == EdgesOf(r, scn)
                   targets == IF ResumeAllEdges
                              THEN SelectSeq(es, LAMBDA e : e.t # "")
                              ELSE IF Len(es) = 0 THEN <<[from |-> "", c |-> "", t |-> own.root]>>
                              ELSE IF es[1].t = "" THEN <<>> ELSE <<es[1]>>
               IN IF ~Defined(own) \/ (~ResumeAllEdges /\ own.root = "") \/ Len(targets) = 0
                  THEN stack' = <<>> /\ phase' = "resume" /\ gpos' = pos
                  ELSE \* frames are pushed in reverse so that the first target runs first; each returns to nobody
                       /\ stack' = [k \in 1..Len(targets) |-> Frame(targets[Len(targets) + 1 - k].t)]
                       /\ phase' = "resume"
                       /\ gpos' = (IF ResumeAllEdges \/ Len(es) > 0 THEN scpos ELSE pos)
          ELSE IF ~Defined(own) \/ own.root = ""
               THEN stack' = <<>> /\ phase' = "walk" /\ gpos' = pos
               ELSE stack' = <<Frame(own.root)>> /\ phase' = "walk" /\ gpos' = pos
    /\ sc' = ""
    /\ UNCHANGED <<fixed, sdir, pos, exec, steps, scn, scpos, outcome>>

\* the top activation returns `ret` to its caller
Return(ret) ==
    IF Len(stack) = 1
    THEN /\ stack' = <<>>
         /\ sc' = ret
    ELSE /\ stack' = [SubSeq(stack, 1, Len(stack) - 1) EXCEPT ![Len(stack) - 1].sc = ret]
         /\ UNCHANGED sc

\* node.GetProcessor().Execute + the early-response hand-over
ProcStep ==
    /\ steps <= StepCap
    /\ phase \in {"walk", "resume"} /\ stack # <<>>
    /\ LET top == stack[Len(stack)]
           kind == KindAny(cfg, top.n) IN
       /\ top.i = 0
       /\ IF RunOuts(kind, sdir) = {}
          THEN /\ Finish("error") /\ UNCHANGED <<exec, steps, sc>>        \* Execute returned an error
          ELSE \E o \in RunOuts(kind, sdir) :
               /\ exec' = Append(exec, [flow |-> order[pos], sid |-> "", key |-> top.n, dir |-> sdir, out |-> o])
               /\ steps' = steps + 1
               /\ IF kind = "Gen" /\ sdir = "req"
                  THEN IF HasNode(bs[pos].res, top.n)
                       THEN Return(top.n) /\ UNCHANGED <<phase, outcome>>
                       ELSE Finish("error") /\ UNCHANGED sc                  \* failed to get response node
                  ELSE /\ stack' = [stack EXCEPT ![Len(stack)] = [@ EXCEPT !.i = 1, !.out = o]]
                       /\ UNCHANGED <<sc, phase, outcome>>
    /\ UNCHANGED <<fixed, sdir, pos, gpos, scn, scpos>>

\* one iteration of `for _, edge := range node.GetEdges()`
EdgeStep ==
    /\ phase \in {"walk", "resume"} /\ stack # <<>>
    /\ LET top == stack[Len(stack)]
           es == EdgesOf(G(gpos, sdir), top.n) IN
       /\ top.i > 0
       /\ IF top.i > Len(es) \/ (StopAfterAnswer /\ top.sc # "")
          THEN Return(top.sc)
          ELSE LET e == es[top.i] IN
               IF e.t = "" \/ e.c # top.out
               THEN stack' = [stack EXCEPT ![Len(stack)].i = top.i + 1] /\ UNCHANGED sc
               ELSE stack' = Append([stack EXCEPT ![Len(stack)].i = top.i + 1], Frame(e.t)) /\ UNCHANGED sc
    /\ UNCHANGED <<fixed, sdir, pos, gpos, exec, steps, scn, scpos, phase, outcome>>

\* the walk of one flow is over: the loops of executeReq / executeRes over the user flows
WalkOver ==
    /\ phase \in {"walk", "resume"} /\ stack = <<>>
    /\ IF sdir = "req"
       THEN IF sc # ""
            THEN \* early response: the remaining flows are skipped on the request side; executeRes(.., shortCircuit)
                 /\ scn' = sc /\ scpos' = pos /\ sdir' = "res" /\ pos' = Len(order) /\ phase' = "start"
                 /\ UNCHANGED <<outcome, stack>>
            ELSE IF pos < Len(order)
                 THEN pos' = pos + 1 /\ phase' = "start" /\ UNCHANGED <<scn, scpos, sdir, outcome, stack>>
                 ELSE Finish("ok") /\ UNCHANGED <<scn, scpos, sdir, pos>>
       ELSE IF pos > 1
            THEN pos' = pos - 1 /\ phase' = "start" /\ UNCHANGED <<scn, scpos, sdir, outcome, stack>>
            ELSE Finish("ok") /\ UNCHANGED <<scn, scpos, sdir, pos>>
    /\ UNCHANGED <<fixed, gpos, exec, steps, sc>>

Next == Start \/ ProcStep \/ EdgeStep \/ WalkOver

Spec == Init /\ [][Next]_vars

\* ---------------------------------------------------------------- properties
Done == phase = "done"

\* the verdict of the property on what the engine model executed
Verdict == IF ~Done THEN "running"
           ELSE IF Len(order) = 1 THEN TxVerdict(cfg, order[1], txdir, exec, <<>>, outcome)
           ELSE MultiTxVerdict(cfg, order, txdir, exec, <<>>, outcome)

\* C04: what the engine executed is a walk of the configured graph
FollowsGraph == Done => Verdict = "ok"

\* C05: an accepted configuration handles every transaction within the bound
Safe == steps <= Bound(cfg)
================================================================================
