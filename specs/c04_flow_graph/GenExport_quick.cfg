CONSTANTS
  Configs <- TierConfigs
  Tier = "quick"
  CyclesFromEveryNode = TRUE
  RefDepthChecked = TRUE
  ExitLinked = TRUE
  StopAfterAnswer = FALSE
  ResumeAllEdges = FALSE
  StartNodePerFlow = TRUE
  StepCap = 600
  CheckLoader = FALSE
INIT GInit
NEXT GNext
CHECK_DEADLOCK FALSE
