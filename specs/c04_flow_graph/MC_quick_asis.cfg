CONSTANTS
  Configs <- TierConfigs
  Tier = "quick"
  CyclesFromEveryNode = FALSE
  RefDepthChecked = FALSE
  StopAfterAnswer = FALSE
  ResumeAllEdges = FALSE
  StepCap = 600
SPECIFICATION Spec
CHECK_DEADLOCK FALSE
INVARIANT FollowsGraph
INVARIANT Safe
