------------------------------- MODULE MC_C04 -------------------------------
(* C04 / C05 - exhaustive check of the implementation-shaped model against the  *)
(* property over the bounded configuration space of GenC04.                     *)
EXTENDS FlowEngineI, GenC04, Json

\* spec -> code: the configuration space with the loader verdict the model predicts
Export(set) == JsonSerialize("gen_configs.json", [configs |-> {[cfg |-> g, accepts |-> Accepts(g)] : g \in set}])
CONSTANT Tier
TierConfigs == ConfigSpace(Tier)
DoExport == Export(Configs) /\ PrintT(<<"GEN-CONFIGS", Cardinality(Configs)>>)

\* C05, loader part: the loader model answers every configuration of the space (no unbounded recursion)
LoaderTotal == \A g \in Configs : Accepts(g) \in {"accepted", "rejected"}
CONSTANT CheckLoader
ASSUME CheckLoader => LoaderTotal

\* non-vacuity witnesses (expected to be violated)
NoAnswer == ~(Done /\ \E i \in 1..Len(exec) : exec[i].dir = "res" /\ txdir = "req")
NoFanOut == ~(Done /\ \E i, j \in 1..Len(exec) : i < j /\ exec[i].key = exec[j].key)
=============================================================================
