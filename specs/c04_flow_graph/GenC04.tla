------------------------------- MODULE GenC04 -------------------------------
(* C04 / C05 - the bounded configuration space as constant sets (spec -> code   *)
(* and the instances explored by MC_C04).                                       *)
(*                                                                             *)
(* A family fixes a processor universe and enumerates, per direction, every      *)
(* set of at most K candidate connections (stream entry, every declared or      *)
(* undeclared condition of every processor as source; every processor or the     *)
(* stream end as target), in ascending and - where declaration order can         *)
(* matter (fan-out from one output, two entry points) - descending order.        *)
(* The other direction comes from a small menu, so that the early-response       *)
(* hand-over between the two directions is covered without the full product.     *)
EXTENDS Integers, Sequences, FiniteSets, TLC

S0 == [k |-> "S", n |-> "", c |-> "", at |-> "start"]
S1 == [k |-> "S", n |-> "", c |-> "", at |-> "end"]
PE(n, c) == [k |-> "P", n |-> n, c |-> c, at |-> ""]
FE(n, at) == [k |-> "F", n |-> n, c |-> "", at |-> at]
C(f, t) == [f |-> f, t |-> t]
Pr(key, kind) == [key |-> key, kind |-> kind]

\* every condition a YAML author may write for a kind (declared in at least one direction)
CondChoices(kind) ==
    CASE kind = "Cond" -> <<"hit", "miss">>
      [] kind = "Plain" -> <<"">>
      [] kind = "Gen" -> <<"">>
      [] kind = "Lim" -> <<"below_limit", "above_limit">>
      [] OTHER -> <<"">>

RECURSIVE Flatten(_)
Flatten(ss) == IF Len(ss) = 0 THEN <<>> ELSE ss[1] \o Flatten(Tail(ss))

Sources(U) == <<S0>> \o Flatten([i \in 1..Len(U) |-> [j \in 1..Len(CondChoices(U[i].kind)) |-> PE(U[i].key, CondChoices(U[i].kind)[j])]])
Sinks(U) == <<S1>> \o [i \in 1..Len(U) |-> PE(U[i].key, "")]

\* candidate connections as a sequence (index = identity); stream -> stream is not a candidate
Cands(U) ==
    LET src == Sources(U) snk == Sinks(U)
        all == Flatten([i \in 1..Len(src) |-> [j \in 1..Len(snk) |-> C(src[i], snk[j])]])
    IN SelectSeq(all, LAMBDA c : ~(c.f.k = "S" /\ c.t.k = "S"))

RECURSIVE KSub(_, _)
KSub(n, k) == IF n = 0 \/ k = 0 THEN {{}} ELSE KSub(n - 1, k) \cup {s \cup {n} : s \in KSub(n - 1, k - 1)}

RECURSIVE Asc(_)
Asc(I) == IF I = {} THEN <<>> ELSE LET m == CHOOSE x \in I : \A y \in I : x <= y IN <<m>> \o Asc(I \ {m})
Rev(s) == [i \in 1..Len(s) |-> s[Len(s) + 1 - i]]

OrderMatters(cs) == \E i, j \in 1..Len(cs) : i < j /\ cs[i].f = cs[j].f

\* all connection lists with at most k candidates
ConnLists(U, k) ==
    LET cand == Cands(U)
        lists == {[i \in 1..Len(Asc(I)) |-> cand[Asc(I)[i]]] : I \in KSub(Len(cand), k)}
    IN UNION {lists, {Rev(s) : s \in {x \in lists : OrderMatters(x)}}}

Trivial == <<C(S0, S1)>>
Flow(name, url, U, req, res) == [name |-> name, url |-> url, procs |-> U, req |-> req, res |-> res]
Cfg1(U, req, res) == [flows |-> <<Flow("A", "h.test/x", U, req, res)>>, quotas |-> <<>>]
NonEmpty(s) == IF Len(s) = 0 THEN Trivial ELSE s

\* ----------------------------------------------------------------- families
Uq == <<Pr("c", "Cond"), Pr("g", "Gen")>>
Ut == <<Pr("c", "Cond"), Pr("p", "Plain"), Pr("g", "Gen")>>
Ul == <<Pr("l", "Lim"), Pr("p", "Plain"), Pr("g", "Gen")>>

\* response menus for a request-centric family (the Gen is "g", a plain processor "p" when present)
ResMenu(U) ==
    LET hasP == \E i \in 1..Len(U) : U[i].key = "p" IN
    UNION {{Trivial, <<C(PE("g", ""), S1)>>},
      (IF hasP THEN {<<C(PE("g", ""), PE("p", "")), C(PE("p", ""), S1)>>,
                        <<C(S0, PE("p", "")), C(PE("p", ""), S1), C(PE("g", ""), PE("p", ""))>>}
          ELSE {<<C(S0, PE("g", "")), C(PE("g", ""), S1)>>})}

\* request menus for a response-centric family
ReqMenu(U) ==
    LET hasP == \E i \in 1..Len(U) : U[i].key = "p" IN
    {<<C(S0, PE("c", "")), C(PE("c", "hit"), PE("g", "")), C(PE("c", "miss"), S1)>>}
    \cup (IF hasP THEN {<<C(S0, PE("p", "")), C(PE("p", ""), S1)>>, <<C(S0, PE("p", "")), C(PE("p", ""), PE("g", ""))>>} ELSE {})

ReqCentric(U, k) == {Cfg1(U, NonEmpty(q), s) : q \in ConnLists(U, k), s \in ResMenu(U)}
ResCentric(U, k) == {Cfg1(U, q, NonEmpty(s)) : q \in ReqMenu(U), s \in ConnLists(U, k)}

\* request direction with a fixed entry at the first processor of U and at most k further connections; the response
\* direction lets the walk resume behind the Gen (so that siblings of an answering processor are covered with 3 processors)
NonEntry(U) == SelectSeq(Cands(U), LAMBDA c : c.f.k # "S")
RestLists(U, k) ==
    LET cand == NonEntry(U)
        lists == {[i \in 1..Len(Asc(I)) |-> cand[Asc(I)[i]]] : I \in KSub(Len(cand), k)}
    IN UNION {lists, {Rev(s) : s \in {x \in lists : OrderMatters(x)}}}
EntryFam(U, k) ==
    {Cfg1(U, <<C(S0, PE(U[1].key, ""))>> \o q, s) : q \in RestLists(U, k),
        s \in {<<C(PE("g", ""), PE("p", "")), C(PE("p", ""), S1)>>, <<C(S0, PE("p", "")), C(PE("p", ""), S1), C(PE("g", ""), S1)>>}}

\* two flows, one cross-flow reference (and the malformed variants: self reference, mutual reference, dangling name)
Ua == <<Pr("p", "Plain"), Pr("c", "Cond")>>
Ub == <<Pr("q", "Plain"), Pr("h", "Gen")>>
FlowB(req, res) == Flow("B", "h.test/y", Ub, req, res)
BReq == {<<C(S0, PE("q", "")), C(PE("q", ""), S1)>>, <<C(S0, PE("q", "")), C(PE("q", ""), PE("h", ""))>>}
BRes == {<<C(S0, PE("q", "")), C(PE("q", ""), S1)>>, <<C(PE("h", ""), PE("q", "")), C(PE("q", ""), S1)>>}
RefCands(other) == <<C(PE("p", ""), FE(other, "start")), C(FE(other, "end"), PE("p", "")),
                     C(PE("c", "hit"), FE(other, "start")), C(FE(other, "end"), PE("c", ""))>>
ALists(other, k) ==
    LET cand == Cands(Ua) \o RefCands(other)
        n0 == Len(Cands(Ua))
    IN {[i \in 1..Len(Asc(I)) |-> cand[Asc(I)[i]]] :
            I \in {J \in KSub(Len(cand), k) : Cardinality({x \in J : x > n0}) = 1}}
AFixed == <<C(S0, PE("p", "")), C(PE("p", ""), S1)>>
TwoFlows(k) == UNION {
    {[flows |-> <<Flow("A", "h.test/x", Ua, q, AFixed), FlowB(bq, bs)>>, quotas |-> <<>>] :
        q \in ALists("B", k), bq \in BReq, bs \in BRes},
    {[flows |-> <<Flow("A", "h.test/x", Ua, AFixed, s), FlowB(bq, bs)>>, quotas |-> <<>>] :
        s \in ALists("B", k), bq \in BReq, bs \in BRes}}
SelfRef ==
    {[flows |-> <<Flow("A", "h.test/x", Ua, q, AFixed)>>, quotas |-> <<>>] : q \in ALists("A", 3)}
    \cup {[flows |-> <<Flow("A", "h.test/x", Ua, AFixed, s)>>, quotas |-> <<>>] : s \in ALists("Z", 3)}
    \cup {[flows |-> <<Flow("A", "h.test/x", Ua, <<C(S0, PE("p", "")), C(PE("p", ""), FE("B", "start"))>>, AFixed),
                      FlowB(<<C(S0, PE("q", "")), C(PE("q", ""), FE("A", "start"))>>, <<C(S0, PE("q", "")), C(PE("q", ""), S1)>>)>>,
           quotas |-> <<>>]}

\* flow references of every kind: into a flow under a condition or unconditionally (`to: flow at start`), behind a flow
\* (`from: flow at end`) in front of a conditional or an unconditional processor, the same flow referenced on both sides
\* (a cycle through the incorporated processors), a referenced flow that itself branches; request and response direction
Ub2 == <<Pr("q", "Plain"), Pr("k", "Cond")>>
BPlain == <<C(S0, PE("q", "")), C(PE("q", ""), S1)>>
BCond == <<C(S0, PE("k", "")), C(PE("k", "hit"), PE("q", "")), C(PE("k", "miss"), S1), C(PE("q", ""), S1)>>
BVariants(k) == IF k <= 2 THEN {Flow("B", "h.test/y", Ub2, BCond, BCond)}
                ELSE {Flow("B", "h.test/y", Ub2, BPlain, BPlain), Flow("B", "h.test/y", Ub2, BCond, BCond)}
RefEntries == {<<C(S0, PE("c", ""))>>, <<C(S0, PE("p", ""))>>, <<C(FE("B", "end"), PE("c", ""))>>, <<C(FE("B", "end"), PE("p", ""))>>}
RefBody == <<C(PE("c", "hit"), PE("p", "")), C(PE("c", "hit"), S1), C(PE("c", "hit"), FE("B", "start")),
             C(PE("c", "miss"), S1), C(PE("c", "miss"), FE("B", "start")), C(PE("c", "miss"), PE("p", "")),
             C(PE("p", ""), S1), C(PE("p", ""), FE("B", "start")), C(PE("p", ""), PE("c", ""))>>
HasFlowRef(l) == \E i \in 1..Len(l) : l[i].f.k = "F" \/ l[i].t.k = "F"
RefLists(k) == {l \in {e \o [i \in 1..Len(Asc(I)) |-> RefBody[Asc(I)[i]]] : e \in RefEntries, I \in KSub(Len(RefBody), k)} : HasFlowRef(l)}
RefFam(k) == UNION {
    {[flows |-> <<Flow("A", "h.test/x", Ua, l, AFixed), b>>, quotas |-> <<>>] : l \in RefLists(k), b \in BVariants(k)},
    {[flows |-> <<Flow("A", "h.test/x", Ua, AFixed, l), b>>, quotas |-> <<>>] : l \in RefLists(k), b \in BVariants(k)}}

\* the response walk behind an answering processor: chains of processors of every kind (>= 2 deep) behind the Gen
ChainReq == <<C(S0, PE("c", "")), C(PE("c", "hit"), PE("g", "")), C(PE("c", "miss"), S1)>>
ChainBody == SelectSeq(Cands(Ut), LAMBDA x : x.f.k = "P" /\ x.f.n # "g")
ChainFam(k) ==
    {Cfg1(Ut, ChainReq, <<C(PE("g", ""), PE(first, ""))>> \o [i \in 1..Len(Asc(I)) |-> ChainBody[Asc(I)[i]]]) :
        first \in {"c", "p"}, I \in KSub(Len(ChainBody), k)}

\* nested flow references: A references B on either side, B hands over to / continues behind a third flow C; every
\* declaration order of B's connections (the builder is order-sensitive), request and response direction
RECURSIVE Perms(_)
Perms(s) == IF Len(s) <= 1 THEN {s}
            ELSE UNION {{<<s[i]>> \o p : p \in Perms([j \in 1..(Len(s) - 1) |-> IF j < i THEN s[j] ELSE s[j + 1]])} : i \in 1..Len(s)}
Un1 == <<Pr("a", "Plain")>>
Un2 == <<Pr("b", "Cond"), Pr("d", "Plain")>>
Un3 == <<Pr("e", "Plain")>>
CLine == <<C(S0, PE("e", "")), C(PE("e", ""), S1)>>
NestA == {<<C(FE("B", "end"), PE("a", "")), C(PE("a", ""), S1)>>, <<C(S0, PE("a", "")), C(PE("a", ""), FE("B", "start"))>>}
NestB == Perms(<<C(S0, PE("b", "")), C(PE("b", "hit"), PE("d", "")), C(PE("b", "miss"), FE("C", "start")), C(PE("d", ""), S1)>>)
         \cup Perms(<<C(FE("C", "end"), PE("b", "")), C(PE("b", "hit"), PE("d", "")), C(PE("b", "miss"), S1), C(PE("d", ""), S1)>>)
TrivA == <<C(S0, PE("a", "")), C(PE("a", ""), S1)>>
TrivB == <<C(S0, PE("d", "")), C(PE("d", ""), S1)>>
Cfg3(aq, as, bq, bs) == [flows |-> <<Flow("A", "h.test/x", Un1, aq, as), Flow("B", "h.test/y", Un2, bq, bs),
                                      Flow("C", "h.test/z", Un3, CLine, CLine)>>, quotas |-> <<>>]
NestFam == UNION {{Cfg3(a, TrivA, b, TrivB) : a \in NestA, b \in NestB}, {Cfg3(TrivA, a, TrivB, b) : a \in NestA, b \in NestB}}

\* two user flows with the same filter URL (selected together): none / the first / the later one answers; response sides
\* with and without an entry point, continuing behind the answering processor or not
GateU(x) == <<Pr(x \o "c", "Cond"), Pr(x \o "g", "Gen"), Pr(x \o "p", "Plain")>>
GateReq(x) == {<<C(S0, PE(x \o "c", "")), C(PE(x \o "c", "hit"), PE(x \o "g", "")), C(PE(x \o "c", "miss"), S1)>>,
               <<C(S0, PE(x \o "p", "")), C(PE(x \o "p", ""), S1)>>}
GateRes(x) == {<<C(S0, PE(x \o "p", "")), C(PE(x \o "p", ""), S1), C(PE(x \o "g", ""), PE(x \o "p", ""))>>,
               <<C(PE(x \o "g", ""), PE(x \o "p", "")), C(PE(x \o "p", ""), S1)>>,
               <<C(S0, PE(x \o "p", "")), C(PE(x \o "p", ""), S1), C(PE(x \o "g", ""), S1)>>}
MultiFam == {[flows |-> <<Flow("E", "h.test/x", GateU("e"), eq, es), Flow("H", "h.test/x", GateU("h"), hq, hs)>>, quotas |-> <<>>] :
                eq \in GateReq("e"), es \in GateRes("e"), hq \in GateReq("h"), hs \in GateRes("h")}

\* structurally invalid files
Bad ==
    {Cfg1(Ut, <<>>, Trivial), Cfg1(Ut, Trivial, <<>>), Cfg1(Ut, Trivial, Trivial),
     Cfg1(<<Pr("p", "Nope")>>, <<C(S0, PE("p", "")), C(PE("p", ""), S1)>>, Trivial),
     Cfg1(Ut, <<C([k |-> "S", n |-> "", c |-> "", at |-> "end"], PE("p", "")), C(PE("p", ""), S1)>>, Trivial),
     Cfg1(Ut, <<C(S0, PE("p", "")), C(PE("p", ""), [k |-> "S", n |-> "", c |-> "", at |-> "start"])>>, Trivial),
     Cfg1(Ut, <<C(S0, PE("zz", "")), C(PE("zz", ""), S1)>>, Trivial),
     Cfg1(Ut, <<C(S0, PE("p", "")), C(PE("p", ""), FE("B", "end"))>>, Trivial)}

\* (an operator with a parameter, so that TLC evaluates only the space that is used)
ConfigSpace(tier) ==
    IF tier = "nv" THEN UNION {EntryFam(Ut, 2), ResCentric(Uq, 2), TwoFlows(2), NestFam, MultiFam, SelfRef}
    ELSE IF tier = "quick" THEN UNION {ReqCentric(Uq, 3), ResCentric(Uq, 3), EntryFam(Ut, 3), RefFam(2), ChainFam(2), NestFam, MultiFam, SelfRef, Bad}
    ELSE IF tier = "mid" THEN UNION {ReqCentric(Ut, 3), ResCentric(Ut, 3), TwoFlows(2), SelfRef, Bad}
    ELSE UNION {ReqCentric(Ut, 3), EntryFam(Ut, 4), ResCentric(Ut, 3), EntryFam(Ul, 3), TwoFlows(3), RefFam(3), ChainFam(3), NestFam, MultiFam, SelfRef, Bad}
=============================================================================
