CONSTANTS
  Configs <- TierConfigs
  Tier = "mid"
  CyclesFromEveryNode = TRUE
  RefDepthChecked = TRUE
  ExitLinked = TRUE
  StopAfterAnswer = TRUE
  ResumeAllEdges = FALSE
  StepCap = 600
SPECIFICATION Spec
CHECK_DEADLOCK FALSE
INVARIANT FollowsGraph
