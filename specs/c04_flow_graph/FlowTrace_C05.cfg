CONSTANTS
  Mode = "C05"
  CyclesFromEveryNode = FALSE
  RefDepthChecked = FALSE
SPECIFICATION TraceSpec
CONSTRAINT HWM
POSTCONDITION Post
CHECK_DEADLOCK FALSE
