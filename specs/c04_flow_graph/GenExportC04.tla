---------------------------- MODULE GenExportC04 ----------------------------
(* spec -> code: writes the configuration space of the tier (GenC04) together   *)
(* with the loader verdict predicted by the model to gen_configs.json.          *)
EXTENDS MC_C04
ASSUME DoExport
GInit == /\ cfg = 0 /\ order = 0 /\ bs = 0 /\ txdir = 0 /\ sdir = 0 /\ pos = 0 /\ gpos = 0 /\ stack = 0 /\ exec = 0 /\ steps = 0
         /\ sc = 0 /\ scn = 0 /\ scpos = 0 /\ phase = 0 /\ outcome = 0
GNext == UNCHANGED vars
=============================================================================
