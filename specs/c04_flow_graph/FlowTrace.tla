------------------------------ MODULE FlowTrace ------------------------------
(* C04 / C05 - trace validation of what the real loader and the real engine      *)
(* answered (harness/cmd/c04).  trace.ndjson holds, per configuration,           *)
(*   {"ev":"load","id":..,"cfg":<configuration>,"outcome":"accepted|rejected|panic|crash","init":"ok|error|panic|crash|-"} *)
(* followed, when it was accepted, by one event per transaction                  *)
(*   {"ev":"exec","id":..,"flow":<user flow>,"dir":"req|res","flows":[user flows selected, first = flow],"seq":[{flow,sid,key,dir,out}..],"sysreq":[sid..],"outcome":"ok|error|panic|overlong|crash","steps":n} *)
(* Function-like properties: every event carries the input and what the real     *)
(* code did; the step evaluates the property (FlowGraphP) on it.  An event the   *)
(* property does not permit is reported as <<"REJECT", line, id, reason>> and the *)
(* validation goes on, so that one run lists every rejected case.                *)
(*   Mode "C04": exec events are judged by TxVerdict (the walk follows the graph) *)
(*   Mode "C05": load events by LoadVerdict, exec events by ExecSafeVerdict       *)
(*   Mode "I"  : load events are compared with the loader model Accepts (model    *)
(*               conformance, never a violation of a property)                   *)
EXTENDS FlowGraphI, TraceLib

CONSTANT Mode

VARIABLES l, cur

Ev == TraceLog[l + 1]

Judge(e, g) ==
    IF e.ev = "load" THEN
        (IF Mode = "C05" THEN LoadVerdict(e.outcome, e.init)
         ELSE IF Mode = "I" THEN
             LET a == Accepts(e.cfg)
                 o == IF e.outcome = "panic" THEN "crash" ELSE e.outcome
             IN IF a = o THEN "ok" ELSE "model-predicts-" \o a
         ELSE "ok")
    ELSE IF e.ev = "exec" THEN
        (IF Mode = "C05" THEN ExecSafeVerdict(g, e.outcome, e.steps)
         ELSE IF Mode = "C04" THEN (IF e.outcome \notin {"ok", "error"} THEN "ok"
                                    ELSE IF Len(e.flows) > 1 THEN MultiTxVerdict(g, e.flows, e.dir, e.seq, e.sysreq, e.outcome)
                                    ELSE TxVerdict(g, e.flow, e.dir, e.seq, e.sysreq, e.outcome))
         ELSE "ok")
    ELSE "unknown-event"

TInit == l = 0 /\ cur = 0
TNext == /\ l < TraceLen
         /\ l' = l + 1
         /\ cur' = IF Ev.ev = "load" THEN Ev.cfg ELSE cur
         /\ LET v == Judge(Ev, cur') IN IF v = "ok" THEN TRUE ELSE PrintT(<<"REJECT", l + 1, Ev.id, v>>)

TraceSpec == TInit /\ [][TNext]_<<l, cur>>
HWM == Mark(l)
Post == Report
================================================================================
