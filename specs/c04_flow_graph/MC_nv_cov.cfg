CONSTANTS
  Configs <- TierConfigs
  Tier = "nv"
  CyclesFromEveryNode = TRUE
  RefDepthChecked = TRUE
  ExitLinked = TRUE
  StopAfterAnswer = TRUE
  ResumeAllEdges = TRUE
  StartNodePerFlow = TRUE
  StepCap = 600
  CheckLoader = FALSE
SPECIFICATION Spec
CHECK_DEADLOCK FALSE
INVARIANT FollowsGraph
INVARIANT Safe
