CONSTANTS
  Mode = "I"
  CyclesFromEveryNode = TRUE
  RefDepthChecked = TRUE
  ExitLinked = TRUE
SPECIFICATION TraceSpec
CONSTRAINT HWM
POSTCONDITION Post
CHECK_DEADLOCK FALSE
