CONSTANTS
  Mode = "I"
  CyclesFromEveryNode = FALSE
  RefDepthChecked = FALSE
SPECIFICATION TraceSpec
CONSTRAINT HWM
POSTCONDITION Post
CHECK_DEADLOCK FALSE
