CONSTANTS
  Configs <- TierConfigs
  Tier = "quick"
  CyclesFromEveryNode = TRUE
  RefDepthChecked = TRUE
  ExitLinked = TRUE
  StopAfterAnswer = TRUE
  ResumeAllEdges = TRUE
  StartNodePerFlow = TRUE
  StepCap = 600
  CheckLoader = TRUE
SPECIFICATION Spec
CHECK_DEADLOCK FALSE
INVARIANT Safe
