CONSTANTS
  Configs <- TierConfigs
  Tier = "mid"
  CyclesFromEveryNode = TRUE
  RefDepthChecked = TRUE
  ExitLinked = FALSE
  StopAfterAnswer = TRUE
  ResumeAllEdges = TRUE
  StepCap = 600
SPECIFICATION Spec
CHECK_DEADLOCK FALSE
INVARIANT FollowsGraph
