CONSTANTS
  Configs <- TierConfigs
  Tier = "thorough"
  CyclesFromEveryNode = FALSE
  RefDepthChecked = FALSE
  StopAfterAnswer = FALSE
  ResumeAllEdges = FALSE
  StepCap = 600
INIT GInit
NEXT GNext
CHECK_DEADLOCK FALSE
