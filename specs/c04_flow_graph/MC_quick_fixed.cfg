CONSTANTS
  Configs <- TierConfigs
  Tier = "quick"
  CyclesFromEveryNode = TRUE
  RefDepthChecked = TRUE
  StopAfterAnswer = TRUE
  ResumeAllEdges = TRUE
  StepCap = 600
SPECIFICATION Spec
CHECK_DEADLOCK FALSE
INVARIANT FollowsGraph
INVARIANT Safe
