CONSTANTS
  Mode = "C04"
  CyclesFromEveryNode = FALSE
  RefDepthChecked = FALSE
SPECIFICATION TraceSpec
CONSTRAINT HWM
POSTCONDITION Post
CHECK_DEADLOCK FALSE
