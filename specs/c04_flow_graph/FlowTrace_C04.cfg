CONSTANTS
  Mode = "C04"
  CyclesFromEveryNode = TRUE
  RefDepthChecked = TRUE
  ExitLinked = TRUE
SPECIFICATION TraceSpec
CONSTRAINT HWM
POSTCONDITION Post
CHECK_DEADLOCK FALSE
