------------------------------ MODULE FlowGraphI ------------------------------
(* C04 / C05 - implementation-shaped model (I), part 1: the loader.            *)
(*                                                                             *)
(* Transcription of                                                            *)
(*   streams/config/streams.validator.go   validateFlowRepresentation           *)
(*   streams/flow/flow_builder.go          buildFlow / buildConnection / connect* / incorporateFlow *)
(*   streams/flow/flow_direction.go        getOrCreateNode, setAsRoot           *)
(*   streams/flow/flow_graph_node.go       addEdge (duplicate edges dropped)    *)
(*   streams/types/processor.utils.go      CheckCondition (declared outputs per direction) *)
(*   streams/flow/validations.go           validateDirection, validateUnconnectedProcessors, *)
(*                                         detectCircularConnections / dfsDetectCycles *)
(* as operators over a configuration value.  Accepts(cfg) predicts what the     *)
(* real loader answers: "accepted", "rejected" or "crash" (unbounded recursion  *)
(* of incorporateFlow on a flow that references itself, directly or through     *)
(* another flow).                                                              *)
EXTENDS FlowGraphP

CONSTANTS
    CyclesFromEveryNode,   \* TRUE: the circular-connection check of a response direction starts at every node (the code since
                           \*       fix 08cdb66: a response walk can be entered at any processor that answered the request);
                           \* FALSE: only at the root's edges, skipped for a rootless response direction (the code before)
    ExitLinked,            \* TRUE (since the flow-exit fix): inside a flow incorporated by `from: flow X at end -> to: processor p`
                           \*       a connection to the stream end leads to p, in both directions; inside a flow incorporated
                           \*       by `to: flow X at start` it stays a connection to the stream end;
                           \* FALSE (before): request direction: leads to the current root (error when there is none),
                           \*       response direction: always the stream end
    RefDepthChecked        \* TRUE: a flow reference chain that comes back to a flow being incorporated is an error (since 14dde2f);
                           \* FALSE: incorporateFlow recurses without end (the code before)

\* conditions a connection `from: processor` may name, per direction (CheckCondition on the registry definitions)
DeclOuts(kind, dir) ==
    CASE kind = "Cond" -> {"hit", "miss"}
      [] kind = "Plain" -> {""}
      [] kind = "Gen" -> IF dir = "res" THEN {""} ELSE {}
      [] kind = "Lim" -> IF dir = "req" THEN {"below_limit", "above_limit"} ELSE {}
      [] OTHER -> {}

\* ------------------------------------------------------------ structural checks
EndOK(e) == /\ e.k \in {"S", "P", "F"}
            /\ e.n # "" \/ e.k = "S"

StructOK(fl) ==
    /\ fl.name # "" /\ fl.url # ""
    /\ Len(fl.req) > 0 /\ Len(fl.res) > 0
    /\ \A d \in {"req", "res"} : \A i \in 1..Len(Conns(fl, d)) : EndOK(Conns(fl, d)[i].f) /\ EndOK(Conns(fl, d)[i].t)
    /\ \A i \in 1..Len(fl.procs) : fl.procs[i].kind \in Kinds

\* --------------------------------------------------------------------- builder
\* direction under construction
\*   nodes : <<[key, own]>>   own = name of the flow whose connections created the node (flowGraphName)
\*   edges : <<[from, c, t]>> in insertion order; t = target key, "" = the stream end
\*   root  : key of the entry node ("" = none);  fr : foreign root left by an incorporated flow ("" = none)
\*   ex    : processor that follows the flow being incorporated ("" = none)
EmptyD(fname, dir) == [fname |-> fname, dir |-> dir, nodes |-> <<>>, edges |-> <<>>, root |-> "", fr |-> "", ex |-> "", err |-> ""]

HasNode(d, k) == \E i \in 1..Len(d.nodes) : d.nodes[i].key = k
OwnOf(d, k) == d.nodes[CHOOSE i \in 1..Len(d.nodes) : d.nodes[i].key = k].own
Err(d, why) == [d EXCEPT !.err = why]
EdgesOf(d, n) == SelectSeq(d.edges, LAMBDA e : e.from = n)

\* getOrCreateNode: the processor must be declared by the flow whose connection mentions it
GetOrCreate(cfg, cur, d, key) ==
    IF d.err # "" \/ HasNode(d, key) THEN d
    ELSE IF HasFlow(cfg, cur) /\ HasProc(FlowOf(cfg, cur), key)
         THEN [d EXCEPT !.nodes = Append(@, [key |-> key, own |-> cur])]
         ELSE Err(d, "processor-not-found")

AddEdge(d, from, c, t) ==
    IF d.err # "" THEN d
    ELSE IF \E i \in 1..Len(d.edges) : d.edges[i] = [from |-> from, c |-> c, t |-> t] THEN d
    ELSE [d EXCEPT !.edges = Append(@, [from |-> from, c |-> c, t |-> t])]

CondOK(cfg, cur, e, dir) ==
    IF HasFlow(cfg, cur) /\ HasProc(FlowOf(cfg, cur), e.n)
    THEN e.c \in DeclOuts(KindOf(FlowOf(cfg, cur), e.n), dir)
    ELSE TRUE       \* no definition found: the check is skipped (the node cannot be built later)

RECURSIVE BuildConns(_, _, _, _, _, _), BuildConn(_, _, _, _, _)

\* stack = names of the flows being incorporated (innermost last)
Incorporate(cfg, name, d, stack) ==
    IF d.err # "" THEN d
    ELSE IF ~HasFlow(cfg, name) THEN Err(d, "flow-not-found")
    ELSE IF \E i \in 1..Len(stack) : stack[i] = name
         THEN (IF RefDepthChecked THEN Err(d, "circular-flow-reference") ELSE Err(d, "DIVERGE"))
    ELSE BuildConns(cfg, name, Conns(FlowOf(cfg, name), d.dir), 1, d, Append(stack, name))

BuildConn(cfg, cur, c, d, stack) ==
    LET f == c.f
        t == c.t
    IN
    IF f.k = "P" /\ ~CondOK(cfg, cur, f, d.dir) THEN Err(d, "condition")
    ELSE IF t.k = "P" /\ f.k = "P" THEN                                  \* connectProcessors
        LET d1 == GetOrCreate(cfg, cur, d, f.n)
            d2 == GetOrCreate(cfg, cur, d1, t.n)
        IN AddEdge(d2, f.n, f.c, t.n)
    ELSE IF t.k = "P" /\ f.k = "S" /\ f.at = "start" THEN                  \* connectStreamToProcessor
        LET d1 == GetOrCreate(cfg, cur, d, t.n) IN
        IF d1.err # "" THEN d1
        ELSE IF d1.fname = OwnOf(d1, t.n) THEN [d1 EXCEPT !.root = t.n] ELSE [d1 EXCEPT !.fr = t.n]
    ELSE IF t.k = "P" /\ f.k = "F" /\ f.at = "end" THEN                    \* connectFlowToProcessor
        LET d1 == GetOrCreate(cfg, cur, d, t.n) IN
        IF d1.err # "" THEN d1
        ELSE LET d2 == Incorporate(cfg, f.n, [d1 EXCEPT !.root = t.n, !.ex = t.n], stack) IN
             IF d2.err # "" THEN d2
             ELSE IF d2.fr = "" THEN Err(d2, "foreign-root-not-found")
             ELSE [d2 EXCEPT !.root = d2.fr, !.fr = "", !.ex = d.ex]
    ELSE IF f.k = "P" /\ t.k = "S" /\ t.at = "end" THEN                    \* connectProcessorToStream
        LET d1 == GetOrCreate(cfg, cur, d, f.n) IN
        IF d1.err # "" THEN d1
        ELSE IF ExitLinked
             THEN (IF OwnOf(d1, f.n) # d1.fname /\ d1.ex # "" THEN AddEdge(d1, f.n, f.c, d1.ex) ELSE AddEdge(d1, f.n, f.c, ""))
        ELSE IF d1.dir = "req" /\ OwnOf(d1, f.n) # d1.fname
             THEN (IF d1.root = "" THEN Err(d1, "root-not-found") ELSE AddEdge(d1, f.n, f.c, d1.root))
             ELSE AddEdge(d1, f.n, f.c, "")
    ELSE IF f.k = "P" /\ t.k = "F" /\ t.at = "start" THEN                  \* connectProcessorToFlow
        LET d1 == GetOrCreate(cfg, cur, d, f.n) IN
        IF d1.err # "" THEN d1
        ELSE LET d2 == Incorporate(cfg, t.n, [d1 EXCEPT !.ex = ""], stack) IN
             IF d2.err # "" THEN d2
             ELSE IF d2.fr = "" THEN Err(d2, "foreign-root-not-found")
             ELSE [AddEdge(d2, f.n, f.c, d2.fr) EXCEPT !.fr = "", !.ex = d.ex]
    ELSE IF f.k = "S" /\ t.k = "S" THEN d                                  \* stream -> stream
    ELSE Err(d, "invalid-connection")

BuildConns(cfg, cur, conns, i, d, stack) ==
    IF d.err # "" \/ i > Len(conns) THEN d
    ELSE BuildConns(cfg, cur, conns, i + 1, BuildConn(cfg, cur, conns[i], d, stack), stack)

BuildDir(cfg, fl, dir) == BuildConns(cfg, fl.name, Conns(fl, dir), 1, EmptyD(fl.name, dir), <<fl.name>>)

\* ------------------------------------------------------------------ validation
Defined(d) == Len(d.nodes) > 0
NodeKeys(d) == {d.nodes[i].key : i \in 1..Len(d.nodes)}

Unconnected(d) ==
    {n \in NodeKeys(d) : Len(EdgesOf(d, n)) = 0 /\ ~\E i \in 1..Len(d.edges) : d.edges[i].t = n}

\* dfsDetectCycles: visited sets keyed by the condition under which a node was entered, cloned per branch
RECURSIVE DfsOK(_, _, _, _)
DfsOK(d, n, vis, c) ==
    LET cc == IF c = "" THEN "*" ELSE c IN
    IF <<cc, n>> \in vis THEN FALSE
    ELSE LET es == EdgesOf(d, n) IN
         \A i \in 1..Len(es) : es[i].t = "" \/ DfsOK(d, es[i].t, vis \cup {<<cc, n>>}, es[i].c)

NoCycleFrom(d, n) == LET es == EdgesOf(d, n) IN \A i \in 1..Len(es) : es[i].t = "" \/ DfsOK(d, es[i].t, {}, es[i].c)

CycleCheckOK(d) ==
    IF d.dir = "req" THEN NoCycleFrom(d, d.root)
    ELSE IF CyclesFromEveryNode THEN \A n \in NodeKeys(d) : NoCycleFrom(d, n)
    ELSE IF d.root = "" THEN TRUE
    ELSE NoCycleFrom(d, d.root)

ValidateDir(d) ==
    IF ~Defined(d) THEN ""
    ELSE IF d.dir = "req" /\ d.root = "" THEN "no-valid-root"
    ELSE IF Unconnected(d) # {} THEN "unconnected-processor"
    ELSE IF ~CycleCheckOK(d) THEN "circular-connection"
    ELSE ""

\* result of loading one flow: [req, res, err]
BuildFlow(cfg, fl) ==
    LET q == BuildDir(cfg, fl, "req") IN
    IF q.err # "" THEN [req |-> q, res |-> EmptyD(fl.name, "res"), err |-> q.err]
    ELSE LET s == BuildDir(cfg, fl, "res") IN
         IF s.err # "" THEN [req |-> q, res |-> s, err |-> s.err]
         ELSE LET vq == ValidateDir(q) vs == ValidateDir(s) IN
              [req |-> q, res |-> s,
               err |-> IF vq # "" THEN vq ELSE IF vs # "" THEN vs
                       ELSE IF ~Defined(q) /\ ~Defined(s) THEN "no-direction-defined" ELSE ""]

Built(cfg) == [i \in 1..Len(cfg.flows) |-> BuildFlow(cfg, cfg.flows[i])]

Accepts(cfg) ==
    IF \E i \in 1..Len(cfg.flows) : ~StructOK(cfg.flows[i]) THEN "rejected"
    ELSE IF \E i, j \in 1..Len(cfg.flows) : i # j /\ cfg.flows[i].name = cfg.flows[j].name THEN "rejected"
    ELSE LET b == Built(cfg) IN
         IF \E i \in 1..Len(cfg.flows) : b[i].err = "DIVERGE" THEN "crash"
         ELSE IF \E i \in 1..Len(cfg.flows) : b[i].err # "" THEN "rejected"
         ELSE "accepted"
================================================================================
