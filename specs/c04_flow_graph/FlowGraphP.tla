------------------------------ MODULE FlowGraphP ------------------------------
(* C04 / C05 - property specification (P): the meaning of a flow configuration.  *)
(*                                                                             *)
(* A configuration is the value the YAML files express (see checks/_flowgraph.py): *)
(*   cfg  = [flows |-> <<flow,..>>, quotas |-> <<quota,..>>]                    *)
(*   flow = [name, url, procs |-> <<[key, kind],..>>, req |-> <<conn,..>>, res |-> <<conn,..>>] *)
(*   conn = [f |-> end, t |-> end]                                             *)
(*   end  = [k |-> "S"|"P"|"F", n |-> name, c |-> condition, at |-> "start"|"end"|""] *)
(* Processor kinds: Cond (outputs hit/miss), Plain (output ""), Gen (answers    *)
(* the request itself), Lim (below_limit/above_limit, request side only).      *)
(*                                                                             *)
(* C04 (FollowsGraph).  The observable behaviour of one transaction is the      *)
(* sequence of processor executions <<[flow, sid, key, dir, out],..>>. TxVerdict *)
(* accepts exactly the sequences that are a depth-first walk of the flow's     *)
(* connections: start at the stream entry point; after a processor with output  *)
(* o follow exactly the connections (p, o, _) in declaration order; a Gen on     *)
(* the request side ends the request walk (nothing else runs on the request     *)
(* side) and the response walk continues from the targets of that Gen's         *)
(* response-side connections; the system flows of the quotas whose filter        *)
(* matches run before the user flow on requests and after it, in reverse order, *)
(* on responses.  The outputs are                                              *)
(* the ones the processors really produced (they are part of the observation),  *)
(* so the property does not depend on what a processor decides, only on what    *)
(* the engine does with the decision.  A transaction that ended with an error    *)
(* may stop anywhere on that walk.                                             *)
(* References to other flows are part of the connections:                      *)
(*   from p (cond c) to flow B at start  =  p -c-> entry of B, B's walk inlined *)
(*   from flow B at end to p             =  entry of B is the entry, every       *)
(*                                          connection of B to the stream end    *)
(*                                          goes to p instead                  *)
(* Configurations for which this reading is ambiguous (two entry points, a      *)
(* connection declared twice, nested or dangling references, a processor key    *)
(* used by two flows) are not WellFormed; the property says nothing about them. *)
(*                                                                             *)
(* C05 (Safe / Rejected).  LoadVerdict: loading a configuration either          *)
(* succeeds - then initialising an engine from it succeeds too - or fails with  *)
(* an error; it never panics or kills the process.  ExecSafe: a transaction      *)
(* handled by an accepted configuration returns (actions or an error) after at  *)
(* most Bound(cfg) processor executions.                                       *)
EXTENDS Integers, Sequences, FiniteSets, TLC

Kinds == {"Cond", "Plain", "Gen", "Lim"}

\* ------------------------------------------------------------------ accessors
FlowIdx(cfg, name) == {i \in 1..Len(cfg.flows) : cfg.flows[i].name = name}
HasFlow(cfg, name) == FlowIdx(cfg, name) # {}
FlowOf(cfg, name) == cfg.flows[CHOOSE i \in FlowIdx(cfg, name) : \A j \in FlowIdx(cfg, name) : i <= j]
Conns(fl, dir) == IF dir = "req" THEN fl.req ELSE fl.res
ProcIdx(fl, key) == {i \in 1..Len(fl.procs) : fl.procs[i].key = key}
HasProc(fl, key) == ProcIdx(fl, key) # {}
KindOf(fl, key) == fl.procs[CHOOSE i \in ProcIdx(fl, key) : TRUE].kind
Keys(fl) == {fl.procs[i].key : i \in 1..Len(fl.procs)}
AllKeys(cfg) == UNION {Keys(cfg.flows[i]) : i \in 1..Len(cfg.flows)}
KindAny(cfg, key) ==
    LET I == {i \in 1..Len(cfg.flows) : HasProc(cfg.flows[i], key)}
    IN IF I = {} THEN "NONE" ELSE KindOf(cfg.flows[CHOOSE i \in I : TRUE], key)
NProcs(cfg) == LET RECURSIVE Sum(_)
                   Sum(i) == IF i > Len(cfg.flows) THEN 0 ELSE Len(cfg.flows[i].procs) + Sum(i + 1)
               IN Sum(1)
NQuotas(cfg) == Len(cfg.quotas)

RECURSIVE Pow2(_)
Pow2(n) == IF n <= 0 THEN 1 ELSE 2 * Pow2(n - 1)

\* In a walk of an acyclic connection relation over N processors a processor runs at most once per path;
\* a request transaction may visit both directions; every quota contributes at most two system processors.
Bound(cfg) == Pow2(NProcs(cfg) + 1) + 2 * NQuotas(cfg)

\* ------------------------------------------------ logical connections of a flow
IsPP(c) == c.f.k = "P" /\ c.t.k = "P"
IsPEnd(c) == c.f.k = "P" /\ c.t.k = "S" /\ c.t.at = "end"
IsEntry(c) == c.f.k = "S" /\ c.f.at = "start" /\ c.t.k = "P"
IsToFlow(c) == c.f.k = "P" /\ c.t.k = "F" /\ c.t.at = "start"
IsFromFlow(c) == c.f.k = "F" /\ c.f.at = "end" /\ c.t.k = "P"
HasRef(c) == c.f.k = "F" \/ c.t.k = "F"

RefConns(cfg, name, dir) == IF HasFlow(cfg, name) THEN Conns(FlowOf(cfg, name), dir) ELSE <<>>

\* References are inlined recursively (a referenced flow may itself reference a third flow; RefDepth bounds the nesting):
\*   XConns(cfg, name, dir, exit, fuel)  logical connections <<[f, c, t]>> of flow `name`, its connections to the stream end
\*                                       leading to `exit` (a processor key or "END")
\*   XEntry(cfg, name, dir, fuel)        its entry points
\* `p -c-> flow B at start`: p -c-> entry of B, nothing follows B there (B's stream end is the stream end);
\* `flow B at end -> p`: B's entry is the entry, B's stream end leads to p.
RefDepth == 3
RECURSIVE XConns(_, _, _, _, _), XEntry(_, _, _, _)
XEntry(cfg, name, dir, fuel) ==
    IF fuel = 0 THEN <<>>
    ELSE LET conns == RefConns(cfg, name, dir)
             RECURSIVE G(_)
             G(i) == IF i > Len(conns) THEN <<>>
                     ELSE LET c == conns[i] IN
                          (IF IsEntry(c) THEN <<c.t.n>>
                           ELSE IF IsFromFlow(c) THEN XEntry(cfg, c.f.n, dir, fuel - 1)
                           ELSE <<>>) \o G(i + 1)
         IN G(1)

XConns(cfg, name, dir, exit, fuel) ==
    IF fuel = 0 THEN <<>>
    ELSE LET conns == RefConns(cfg, name, dir)
             RECURSIVE G(_)
             G(i) == IF i > Len(conns) THEN <<>>
                     ELSE LET c == conns[i] IN
                          (IF IsPP(c) THEN <<[f |-> c.f.n, c |-> c.f.c, t |-> c.t.n]>>
                           ELSE IF IsPEnd(c) THEN <<[f |-> c.f.n, c |-> c.f.c, t |-> exit]>>
                           ELSE IF IsToFlow(c) THEN
                               LET e == XEntry(cfg, c.t.n, dir, fuel - 1) IN
                               (IF Len(e) = 1 THEN <<[f |-> c.f.n, c |-> c.f.c, t |-> e[1]]>> ELSE <<>>)
                               \o XConns(cfg, c.t.n, dir, "END", fuel - 1)
                           ELSE IF IsFromFlow(c) THEN XConns(cfg, c.f.n, dir, c.t.n, fuel - 1)
                           ELSE <<>>) \o G(i + 1)
         IN G(1)

\* logical connections / entry points of flow fl in direction dir, references inlined
LG(cfg, fl, dir) == XConns(cfg, fl.name, dir, "END", RefDepth)
Entry(cfg, fl, dir) == XEntry(cfg, fl.name, dir, RefDepth)

Targets(lg, n, out) ==
    LET RECURSIVE G(_)
        G(i) == IF i > Len(lg) THEN <<>>
                ELSE (IF lg[i].f = n /\ lg[i].c = out THEN <<lg[i].t>> ELSE <<>>) \o G(i + 1)
    IN G(1)

NoDup(s) == \A i, j \in 1..Len(s) : s[i] = s[j] => i = j

\* flows referenced by flow n (either direction, either side)
RefsOf(cfg, n) ==
    IF ~HasFlow(cfg, n) THEN {}
    ELSE LET fl == FlowOf(cfg, n) IN
         UNION {{(IF Conns(fl, d)[i].f.k = "F" THEN Conns(fl, d)[i].f.n ELSE Conns(fl, d)[i].t.n) :
                    i \in {j \in 1..Len(Conns(fl, d)) : HasRef(Conns(fl, d)[j])}} : d \in {"req", "res"}}

\* one flow on its own: unique name, its connections mention its own processors, at most one well-shaped reference per
\* direction, and the referenced flow has exactly one entry point in that direction
FlowOK(cfg, n) ==
    /\ Cardinality(FlowIdx(cfg, n)) = 1
    /\ LET fl == FlowOf(cfg, n) IN
       \A dir \in {"req", "res"} :
          LET conns == Conns(fl, dir) IN
          /\ Cardinality({i \in 1..Len(conns) : HasRef(conns[i])}) <= 1
          /\ \A i \in 1..Len(conns) :
                LET c == conns[i] IN
                /\ c.f.k = "P" => HasProc(fl, c.f.n)
                /\ c.t.k = "P" => HasProc(fl, c.t.n)
                /\ HasRef(c) => (IsToFlow(c) \/ IsFromFlow(c))
                /\ HasRef(c) => Len(XEntry(cfg, IF c.f.k = "F" THEN c.f.n ELSE c.t.n, dir, RefDepth - 1)) = 1

\* the configuration has one reading as a graph for the flow `name`: references nest at most two deep
\* (name -> b -> c) and never come back to a flow of the chain
WellFormed(cfg, name) ==
    /\ HasFlow(cfg, name)
    /\ \A i, j \in 1..Len(cfg.flows) : i # j => Keys(cfg.flows[i]) \cap Keys(cfg.flows[j]) = {}
    /\ LET r1 == RefsOf(cfg, name)
           r2 == UNION {RefsOf(cfg, b) : b \in r1}
       IN /\ name \notin r1 \cup r2
          /\ \A b \in r1 : b \notin RefsOf(cfg, b)
          /\ \A c \in r2 : RefsOf(cfg, c) = {}
          /\ \A n \in {name} \cup r1 \cup r2 : HasFlow(cfg, n) /\ FlowOK(cfg, n)
    /\ \A dir \in {"req", "res"} :
          /\ Len(Entry(cfg, FlowOf(cfg, name), dir)) <= 1
          /\ NoDup(LG(cfg, FlowOf(cfg, name), dir))

\* ------------------------------------------------------------- the walk acceptor
\* ctx = [cfg, lg, dir, fname, seq];  result = [st |-> "ok"|"cut"|"fail", i |-> next index, ans |-> answering Gen or ""]
Res(st, i, ans) == [st |-> st, i |-> i, ans |-> ans]

RECURSIVE WalkNode(_, _, _), WalkSeq(_, _, _, _)
WalkNode(ctx, n, i) ==
    IF i > Len(ctx.seq) THEN Res("cut", i, "")
    ELSE LET e == ctx.seq[i] IN
         IF e.key # n \/ e.dir # ctx.dir \/ e.flow # ctx.fname THEN Res("fail", i, "")
         ELSE IF ctx.dir = "req" /\ KindAny(ctx.cfg, n) = "Gen" THEN Res("ok", i + 1, n)
         ELSE WalkSeq(ctx, Targets(ctx.lg, n, e.out), 1, i + 1)

WalkSeq(ctx, ts, k, i) ==
    IF k > Len(ts) THEN Res("ok", i, "")
    ELSE IF ts[k] = "END" THEN WalkSeq(ctx, ts, k + 1, i)
    ELSE LET r == WalkNode(ctx, ts[k], i) IN
         IF r.st # "ok" \/ r.ans # "" THEN r ELSE WalkSeq(ctx, ts, k + 1, r.i)

\* an execution of a system flow generated from a quota carries the id of that system flow (sid), "" otherwise
IsSys(e) == e.sid # ""
UserPart(seq) == SelectSeq(seq, LAMBDA e : ~IsSys(e))

\* verdict on the user-flow part of one transaction: "ok" or the reason of the rejection
UserVerdict(cfg, fname, dir, seq, outcome) ==
    LET fl == FlowOf(cfg, fname)
        cq == [cfg |-> cfg, lg |-> LG(cfg, fl, "req"), dir |-> "req", fname |-> fname, seq |-> seq]
        cs == [cfg |-> cfg, lg |-> LG(cfg, fl, "res"), dir |-> "res", fname |-> fname, seq |-> seq]
        n == Len(seq)
        Final(r, stage) ==
            IF r.st = "fail" THEN
                (IF stage = "resume" /\ seq[r.i].dir = "req" THEN "request-side-continues-after-answer"
                 ELSE IF stage = "resume" THEN "response-walk-not-resumed-at-answering-processor"
                 ELSE "processor-off-the-path")
            ELSE IF r.st = "cut" THEN
                (IF outcome = "error" THEN "ok"
                 ELSE IF stage = "resume" THEN "response-walk-not-resumed-at-answering-processor"
                 ELSE "walk-incomplete")
            ELSE IF r.i # n + 1 THEN
                (IF stage = "resume" /\ seq[r.i].dir = "req" THEN "request-side-continues-after-answer"
                 ELSE IF stage = "resume" THEN "response-walk-not-resumed-at-answering-processor"
                 ELSE "processor-off-the-path")
            ELSE "ok"
    IN IF dir = "res" THEN Final(WalkSeq(cs, Entry(cfg, fl, "res"), 1, 1), "walk")
       ELSE LET r == WalkSeq(cq, Entry(cfg, fl, "req"), 1, 1) IN
            IF r.st = "ok" /\ r.ans # ""
            THEN Final(WalkSeq(cs, Targets(cs.lg, r.ans, ""), 1, r.i), "resume")
            ELSE Final(r, "walk")

\* system flows: on the request side every system-flow execution precedes the user flow; on the response side
\* every system-flow execution follows it, and two system flows that ran on both sides of the transaction run in
\* reverse order on the response side.  sysreq = the system flow ids in request-side order of this transaction.
SidOrder(seq) ==
    LET RECURSIVE G(_, _)
        G(i, acc) == IF i > Len(seq) THEN acc
                     ELSE IF IsSys(seq[i]) /\ \A j \in 1..Len(acc) : acc[j] # seq[i].sid
                          THEN G(i + 1, Append(acc, seq[i].sid)) ELSE G(i + 1, acc)
    IN G(1, <<>>)
Pos(s, x) == CHOOSE i \in 1..Len(s) : s[i] = x
InSeq(s, x) == \E i \in 1..Len(s) : s[i] = x

SysVerdict(seq, sysreq) ==
    LET rq == SelectSeq(seq, LAMBDA e : e.dir = "req")
        rs == SelectSeq(seq, LAMBDA e : e.dir = "res")
        oq == IF Len(rq) > 0 THEN SidOrder(rq) ELSE sysreq
        os == SidOrder(rs)
    IN IF \E i, j \in 1..Len(rq) : i < j /\ ~IsSys(rq[i]) /\ IsSys(rq[j]) THEN "system-flow-after-user-flow-on-request"
       ELSE IF \E i, j \in 1..Len(rs) : i < j /\ IsSys(rs[i]) /\ ~IsSys(rs[j]) THEN "system-flow-before-user-flow-on-response"
       ELSE IF \E i, j \in 1..Len(os) : i < j /\ InSeq(oq, os[i]) /\ InSeq(oq, os[j]) /\ Pos(oq, os[i]) < Pos(oq, os[j])
            THEN "system-flows-not-reversed-on-response"
       ELSE "ok"

\* the system flows that have to run: a quota whose filter is the transaction's URL (or the host wildcard) contributes
\* <id>_QuotaProcessorInc in front of the user flow on the request side and, for a concurrency quota,
\* <id>_QuotaProcessorDec behind it on the response side
HostWildcard == "h.test/*"
Matching(cfg, url) == SelectSeq(cfg.quotas, LAMBDA q : q.url = url \/ q.url = HostWildcard)
Ran(seq, dir, key) == \E i \in 1..Len(seq) : seq[i].dir = dir /\ seq[i].key = key /\ IsSys(seq[i])
SysComplete(cfg, fname, dir, seq, outcome) ==
    IF outcome # "ok" \/ ~HasFlow(cfg, fname) THEN "ok"
    ELSE LET qs == Matching(cfg, FlowOf(cfg, fname).url)
             answered == \E i \in 1..Len(seq) : ~IsSys(seq[i]) /\ seq[i].dir = "req" /\ KindAny(cfg, seq[i].key) = "Gen"
         IN IF dir = "req" /\ \E i \in 1..Len(qs) : ~Ran(seq, "req", qs[i].id \o "_QuotaProcessorInc")
            THEN "system-flow-did-not-run-on-request"
            ELSE IF (dir = "res" \/ answered) /\ \E i \in 1..Len(qs) : qs[i].kind = "conc" /\ ~Ran(seq, "res", qs[i].id \o "_QuotaProcessorDec")
            THEN "system-flow-did-not-run-on-response"
            ELSE "ok"

TxVerdict(cfg, fname, dir, seq, sysreq, outcome) ==
    LET s == SysVerdict(seq, sysreq)
        c == SysComplete(cfg, fname, dir, seq, outcome) IN
    IF s # "ok" THEN s
    ELSE IF c # "ok" THEN c
    ELSE IF ~WellFormed(cfg, fname) THEN "ok"
    ELSE UserVerdict(cfg, fname, dir, UserPart(seq), outcome)

\* several user flows selected for one transaction (e.g. the flow of a host and the flow of one endpoint): each of them
\* follows its own connections.  The order in which the flows run is not part of the property.  When a flow answers the
\* request no other request-side processor runs afterwards; the answering flow continues from the answering processor,
\* any other flow that takes part in the response side walks its own response path from its own entry point.
MultiUserVerdict(cfg, fnames, dir, seq, outcome) ==
    LET Mine(f) == SelectSeq(seq, LAMBDA e : e.flow = f)
        Answers(e) == e.dir = "req" /\ KindAny(cfg, e.key) = "Gen"
        answerers == {fnames[k] : k \in {j \in 1..Len(fnames) : \E i \in 1..Len(seq) : seq[i].flow = fnames[j] /\ Answers(seq[i])}}
        V(f) == LET m == Mine(f)
                    rq == SelectSeq(m, LAMBDA e : e.dir = "req")
                    rs == SelectSeq(m, LAMBDA e : e.dir = "res")
                IN IF ~WellFormed(cfg, f) THEN "ok"
                   ELSE IF dir = "res" THEN UserVerdict(cfg, f, "res", m, outcome)
                   ELSE IF f \in answerers THEN UserVerdict(cfg, f, "req", m, outcome)
                   ELSE IF answerers # {} THEN
                       (IF Len(rq) > 0 /\ UserVerdict(cfg, f, "req", rq, outcome) # "ok" THEN UserVerdict(cfg, f, "req", rq, outcome)
                        ELSE IF Len(rs) > 0 THEN UserVerdict(cfg, f, "res", rs, outcome) ELSE "ok")
                   ELSE UserVerdict(cfg, f, "req", m, outcome)
        bad == {k \in 1..Len(fnames) : V(fnames[k]) # "ok"}
    IN IF \E i, j \in 1..Len(seq) : i < j /\ Answers(seq[i]) /\ seq[j].dir = "req" THEN "request-side-continues-after-answer"
       ELSE IF bad = {} THEN "ok"
       ELSE V(fnames[CHOOSE k \in bad : \A k2 \in bad : k <= k2])

MultiTxVerdict(cfg, fnames, dir, seq, sysreq, outcome) ==
    LET s == SysVerdict(seq, sysreq)
        c == SysComplete(cfg, fnames[1], dir, seq, outcome) IN
    IF s # "ok" THEN s
    ELSE IF c # "ok" THEN c
    ELSE MultiUserVerdict(cfg, fnames, dir, UserPart(seq), outcome)

\* ------------------------------------------------------------------------- C05
LoadVerdict(outcome, init) ==
    IF outcome \notin {"accepted", "rejected"} THEN "load-" \o outcome
    ELSE IF outcome = "accepted" /\ init # "ok" THEN "accepted-but-initialize-" \o init
    ELSE "ok"

ExecSafeVerdict(cfg, outcome, steps) ==
    IF outcome \notin {"ok", "error"} THEN "exec-" \o outcome
    ELSE IF steps > Bound(cfg) THEN "exec-too-many-steps"
    ELSE "ok"
================================================================================
