CONSTANTS
  Configs <- TierConfigs
  Tier = "nv"
  CyclesFromEveryNode = TRUE
  RefDepthChecked = TRUE
  ExitLinked = FALSE
  StopAfterAnswer = TRUE
  ResumeAllEdges = TRUE
  StartNodePerFlow = TRUE
  StepCap = 600
  CheckLoader = FALSE
SPECIFICATION Spec
CHECK_DEADLOCK FALSE
INVARIANT FollowsGraph
