CONSTANTS
  Configs <- TierConfigs
  Tier = "mid"
  CyclesFromEveryNode = FALSE
  RefDepthChecked = TRUE
  ExitLinked = TRUE
  StopAfterAnswer = TRUE
  ResumeAllEdges = TRUE
  StepCap = 600
SPECIFICATION Spec
CHECK_DEADLOCK FALSE
INVARIANT Safe
