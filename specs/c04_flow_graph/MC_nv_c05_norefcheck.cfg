CONSTANTS
  Configs <- TierConfigs
  Tier = "nv"
  CyclesFromEveryNode = TRUE
  RefDepthChecked = FALSE
  ExitLinked = TRUE
  StopAfterAnswer = TRUE
  ResumeAllEdges = TRUE
  StartNodePerFlow = TRUE
  StepCap = 600
  CheckLoader = TRUE
SPECIFICATION Spec
CHECK_DEADLOCK FALSE
