------------------------------- MODULE GenC12 -------------------------------
(* Behaviour generation for replay (spec -> code): random walks (tlc -simulate) *)
(* of the implementation-shaped specification CacheI driven sequentially        *)
(* (Sync = TRUE: every operation runs to its end before the next one starts,    *)
(* clock advances leave the sleepers lagging until a "fire" step); the step     *)
(* history of every walk that reaches length GenDepth is printed as one JSON    *)
(* line.  The answers in it are the model's predictions.                        *)
EXTENDS CacheI, Json
CONSTANT GenDepth
cNoMax == -1
Emit == (Len(hist) = GenDepth) => PrintT(<<"VH", ToJson(hist)>>)
=============================================================================
