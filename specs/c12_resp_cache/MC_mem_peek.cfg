CONSTANTS
  Key = {"k1", "k2"}
  Relevant = {429}
  Steps = {1}
  PerSec = 2
  Writers = {"w1", "w2"}
  Typ = "mem"
  Ttl = 0
  MaxSize = 3
  Sts = {200}
  Hdrs = {1}
  Szs = {1}
  NVal = 2
  MaxNow = 1
  KF_UnlockedSizeCheck = FALSE
  TruncNow = FALSE
  NoExpiryTest = FALSE
  RefusalLeak = FALSE
  StalePeek = TRUE
  Sync = FALSE
  KeepHist = TRUE
  OneGate = TRUE
SPECIFICATION ISpec
VIEW View
INVARIANTS CxAccounting
CHECK_DEADLOCK FALSE
