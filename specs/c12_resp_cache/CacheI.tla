------------------------------- MODULE CacheI -------------------------------
(* C12 - implementation-shaped specification of                                *)
(*   utils/cache.go (MemoryCache: Has / Get / Set / clearKey + the sleeper     *)
(*   goroutine each Set starts),                                               *)
(*   services/remedies/cache_plugin.go (OnRequest / OnResponse) and            *)
(*   services/remedies/response_based_throttling_plugin.go.                    *)
(*                                                                             *)
(* One action per critical section of the real code:                           *)
(*   WBegin   OnResponse is entered; the throttling remedy returns at once     *)
(*            for an irrelevant status                                         *)
(*   WHas     responseCache.Has(key) (RLock + expiry test) - a fresh entry     *)
(*            ends the operation; the throttling remedy then reads the         *)
(*            retry-after header and gives up when it is missing               *)
(*   WCheck   the size test of Set, *outside* the lock                         *)
(*   WInsert  Lock . store . account . Unlock . go Sleeper(key, ttl)           *)
(*   FireDue  the sleepers whose time has come run clearKey: each deletes      *)
(*            *whatever* is stored under its key and subtracts that size       *)
(*   Req      OnRequest: Get (RLock + expiry test), header update              *)
(*   Advance  the clock moves; sleepers may lag behind it                      *)
(* The variables of the property specification CacheP (now, cands, held, last) *)
(* are carried along; `ok` records whether every answer so far was permitted   *)
(* by P.  I => P is the invariant POk (plus HeldBound for the capacity).       *)
(*                                                                             *)
(* Deviations, each a CONSTANT so that TLC shows the model distinguishes them: *)
(*  KF_UnlockedSizeCheck  pinned code: the size test is done only outside the  *)
(*                lock and an overwritten entry's size is not given back       *)
(*                (FALSE = repaired: authoritative test + accounting in lock)  *)
(*  TruncNow      pinned code: absolute-epoch retry-after is turned into a     *)
(*                time-to-live with the clock truncated to whole seconds       *)
(*  NoExpiryTest  (non-vacuity) Get relies on the sleeper only                 *)
(*  StalePeek     (non-vacuity) Set measures the entry it is about to replace  *)
(*                before it takes the lock (step WPeek); when the entry is     *)
(*                removed in between (its sleeper) the size is given back twice *)
(*  RefusalLeak   (non-vacuity) an overwrite refused under the lock has        *)
(*                already given back the replaced entry's size and does not    *)
(*                restore it although the entry stays                          *)
(*  Sync          operations are atomic (sequential driver): used to generate  *)
(*                behaviours with a deterministic outcome for replay           *)
EXTENDS Integers, FiniteSets, Sequences, TLC

CONSTANTS Key, Typ, Ttl, MaxSize, Relevant, Sts, Hdrs, Szs, NVal, Writers, Steps, MaxNow, PerSec,
          KF_UnlockedSizeCheck, TruncNow, NoExpiryTest, RefusalLeak, StalePeek, Sync,
          OneGate,     \* explore only the schedules the single yield point of the real code can force: nothing is
                       \* written between the has test and the size test of a writer (counterexample extraction)
          KeepHist     \* record the step history (generation, counterexample schedules); FALSE in trace validation

VARIABLES now, cands, held, last,      \* CacheP
          store,                       \* Key -> entry | NoEntry        (cache.cache)
          cur,                         \* accounted size                (cache.currentCacheSize)
          sleepers,                    \* pending sleeper goroutines [k, at, id, born]
          wr,                          \* Writers -> in-flight OnResponse
          nv,                          \* next value tag
          ok,                          \* every answer so far was permitted by P
          hist                         \* every step taken (generation / counterexample schedules)

ivars == <<now, cands, held, last, store, cur, sleepers, wr, nv, ok, hist>>

P == INSTANCE CacheP WITH PKeys <- {}, PVals <- {}, PSts <- {}, PHdrs <- {}, PSzs <- {}, PSteps <- {}, PMaxNow <- 0

NoEntry == [none |-> TRUE]
Idle == [pc |-> "idle"]
Thr == Typ \in {"rel", "abs"}
Sized == MaxSize >= 0

AllIdle == \A w \in Writers : wr[w].pc = "idle"
Due == {s \in sleepers : s.at <= now}
\* a sleeper whose time-to-live is not positive does not sleep: with a sequential driver it has run before the next operation
Imm == {s \in sleepers : s.at <= s.born}
Ready == Sync => (\A w \in Writers : wr[w].pc = "idle") /\ Imm = {}
MayWrite(w) == OneGate => \A x \in Writers \ {w} : wr[x].pc \notin {"check", "peek"}

HasFresh(k) == store[k] # NoEntry /\ ~(now > store[k].exp)

\* ttl handed to MemoryCache.Set for a response seen now
TtlOf(hdr) == CASE Typ = "cache" -> Ttl
                [] Typ = "abs"   -> hdr - (IF TruncNow THEN (now \div PerSec) * PerSec ELSE now)
                [] OTHER         -> hdr

RECURSIVE SumStore(_)
SumStore(K) == IF K = {} THEN 0 ELSE LET k == CHOOSE x \in K : TRUE IN store[k].sz + SumStore(K \ {k})
HeldSize == SumStore({k \in Key : store[k] # NoEntry})

Init ==
    /\ P!Init
    /\ store = [k \in Key |-> NoEntry]
    /\ cur = 0
    /\ sleepers = {}
    /\ wr = [w \in Writers |-> Idle]
    /\ nv = 1
    /\ ok = TRUE
    /\ hist = <<>>

Log(e) == hist' = IF KeepHist THEN Append(hist, e) ELSE hist

Advance(d) ==
    /\ AllIdle /\ Ready          \* an operation is shorter than a tick
    /\ now + d <= MaxNow
    /\ P!Advance(d)
    /\ Log([ev |-> "adv", d |-> d])
    /\ UNCHANGED <<store, cur, sleepers, wr, nv, ok>>

\* every sleeper whose time has come runs clearKey (their order does not matter: the first one of a key deletes)
FireDue ==
    /\ Due # {} /\ MayWrite("")
    /\ Ready
    /\ LET ks == {s.k : s \in Due}
           gone == {k \in ks : store[k] # NoEntry} IN
       /\ store' = [k \in Key |-> IF k \in ks THEN NoEntry ELSE store[k]]
       /\ cur' = IF Sized THEN cur - SumStore(gone) ELSE cur
    /\ sleepers' = sleepers \ Due
    /\ Log([ev |-> "fire"])
    /\ last' = [ev |-> "fire"]
    /\ UNCHANGED <<now, cands, held, wr, nv, ok>>

\* P's Response event (the linearization point of OnResponse) is the step in which the operation ends:
\* the insertion, or the test that makes it give up
Ends(r) == P!Response(r.k, r.v, r.st, r.hh, r.hdr, r.sz)
Goes == UNCHANGED <<now, cands, held, last>>

\* one sleeper runs clearKey (concurrent exploration: a request may come between two of them)
Fire(s) ==
    /\ s \in Due /\ MayWrite("")
    /\ store' = [store EXCEPT ![s.k] = NoEntry]
    /\ cur' = IF Sized /\ store[s.k] # NoEntry THEN cur - store[s.k].sz ELSE cur
    /\ sleepers' = sleepers \ {s}
    /\ Log([ev |-> "fire1", k |-> s.k, id |-> s.id, stale |-> (store[s.k] # NoEntry /\ store[s.k].v # s.id)])
    /\ last' = [ev |-> "fire"]
    /\ UNCHANGED <<now, cands, held, wr, nv, ok>>

WBegin(w, k, v, st, hh, hdr, sz) ==
    /\ wr[w].pc = "idle" /\ nv <= NVal
    /\ Ready
    /\ (Typ = "cache" => hh = 0 /\ hdr = -1) /\ (Typ = "mem" => hh = 1) /\ (hh = 0 => hdr = -1)
    /\ (hh = 2 => Thr)
    /\ LET r == [pc |-> IF Typ = "mem" THEN "check" ELSE "has",
                 k |-> k, v |-> v, st |-> st, hh |-> hh, hdr |-> hdr, sz |-> sz, old |-> -1] IN
       IF Thr /\ st \notin Relevant
       THEN Ends(r) /\ UNCHANGED wr
       ELSE Goes /\ wr' = [wr EXCEPT ![w] = r]
    /\ nv' = nv + 1
    /\ Log([ev |-> "wbegin", w |-> w, k |-> k, v |-> v, st |-> st, hh |-> hh, hdr |-> hdr, sz |-> sz])
    /\ UNCHANGED <<store, cur, sleepers, ok>>

WHas(w) ==
    /\ wr[w].pc = "has"
    /\ IF HasFresh(wr[w].k) \/ (Thr /\ wr[w].hh # 1)      \* the header is looked up by the exact spelling of the policy
       THEN Ends(wr[w]) /\ wr' = [wr EXCEPT ![w] = Idle]
       ELSE Goes /\ wr' = [wr EXCEPT ![w] = [wr[w] EXCEPT !.pc = "check"]]
    /\ Log([ev |-> "whas", w |-> w])
    /\ UNCHANGED <<store, cur, sleepers, nv, ok>>

WCheck(w) ==
    /\ wr[w].pc = "check"
    /\ IF Sized /\ cur + wr[w].sz > MaxSize
       THEN Ends(wr[w]) /\ wr' = [wr EXCEPT ![w] = Idle]
       ELSE Goes /\ wr' = [wr EXCEPT ![w] = [wr[w] EXCEPT !.pc = IF StalePeek THEN "peek" ELSE "insert"]]
    /\ Log([ev |-> "wcheck", w |-> w])
    /\ UNCHANGED <<store, cur, sleepers, nv, ok>>

\* (StalePeek) the size of the entry under the key is measured outside the lock
WPeek(w) ==
    /\ wr[w].pc = "peek"
    /\ wr' = [wr EXCEPT ![w] = [wr[w] EXCEPT !.pc = "insert",
                                            !.old = IF store[wr[w].k] # NoEntry THEN store[wr[w].k].sz ELSE 0]]
    /\ Goes /\ Log([ev |-> "wpeek", w |-> w])
    /\ UNCHANGED <<store, cur, sleepers, nv, ok>>

WInsert(w) ==
    /\ wr[w].pc = "insert" /\ MayWrite(w)
    /\ LET r == wr[w]
           old == IF StalePeek THEN r.old ELSE IF store[r.k] # NoEntry THEN store[r.k].sz ELSE 0
           repaired == ~KF_UnlockedSizeCheck
           exp == now + TtlOf(r.hdr) IN
       IF repaired /\ Sized /\ cur - old + r.sz > MaxSize
       THEN /\ cur' = IF RefusalLeak THEN cur - old ELSE cur
            /\ UNCHANGED <<store, sleepers>>
       ELSE /\ store' = [store EXCEPT ![r.k] = [v |-> r.v, st |-> r.st, born |-> now, exp |-> exp,
                                                 hdr |-> r.hdr, sz |-> r.sz]]
            /\ cur' = IF ~Sized THEN cur ELSE IF repaired THEN cur - old + r.sz ELSE cur + r.sz
            /\ sleepers' = sleepers \cup {[k |-> r.k, at |-> exp, id |-> r.v, born |-> now]}
    /\ Ends(wr[w])
    /\ wr' = [wr EXCEPT ![w] = Idle]
    /\ Log([ev |-> "winsert", w |-> w])
    /\ UNCHANGED <<nv, ok>>

\* the answer of OnRequest for key k in the current state
Answer(k) ==
    LET e == store[k] IN
    IF e = NoEntry \/ (~NoExpiryTest /\ now > e.exp) THEN P!NoOut
    ELSE IF Typ = "rel"
         THEN IF now - e.born >= e.hdr THEN P!NoOut      \* calcNewRetryAfter: "time has already passed" => not served
              ELSE [kind |-> "replay", v |-> e.v, st |-> e.st, hdr |-> e.hdr - (now - e.born)]
         ELSE [kind |-> "replay", v |-> e.v, st |-> e.st, hdr |-> IF Typ = "abs" THEN e.hdr ELSE -1]

Req(k) ==
    /\ Ready
    /\ LET out == Answer(k)
           h2 == IF out.kind = "replay" THEN held \cup P!Matches(k, out) ELSE held IN
       /\ ok' = (ok /\ P!Permitted(k, out) /\ P!Fits(h2))
       /\ held' = h2
       /\ last' = [ev |-> "req", k |-> k, out |-> out]
       /\ Log([ev |-> "req", k |-> k, out |-> out.kind, rv |-> out.v, rst |-> out.st, rhdr |-> out.hdr])
    /\ UNCHANGED <<now, cands, store, cur, sleepers, wr, nv>>

HdrArg(h) == IF Typ = "abs" THEN now + h - 1 ELSE h      \* absolute instants around now, one of them already past

Next ==
    \/ \E d \in Steps : Advance(d)
    \/ FireDue
    \/ \E s \in sleepers : (~Sync \/ (AllIdle /\ s \in Imm)) /\ Fire(s)
    \/ \E w \in Writers, k \in Key, st \in Sts, hh \in IF Thr THEN {0, 1, 2} ELSE {0, 1}, sz \in Szs :
          \E h \in IF hh >= 1 THEN Hdrs ELSE {-1} :
              WBegin(w, k, nv, st, hh, IF hh >= 1 THEN HdrArg(h) ELSE -1, sz)
    \/ \E w \in Writers : WHas(w) \/ WCheck(w) \/ WPeek(w) \/ WInsert(w)
    \/ \E k \in Key : Req(k)

ISpec == Init /\ [][Next]_ivars

-------------------------------------------------------------------------------
\* I => P
POk == ok
\* the cache never holds more than its configured size (also entries that are expired but not yet cleaned up)
HeldBound == ~Sized \/ HeldSize <= MaxSize
\* the accounting never under-counts what is held
Accounting == ~Sized \/ cur >= HeldSize
\* (repaired code) the accounting is exact whenever no operation is in flight
Exact == (Sized /\ AllIdle) => cur = HeldSize

View == <<now, cands, held, store, cur, sleepers, wr, nv, ok>>
================================================================================
