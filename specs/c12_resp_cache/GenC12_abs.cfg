CONSTANTS
  Key = {"k1", "k2", "k3"}
  Relevant = {429}
  Steps = {1, 2, 3}
  PerSec = 4
  Writers = {"w1"}
  Typ = "abs"
  Ttl = 0
  MaxSize <- cNoMax
  Sts = {429, 200}
  Hdrs = {0, 2, 3, 6}
  Szs = {1}
  NVal = 1000
  MaxNow = 1000
  KF_UnlockedSizeCheck = FALSE
  TruncNow = FALSE
  NoExpiryTest = FALSE
  RefusalLeak = FALSE
  StalePeek = FALSE
  Sync = TRUE
  KeepHist = TRUE
  OneGate = FALSE
  GenDepth = 40
SPECIFICATION ISpec
INVARIANT Emit
CHECK_DEADLOCK FALSE
