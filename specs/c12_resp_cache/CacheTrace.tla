------------------------------ MODULE CacheTrace ------------------------------
(* C12 - trace validation of recorded executions of the real CachingPlugin /    *)
(* ResponseBasedThrottlingPlugin (OnRequest / OnResponse) against the property   *)
(* specification CacheP.                                                        *)
(*                                                                             *)
(* trace.ndjson: line 1 = configuration of the run                              *)
(*   {"ev":"config","typ":"cache"|"rel"|"abs","ttl":T,"max":M,"sel":[names],"relevant":[statuses]} *)
(* then events                                                                  *)
(*   {"ev":"reset","now":t}                  fresh plugin, clock set to t        *)
(*   {"ev":"adv","d":d}                      clock advanced by d ticks           *)
(*   {"ev":"fire"}                           (clean-up goroutines were woken)    *)
(*   {"ev":"resp","m","u","pp","v","st","hh","hdr","sz"}   OnResponse handled on its own *)
(*   {"ev":"req","m","u","pp","out","rv","rst","rhdr"}      OnRequest handled on its own  *)
(*   {"ev":"begin","id":i,"op":"req"|"resp",...} / {"ev":"end","id":i}           *)
(*        an operation running concurrently with others; its linearization point *)
(*        is placed by TLC anywhere between invocation and return (TLin).        *)
(* m, u = method and URL, pp = all path parameters of the transaction; the key   *)
(* of the property is <<m, u, values of the *selected* parameters>>.             *)
EXTENDS TraceLib, Integers, FiniteSets

Cfg == TraceLog[1]
Sel == Cfg.sel
RelevantSet == {Cfg.relevant[i] : i \in 1..Len(Cfg.relevant)}

VARIABLES now, cands, held, last, l, pend, done

P == INSTANCE CacheP WITH Typ <- Cfg.typ, Ttl <- Cfg.ttl, MaxSize <- Cfg.max, Relevant <- RelevantSet,
        PKeys <- {}, PVals <- {}, PSts <- {}, PHdrs <- {}, PSzs <- {}, PSteps <- {}, PMaxNow <- 0

tvars == <<now, cands, held, last, l, pend, done>>

Ev == TraceLog[l + 1]
Consume(name) == l < TraceLen /\ Ev.ev = name /\ l' = l + 1

KeyOf(e) == <<e.m, e.u, [i \in 1..Len(Sel) |-> IF Sel[i] \in DOMAIN e.pp THEN e.pp[Sel[i]] ELSE ""]>>
OutOf(e) == [kind |-> e.out, v |-> e.rv, st |-> e.rst, hdr |-> e.rhdr]

Apply(e) == IF e.op = "resp" THEN P!Response(KeyOf(e), e.v, e.st, e.hh, e.hdr, e.sz)
            ELSE P!Request(KeyOf(e), OutOf(e))

TInit == P!Init /\ l = 1 /\ pend = {} /\ done = {}

TReset ==
    /\ Consume("reset") /\ pend = {} /\ done = {}
    /\ now' = Ev.now /\ cands' = {} /\ held' = {}
    /\ last' = [ev |-> "reset"]
    /\ UNCHANGED <<pend, done>>

TAdv == Consume("adv") /\ pend = {} /\ P!Advance(Ev.d) /\ UNCHANGED <<pend, done>>

\* the sleeping clean-up goroutines were woken: not an event of the property
TFire == Consume("fire") /\ UNCHANGED <<now, cands, held, last, pend, done>>

TResp == Consume("resp") /\ P!Response(KeyOf(Ev), Ev.v, Ev.st, Ev.hh, Ev.hdr, Ev.sz) /\ UNCHANGED <<pend, done>>

TReq == Consume("req") /\ P!Request(KeyOf(Ev), OutOf(Ev)) /\ UNCHANGED <<pend, done>>

TBegin ==
    /\ Consume("begin")
    /\ pend' = pend \cup {Ev}
    /\ UNCHANGED <<now, cands, held, last, done>>

TLin == \E p \in pend :
    /\ Apply(p)
    /\ pend' = pend \ {p}
    /\ done' = done \cup {p.id}
    /\ UNCHANGED l

TEnd ==
    /\ Consume("end") /\ Ev.id \in done
    /\ done' = done \ {Ev.id}
    /\ UNCHANGED <<now, cands, held, last, pend>>

TNext == TReset \/ TAdv \/ TFire \/ TResp \/ TReq \/ TBegin \/ TLin \/ TEnd

TraceSpec == TInit /\ [][TNext]_tvars

SizeBound == P!SizeBound
\* record the high-water mark; once the whole trace has been explained (depth-first search) nothing more is explored
HWM == Mark(l) /\ TLCGetOrDefault(1, 0) < TraceLen
Post == Report
================================================================================
