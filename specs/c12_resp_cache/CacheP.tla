------------------------------- MODULE CacheP -------------------------------
(* C12 - stored responses are replayed only for the same key and only while    *)
(* fresh: property specification (P).                                          *)
(*                                                                             *)
(* Observable events only, at the interface of the caching remedy and of the   *)
(* response-based throttling remedy:                                           *)
(*   Response(k, v, st, hh, hdr, sz)  a provider response with the unique value *)
(*        tag v and status st is seen for key k at instant `now`               *)
(*        (k = <<method, URL, values of the selected path parameters>>);       *)
(*        hh >= 1 iff it carries the retry-after header (1: spelled as in the   *)
(*        policy, 2: in another letter case), hdr = its value in               *)
(*        ticks, sz = its size in size units                                   *)
(*   Request(k, out)   a request for key k is answered  noop  (goes to the     *)
(*        provider) or  replay  of value out.v with status out.st and          *)
(*        retry-after header out.hdr                                           *)
(*   Advance(d)        the clock moves                                         *)
(*                                                                             *)
(* Every response seen for a key is a *candidate* for that key; whether an     *)
(* implementation keeps the first, the last, or none of them is its choice.    *)
(* The specification *is* the property: a replay is permitted only of a        *)
(* candidate of the same key that is still fresh; noop is always permitted     *)
(* (so when nothing fresh exists noop is the only permitted answer); a         *)
(* replayed throttling response carries the retry-after it must carry; and     *)
(* the values the cache demonstrably holds at one time fit its capacity.       *)
EXTENDS Integers, FiniteSets, Sequences

CONSTANTS
    Typ,        \* "cache" (caching remedy) | "rel" | "abs" (throttling remedy, retry-after relative seconds / absolute epoch)
                \* | "mem" (the underlying utils.MemoryCache driven directly: per-entry time-to-live = hdr)
    Ttl,        \* configured time-to-live in ticks              (Typ = "cache")
    MaxSize,    \* configured capacity in size units, -1 = none  (Typ = "cache")
    Relevant    \* statuses that make a response a throttling response (Typ # "cache")

VARIABLES
    now,        \* current instant (ticks)
    cands,      \* set of candidates [k, v, st, born, exp, hdr, sz]
    held,       \* candidates replayed since the last response was seen: all of them were held at that moment
    last        \* last observable event (output only)

pvars == <<now, cands, held, last>>

NoOut == [kind |-> "noop", v |-> "", st |-> 0, hdr |-> -1]

\* a response the remedy is meant to remember at all
\* (header names are not case sensitive: whether a remedy recognises another spelling is its choice)
Storable(st, hh) == Typ \in {"cache", "mem"} \/ (st \in Relevant /\ hh >= 1)

\* the instant after which a response seen now must no longer be replayed
ExpOf(hdr) == CASE Typ = "cache" -> now + Ttl
                [] Typ \in {"rel", "mem"} -> now + hdr
                [] OTHER         -> hdr            \* absolute: the provider's retry-after instant itself

Fresh(c) == now <= c.exp

\* the retry-after header a replay of candidate c must carry now (-1: the caching remedy has none)
HeaderOf(c) == CASE Typ = "rel" -> c.hdr - (now - c.born)
                 [] Typ = "abs" -> c.hdr
                 [] OTHER       -> -1

\* the candidate a replay refers to (value tags are unique)
Matches(k, out) == {c \in cands : c.k = k /\ c.v = out.v /\ c.st = out.st /\ Fresh(c) /\ out.hdr = HeaderOf(c)}

\* THE PROPERTY as a guard: is answering a request for k with `out` permitted now?
Permitted(k, out) == out.kind = "noop" \/ (out.kind = "replay" /\ Matches(k, out) # {})

RECURSIVE SumSz(_)
SumSz(S) == IF S = {} THEN 0 ELSE LET c == CHOOSE x \in S : TRUE IN c.sz + SumSz(S \ {c})

Init ==
    /\ now = 0
    /\ cands = {}
    /\ held = {}
    /\ last = [ev |-> "init"]

Advance(d) ==
    /\ d > 0
    /\ now' = now + d
    /\ last' = [ev |-> "adv", d |-> d]
    /\ UNCHANGED <<cands, held>>

Response(k, v, st, hh, hdr, sz) ==
    /\ cands' = IF Storable(st, hh)
                THEN cands \cup {[k |-> k, v |-> v, st |-> st, born |-> now, exp |-> ExpOf(hdr), hdr |-> hdr, sz |-> sz]}
                ELSE cands
    /\ held' = {}                       \* from here on the cache may hold something new
    /\ last' = [ev |-> "resp", k |-> k, v |-> v]
    /\ UNCHANGED now

\* the cache never holds more than its configured size: everything replayed since the last response was
\* seen was in the cache together at that moment (between two responses entries only disappear)
Fits(S) == MaxSize < 0 \/ SumSz(S) <= MaxSize

Request(k, out) ==
    /\ Permitted(k, out)
    /\ held' = IF out.kind = "replay" THEN held \cup Matches(k, out) ELSE held
    /\ Fits(held')
    /\ last' = [ev |-> "req", k |-> k, out |-> out]
    /\ UNCHANGED <<now, cands>>

\* bounded instance of P itself (model checking / sanity; trace validation uses the actions above directly)
CONSTANTS PKeys, PVals, PSts, PHdrs, PSzs, PSteps, PMaxNow

Used == {c.v : c \in cands}
Outs(k) == {NoOut} \cup {[kind |-> "replay", v |-> c.v, st |-> c.st, hdr |-> HeaderOf(c)] : c \in {x \in cands : x.k = k}}

Next ==
    \/ \E d \in PSteps : now + d <= PMaxNow /\ Advance(d)
    \/ \E k \in PKeys, v \in PVals \ Used, st \in PSts, hh \in {0, 1}, hdr \in PHdrs, sz \in PSzs :
          /\ (Typ = "cache" => hh = 0 /\ hdr = -1)
          /\ Response(k, v, st, hh, IF Typ = "abs" /\ hdr >= 0 THEN now + hdr - 1 ELSE hdr, sz)
    \/ \E k \in PKeys : \E out \in Outs(k) : Request(k, out)

Spec == Init /\ [][Next]_pvars

-------------------------------------------------------------------------------
SizeBound == Fits(held)

\* consequences of Permitted, stated separately (they hold on P by construction; checked on the implementation model)
OnlySameKeyFresh == [][(last'.ev = "req" /\ last'.out.kind = "replay") =>
                         \E c \in cands : c.k = last'.k /\ c.v = last'.out.v /\ now <= c.exp]_pvars
Decrement == [][(last'.ev = "req" /\ last'.out.kind = "replay" /\ Typ = "rel") =>
                         \E c \in cands : c.v = last'.out.v /\ last'.out.hdr = c.hdr - (now - c.born)]_pvars
================================================================================
