CONSTANTS
  Key = {"k1", "k2", "k3"}
  Relevant = {429}
  Steps = {1, 2}
  PerSec = 2
  Writers = {"w1", "w2"}
  Typ = "mem"
  Ttl = 0
  MaxSize = 3
  Sts = {200}
  Hdrs = {3}
  Szs = {1, 2}
  NVal = 4
  MaxNow = 0
  KF_UnlockedSizeCheck = FALSE
  TruncNow = FALSE
  NoExpiryTest = FALSE
  RefusalLeak = TRUE
  StalePeek = FALSE
  Sync = FALSE
  KeepHist = TRUE
  OneGate = TRUE
SPECIFICATION ISpec
VIEW View
INVARIANTS CxHeldBound
CHECK_DEADLOCK FALSE
