------------------------------ MODULE CacheITrace ------------------------------
(* C12 - trace validation of recorded executions against the implementation-    *)
(* shaped specification CacheI (conformance of the model to the code; the        *)
(* verdict about the property comes from CacheTrace / CacheP only).              *)
(*                                                                             *)
(* Same trace format as CacheTrace; in addition the configuration line says      *)
(* which variant of the model the code is compared with ("kf", "trunc": 0 | 1,   *)
(* "persec": ticks per second) and events carry a snapshot of the cache taken    *)
(* when the driver had made sure nothing was running: "cur" = accounted size in  *)
(* units, "n" = number of entries (-1 = not observed).                           *)
(* A sequential "resp" event is matched by WBegin (look-ahead, nothing consumed) *)
(* . WHas . WCheck . WInsert and consumed when the writer is idle again; a       *)
(* concurrent one by WBegin at "begin" and an idle writer at "end", the steps    *)
(* in between interleaved by TLC.  Sleepers whose time-to-live is not positive   *)
(* run without a timer: internal step IFire.                                     *)
EXTENDS TraceLib, Integers, FiniteSets

Cfg == TraceLog[1]
Sel == Cfg.sel
RelevantSet == {Cfg.relevant[i] : i \in 1..Len(Cfg.relevant)}
KeyOf(e) == <<e.m, e.u, [i \in 1..Len(Sel) |-> IF Sel[i] \in DOMAIN e.pp THEN e.pp[Sel[i]] ELSE ""]>>
Key == {KeyOf(TraceLog[i]) : i \in {j \in 2..TraceLen : "m" \in DOMAIN TraceLog[j]}}
Writers == {0} \cup {TraceLog[i].id : i \in {j \in 2..TraceLen : TraceLog[j].ev = "begin" /\ TraceLog[j].op = "resp"}}

VARIABLES now, cands, held, last, store, cur, sleepers, wr, nv, ok, hist, l, busy, pendR, doneR

I == INSTANCE CacheI WITH Typ <- Cfg.typ, Ttl <- Cfg.ttl, MaxSize <- Cfg.max, Relevant <- RelevantSet,
        Sts <- {}, Hdrs <- {}, Szs <- {}, NVal <- 1000000000, Steps <- {}, MaxNow <- 1000000000,
        PerSec <- Cfg.persec, KF_UnlockedSizeCheck <- (Cfg.kf = 1), TruncNow <- (Cfg.trunc = 1),
        NoExpiryTest <- FALSE, RefusalLeak <- FALSE, StalePeek <- FALSE, Sync <- FALSE, OneGate <- FALSE, KeepHist <- FALSE

model == <<now, cands, held, last, store, cur, sleepers, wr, nv, ok, hist>>
tvars == <<model, l, busy, pendR, doneR>>

Ev == TraceLog[l + 1]
More == l < TraceLen
Consume(name) == More /\ Ev.ev = name /\ l' = l + 1
OutOf(e) == [kind |-> e.out, v |-> e.rv, st |-> e.rst, hdr |-> e.rhdr]
Snap(e) == /\ (e.cur >= 0 => cur' = e.cur)
           /\ (e.n >= 0 => Cardinality({k \in Key : store'[k] # I!NoEntry}) = e.n)
Stays == UNCHANGED <<busy, pendR, doneR>>

TInit == I!Init /\ l = 1 /\ busy = FALSE /\ pendR = {} /\ doneR = {}

TReset ==
    /\ Consume("reset") /\ ~busy /\ pendR = {} /\ I!AllIdle
    /\ now' = Ev.now /\ cands' = {} /\ held' = {} /\ last' = [ev |-> "reset"]
    /\ store' = [k \in Key |-> I!NoEntry] /\ cur' = 0 /\ sleepers' = {}
    /\ wr' = [w \in Writers |-> I!Idle] /\ nv' = 1 /\ ok' = TRUE /\ hist' = <<>>
    /\ Stays

TAdv == Consume("adv") /\ ~busy /\ pendR = {} /\ I!Advance(Ev.d) /\ Snap(Ev) /\ Stays

TFire == Consume("fire") /\ ~busy /\ I!FireDue /\ Snap(Ev) /\ Stays

\* a sleeper that never slept (time-to-live <= 0) runs as soon as it is started
IFire == \E s \in sleepers : s.at <= s.born /\ I!Fire(s) /\ UNCHANGED l /\ Stays

\* sequential response: begin by look-ahead, consume when the writer is done
TRespBegin ==
    /\ More /\ Ev.ev = "resp" /\ ~busy
    /\ I!WBegin(0, KeyOf(Ev), Ev.v, Ev.st, Ev.hh, Ev.hdr, Ev.sz)
    /\ busy' = TRUE /\ UNCHANGED <<l, pendR, doneR>>
TRespEnd ==
    /\ busy /\ wr[0].pc = "idle"
    /\ Consume("resp") /\ UNCHANGED <<model, pendR, doneR>>
    /\ Snap(Ev)
    /\ busy' = FALSE

IStep == \E w \in Writers : (I!WHas(w) \/ I!WCheck(w) \/ I!WInsert(w)) /\ UNCHANGED l /\ Stays

TReq ==
    /\ Consume("req") /\ ~busy
    /\ I!Answer(KeyOf(Ev)) = OutOf(Ev)
    /\ I!Req(KeyOf(Ev)) /\ Snap(Ev) /\ Stays

\* concurrent operations
TBeginW ==
    /\ Consume("begin") /\ Ev.op = "resp" /\ ~busy
    /\ I!WBegin(Ev.id, KeyOf(Ev), Ev.v, Ev.st, Ev.hh, Ev.hdr, Ev.sz)
    /\ Stays
TBeginR ==
    /\ Consume("begin") /\ Ev.op = "req" /\ ~busy
    /\ pendR' = pendR \cup {Ev}
    /\ UNCHANGED <<model, busy, doneR>>
ILinR == \E p \in pendR :
    /\ I!Answer(KeyOf(p)) = OutOf(p)
    /\ I!Req(KeyOf(p))
    /\ pendR' = pendR \ {p} /\ doneR' = doneR \cup {p.id}
    /\ UNCHANGED <<l, busy>>
TEnd ==
    /\ Consume("end")
    /\ \/ Ev.id \in doneR /\ doneR' = doneR \ {Ev.id}
       \/ Ev.id \in Writers /\ Ev.id \notin doneR /\ Ev.id \notin {p.id : p \in pendR}
          /\ wr[Ev.id].pc = "idle" /\ UNCHANGED doneR
    /\ UNCHANGED <<model, busy, pendR>>

TNext == TReset \/ TAdv \/ TFire \/ IFire \/ TRespBegin \/ TRespEnd \/ IStep \/ TReq
         \/ TBeginW \/ TBeginR \/ ILinR \/ TEnd

TraceSpec == TInit /\ [][TNext]_tvars

POk == ok
\* record the high-water mark; once the whole trace has been explained (depth-first search) nothing more is explored
HWM == Mark(l) /\ TLCGetOrDefault(1, 0) < TraceLen
Post == Report
================================================================================
