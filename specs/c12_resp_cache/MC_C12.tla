------------------------------- MODULE MC_C12 -------------------------------
(* bounded instances of CacheI for exhaustive checking (I => P) and for the    *)
(* extraction of counterexample schedules: a violated Cx* invariant prints     *)
(* the step history of the violating behaviour as one JSON line.               *)
EXTENDS CacheI, Json

cNoMax == -1

CxPOk == POk \/ ~PrintT(<<"CX", ToJson(hist)>>)
CxHeldBound == HeldBound \/ ~PrintT(<<"CX", ToJson(hist)>>)
CxAccounting == Accounting \/ ~PrintT(<<"CX", ToJson(hist)>>)
CxExact == Exact \/ ~PrintT(<<"CX", ToJson(hist)>>)

\* witnesses (thorough tier): each is *expected to be violated* - the situation it denies is reached by the model
LastStep == IF Len(hist) > 0 THEN hist[Len(hist)] ELSE [ev |-> "none"]
ViewL == <<View, last, LastStep>>      \* the witnesses look at the last step, which View hides
WitReplay == ~(last.ev = "req" /\ last.out.kind = "replay")
WitLaggingNoop == ~(last.ev = "req" /\ last.out.kind = "noop" /\ store[last.k] # NoEntry)      \* expired, clean-up lagging
WitSizeReject == ~(LastStep.ev = "wcheck" /\ wr[LastStep.w].pc = "idle")                       \* refused by the early size test
WitStaleSleeper == ~(LastStep.ev = "fire1" /\ LastStep.stale)                                  \* an old sleeper deletes a newer entry
=============================================================================
