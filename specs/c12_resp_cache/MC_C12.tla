------------------------------- MODULE MC_C12 -------------------------------
(* bounded instances of CacheI for exhaustive checking (I => P) and for the    *)
(* extraction of counterexample schedules: a violated Cx* invariant prints     *)
(* the step history of the violating behaviour as one JSON line.               *)
EXTENDS CacheI, Json

cNoMax == -1

CxPOk == POk \/ ~PrintT(<<"CX", ToJson(hist)>>)
CxHeldBound == HeldBound \/ ~PrintT(<<"CX", ToJson(hist)>>)
CxExact == Exact \/ ~PrintT(<<"CX", ToJson(hist)>>)
=============================================================================
