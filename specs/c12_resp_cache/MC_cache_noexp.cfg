CONSTANTS
  Key = {"k1", "k2"}
  Relevant = {429}
  Steps = {1, 2}
  PerSec = 2
  Writers = {"w1", "w2"}
  Typ = "cache"
  Ttl = 2
  MaxSize = 3
  Sts = {200}
  Hdrs = {}
  Szs = {1, 2}
  NVal = 3
  MaxNow = 5
  KF_UnlockedSizeCheck = FALSE
  TruncNow = FALSE
  NoExpiryTest = TRUE
  RefusalLeak = FALSE
  StalePeek = FALSE
  Sync = FALSE
  KeepHist = TRUE
  OneGate = FALSE
SPECIFICATION ISpec
VIEW View
INVARIANTS CxPOk
CHECK_DEADLOCK FALSE
