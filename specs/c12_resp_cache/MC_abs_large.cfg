CONSTANTS
  Key = {"k1", "k2"}
  Relevant = {429}
  Steps = {1, 2}
  PerSec = 2
  Writers = {"w1", "w2"}
  Typ = "abs"
  Ttl = 0
  MaxSize <- cNoMax
  Sts = {429, 200}
  Hdrs = {0, 2, 4}
  Szs = {1}
  NVal = 3
  MaxNow = 6
  KF_UnlockedSizeCheck = FALSE
  TruncNow = FALSE
  NoExpiryTest = FALSE
  RefusalLeak = FALSE
  StalePeek = FALSE
  Sync = FALSE
  KeepHist = TRUE
  OneGate = FALSE
SPECIFICATION ISpec
VIEW View
INVARIANTS CxPOk
CHECK_DEADLOCK FALSE
