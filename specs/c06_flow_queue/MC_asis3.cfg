\* thorough: the code as it is (open finding C06-O12: RequeueNewTs): every clause but Order holds, and Order fails only
\* for a request that was pushed back after a blocked attempt (OrderKF) - any other violation still surfaces
CONSTANTS
  Req = {"r1", "r2", "r3"}
  Prio <- cPrio3
  TTL = 2
  Slack = 1
  QueueSize = 2
  QMax = 1
  QW = 1
  MaxNow = 3
  Shutdowns = FALSE
  Faults = FALSE
  SplitSlotCheck = FALSE
  RequeueNewTs = TRUE
  StopAllGuarded = TRUE
  DrainRepeats = TRUE
  WatcherArbitrates = TRUE
  HeapFifo = TRUE
  SlotStrict = TRUE
  CallsStopAll = TRUE
  PushBeforeRegister = FALSE
  FaultDropsHead = FALSE
SPECIFICATION Spec
INVARIANTS TypeOK OneVerdict OnlyIfQuota SizeBound NoCrash Protocol Faithful OrderKF
VIEW View
CHECK_DEADLOCK FALSE

