------------------------------- MODULE GenC06 -------------------------------
(* Schedules for replay (spec -> code): random walks of the implementation-     *)
(* shaped model FlowQueueI (tlc -simulate).  Every step is recorded in `sched`  *)
(* as (process, label it left, label it reached, the loop's and the watcher's   *)
(* current request, the clock, the results); the driver turns a schedule into a *)
(* gate script that forces the same interleaving on the real queue processor.   *)
EXTENDS MC_C06, Json
CONSTANT GenDepth
VARIABLE sched

Changed(p) == pc'[p] # pc[p]
StepRec ==
    LET base == [cur |-> cur', w |-> w', now |-> now', result |-> result', dead |-> ps'.dead] IN
    IF now' # now THEN [p |-> "clock", from |-> "Tk", to |-> "Tk"] @@ base
    ELSE IF \E p \in ProcSet : Changed(p)
         THEN LET p == CHOOSE q \in ProcSet : Changed(q) IN [p |-> p, from |-> pc[p], to |-> pc'[p]] @@ base
         ELSE [p |-> "loop", from |-> pc["loop"], to |-> pc["loop"]] @@ base     \* Tick -> Tick (drain), Pop -> Pop (skip)

GInit == Init /\ sched = <<>>
\* Walks are generated for forcing: two things the harness cannot steer are left out of the walks (they stay in the
\* model that TLC checks exhaustively): the real TTL watcher takes an expired request at once (a walk in which the loop
\* still pops it could not be followed), and it stops with the context (no scan after cancellation).
PopOK == hs # <<>> => LET h == hs[HeadIdx(hs)] IN ~(h \in watch /\ state[h] = "enqueued" /\ now >= expireAt[h])
GStep == \/ \E self \in Req : R(self)
         \/ Tick \/ (Pop /\ PopOK) \/ Grant \/ Requeue \/ Faulted
         \/ (Scan /\ ~cancelled) \/ Signal
         \/ Sh \/ Clk
GNext == GStep /\ sched' = IF vars' = vars THEN sched ELSE Append(sched, StepRec)
GSpec == GInit /\ [][GNext]_<<vars, sched>>

Quiescent == (\A i \in Req : pc[i] = "Done") /\ now = MaxNow
Emit == (Len(sched) = GenDepth \/ (Quiescent /\ Len(sched) < GenDepth)) => PrintT(<<"VH", ToJson(sched)>>)
=============================================================================
