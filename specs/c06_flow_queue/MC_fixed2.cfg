\* quick (with MaxNow = 4) + thorough: the repaired design, 2 requests, shutdown at any point, quota consultations may fail -
\* every safety clause and liveness
CONSTANTS
  Req = {"r1", "r2"}
  Prio <- cPrio2
  TTL = 2
  Slack = 1
  QueueSize = 1
  QMax = 1
  QW = 2
  MaxNow = 5
  Shutdowns = TRUE
  Faults = TRUE
  SplitSlotCheck = FALSE
  RequeueNewTs = FALSE
  StopAllGuarded = TRUE
  DrainRepeats = TRUE
  WatcherArbitrates = TRUE
  HeapFifo = TRUE
  SlotStrict = TRUE
  CallsStopAll = TRUE
  PushBeforeRegister = FALSE
  FaultDropsHead = FALSE
SPECIFICATION FairSpec
INVARIANTS TypeOK OneVerdict OnlyIfQuota Order SizeBound NoCrash Protocol Faithful NotStranded
PROPERTIES Answered DrainReleases
VIEW View
CHECK_DEADLOCK FALSE

