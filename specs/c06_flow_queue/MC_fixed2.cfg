\* quick: the repaired design, 2 requests - every safety clause + liveness
CONSTANTS
  Req = {"r1", "r2"}
  Prio <- cPrio2
  TTL = 2
  Slack = 1
  QueueSize = 1
  QMax = 1
  QW = 2
  MaxNow = 5
  Shutdowns = TRUE
  SplitSlotCheck = FALSE
  RequeueNewTs = FALSE
  StopAllGuarded = TRUE
  DrainRepeats = TRUE
  WatcherArbitrates = TRUE
  HeapFifo = TRUE
  SlotStrict = TRUE
  CallsStopAll = TRUE
SPECIFICATION FairSpec
INVARIANTS TypeOK OneVerdict OnlyIfQuota Order SizeBound NoCrash Protocol Faithful
PROPERTY Answered
VIEW View
CHECK_DEADLOCK FALSE
