------------------------------ MODULE FlowQueueI ------------------------------
(* C06 - implementation-shaped specification of the flows-mode queue processor *)
(*   streams/processors/queue/queue_processor.go   enqueue / enqueueIfSlotAvailable / process /      *)
(*                                                 tryProcessQueueItems / processQueueItem / drainQueue *)
(*   streams/processors/queue/queue_request.go     StartProcessing / StopProcessing / SetProcessed*    *)
(*   streams/processors/queue/queue_request_watcher.go  AddRequest / RemoveFromWatchList / StopAll /  *)
(*                                                 manageTTLs / notifyExpiredRequests                  *)
(*   streams/lunar-context/shared_queue.go         memoryQueue (heap ordered by score, timestamp)      *)
(* One label per critical section of the code; the goroutines are processes:   *)
(*   R(i)     a request goroutine inside Execute -> enqueue                    *)
(*   Loop     queueProcessor.process (runs every 100 ms; here: at any time)    *)
(*   Watcher  RequestWatcher.manageTTLs                                        *)
(*   Sh       cancellation of the context-manager context                      *)
(*   Clk      the clock (abstract ticks)                                       *)
(* Every label that corresponds to an observable event of FlowQueueP feeds the *)
(* event to P (`ps`, `viol`); the invariants say that P accepts every event.   *)
(*                                                                             *)
(* Deviations of the code from the property are CONSTANT switches so that TLC  *)
(* shows the model tells them apart (DESIGN.md 2.6):                           *)
(*   SplitSlotCheck   TRUE  = the slot test (GetCount) is not repeated together *)
(*                            with the registration (AddRequest) (O13)         *)
(*   RequeueNewTs     TRUE  = a blocked head is pushed back with a new         *)
(*                            timestamp: it goes behind its priority class(O12)*)
(*   StopAllGuarded   FALSE = StopAll signals every watched request whatever   *)
(*                            its state (O11: second WaitGroup.Done)           *)
(*   DrainRepeats     FALSE = the loop returns after one StopAll; a request    *)
(*                            registering later is never released              *)
(* Mutants (never the code; they make TLC produce the shortest schedule that    *)
(* would expose such a change, which the harness then forces on the real code): *)
(*   WatcherArbitrates FALSE = the TTL watcher does not arbitrate with         *)
(*                            StartProcessing                                  *)
(*   HeapFifo         FALSE = the heap ignores timestamps within a priority    *)
(*   SlotStrict       FALSE = slot test `count > size` instead of `>=`         *)
(*   CallsStopAll     FALSE = cancellation does not release the waiters        *)
(*   PushBeforeRegister TRUE = the request id is pushed into the queue before   *)
(*                            the request is registered with the watcher: a    *)
(*                            tick in between pops an id it cannot find         *)
(*   FaultDropsHead   TRUE  = a failed quota consultation makes the loop give   *)
(*                            up the popped head without pushing it back        *)
(* Faults = TRUE lets any quota consultation of the loop fail (environment).    *)
EXTENDS Integers, Sequences, FiniteSets, TLC

CONSTANTS Req, Prio, TTL, Slack, QueueSize, QMax, QW, MaxNow, Shutdowns,
          SplitSlotCheck, RequeueNewTs, StopAllGuarded, DrainRepeats,
          WatcherArbitrates, HeapFifo, SlotStrict, CallsStopAll, PushBeforeRegister, FaultDropsHead, Faults

P == INSTANCE FlowQueueP

NoReq == "none"
ASSUME NoReq \notin Req

\* the heap: `hs` lists the queued ids in timestamp order; the head is the earliest id of the lowest priority number
MinPrio(s) == CHOOSE p \in {Prio[s[k]] : k \in 1..Len(s)} : \A k \in 1..Len(s) : p <= Prio[s[k]]
HeadIdx(s) == CHOOSE k \in 1..Len(s) : Prio[s[k]] = MinPrio(s) /\ \A m \in 1..(k-1) : Prio[s[m]] # MinPrio(s)
\* positions the pop may return: the head; without FIFO inside a priority any item of the lowest priority number
Heads(s) == IF HeapFifo THEN {HeadIdx(s)} ELSE {k \in 1..Len(s) : Prio[s[k]] = MinPrio(s)}
Full(c) == IF SlotStrict THEN c >= QueueSize ELSE c > QueueSize
Without(s, i) == SelectSeq(s, LAMBDA x : x # i)
\* push keeping the original enqueue timestamp (ord): before every item that was first queued later
InsertByOrd(s, i, ord) ==
    LET k == Cardinality({m \in 1..Len(s) : ord[s[m]] < ord[i]}) IN
    SubSeq(s, 1, k) \o <<i>> \o SubSeq(s, k + 1, Len(s))

(* --algorithm FlowQueueI {
variables
    now = 0,
    cancelled = FALSE,
    count = 0,                                  \* RequestWatcher.requestCount
    watch = {},                                 \* RequestWatcher.requests / requestsExpireAt
    hs = <<>>,                                  \* memoryQueue
    ord = [i \in Req |-> 0], nord = 0,          \* first-enqueue order (original timestamps)
    state = [i \in Req |-> "enqueued"],         \* Request.state
    result = [i \in Req |-> "pending"],         \* Request.result
    wg = [i \in Req |-> 1],                     \* Request.waitGroup counter
    expireAt = [i \in Req |-> 0],
    qwin = 0 - QW, qcnt = 0,                    \* attached quota: fixed window of QW ticks (start, count), QMax per window
    inDrain = FALSE,
    requeued = {},                              \* bookkeeping for witnesses only
    ps = P!PInit, viol = {};

define {
    Ev(name) == [ev |-> name, t |-> now]
    EvI(name, i) == [ev |-> name, id |-> i, t |-> now]
}

macro emit(e) {
    viol := P!Viol(ps, e) || ps := P!Step(ps, e);
}
macro emit2(e1, e2) {
    viol := P!Viol(ps, e1) \cup P!Viol(P!Step(ps, e1), e2) || ps := P!Step(P!Step(ps, e1), e2);
}

\* setSignal = WaitGroup.Done, reported to P as event e; a counter below zero is Go's
\* "sync: negative WaitGroup counter" panic: the process dies
macro signal(i, e) {
    if (wg[i] <= 0) { emit([ev |-> "crash"]); } else { emit(e); };
    wg[i] := wg[i] - 1;
}

\* `for p.queue.Size() > 0`: the size test at the head of every iteration of tryProcessQueueItems
macro iterate() {
    if (hs = <<>>) { goto Tick; } else { goto Pop; };
}

process (R \in Req)
{
 Arrive:    \* NewRequest (timestamps) and the slot test of enqueueIfSlotAvailable   [-> yield q.after_slot_check]
    await now + TTL < MaxNow /\ ~ps.dead;
    expireAt[self] := now + TTL;
    emit([ev |-> "arrive", id |-> self, prio |-> Prio[self], t |-> now]);
    if (Full(count)) { goto Refuse; };
 Enroll:    \* first step of the enrolment: AddRequest (count - repaired: test and increment in one step -, watch list)
            \*                                                                       [yield q.after_slot_check ->]
    await ~ps.dead;
    if (~SplitSlotCheck /\ Full(count)) {
        goto Refuse;
    } else {
        count := count + 1;
        if (PushBeforeRegister) {
            hs := Append(hs, self);
            nord := nord + 1;
            ord[self] := nord;
        } else {
            watch := watch \cup {self};
        };
    };
 Push:      \* second step: queue.Enqueue - the id becomes visible to the loop        [yield mq.enqueue -> event q.enqueued]
    await ~ps.dead;
    if (PushBeforeRegister) {
        watch := watch \cup {self};
    } else {
        hs := Append(hs, self);
        nord := nord + 1;
        ord[self] := nord;
    };
    emit(EvI("enq", self));
 Wait:      \* Request.Wait
    await wg[self] <= 0 /\ ~ps.dead;
 Return:
    emit([ev |-> "verdict", id |-> self, out |-> IF result[self] = "success" THEN "allowed" ELSE "blocked", t |-> now]);
 Remove:    \* go removeRequest: RemoveFromWatchList, queue.Remove                   [yield q.before_remove ->]
    await ~ps.dead;
    count := count - 1;
    watch := watch \ {self};
    hs := Without(hs, self);
    goto Done;
 Refuse:
    emit([ev |-> "verdict", id |-> self, out |-> "blocked", t |-> now]);
}

process (Loop = "loop")
variables cur = NoReq, fl = FALSE;
{
 Tick:      \* process(): after the 100 ms timer                                     [yield q.loop_tick ->]
    await ~ps.dead;
    if (cancelled) {
        \* drainQueue: inDrainMode, StopAll (under the watch-list read lock)
        inDrain := TRUE;
        if (CallsStopAll) {
            with (S = IF StopAllGuarded THEN {i \in watch : state[i] = "enqueued"} ELSE watch) {
                result := [i \in Req |-> IF i \in S THEN "timeout" ELSE result[i]];
                state := [i \in Req |-> IF i \in S THEN "processed" ELSE state[i]];
                if (\E i \in S : wg[i] <= 0) { emit([ev |-> "crash"]); } else { emit(Ev("drain")); };
                wg := [i \in Req |-> IF i \in S THEN wg[i] - 1 ELSE wg[i]];
            };
        };
        if (DrainRepeats) { goto Tick; } else { goto Done; };
    } else {
        iterate();
    };
 Pop:       \* tryProcessQueueItems: DequeueIfValueRelevant, GetRequest, StartProcessing, then [yield q.loop_pop ->]
            \* prepareQuotaForNextAttempt (Inc) + checkIfAllowed (Allowed); nothing is admitted in drain mode.
            \* One step: only this goroutine pops and uses the quota, and a competing StartProcessing of the
            \* watcher between the pop and this StartProcessing has the same effect as one before the pop.
    await ~ps.dead;
    if (hs = <<>>) {
        \* the last item was removed after the size test: the pop returns nothing
        emit(Ev("pick"));
        goto Tick;
    } else {
        with (k \in Heads(hs),
              f \in (IF Faults /\ ~inDrain /\ hs[k] \in watch /\ state[hs[k]] = "enqueued" THEN BOOLEAN ELSE {FALSE})) {
            cur := hs[k];
            hs := Without(hs, hs[k]);
            fl := f;
        };
        if (fl) {
            \* the quota cannot be consulted (GetQuota fails): nothing is admitted, the answer reads "not allowed"
            state[cur] := "processing";
            emit2(Ev("pick"), [ev |-> "quota", id |-> cur, ok |-> FALSE]);
            goto Faulted;
        } else if (cur \in watch /\ state[cur] = "enqueued") {
            state[cur] := "processing";
            \* fixed window anchored at the first admitted increment after the previous window ran out
            with (fresh = now - qwin >= QW, c = IF now - qwin >= QW THEN 0 ELSE qcnt) {
                if (~inDrain /\ c < QMax) {
                    qcnt := c + 1;
                    qwin := IF fresh THEN now ELSE qwin;
                    emit2(Ev("pick"), [ev |-> "quota", id |-> cur, ok |-> TRUE]);
                } else {
                    emit2(Ev("pick"), [ev |-> "quota", id |-> cur, ok |-> FALSE]);
                    goto Requeue;
                };
            };
        } else {
            emit(Ev("pick"));
            iterate();
        };
    };
 Grant:     \* SetProcessedSuccess                                                  [yield q.quota ->]
    await ~ps.dead;
    result[cur] := "success";
    state[cur] := "processed";
    signal(cur, EvI("grant", cur));
    iterate();
 Faulted:   \* a failed consultation is handled like a blocked one: push back, StopProcessing, return  [yield q.quota ->]
    if (~FaultDropsHead) {
        hs := IF RequeueNewTs THEN Append(hs, cur) ELSE InsertByOrd(hs, cur, ord);
    };
    state[cur] := "enqueued";
    requeued := requeued \cup {cur};
    fl := FALSE;
    goto Tick;
 Requeue:   \* queue.Enqueue again, StopProcessing, return                          [yield q.quota ->]
    hs := IF RequeueNewTs THEN Append(hs, cur) ELSE InsertByOrd(hs, cur, ord);
    state[cur] := "enqueued";
    requeued := requeued \cup {cur};
    goto Tick;
}

process (Watcher = "watcher")
variables w = NoReq;
{
 Scan:      \* notifyExpiredRequests: an expired watched request; StartProcessing arbitrates
    await ~ps.dead;
    with (i \in {j \in watch : now > expireAt[j] /\ (WatcherArbitrates => state[j] = "enqueued")}) {
        w := i;
        if (WatcherArbitrates) { state[i] := "processing"; };
    };
 Signal:    \* SetProcessedTimeout                                                  [yield q.before_signal ->]
    await ~ps.dead;
    result[w] := "timeout";
    state[w] := "processed";
    signal(w, EvI("expire", w));
    goto Scan;
}

process (Sh = "shutdown")
{
 Cancel:
    await Shutdowns /\ ~ps.dead;
    cancelled := TRUE;
    emit(Ev("shutdown"));
}

process (Clk = "clock")
{
 Tk:
    while (now < MaxNow) { now := now + 1; };
}
} *)
\* BEGIN TRANSLATION
VARIABLES pc, now, cancelled, count, watch, hs, ord, nord, state, result, wg, 
          expireAt, qwin, qcnt, inDrain, requeued, ps, viol

(* define statement *)
Ev(name) == [ev |-> name, t |-> now]
EvI(name, i) == [ev |-> name, id |-> i, t |-> now]

VARIABLES cur, fl, w

vars == << pc, now, cancelled, count, watch, hs, ord, nord, state, result, wg, 
           expireAt, qwin, qcnt, inDrain, requeued, ps, viol, cur, fl, w >>

ProcSet == (Req) \cup {"loop"} \cup {"watcher"} \cup {"shutdown"} \cup {"clock"}

Init == (* Global variables *)
        /\ now = 0
        /\ cancelled = FALSE
        /\ count = 0
        /\ watch = {}
        /\ hs = <<>>
        /\ ord = [i \in Req |-> 0]
        /\ nord = 0
        /\ state = [i \in Req |-> "enqueued"]
        /\ result = [i \in Req |-> "pending"]
        /\ wg = [i \in Req |-> 1]
        /\ expireAt = [i \in Req |-> 0]
        /\ qwin = 0 - QW
        /\ qcnt = 0
        /\ inDrain = FALSE
        /\ requeued = {}
        /\ ps = P!PInit
        /\ viol = {}
        (* Process Loop *)
        /\ cur = NoReq
        /\ fl = FALSE
        (* Process Watcher *)
        /\ w = NoReq
        /\ pc = [self \in ProcSet |-> CASE self \in Req -> "Arrive"
                                        [] self = "loop" -> "Tick"
                                        [] self = "watcher" -> "Scan"
                                        [] self = "shutdown" -> "Cancel"
                                        [] self = "clock" -> "Tk"]

Arrive(self) == /\ pc[self] = "Arrive"
                /\ now + TTL < MaxNow /\ ~ps.dead
                /\ expireAt' = [expireAt EXCEPT ![self] = now + TTL]
                /\ /\ ps' = P!Step(ps, ([ev |-> "arrive", id |-> self, prio |-> Prio[self], t |-> now]))
                   /\ viol' = P!Viol(ps, ([ev |-> "arrive", id |-> self, prio |-> Prio[self], t |-> now]))
                /\ IF Full(count)
                      THEN /\ pc' = [pc EXCEPT ![self] = "Refuse"]
                      ELSE /\ pc' = [pc EXCEPT ![self] = "Enroll"]
                /\ UNCHANGED << now, cancelled, count, watch, hs, ord, nord, 
                                state, result, wg, qwin, qcnt, inDrain, 
                                requeued, cur, fl, w >>

Enroll(self) == /\ pc[self] = "Enroll"
                /\ ~ps.dead
                /\ IF ~SplitSlotCheck /\ Full(count)
                      THEN /\ pc' = [pc EXCEPT ![self] = "Refuse"]
                           /\ UNCHANGED << count, watch, hs, ord, nord >>
                      ELSE /\ count' = count + 1
                           /\ IF PushBeforeRegister
                                 THEN /\ hs' = Append(hs, self)
                                      /\ nord' = nord + 1
                                      /\ ord' = [ord EXCEPT ![self] = nord']
                                      /\ watch' = watch
                                 ELSE /\ watch' = (watch \cup {self})
                                      /\ UNCHANGED << hs, ord, nord >>
                           /\ pc' = [pc EXCEPT ![self] = "Push"]
                /\ UNCHANGED << now, cancelled, state, result, wg, expireAt, 
                                qwin, qcnt, inDrain, requeued, ps, viol, cur, 
                                fl, w >>

Push(self) == /\ pc[self] = "Push"
              /\ ~ps.dead
              /\ IF PushBeforeRegister
                    THEN /\ watch' = (watch \cup {self})
                         /\ UNCHANGED << hs, ord, nord >>
                    ELSE /\ hs' = Append(hs, self)
                         /\ nord' = nord + 1
                         /\ ord' = [ord EXCEPT ![self] = nord']
                         /\ watch' = watch
              /\ /\ ps' = P!Step(ps, (EvI("enq", self)))
                 /\ viol' = P!Viol(ps, (EvI("enq", self)))
              /\ pc' = [pc EXCEPT ![self] = "Wait"]
              /\ UNCHANGED << now, cancelled, count, state, result, wg, 
                              expireAt, qwin, qcnt, inDrain, requeued, cur, fl, 
                              w >>

Wait(self) == /\ pc[self] = "Wait"
              /\ wg[self] <= 0 /\ ~ps.dead
              /\ pc' = [pc EXCEPT ![self] = "Return"]
              /\ UNCHANGED << now, cancelled, count, watch, hs, ord, nord, 
                              state, result, wg, expireAt, qwin, qcnt, inDrain, 
                              requeued, ps, viol, cur, fl, w >>

Return(self) == /\ pc[self] = "Return"
                /\ /\ ps' = P!Step(ps, ([ev |-> "verdict", id |-> self, out |-> IF result[self] = "success" THEN "allowed" ELSE "blocked", t |-> now]))
                   /\ viol' = P!Viol(ps, ([ev |-> "verdict", id |-> self, out |-> IF result[self] = "success" THEN "allowed" ELSE "blocked", t |-> now]))
                /\ pc' = [pc EXCEPT ![self] = "Remove"]
                /\ UNCHANGED << now, cancelled, count, watch, hs, ord, nord, 
                                state, result, wg, expireAt, qwin, qcnt, 
                                inDrain, requeued, cur, fl, w >>

Remove(self) == /\ pc[self] = "Remove"
                /\ ~ps.dead
                /\ count' = count - 1
                /\ watch' = watch \ {self}
                /\ hs' = Without(hs, self)
                /\ pc' = [pc EXCEPT ![self] = "Done"]
                /\ UNCHANGED << now, cancelled, ord, nord, state, result, wg, 
                                expireAt, qwin, qcnt, inDrain, requeued, ps, 
                                viol, cur, fl, w >>

Refuse(self) == /\ pc[self] = "Refuse"
                /\ /\ ps' = P!Step(ps, ([ev |-> "verdict", id |-> self, out |-> "blocked", t |-> now]))
                   /\ viol' = P!Viol(ps, ([ev |-> "verdict", id |-> self, out |-> "blocked", t |-> now]))
                /\ pc' = [pc EXCEPT ![self] = "Done"]
                /\ UNCHANGED << now, cancelled, count, watch, hs, ord, nord, 
                                state, result, wg, expireAt, qwin, qcnt, 
                                inDrain, requeued, cur, fl, w >>

R(self) == Arrive(self) \/ Enroll(self) \/ Push(self) \/ Wait(self)
              \/ Return(self) \/ Remove(self) \/ Refuse(self)

Tick == /\ pc["loop"] = "Tick"
        /\ ~ps.dead
        /\ IF cancelled
              THEN /\ inDrain' = TRUE
                   /\ IF CallsStopAll
                         THEN /\ LET S == IF StopAllGuarded THEN {i \in watch : state[i] = "enqueued"} ELSE watch IN
                                   /\ result' = [i \in Req |-> IF i \in S THEN "timeout" ELSE result[i]]
                                   /\ state' = [i \in Req |-> IF i \in S THEN "processed" ELSE state[i]]
                                   /\ IF \E i \in S : wg[i] <= 0
                                         THEN /\ /\ ps' = P!Step(ps, ([ev |-> "crash"]))
                                                 /\ viol' = P!Viol(ps, ([ev |-> "crash"]))
                                         ELSE /\ /\ ps' = P!Step(ps, (Ev("drain")))
                                                 /\ viol' = P!Viol(ps, (Ev("drain")))
                                   /\ wg' = [i \in Req |-> IF i \in S THEN wg[i] - 1 ELSE wg[i]]
                         ELSE /\ TRUE
                              /\ UNCHANGED << state, result, wg, ps, viol >>
                   /\ IF DrainRepeats
                         THEN /\ pc' = [pc EXCEPT !["loop"] = "Tick"]
                         ELSE /\ pc' = [pc EXCEPT !["loop"] = "Done"]
              ELSE /\ IF hs = <<>>
                         THEN /\ pc' = [pc EXCEPT !["loop"] = "Tick"]
                         ELSE /\ pc' = [pc EXCEPT !["loop"] = "Pop"]
                   /\ UNCHANGED << state, result, wg, inDrain, ps, viol >>
        /\ UNCHANGED << now, cancelled, count, watch, hs, ord, nord, expireAt, 
                        qwin, qcnt, requeued, cur, fl, w >>

Pop == /\ pc["loop"] = "Pop"
       /\ ~ps.dead
       /\ IF hs = <<>>
             THEN /\ /\ ps' = P!Step(ps, (Ev("pick")))
                     /\ viol' = P!Viol(ps, (Ev("pick")))
                  /\ pc' = [pc EXCEPT !["loop"] = "Tick"]
                  /\ UNCHANGED << hs, state, qwin, qcnt, cur, fl >>
             ELSE /\ \E k \in Heads(hs):
                       \E f \in (IF Faults /\ ~inDrain /\ hs[k] \in watch /\ state[hs[k]] = "enqueued" THEN BOOLEAN ELSE {FALSE}):
                         /\ cur' = hs[k]
                         /\ hs' = Without(hs, hs[k])
                         /\ fl' = f
                  /\ IF fl'
                        THEN /\ state' = [state EXCEPT ![cur'] = "processing"]
                             /\ /\ ps' = P!Step(P!Step(ps, (Ev("pick"))), ([ev |-> "quota", id |-> cur', ok |-> FALSE]))
                                /\ viol' = (P!Viol(ps, (Ev("pick"))) \cup P!Viol(P!Step(ps, (Ev("pick"))), ([ev |-> "quota", id |-> cur', ok |-> FALSE])))
                             /\ pc' = [pc EXCEPT !["loop"] = "Faulted"]
                             /\ UNCHANGED << qwin, qcnt >>
                        ELSE /\ IF cur' \in watch /\ state[cur'] = "enqueued"
                                   THEN /\ state' = [state EXCEPT ![cur'] = "processing"]
                                        /\ LET fresh == now - qwin >= QW IN
                                             LET c == IF now - qwin >= QW THEN 0 ELSE qcnt IN
                                               IF ~inDrain /\ c < QMax
                                                  THEN /\ qcnt' = c + 1
                                                       /\ qwin' = IF fresh THEN now ELSE qwin
                                                       /\ /\ ps' = P!Step(P!Step(ps, (Ev("pick"))), ([ev |-> "quota", id |-> cur', ok |-> TRUE]))
                                                          /\ viol' = (P!Viol(ps, (Ev("pick"))) \cup P!Viol(P!Step(ps, (Ev("pick"))), ([ev |-> "quota", id |-> cur', ok |-> TRUE])))
                                                       /\ pc' = [pc EXCEPT !["loop"] = "Grant"]
                                                  ELSE /\ /\ ps' = P!Step(P!Step(ps, (Ev("pick"))), ([ev |-> "quota", id |-> cur', ok |-> FALSE]))
                                                          /\ viol' = (P!Viol(ps, (Ev("pick"))) \cup P!Viol(P!Step(ps, (Ev("pick"))), ([ev |-> "quota", id |-> cur', ok |-> FALSE])))
                                                       /\ pc' = [pc EXCEPT !["loop"] = "Requeue"]
                                                       /\ UNCHANGED << qwin, 
                                                                       qcnt >>
                                   ELSE /\ /\ ps' = P!Step(ps, (Ev("pick")))
                                           /\ viol' = P!Viol(ps, (Ev("pick")))
                                        /\ IF hs' = <<>>
                                              THEN /\ pc' = [pc EXCEPT !["loop"] = "Tick"]
                                              ELSE /\ pc' = [pc EXCEPT !["loop"] = "Pop"]
                                        /\ UNCHANGED << state, qwin, qcnt >>
       /\ UNCHANGED << now, cancelled, count, watch, ord, nord, result, wg, 
                       expireAt, inDrain, requeued, w >>

Grant == /\ pc["loop"] = "Grant"
         /\ ~ps.dead
         /\ result' = [result EXCEPT ![cur] = "success"]
         /\ state' = [state EXCEPT ![cur] = "processed"]
         /\ IF wg[cur] <= 0
               THEN /\ /\ ps' = P!Step(ps, ([ev |-> "crash"]))
                       /\ viol' = P!Viol(ps, ([ev |-> "crash"]))
               ELSE /\ /\ ps' = P!Step(ps, (EvI("grant", cur)))
                       /\ viol' = P!Viol(ps, (EvI("grant", cur)))
         /\ wg' = [wg EXCEPT ![cur] = wg[cur] - 1]
         /\ IF hs = <<>>
               THEN /\ pc' = [pc EXCEPT !["loop"] = "Tick"]
               ELSE /\ pc' = [pc EXCEPT !["loop"] = "Pop"]
         /\ UNCHANGED << now, cancelled, count, watch, hs, ord, nord, expireAt, 
                         qwin, qcnt, inDrain, requeued, cur, fl, w >>

Faulted == /\ pc["loop"] = "Faulted"
           /\ IF ~FaultDropsHead
                 THEN /\ hs' = IF RequeueNewTs THEN Append(hs, cur) ELSE InsertByOrd(hs, cur, ord)
                 ELSE /\ TRUE
                      /\ hs' = hs
           /\ state' = [state EXCEPT ![cur] = "enqueued"]
           /\ requeued' = (requeued \cup {cur})
           /\ fl' = FALSE
           /\ pc' = [pc EXCEPT !["loop"] = "Tick"]
           /\ UNCHANGED << now, cancelled, count, watch, ord, nord, result, wg, 
                           expireAt, qwin, qcnt, inDrain, ps, viol, cur, w >>

Requeue == /\ pc["loop"] = "Requeue"
           /\ hs' = IF RequeueNewTs THEN Append(hs, cur) ELSE InsertByOrd(hs, cur, ord)
           /\ state' = [state EXCEPT ![cur] = "enqueued"]
           /\ requeued' = (requeued \cup {cur})
           /\ pc' = [pc EXCEPT !["loop"] = "Tick"]
           /\ UNCHANGED << now, cancelled, count, watch, ord, nord, result, wg, 
                           expireAt, qwin, qcnt, inDrain, ps, viol, cur, fl, w >>

Loop == Tick \/ Pop \/ Grant \/ Faulted \/ Requeue

Scan == /\ pc["watcher"] = "Scan"
        /\ ~ps.dead
        /\ \E i \in {j \in watch : now > expireAt[j] /\ (WatcherArbitrates => state[j] = "enqueued")}:
             /\ w' = i
             /\ IF WatcherArbitrates
                   THEN /\ state' = [state EXCEPT ![i] = "processing"]
                   ELSE /\ TRUE
                        /\ state' = state
        /\ pc' = [pc EXCEPT !["watcher"] = "Signal"]
        /\ UNCHANGED << now, cancelled, count, watch, hs, ord, nord, result, 
                        wg, expireAt, qwin, qcnt, inDrain, requeued, ps, viol, 
                        cur, fl >>

Signal == /\ pc["watcher"] = "Signal"
          /\ ~ps.dead
          /\ result' = [result EXCEPT ![w] = "timeout"]
          /\ state' = [state EXCEPT ![w] = "processed"]
          /\ IF wg[w] <= 0
                THEN /\ /\ ps' = P!Step(ps, ([ev |-> "crash"]))
                        /\ viol' = P!Viol(ps, ([ev |-> "crash"]))
                ELSE /\ /\ ps' = P!Step(ps, (EvI("expire", w)))
                        /\ viol' = P!Viol(ps, (EvI("expire", w)))
          /\ wg' = [wg EXCEPT ![w] = wg[w] - 1]
          /\ pc' = [pc EXCEPT !["watcher"] = "Scan"]
          /\ UNCHANGED << now, cancelled, count, watch, hs, ord, nord, 
                          expireAt, qwin, qcnt, inDrain, requeued, cur, fl, w >>

Watcher == Scan \/ Signal

Cancel == /\ pc["shutdown"] = "Cancel"
          /\ Shutdowns /\ ~ps.dead
          /\ cancelled' = TRUE
          /\ /\ ps' = P!Step(ps, (Ev("shutdown")))
             /\ viol' = P!Viol(ps, (Ev("shutdown")))
          /\ pc' = [pc EXCEPT !["shutdown"] = "Done"]
          /\ UNCHANGED << now, count, watch, hs, ord, nord, state, result, wg, 
                          expireAt, qwin, qcnt, inDrain, requeued, cur, fl, w >>

Sh == Cancel

Tk == /\ pc["clock"] = "Tk"
      /\ IF now < MaxNow
            THEN /\ now' = now + 1
                 /\ pc' = [pc EXCEPT !["clock"] = "Tk"]
            ELSE /\ pc' = [pc EXCEPT !["clock"] = "Done"]
                 /\ now' = now
      /\ UNCHANGED << cancelled, count, watch, hs, ord, nord, state, result, 
                      wg, expireAt, qwin, qcnt, inDrain, requeued, ps, viol, 
                      cur, fl, w >>

Clk == Tk

(* Allow infinite stuttering to prevent deadlock on termination. *)
Terminating == /\ \A self \in ProcSet: pc[self] = "Done"
               /\ UNCHANGED vars

Next == Loop \/ Watcher \/ Sh \/ Clk
           \/ (\E self \in Req: R(self))
           \/ Terminating

Spec == Init /\ [][Next]_vars

Termination == <>(\A self \in ProcSet: pc[self] = "Done")

\* END TRANSLATION
-------------------------------------------------------------------------------
\* I => P : every observable event of the implementation model is accepted by the property specification
OneVerdict  == "OneVerdict" \notin viol
OnlyIfQuota == "OnlyIfQuota" \notin viol
Order       == "Order" \notin viol
SizeBound   == "SizeBound" \notin viol
NoCrash     == "NoCrash" \notin viol /\ \A i \in Req : wg[i] \in {0, 1}
Protocol    == "Protocol" \notin viol
\* open finding C06-O12 (RequeueNewTs): the only order inversions are those overtaking a request that was pushed back
OrderKF     == "Order" \in viol => \E j \in requeued : ps.ph[j] = "waiting"
\* the verdict returned is the decision taken
Faithful    == \A i \in Req : pc[i] = "Remove" /\ ps.ph[i] = "answered" /\ i \in ps.granted /\ ~cancelled
                               => result[i] = "success"

\* safety forms of DrainSafe (they make the variants' counterexamples short; Answered below is the property itself):
\* the loop never returns while a request waits unanswered, and a drain releases every watched waiting request
NotStranded   == ~(pc["loop"] = "Done" /\ \E i \in Req : pc[i] = "Wait" /\ wg[i] = 1)
DrainReleases == [][(Tick /\ cancelled) => \A i \in watch' : state'[i] # "enqueued"]_vars

\* model-level sanity
TypeOK == /\ count \in 0..(Cardinality(Req))
          /\ watch \subseteq Req
          /\ \A k \in 1..Len(hs) : hs[k] \in Req
          /\ state \in [Req -> {"enqueued", "processing", "processed"}]

\* fairness: every goroutine that can run eventually runs; the TTL watcher is only certain to run while the
\* context is alive (after cancellation its select may take ctx.Done; a scan in progress completes) - strongly fair: it
\* retries an expired request without pause, while the loop holds a request in `processing` only for one quota call per
\* 100 ms tick -, the clock runs
FairSpec == /\ Spec
            /\ \A i \in Req : WF_vars(R(i))
            /\ WF_vars(Loop)
            /\ SF_vars(~cancelled /\ Scan) /\ WF_vars(Signal)
            /\ WF_vars(Clk)
\* every request that reached the processor gets its verdict (InTTL, eventual form; DrainSafe with shutdown)
Answered == \A i \in Req : (pc[i] \in {"Enroll", "Push", "Wait"}) ~> (pc[i] \in {"Return", "Remove", "Done"} \/ ps.dead)

\* fingerprint of a state: everything (`requeued` is bookkeeping for OrderKF and the witnesses, it follows from the rest
\* of the history only, so it stays in)
View == vars

\* witnesses (expected to be VIOLATED: non-vacuity of the antecedents)
W_Requeued   == requeued = {}
W_TwoWaiting == Cardinality(P!Waiting(ps)) < 2
W_Granted    == ps.granted = {}
W_Expired    == \A i \in Req : result[i] # "timeout"
W_Drained    == ~(inDrain /\ \E i \in Req : ps.ph[i] = "answered" /\ i \notin ps.granted)
================================================================================
