---------------------------- MODULE FlowQueueTrace ----------------------------
(* C06 - trace validation of recorded executions of the real queue processor   *)
(* against the property specification FlowQueueP.                              *)
(*                                                                             *)
(* trace.ndjson: line 1 = {"ev":"config","ids":[..],"ttl":ms,"slack":ms,       *)
(* "qsize":n}; then histories, each starting with {"ev":"reset"}, of events    *)
(* stamped by the harness (arrive, verdict, shutdown, end, crash) and by the    *)
(* yield points of the processor (enq, pick, quota, grant, expire, drain); in   *)
(* ms.  Implementation-level events (slot, tick, requeue, stopall, ...) are    *)
(* not part of the property and are skipped.  Each property event e must be    *)
(* accepted: Viol(state, e) = {} - one invariant per clause of the statement.  *)
(*                                                                             *)
(* Gated recordings ({"ev":"reset","gated":true}): the harness holds goroutines *)
(* at yield points to force a schedule, i.e. it delays them at will.  The time  *)
(* predicate is a statement about the code under fair scheduling, so it is not  *)
(* judged while gates are in effect; {"ev":"free","t":u} marks the instant all  *)
(* gates were removed: from then on every request still pending must be         *)
(* answered within TTL + Slack of u (a stranded request is still caught).       *)
(* Ordering, size, quota, single-decision and crash clauses are judged always.  *)
EXTENDS TraceLib, Integers, FiniteSets

Cfg == TraceLog[1]
Req == {Cfg.ids[k] : k \in 1..Len(Cfg.ids)}

VARIABLES l, ps, viol, gated

P == INSTANCE FlowQueueP WITH TTL <- Cfg.ttl, Slack <- Cfg.slack, QueueSize <- Cfg.qsize

PEvents == {"arrive", "enq", "pick", "quota", "grant", "expire", "drain", "verdict", "shutdown", "crash", "end"}

tvars == <<l, ps, viol, gated>>
Ev == TraceLog[l + 1]

TInit == l = 1 /\ ps = P!PInit /\ viol = {} /\ gated = FALSE

TReset == /\ l < TraceLen /\ Ev.ev = "reset" /\ l' = l + 1 /\ ps' = P!PInit /\ viol' = {}
          /\ gated' = (Has(Ev, "gated") /\ Ev.gated)

TEvent == /\ l < TraceLen /\ Ev.ev \in PEvents /\ l' = l + 1
          /\ viol' = P!Viol(ps, Ev) \ (IF gated THEN {"InTTL"} ELSE {})
          /\ ps' = P!Step(ps, Ev)
          /\ UNCHANGED gated

Pending(i) == ps.ph[i] \in {"arrived", "waiting", "drained", "decided"}
TFree == /\ l < TraceLen /\ Ev.ev = "free" /\ l' = l + 1
         /\ gated' = FALSE
         /\ ps' = IF gated
                  THEN [ps EXCEPT !.base = [i \in Req |-> IF Pending(i) /\ Ev.t > @[i] THEN Ev.t ELSE @[i]]]
                  ELSE ps
         /\ UNCHANGED viol

TSkip == l < TraceLen /\ Ev.ev \notin PEvents \cup {"reset", "free"} /\ l' = l + 1 /\ UNCHANGED <<ps, viol, gated>>

TNext == TReset \/ TEvent \/ TFree \/ TSkip
TraceSpec == TInit /\ [][TNext]_tvars

T_OneVerdict  == "OneVerdict" \notin viol
T_InTTL       == "InTTL" \notin viol
T_OnlyIfQuota == "OnlyIfQuota" \notin viol
T_Order       == "Order" \notin viol
T_SizeBound   == "SizeBound" \notin viol
T_NoCrash     == "NoCrash" \notin viol
T_Protocol    == "Protocol" \notin viol

HWM == Mark(l)
Post == Report
================================================================================
