SPECIFICATION TraceSpec
INVARIANTS T_NoCrash T_OneVerdict T_OnlyIfQuota T_Order T_SizeBound T_InTTL T_Protocol
CONSTRAINT HWM
POSTCONDITION Post
CHECK_DEADLOCK FALSE
