\* thorough: the repaired design, 3 requests with two priorities, queue of 2, no shutdown - every safety clause
CONSTANTS
  Req = {"r1", "r2", "r3"}
  Prio <- cPrio3
  TTL = 2
  Slack = 1
  QueueSize = 2
  QMax = 1
  QW = 1
  MaxNow = 3
  Shutdowns = FALSE
  Faults = FALSE
  SplitSlotCheck = FALSE
  RequeueNewTs = FALSE
  StopAllGuarded = TRUE
  DrainRepeats = TRUE
  WatcherArbitrates = TRUE
  HeapFifo = TRUE
  SlotStrict = TRUE
  CallsStopAll = TRUE
  PushBeforeRegister = FALSE
  FaultDropsHead = FALSE
SPECIFICATION Spec
INVARIANTS TypeOK OneVerdict OnlyIfQuota Order SizeBound NoCrash Protocol Faithful
VIEW View
CHECK_DEADLOCK FALSE

