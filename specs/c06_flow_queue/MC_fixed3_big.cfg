\* optional (VERIF_C06_BIG=1): as MC_fixed3 with a 2-tick quota window and one more tick
CONSTANTS
  Req = {"r1", "r2", "r3"}
  Prio <- cPrio3
  TTL = 2
  Slack = 1
  QueueSize = 2
  QMax = 1
  QW = 2
  MaxNow = 4
  Shutdowns = FALSE
  Faults = FALSE
  SplitSlotCheck = FALSE
  RequeueNewTs = FALSE
  StopAllGuarded = TRUE
  DrainRepeats = TRUE
  WatcherArbitrates = TRUE
  HeapFifo = TRUE
  SlotStrict = TRUE
  CallsStopAll = TRUE
  PushBeforeRegister = FALSE
  FaultDropsHead = FALSE
SPECIFICATION Spec
INVARIANTS TypeOK OneVerdict OnlyIfQuota Order SizeBound NoCrash Protocol Faithful
VIEW View
CHECK_DEADLOCK FALSE

