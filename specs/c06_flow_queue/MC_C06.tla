------------------------------- MODULE MC_C06 -------------------------------
EXTENDS FlowQueueI
\* priorities of the model's requests: two of the urgent class, one of the lower class
cPrio2 == ("r1" :> 0) @@ ("r2" :> 0)
cPrio2m == ("r1" :> 1) @@ ("r2" :> 0)
cPrio3 == ("r1" :> 0) @@ ("r2" :> 0) @@ ("r3" :> 1)
cPrio3m == ("r1" :> 1) @@ ("r2" :> 0) @@ ("r3" :> 0)
cPrio3e == ("r1" :> 0) @@ ("r2" :> 0) @@ ("r3" :> 0)
=============================================================================
