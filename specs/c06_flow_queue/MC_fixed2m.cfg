\* thorough: two requests of different priority (the later id is the more urgent one), queue of 2, shutdown at any point,
\* quota consultations may fail - safety
CONSTANTS
  Req = {"r1", "r2"}
  Prio <- cPrio2m
  TTL = 2
  Slack = 1
  QueueSize = 2
  QMax = 1
  QW = 2
  MaxNow = 4
  Shutdowns = TRUE
  Faults = TRUE
  SplitSlotCheck = FALSE
  RequeueNewTs = FALSE
  StopAllGuarded = TRUE
  DrainRepeats = TRUE
  WatcherArbitrates = TRUE
  HeapFifo = TRUE
  SlotStrict = TRUE
  CallsStopAll = TRUE
  PushBeforeRegister = FALSE
  FaultDropsHead = FALSE
SPECIFICATION Spec
INVARIANTS TypeOK OneVerdict OnlyIfQuota Order SizeBound NoCrash Protocol Faithful NotStranded
PROPERTIES DrainReleases
VIEW View
CHECK_DEADLOCK FALSE

