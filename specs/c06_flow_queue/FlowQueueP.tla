------------------------------ MODULE FlowQueueP ------------------------------
(* C06 - queue processor in flows mode: property specification (P).            *)
(*                                                                             *)
(* Observable events only (what a client of the queue processor, the clock,    *)
(* the attached quota and the queue's own decision points show):               *)
(*   arrive(i, prio, t)   request i reaches the queue processor                *)
(*   enq(i, t)            i has been placed in the queue (it now waits)        *)
(*   pick(t)              the queue starts choosing the next request to try    *)
(*   quota(i, ok)         the attached quota answered for i's current attempt  *)
(*   grant(i, t)          the queue decides to admit i                         *)
(*   expire(i, t)         the queue decides that i ran out of time             *)
(*   verdict(i, out, t)   i's call returns "allowed" or "blocked"              *)
(*   shutdown(t)          shutdown begins (context cancelled)                  *)
(*   drain(t)             the queue starts releasing every waiting request     *)
(*   crash                the process died                                     *)
(*   end(t)               end of the observation                               *)
(*                                                                             *)
(* The specification *is* the property: Viol(s, e) is the set of clauses of    *)
(* the statement that event e breaks in state s, Step(s, e) the bookkeeping.   *)
(*   OneVerdict  a second decision / second return for one request (a decision *)
(*               may overtake the request's own enq event, which is stamped    *)
(*               after the push: deciding an arrived request is no violation)  *)
(*   InTTL       verdict later than arrival + TTL + Slack, or none at all      *)
(*   OnlyIfQuota admitted without the quota's consent                          *)
(*   Order       i admitted while some j, queued before the choice began and   *)
(*               still undecided and unexpired, precedes i: lower priority     *)
(*               number, or same priority and j was queued before i arrived    *)
(*               (overlapping arrivals are unordered: either may go first)     *)
(*   SizeBound   more than QueueSize requests wait                             *)
(*   NoCrash     the process dies (a second Done on a WaitGroup panics)        *)
(* Nothing else is demanded: refusing a request although there is room,        *)
(* expiring it early, or blocking it after the quota consented are all         *)
(* permitted by the statement and therefore by P.                              *)
EXTENDS Integers, FiniteSets

CONSTANTS
    Req,        \* request identities
    TTL,        \* time-to-live
    Slack,      \* scheduling slack granted to the time predicate only
    QueueSize   \* configured queue size

Phases == {"new", "arrived", "waiting", "drained", "decided", "answered"}

PInit == [ now     |-> 0,
           ph      |-> [i \in Req |-> "new"],
           at      |-> [i \in Req |-> 0],   \* arrival instants
           base    |-> [i \in Req |-> 0],   \* instants the time-to-live is counted from (= arrival; a recording
                                             \* whose harness obstructed the run restarts it, see FlowQueueTrace)
           pr      |-> [i \in Req |-> 0],
           pred    |-> [i \in Req |-> {}],   \* requests queued before i arrived
           everq   |-> {},                   \* requests queued so far
           snap    |-> {},                   \* requests waiting when the current choice began
           adm     |-> {},                   \* requests the quota consented to (current attempt)
           granted |-> {},
           down    |-> FALSE,
           dead    |-> FALSE ]

Waiting(s) == {j \in Req : s.ph[j] = "waiting"}

Precedes(s, j, i) == \/ s.pr[j] < s.pr[i]
                     \/ s.pr[j] = s.pr[i] /\ j \in s.pred[i]

Overdue(s, i, t) == t > s.base[i] + TTL + Slack

Viol(s, e) ==
    IF s.dead THEN {"NoCrash"}
    ELSE CASE e.ev = "arrive"  -> IF s.ph[e.id] # "new" THEN {"Protocol"} ELSE {}
      [] e.ev = "enq"     -> IF s.ph[e.id] = "decided" THEN {}      \* decided while its enq event was in flight
                             ELSE (IF s.ph[e.id] # "arrived" THEN {"Protocol"} ELSE {})
                                  \cup (IF Cardinality(Waiting(s) \cup {e.id}) > QueueSize THEN {"SizeBound"} ELSE {})
      [] e.ev = "pick"    -> {}
      [] e.ev = "quota"   -> {}
      [] e.ev = "grant"   -> (IF s.ph[e.id] \notin {"arrived", "waiting"} THEN {"OneVerdict"} ELSE {})
                             \cup (IF e.id \notin s.adm THEN {"OnlyIfQuota"} ELSE {})
                             \cup (IF \E j \in s.snap \ {e.id} :
                                        /\ s.ph[j] = "waiting"
                                        /\ e.t < s.at[j] + TTL
                                        /\ Precedes(s, j, e.id)
                                   THEN {"Order"} ELSE {})
      [] e.ev = "expire"  -> IF s.ph[e.id] \notin {"arrived", "waiting", "drained"} THEN {"OneVerdict"} ELSE {}
      [] e.ev = "drain"   -> {}
      [] e.ev = "verdict" -> (IF s.ph[e.id] \in {"new", "answered"} THEN {"OneVerdict"} ELSE {})
                             \cup (IF e.out = "allowed" /\ e.id \notin s.granted THEN {"OnlyIfQuota"} ELSE {})
                             \cup (IF Overdue(s, e.id, e.t) THEN {"InTTL"} ELSE {})
      [] e.ev = "shutdown" -> {}
      [] e.ev = "crash"   -> {"NoCrash"}
      [] e.ev = "end"     -> IF \E i \in Req : s.ph[i] \in {"arrived", "waiting", "drained", "decided"} /\ Overdue(s, i, e.t)
                             THEN {"InTTL"} ELSE {}
      [] OTHER -> {"Protocol"}

HasT(e) == e.ev \in {"arrive", "enq", "pick", "grant", "expire", "drain", "verdict", "shutdown", "end"}

Step(s, e) ==
    LET s1 == IF HasT(e) /\ e.t > s.now THEN [s EXCEPT !.now = e.t] ELSE s IN
    CASE e.ev = "arrive"  -> [s1 EXCEPT !.ph[e.id] = "arrived", !.at[e.id] = e.t, !.base[e.id] = e.t, !.pr[e.id] = e.prio,
                                         !.pred[e.id] = s.everq]
      [] e.ev = "enq"     -> [s1 EXCEPT !.ph[e.id] = IF @ = "arrived" THEN "waiting" ELSE @, !.everq = @ \cup {e.id}]
      [] e.ev = "pick"    -> [s1 EXCEPT !.snap = Waiting(s)]
      [] e.ev = "quota"   -> [s1 EXCEPT !.adm = IF e.ok THEN @ \cup {e.id} ELSE @ \ {e.id}]
      [] e.ev = "grant"   -> [s1 EXCEPT !.ph[e.id] = IF @ \in {"arrived", "waiting"} THEN "decided" ELSE @,
                                         !.granted = @ \cup {e.id}, !.adm = @ \ {e.id}]
      [] e.ev = "expire"  -> [s1 EXCEPT !.ph[e.id] = IF @ \in {"arrived", "waiting", "drained"} THEN "decided" ELSE @]
      [] e.ev = "drain"   -> [s1 EXCEPT !.ph = [i \in Req |-> IF @[i] = "waiting" THEN "drained" ELSE @[i]]]
      [] e.ev = "verdict" -> [s1 EXCEPT !.ph[e.id] = "answered"]
      [] e.ev = "shutdown" -> [s1 EXCEPT !.down = TRUE]
      [] e.ev = "crash"   -> [s1 EXCEPT !.dead = TRUE]
      [] OTHER -> s1
================================================================================
