\* walks of the model of the current code (3 requests, no shutdown: the processing loop and the TTL watcher at work)
CONSTANTS
  Req = {"r1", "r2", "r3"}
  Prio <- cPrio3
  TTL = 2
  Slack = 1
  QueueSize = 2
  QMax = 1
  QW = 2
  MaxNow = 5
  Shutdowns = FALSE
  SplitSlotCheck = FALSE
  RequeueNewTs = TRUE
  StopAllGuarded = TRUE
  DrainRepeats = TRUE
  WatcherArbitrates = TRUE
  HeapFifo = TRUE
  SlotStrict = TRUE
  CallsStopAll = TRUE
  PushBeforeRegister = FALSE
  FaultDropsHead = FALSE
  Faults = TRUE
  GenDepth = 40
SPECIFICATION GSpec
INVARIANT Emit
CHECK_DEADLOCK FALSE
