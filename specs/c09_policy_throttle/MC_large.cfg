\* exhaustive: I => P (Conforms), repaired code; one grouped remedy, window-length changes
CONSTANTS
  Remedy = {"r1"}
  Group = {"a", "u"}
  W0 <- cW
  WChoices = {2, 4, 6}
  Allowed <- cAllowed
  Pct <- cPct
  DefBehav <- cDefBehav
  DefPct <- cDefPct
  MaxNow = 12
  Steps = {1, 2, 3}
  StrictAfter = FALSE
  StaleWindow = FALSE
  MaxSetW = 2
SPECIFICATION IPSpec
PROPERTIES Conforms Isolation
INVARIANT PerWindow
CHECK_DEADLOCK FALSE
