\* exhaustive: I => P (Conforms), repaired code; one grouped remedy, window-length changes
CONSTANTS
  Remedy = {"r1", "r2"}
  Group = {"a"}
  W0 <- cW
  WChoices = {2, 4}
  Allowed <- cAllowed
  Pct <- cPct
  DefBehav <- cDefBehav
  DefPct <- cDefPct
  MaxNow = 6
  Steps = {1, 2}
  StrictAfter = FALSE
  StaleWindow = FALSE
  MaxSetW = 1
SPECIFICATION IPSpec
PROPERTIES Conforms Isolation
INVARIANT PerWindow
CHECK_DEADLOCK FALSE
