------------------------------ MODULE ThrottleIP ------------------------------
(* C09 - product of the implementation-shaped model I with the property spec P: *)
(* both observe the same clock, configuration and event stream; I decides each  *)
(* verdict, P only does its bookkeeping (Observe) and `Conforms` demands that   *)
(* every verdict of I is one P permits in the state before it.  TLC checks this *)
(* for every history of the bounded instance (I => P).                          *)
EXTENDS Integers, Sequences, FiniteSets, TLC

CONSTANTS Remedy, Group, W0, WChoices, Allowed, Pct, DefBehav, DefPct, MaxNow, Steps,
          StrictAfter, StaleWindow,
          MaxSetW        \* bound on the number of window-length changes (model checking only)

VARIABLES now, W, last, counter, wend, wsize, olds, curs, nset

I == INSTANCE ThrottleI
P == INSTANCE ThrottleP

pvars == <<now, W, last, counter, wend, wsize, olds, curs, nset>>

Init == I!Init /\ P!Init /\ nset = 0

Next ==
    \/ \E d \in Steps : I!Advance(d) /\ P!Advance(d) /\ UNCHANGED nset
    \/ \E r \in Remedy, w \in WChoices : nset < MaxSetW /\ I!SetW(r, w) /\ P!SetW(r, w) /\ nset' = nset + 1
    \/ \E r \in Remedy, g \in Group : I!Request(r, g) /\ P!Observe(r, g, last'.out) /\ UNCHANGED nset

IPSpec == Init /\ [][Next]_pvars

\* every verdict of the implementation model is permitted by the property
Conforms == [][last'.ev = "req" => P!Permits(last'.r, last'.g, last'.out)]_pvars
PerWindow == P!PerWindow
Isolation == P!Isolation

-------------------------------------------------------------------------------
cW == ("r1" :> 2) @@ ("r2" :> 4)
cAllowed == ("r1" :> 2) @@ ("r2" :> 1)
cPct == ("r1" :> (("a" :> 50) @@ ("u" :> -1))) @@ ("r2" :> (("a" :> -1) @@ ("u" :> -1)))
cDefBehav == ("r1" :> "use_default") @@ ("r2" :> "none")
cDefPct == ("r1" :> 100) @@ ("r2" :> 0)
================================================================================
