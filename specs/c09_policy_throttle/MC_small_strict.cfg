\* exhaustive: I => P (refinement), repaired reset test
CONSTANTS
  Remedy = {"r1", "r2"}
  Group = {"a", "b", "u"}
  W <- cW
  Allowed <- cAllowed
  Pct <- cPct
  DefBehav <- cDefBehav
  DefPct <- cDefPct
  MaxNow = 7
  Steps = {1, 2}
  StrictAfter = TRUE
SPECIFICATION ISpec
PROPERTY Refines
INVARIANT PerWindow
CHECK_DEADLOCK FALSE
