---------------------------- MODULE ThrottleInd ----------------------------
(* C09 - unbounded-time argument for the arithmetic core of the repaired      *)
(* TryToIncrement / ensureWindowIsUpdated (one key, fixed window length):      *)
(* an inductive invariant, discharged by Apalache for ALL instants, window     *)
(* lengths and limits (no bound on the clock), relating the implementation's   *)
(* <<counter, windowEnd>> to the number of requests passed in the current      *)
(* epoch-grid window (ghost variables gw, gp of the property).                 *)
EXTENDS Integers

CONSTANTS
    \* @type: Int;
    W,
    \* @type: Int;
    Max,
    \* @type: Bool;
    StrictAfter     \* TRUE = the reset test of the pinned commit (now > windowEnd); must NOT be inductive

CInit == W \in Nat /\ W >= 1 /\ Max \in Nat /\ StrictAfter = FALSE
CInitStrict == W \in Nat /\ W >= 1 /\ Max \in Nat /\ StrictAfter = TRUE

VARIABLES
    \* @type: Int;
    now,
    \* @type: Int;
    counter,
    \* @type: Int;
    wend,
    \* @type: Int;
    gw,        \* ghost: grid index of the window the last pass fell into
    \* @type: Int;
    gp,        \* ghost: number of passes in that window
    \* @type: Str;
    out

Init == now = 1 /\ counter = 0 /\ wend = 0 /\ gw = -1 /\ gp = 0 /\ out = "init"

Advance == \E d \in Nat : d >= 1 /\ now' = now + d /\ counter' = counter /\ wend' = wend /\ gw' = gw /\ gp' = gp /\ out' = "adv"

Request ==
    LET restart == IF StrictAfter THEN now > wend ELSE now >= wend
        c0 == IF restart THEN 0 ELSE counter
        e0 == IF restart THEN ((now \div W) + 1) * W ELSE wend
        pass == c0 < Max
        used == IF gw = now \div W THEN gp ELSE 0     \* the property's count for the current grid window
    IN /\ counter' = IF pass THEN c0 + 1 ELSE c0
       /\ wend' = e0
       /\ out' = IF pass THEN "pass" ELSE "block"
       /\ gw' = IF pass THEN now \div W ELSE gw
       /\ gp' = IF pass THEN used + 1 ELSE gp
       /\ now' = now

Next == Advance \/ Request

\* the property: never more than Max passes in a grid window, and a block only when the window's share is used up
Bound == gp <= Max
Exact == out = "block" => (IF gw = now \div W THEN gp ELSE 0) >= Max

\* inductive invariant
IndInv ==
    /\ now >= 1 /\ counter >= 0 /\ gp >= 0 /\ gp <= Max /\ counter <= Max
    /\ out \in {"init", "adv", "pass", "block"}
    /\ (wend = 0 /\ counter = 0 /\ gw = -1 /\ gp = 0)
       \/ ( /\ wend >= W /\ wend % W = 0 /\ wend - W <= now
            /\ gw <= wend \div W - 1 /\ gw >= -1
            \* while the stored window is the current one its counter is the property's count
            /\ (now < wend => (IF gw = wend \div W - 1 THEN counter = gp ELSE counter = 0)) )
    /\ Exact

TypeInit == now \in Int /\ counter \in Int /\ wend \in Int /\ gw \in Int /\ gp \in Int /\ out \in {"init", "adv", "pass", "block"}
IndInit == TypeInit /\ IndInv
=============================================================================
