---------------------------- MODULE ThrottleTrace ----------------------------
(* C09 - trace validation of recorded executions of the real                   *)
(* StrategyBasedThrottlingPlugin.OnRequest against the property spec ThrottleP. *)
(*                                                                             *)
(* trace.ndjson: line 1 = configuration of the run (constants of ThrottleP),    *)
(* then events                                                                  *)
(*   {"ev":"reset","now":t}               fresh plugin state, clock set to t    *)
(*   {"ev":"adv","d":d}                   clock advanced by d ticks             *)
(*   {"ev":"req","r":..,"g":..,"out":..}  one request handled on its own        *)
(*   {"ev":"begin","id":i,"r":..,"g":..,"out":..} / {"ev":"end","id":i}         *)
(*        a request handled concurrently with others: invocation / return;      *)
(*        its linearization point is placed by TLC anywhere in between (Lin).   *)
EXTENDS TraceLib, Integers, FiniteSets

Cfg == TraceLog[1]
Remedy == DOMAIN Cfg.W
Group == Cfg.groups
GroupSet == {Group[i] : i \in 1..Len(Group)}
W == Cfg.W
Allowed == Cfg.Allowed
Pct == Cfg.Pct
DefBehav == Cfg.DefBehav
DefPct == Cfg.DefPct

VARIABLES now, win, cnt, last, l, pend, done

P == INSTANCE ThrottleP WITH Group <- GroupSet, MaxNow <- 1000000000, Steps <- {}

tvars == <<now, win, cnt, last, l, pend, done>>

Ev == TraceLog[l + 1]
Consume(name) == l < TraceLen /\ Ev.ev = name /\ l' = l + 1

TInit == P!Init /\ l = 1 /\ pend = {} /\ done = {}

TReset ==
    /\ Consume("reset") /\ pend = {} /\ done = {}
    /\ now' = Ev.now
    /\ win' = [r \in Remedy |-> [g \in GroupSet |-> -1]]
    /\ cnt' = [r \in Remedy |-> [g \in GroupSet |-> 0]]
    /\ last' = [ev |-> "reset"]
    /\ UNCHANGED <<pend, done>>

TAdv == Consume("adv") /\ P!Advance(Ev.d) /\ UNCHANGED <<pend, done>>

TReq == Consume("req") /\ P!Request(Ev.r, Ev.g, Ev.out) /\ UNCHANGED <<pend, done>>

TBegin ==
    /\ Consume("begin")
    /\ pend' = pend \cup {[id |-> Ev.id, r |-> Ev.r, g |-> Ev.g, out |-> Ev.out]}
    /\ UNCHANGED <<now, win, cnt, last, done>>

TLin == \E p \in pend :
    /\ P!Request(p.r, p.g, p.out)
    /\ pend' = pend \ {p}
    /\ done' = done \cup {p.id}
    /\ UNCHANGED l

TEnd ==
    /\ Consume("end") /\ Ev.id \in done
    /\ done' = done \ {Ev.id}
    /\ UNCHANGED <<now, win, cnt, last, pend>>

TNext == TReset \/ TAdv \/ TReq \/ TBegin \/ TLin \/ TEnd

TraceSpec == TInit /\ [][TNext]_tvars

PerWindow == P!PerWindow
HWM == Mark(l)
Post == Report
================================================================================
