---------------------------- MODULE ThrottleTrace ----------------------------
(* C09 - trace validation of recorded executions of the real                   *)
(* StrategyBasedThrottlingPlugin.OnRequest against the property spec ThrottleP. *)
(*                                                                             *)
(* trace.ndjson: line 1 = configuration of the run (constants of ThrottleP),    *)
(* then events                                                                  *)
(*   {"ev":"reset","now":t}               fresh plugin state, clock set to t    *)
(*   {"ev":"adv","d":d}                   clock advanced by d ticks             *)
(*   {"ev":"setw","r":..,"w":w}           window length of remedy r reconfigured *)
(*   outcomes: "pass" = NoOp action; "block" = early response carrying the CONFIGURED    *)
(*   rejection status of the remedy (config field Status; 0 / absent = not configured   *)
(*   = 429).  Any other answer is recorded verbatim ("block-status-429", "other:..",    *)
(*   "error:..") and is no outcome of the specification: the step is rejected.          *)
(*   {"ev":"req","r":..,"g":..,"out":..}  one request handled on its own        *)
(*   {"ev":"batch","r":..,"g":..,"n":n,"passes":p}  n overlapping requests for  *)
(*        one key at one instant, p of them passed (compact form of begin/end)  *)
(*   {"ev":"begin","id":i,"r":..,"g":..,"out":..} / {"ev":"end","id":i}         *)
(*        a request handled concurrently with others: invocation / return;      *)
(*        its linearization point is placed by TLC anywhere in between (Lin).   *)
EXTENDS TraceLib, Integers, FiniteSets

Cfg == TraceLog[1]
Remedy == DOMAIN Cfg.W
Group == Cfg.groups
GroupSet == {Group[i] : i \in 1..Len(Group)}
W0 == Cfg.W
WChoices == {2, 4, 6, 8, 10, 12, 14, 22}
Allowed == Cfg.Allowed
Pct == Cfg.Pct
DefBehav == Cfg.DefBehav
DefPct == Cfg.DefPct

VARIABLES now, W, olds, curs, last, l, pend, done

P == INSTANCE ThrottleP WITH Group <- GroupSet, MaxNow <- 1000000000, Steps <- {}

tvars == <<now, W, olds, curs, last, l, pend, done>>

Ev == TraceLog[l + 1]
Consume(name) == l < TraceLen /\ Ev.ev = name /\ l' = l + 1

TInit == P!Init /\ l = 1 /\ pend = {} /\ done = {}

TReset ==
    /\ Consume("reset") /\ pend = {} /\ done = {}
    /\ now' = Ev.now
    /\ W' = W0
    /\ olds' = [r \in Remedy |-> [g \in GroupSet |-> <<>>]]
    /\ curs' = [r \in Remedy |-> [g \in GroupSet |-> <<>>]]
    /\ last' = [ev |-> "reset"]
    /\ UNCHANGED <<pend, done>>

TAdv == Consume("adv") /\ P!Advance(Ev.d) /\ UNCHANGED <<pend, done>>

TSetW == Consume("setw") /\ P!SetW(Ev.r, Ev.w) /\ UNCHANGED <<pend, done>>

TReq == Consume("req") /\ P!Request(Ev.r, Ev.g, Ev.out) /\ UNCHANGED <<pend, done>>

TBatch == Consume("batch") /\ P!Batch(Ev.r, Ev.g, Ev.n, Ev.passes) /\ UNCHANGED <<pend, done>>

TBegin ==
    /\ Consume("begin")
    /\ pend' = pend \cup {[id |-> Ev.id, r |-> Ev.r, g |-> Ev.g, out |-> Ev.out]}
    /\ UNCHANGED <<now, W, olds, curs, last, done>>

TLin == \E p \in pend :
    /\ P!Request(p.r, p.g, p.out)
    /\ pend' = pend \ {p}
    /\ done' = done \cup {p.id}
    /\ UNCHANGED l

TEnd ==
    /\ Consume("end") /\ Ev.id \in done
    /\ done' = done \ {Ev.id}
    /\ UNCHANGED <<now, W, olds, curs, last, pend>>

TNext == TReset \/ TAdv \/ TSetW \/ TReq \/ TBatch \/ TBegin \/ TLin \/ TEnd

TraceSpec == TInit /\ [][TNext]_tvars

PerWindow == P!PerWindow
HWM == Mark(l)
Post == Report
================================================================================
