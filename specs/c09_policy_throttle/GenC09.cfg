CONSTANTS
  Remedy = {"r1", "r2"}
  Group = {"a", "b", "u"}
  W <- cW
  Allowed <- cAllowed
  Pct <- cPct
  DefBehav <- cDefBehav
  DefPct <- cDefPct
  MaxNow = 1000
  Steps = {1, 2, 3}
  GenDepth = 24
SPECIFICATION GSpec
INVARIANT Emit
CHECK_DEADLOCK FALSE
