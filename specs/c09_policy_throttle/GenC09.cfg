CONSTANTS
  Remedy = {"r1", "r2"}
  Group = {"a", "b", "u"}
  W0 <- cW
  WChoices = {2, 4}
  Allowed <- cAllowed
  Pct <- cPct
  DefBehav <- cDefBehav
  DefPct <- cDefPct
  MaxNow = 1000
  Steps = {1, 2, 3}
  GenDepth = 24
SPECIFICATION GSpec
INVARIANT Emit
CHECK_DEADLOCK FALSE
