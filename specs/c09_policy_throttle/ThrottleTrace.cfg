SPECIFICATION TraceSpec
INVARIANT PerWindow
CONSTRAINT HWM
POSTCONDITION Post
CHECK_DEADLOCK FALSE
