------------------------------ MODULE ThrottleI ------------------------------
(* C09 - implementation-shaped specification of                                *)
(*   utils/limit/single_rate_limit_state.go : TryToIncrement /                 *)
(*   ensureWindowIsUpdated, keyed by (remedy, group) as in                     *)
(*   rate_limit_state_by_limiter.go, with the default-behaviour switch of      *)
(*   services/remedies/strategy_based_throttling_plugin.go : OnRequest.        *)
(* The whole of TryToIncrement runs under the per-key mutex, so it is one      *)
(* atomic action; concurrency is an arbitrary order of these actions.          *)
(*                                                                             *)
(* StrictAfter = TRUE models the reset test as it was at the pinned commit     *)
(* (`currentTime.After(windowEndTime)`): a request exactly on a grid boundary  *)
(* is counted in the old window.  StrictAfter = FALSE is the repaired test.    *)
EXTENDS Integers, Sequences, FiniteSets

CONSTANTS Remedy, Group, W, Allowed, Pct, DefBehav, DefPct, MaxNow, Steps, StrictAfter

VARIABLES now, counter, wend, last

ivars == <<now, counter, wend, last>>

Ceil100(x) == (x + 99) \div 100

Init ==
    /\ now = 1                 \* the epoch instant itself is not a reachable "now"
    /\ counter = [r \in Remedy |-> [g \in Group |-> 0]]
    /\ wend = [r \in Remedy |-> [g \in Group |-> 0]]      \* epochTime
    /\ last = [ev |-> "init"]

Advance(d) ==
    /\ now + d <= MaxNow
    /\ now' = now + d
    /\ last' = [ev |-> "adv", d |-> d]
    /\ UNCHANGED <<counter, wend>>

\* ensureWindowIsUpdated: result <<counter, windowEnd>> after the reset test
Ensure(r, g) ==
    LET after == IF StrictAfter THEN now > wend[r][g] ELSE now >= wend[r][g]
    IN  IF after THEN <<0, (now \div W[r] + 1) * W[r]>> ELSE <<counter[r][g], wend[r][g]>>

Ratio100(r, g) ==      \* quotaAllocationRatio * 100, or -1 when the default behaviour answers
    IF DefBehav[r] = "none" THEN 100
    ELSE IF Pct[r][g] >= 0 THEN Pct[r][g]
    ELSE IF DefBehav[r] = "use_default" THEN DefPct[r] ELSE -1

\* buildGroupID: without an allocation table the key is the constant "ungroupedLimit"
NoGroup == CHOOSE g \in Group : TRUE
KeyOf(r, g) == IF DefBehav[r] = "none" THEN NoGroup ELSE g

Request(r, gh) ==
    LET g == KeyOf(r, gh) IN
    /\ UNCHANGED now
    /\ IF Ratio100(r, g) = -1
       THEN /\ last' = [ev |-> "req", r |-> r, g |-> gh,
                        out |-> IF DefBehav[r] = "block" THEN "block" ELSE "pass"]
            /\ UNCHANGED <<counter, wend>>
       ELSE LET e == Ensure(r, g)
                max == Ceil100(Allowed[r] * Ratio100(r, g))
            IN  IF e[1] >= max
                THEN /\ counter' = [counter EXCEPT ![r][g] = e[1]]
                     /\ wend' = [wend EXCEPT ![r][g] = e[2]]
                     /\ last' = [ev |-> "req", r |-> r, g |-> gh, out |-> "block"]
                ELSE /\ counter' = [counter EXCEPT ![r][g] = e[1] + 1]
                     /\ wend' = [wend EXCEPT ![r][g] = e[2]]
                     /\ last' = [ev |-> "req", r |-> r, g |-> gh, out |-> "pass"]

Next ==
    \/ \E d \in Steps : Advance(d)
    \/ \E r \in Remedy, g \in Group : Request(r, g)

ISpec == Init /\ [][Next]_ivars

-------------------------------------------------------------------------------
\* Refinement: I implements P under  win = index of the window ending at wend, cnt = counter
P == INSTANCE ThrottleP WITH
        win <- [r \in Remedy |-> [g \in Group |-> (wend[r][g] \div W[r]) - 1]],
        cnt <- counter

Refines == P!Spec
PerWindow == P!PerWindow
Isolation == P!Isolation
Exact == P!Exact
================================================================================
