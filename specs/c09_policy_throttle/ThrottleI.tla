------------------------------ MODULE ThrottleI ------------------------------
(* C09 - implementation-shaped specification of                                *)
(*   utils/limit/single_rate_limit_state.go : TryToIncrement /                 *)
(*   ensureWindowIsUpdated, keyed by (remedy, group) as in                     *)
(*   rate_limit_state_by_limiter.go, with the default-behaviour switch of      *)
(*   services/remedies/strategy_based_throttling_plugin.go : OnRequest.        *)
(* The whole of TryToIncrement runs under the per-key mutex, so it is one      *)
(* atomic action; concurrency is an arbitrary order of these actions.          *)
(*                                                                             *)
(* Deliberate deviations, each a CONSTANT so that TLC can show the model       *)
(* distinguishes them (non-vacuity) - FALSE/FALSE is the repaired code:        *)
(*  StrictAfter : reset test `currentTime.After(windowEndTime)` (pinned commit)*)
(*                - a request exactly on a grid boundary stays in the old window*)
(*  StaleWindow : a changed window length does not restart the window (pinned  *)
(*                commit) - the old window end is kept until it passes         *)
EXTENDS Integers, Sequences, FiniteSets

CONSTANTS Remedy, Group, W0, WChoices, Allowed, Pct, DefBehav, DefPct, MaxNow, Steps,
          StrictAfter, StaleWindow

VARIABLES now, W, counter, wend, wsize, last

ivars == <<now, W, counter, wend, wsize, last>>

Ceil100(x) == (x + 99) \div 100

Init ==
    /\ now = 1
    /\ W = W0
    /\ counter = [r \in Remedy |-> [g \in Group |-> 0]]
    /\ wend = [r \in Remedy |-> [g \in Group |-> 0]]      \* epochTime
    /\ wsize = [r \in Remedy |-> [g \in Group |-> 0]]     \* windowData.WindowSize of the last call
    /\ last = [ev |-> "init"]

Advance(d) ==
    /\ now + d <= MaxNow
    /\ now' = now + d
    /\ last' = [ev |-> "adv", d |-> d]
    /\ UNCHANGED <<W, counter, wend, wsize>>

\* apply_policies with another window length: only the remedy configuration changes
SetW(r, w) ==
    /\ w \in WChoices /\ w # W[r]
    /\ W' = [W EXCEPT ![r] = w]
    /\ last' = [ev |-> "setw", r |-> r, w |-> w]
    /\ UNCHANGED <<now, counter, wend, wsize>>

\* TryToIncrement: <<counter, windowEnd>> after the window-length test and ensureWindowIsUpdated
Ensure(r, g) ==
    LET end0 == IF ~StaleWindow /\ wsize[r][g] # W[r] THEN 0 ELSE wend[r][g]
        after == IF StrictAfter THEN now > end0 ELSE now >= end0
    IN  IF after THEN <<0, (now \div W[r] + 1) * W[r]>> ELSE <<counter[r][g], end0>>

Ratio100(r, g) ==      \* quotaAllocationRatio * 100, or -1 when the default behaviour answers
    IF DefBehav[r] = "none" THEN 100
    ELSE IF Pct[r][g] >= 0 THEN Pct[r][g]
    ELSE IF DefBehav[r] = "use_default" THEN DefPct[r] ELSE -1

\* buildGroupID: without an allocation table the key is the constant "ungroupedLimit"
NoGroup == CHOOSE g \in Group : TRUE
KeyOf(r, g) == IF DefBehav[r] = "none" THEN NoGroup ELSE g

Request(r, gh) ==
    LET g == KeyOf(r, gh) IN
    /\ UNCHANGED <<now, W>>
    /\ IF Ratio100(r, g) = -1
       THEN /\ last' = [ev |-> "req", r |-> r, g |-> gh,
                        out |-> IF DefBehav[r] = "block" THEN "block" ELSE "pass"]
            /\ UNCHANGED <<counter, wend, wsize>>
       ELSE LET e == Ensure(r, g)
                max == Ceil100(Allowed[r] * Ratio100(r, g))
                pass == e[1] < max
            IN  /\ counter' = [counter EXCEPT ![r][g] = IF pass THEN e[1] + 1 ELSE e[1]]
                /\ wend' = [wend EXCEPT ![r][g] = e[2]]
                /\ wsize' = [wsize EXCEPT ![r][g] = W[r]]
                /\ last' = [ev |-> "req", r |-> r, g |-> gh, out |-> IF pass THEN "pass" ELSE "block"]

Next ==
    \/ \E d \in Steps : Advance(d)
    \/ \E r \in Remedy, w \in WChoices : SetW(r, w)
    \/ \E r \in Remedy, g \in Group : Request(r, g)

ISpec == Init /\ [][Next]_ivars
================================================================================
