------------------------------ MODULE ThrottleP ------------------------------
(* C09 - policy-mode strategy-based throttling: property specification (P).    *)
(*                                                                             *)
(* Observable events only: a request for (remedy, group) arrives at instant    *)
(* `now` (abstract ticks) and is answered "pass" or "block".  Windows are      *)
(* aligned to the epoch grid: window index of instant t for remedy r is        *)
(* t \div W[r]; the boundary instant k*W belongs to window k.                  *)
(*                                                                             *)
(* The specification *is* the property: handled one at a time, a request       *)
(* passes iff its group's share of the current grid window is not used up.     *)
(* Groups absent from a remedy's allocation table follow the default           *)
(* behaviour (allow / block / default allocation share).                       *)
EXTENDS Integers, Sequences, FiniteSets

CONSTANTS
    Remedy,        \* set of remedy names
    Group,         \* set of group header values (incl. values not in any table)
    W,             \* [Remedy -> window length in ticks]
    Allowed,       \* [Remedy -> allowed requests per window]
    Pct,           \* [Remedy -> [Group -> 0..100 or -1 (= not in the table)]]
    DefBehav,      \* [Remedy -> "allow" | "undefined" | "block" | "use_default" | "none"]  (none: remedy has no allocation table)
    DefPct,        \* [Remedy -> default allocation percentage]
    MaxNow,        \* bound on the clock (model checking only)
    Steps          \* set of clock advances

VARIABLES
    now,           \* current instant (ticks since the epoch)
    win,           \* [Remedy -> [Group -> grid index of the window `cnt` refers to]]
    cnt,           \* [Remedy -> [Group -> requests passed in that window]]
    last           \* last observable event (output only)

vars == <<now, win, cnt, last>>

Ceil100(x) == (x + 99) \div 100

\* share of the window for (r, g); -1 = the default behaviour decides without counting
InTable(r, g) == DefBehav[r] = "none" \/ Pct[r][g] >= 0
Limit(r, g) ==
    IF DefBehav[r] = "none" THEN Allowed[r]
    ELSE IF Pct[r][g] >= 0 THEN Ceil100(Allowed[r] * Pct[r][g])
    ELSE Ceil100(Allowed[r] * DefPct[r])

GridIdx(r, t) == t \div W[r]

\* a remedy without an allocation table does not group at all: one counter whatever the header says
NoGroup == CHOOSE g \in Group : TRUE
KeyOf(r, g) == IF DefBehav[r] = "none" THEN NoGroup ELSE g

\* requests already passed in the current grid window
Used(r, g) == IF win[r][g] = GridIdx(r, now) THEN cnt[r][g] ELSE 0

\* the verdict the property requires for a request handled on its own
Verdict(r, g) ==
    IF ~InTable(r, g) /\ DefBehav[r] \in {"allow", "undefined"} THEN "pass"
    ELSE IF ~InTable(r, g) /\ DefBehav[r] = "block" THEN "block"
    ELSE IF Used(r, g) < Limit(r, g) THEN "pass" ELSE "block"

Counts(r, g) == InTable(r, g) \/ DefBehav[r] = "use_default"

Init ==
    /\ now = 1                 \* the epoch instant itself is not a reachable "now"
    /\ win = [r \in Remedy |-> [g \in Group |-> -1]]
    /\ cnt = [r \in Remedy |-> [g \in Group |-> 0]]
    /\ last = [ev |-> "init"]

Advance(d) ==
    /\ now + d <= MaxNow
    /\ now' = now + d
    /\ last' = [ev |-> "adv", d |-> d]
    /\ UNCHANGED <<win, cnt>>

\* a request for remedy r carrying group header value gh is answered with `out`
Request(r, gh, out) ==
    LET g == KeyOf(r, gh) IN
    /\ out = Verdict(r, g)
    /\ IF Counts(r, g)
       THEN /\ win' = [win EXCEPT ![r][g] = GridIdx(r, now)]
            /\ cnt' = [cnt EXCEPT ![r][g] = Used(r, g) + (IF out = "pass" THEN 1 ELSE 0)]
       ELSE UNCHANGED <<win, cnt>>
    /\ last' = [ev |-> "req", r |-> r, g |-> gh, out |-> out]
    /\ UNCHANGED now

Next ==
    \/ \E d \in Steps : Advance(d)
    \/ \E r \in Remedy, g \in Group, out \in {"pass", "block"} : Request(r, g, out)

Spec == Init /\ [][Next]_vars

-------------------------------------------------------------------------------
\* The property, as state invariants / action properties of P itself (sanity: P satisfies it)

PerWindow == \A r \in Remedy, g \in Group : cnt[r][g] <= Limit(r, g)

\* counters of other remedies / groups are never touched by a request
Isolation == [][\A r \in Remedy, g \in Group :
                  (last'.ev = "req" /\ (last'.r # r \/ KeyOf(last'.r, last'.g) # g)) =>
                      (cnt'[r][g] = cnt[r][g] /\ win'[r][g] = win[r][g])]_vars

\* a block is only given when the share of the current window is used up (or by default behaviour)
Exact == [][(last'.ev = "req" /\ last'.out = "block" /\ Counts(last'.r, KeyOf(last'.r, last'.g))) =>
               Used(last'.r, KeyOf(last'.r, last'.g)) >= Limit(last'.r, KeyOf(last'.r, last'.g))]_vars

TypeOK == now \in 0..MaxNow
================================================================================
