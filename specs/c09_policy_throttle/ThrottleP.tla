------------------------------ MODULE ThrottleP ------------------------------
(* C09 - policy-mode strategy-based throttling: property specification (P).    *)
(*                                                                             *)
(* Observable events only: a request for remedy r carrying group header value  *)
(* g arrives at instant `now` (abstract ticks) and is answered "pass" or       *)
(* "block"; the operator may change a remedy's window length between requests  *)
(* (apply_policies).  Windows are aligned to the epoch grid: the window of      *)
(* instant t is t \div W[r]; the boundary instant k*W belongs to window k.     *)
(*                                                                             *)
(* The specification *is* the property.  It remembers, per (remedy, group),    *)
(* the instants of the requests that passed - `curs` since the remedy's window *)
(* length last changed (the current accounting epoch), `olds` before that.     *)
(*   bound      : a request may pass only if fewer than Limit requests of the  *)
(*                current epoch passed in the current grid window;             *)
(*   exactness  : it may be blocked only if at least Limit requests (of any    *)
(*                epoch) passed in the current grid window.                    *)
(* Between the two (only possible right after a window-length change) either   *)
(* verdict is allowed.  Groups absent from a remedy's allocation table follow  *)
(* the default behaviour (allow / block / default allocation share); a remedy  *)
(* without a table does not group at all.                                      *)
EXTENDS Integers, Sequences, FiniteSets

CONSTANTS
    Remedy,        \* set of remedy names
    Group,         \* set of group header values (incl. values not in any table)
    W0,            \* [Remedy -> initial window length in ticks]
    WChoices,      \* window lengths the operator may configure
    Allowed,       \* [Remedy -> allowed requests per window]
    Pct,           \* [Remedy -> [Group -> 0..100 or -1 (= not in the table)]]
    DefBehav,      \* [Remedy -> "allow" | "undefined" | "block" | "use_default" | "none" (no allocation table)]
    DefPct,        \* [Remedy -> default allocation percentage]
    MaxNow,        \* bound on the clock (model checking only)
    Steps          \* set of clock advances

VARIABLES
    now,           \* current instant (ticks since the epoch)
    W,             \* [Remedy -> configured window length]
    olds,          \* [Remedy -> [Group -> instants of passes before the current accounting epoch]]
    curs,          \* [Remedy -> [Group -> instants of passes of the current accounting epoch]]
    last           \* last observable event (output only)

vars == <<now, W, olds, curs, last>>

Ceil100(x) == (x + 99) \div 100

InTable(r, g) == DefBehav[r] = "none" \/ Pct[r][g] >= 0
Limit(r, g) ==
    IF DefBehav[r] = "none" THEN Allowed[r]
    ELSE IF Pct[r][g] >= 0 THEN Ceil100(Allowed[r] * Pct[r][g])
    ELSE Ceil100(Allowed[r] * DefPct[r])

\* a remedy without an allocation table does not group at all: one counter whatever the header says
NoGroup == CHOOSE g \in Group : TRUE
KeyOf(r, g) == IF DefBehav[r] = "none" THEN NoGroup ELSE g

\* does the key consume the window share at all (else the default behaviour answers)
Counts(r, g) == InTable(r, g) \/ DefBehav[r] = "use_default"

InWindow(r, t) == t \div W[r] = now \div W[r]
CountIn(r, s) == Cardinality({i \in 1..Len(s) : InWindow(r, s[i])})
UsedEpoch(r, g) == CountIn(r, curs[r][g])
UsedTotal(r, g) == CountIn(r, olds[r][g]) + CountIn(r, curs[r][g])

\* verdicts the property permits for a request handled on its own (g is the key)
CanPass(r, g) ==
    IF ~Counts(r, g) THEN DefBehav[r] \in {"allow", "undefined"}
    ELSE UsedEpoch(r, g) < Limit(r, g)
CanBlock(r, g) ==
    IF ~Counts(r, g) THEN DefBehav[r] = "block"
    ELSE UsedTotal(r, g) >= Limit(r, g)
Permits(r, gh, out) ==
    \/ out = "pass" /\ CanPass(r, KeyOf(r, gh))
    \/ out = "block" /\ CanBlock(r, KeyOf(r, gh))

Init ==
    /\ now = 1                 \* the epoch instant itself is not a reachable "now"
    /\ W = W0
    /\ olds = [r \in Remedy |-> [g \in Group |-> <<>>]]
    /\ curs = [r \in Remedy |-> [g \in Group |-> <<>>]]
    /\ last = [ev |-> "init"]

\* instants that can no longer share a window with the present under any configurable length are forgotten
Live(t, n) == \E w \in WChoices : t \div w = n \div w
Prune(f, n) == [r \in Remedy |-> [g \in Group |-> SelectSeq(f[r][g], LAMBDA t : Live(t, n))]]

Advance(d) ==
    /\ now + d <= MaxNow
    /\ now' = now + d
    /\ olds' = Prune(olds, now + d)
    /\ curs' = Prune(curs, now + d)
    /\ last' = [ev |-> "adv", d |-> d]
    /\ UNCHANGED W

\* the operator changes the window length of remedy r: a new accounting epoch for all its groups
SetW(r, w) ==
    /\ w \in WChoices /\ w # W[r]
    /\ W' = [W EXCEPT ![r] = w]
    /\ olds' = [olds EXCEPT ![r] = [g \in Group |-> olds[r][g] \o curs[r][g]]]
    /\ curs' = [curs EXCEPT ![r] = [g \in Group |-> <<>>]]
    /\ last' = [ev |-> "setw", r |-> r, w |-> w]
    /\ UNCHANGED now

\* bookkeeping of an answered request (no guard: used by the product with the implementation model)
Observe(r, gh, out) ==
    LET g == KeyOf(r, gh) IN
    /\ IF Counts(r, g) /\ out = "pass"
       THEN curs' = [curs EXCEPT ![r][g] = Append(@, now)]
       ELSE UNCHANGED curs
    /\ UNCHANGED <<now, W, olds>>

\* a request for remedy r carrying group header value gh is answered with `out`
Request(r, gh, out) ==
    /\ Permits(r, gh, out)
    /\ Observe(r, gh, out)
    /\ last' = [ev |-> "req", r |-> r, g |-> gh, out |-> out]

\* n requests for the same key handled at the same instant by overlapping calls, p of them passed:
\* permitted iff some order of the n verdicts is permitted one by one (passes first is the most permissive order)
Batch(r, gh, n, p) ==
    LET g == KeyOf(r, gh) IN
    /\ p \in 0..n
    /\ IF Counts(r, g)
       THEN /\ UsedEpoch(r, g) + p <= Limit(r, g)
            /\ (p < n => UsedTotal(r, g) + p >= Limit(r, g))
            /\ curs' = [curs EXCEPT ![r][g] = @ \o [i \in 1..p |-> now]]
       ELSE /\ (p > 0 => DefBehav[r] \in {"allow", "undefined"})
            /\ (p < n => DefBehav[r] = "block")
            /\ UNCHANGED curs
    /\ last' = [ev |-> "batch", r |-> r, g |-> gh, n |-> n, p |-> p]
    /\ UNCHANGED <<now, W, olds>>

Next ==
    \/ \E d \in Steps : Advance(d)
    \/ \E r \in Remedy, w \in WChoices : SetW(r, w)
    \/ \E r \in Remedy, g \in Group, out \in {"pass", "block"} : Request(r, g, out)

Spec == Init /\ [][Next]_vars

-------------------------------------------------------------------------------
\* The property restated as invariants of P itself (sanity: P satisfies them)

PerWindow == \A r \in Remedy, g \in Group : UsedEpoch(r, g) <= Limit(r, g)

\* a request never touches the accounting of another remedy or group
Isolation == [][\A r \in Remedy, g \in Group :
                  (last'.ev = "req" /\ (last'.r # r \/ KeyOf(last'.r, last'.g) # g)) =>
                      (curs'[r][g] = curs[r][g] /\ olds'[r][g] = olds[r][g])]_vars

TypeOK == now \in 0..MaxNow
================================================================================
