------------------------------- MODULE GenC09 -------------------------------
(* Behaviour generation for replay (spec -> code): random walks of ThrottleP   *)
(* (tlc -simulate) with the history of observable events carried in `hist`;    *)
(* every walk that reaches length GenDepth is printed as one JSON line.        *)
EXTENDS ThrottleP, TLC, Json
CONSTANT GenDepth
VARIABLE hist
GInit == Init /\ hist = <<>>
GNext == Next /\ hist' = Append(hist, last')
\* walks: requests 6x as likely as a reconfiguration (weights by duplication are not available: filter inside Next)
GNextW == /\ GNext
          /\ (last'.ev = "setw" => Len(SelectSeq(hist, LAMBDA e : e.ev = "setw")) < 2)
GSpec == GInit /\ [][GNextW]_<<vars, hist>>
Emit == (Len(hist) = GenDepth) => PrintT(<<"VH", ToJson(hist)>>)

cW == ("r1" :> 2) @@ ("r2" :> 4)
cAllowed == ("r1" :> 2) @@ ("r2" :> 1)
cPct == ("r1" :> (("a" :> 50) @@ ("b" :> 34) @@ ("u" :> -1)))
     @@ ("r2" :> (("a" :> -1) @@ ("b" :> -1) @@ ("u" :> -1)))
cDefBehav == ("r1" :> "use_default") @@ ("r2" :> "none")
cDefPct == ("r1" :> 100) @@ ("r2" :> 0)
=============================================================================
