"""Shared driver library for /verif checks.

One check = one python module checks/<id>.py exposing  run(ctx)  which drives
  (1) TLC exhaustive model checking of the TLA+ specification (bounded instance),
  (2) TLC generation of cases / behaviours from the specification,
  (3) replay of those into the real code built from /repo's working tree (tag `verif`),
  (4) recording of real executions and TLC trace validation of the recordings,
and reports through ctx.violation()/ctx.broken().  Verdict rule: DESIGN.md §2.5.

Exit codes of bin/check: 0 = property held on everything explored, 1 = violation
(line "VIOLATION property=<id> replay=<path>"), 2 = broken run (tool failure, vacuous
run, unreproduced counterexample, self-test failure) - never reported as a violation.
"""
import json, os, re, shutil, subprocess, sys, tempfile, time, hashlib, random

VERIF = os.path.dirname(os.path.dirname(os.path.abspath(__file__)))
REPO = os.environ.get("VERIF_REPO", "/repo")
ENGINE = os.path.join(REPO, "proxy/src/services/lunar-engine")
# runs against a scratch worktree (mutation testing) must not overwrite the evidence / replays of /repo itself
ALT = os.path.abspath(REPO) != "/repo"
OUTROOT = VERIF if not ALT else os.path.join("/tmp", "verif-alt-" + hashlib.sha1(os.path.abspath(REPO).encode()).hexdigest()[:8])
TLA_CP = "/opt/veriftools/tla/tla2tools.jar:/opt/veriftools/tla/CommunityModules-deps.jar"
NCPU = os.cpu_count() or 4

GOENV = {
    "GOFLAGS": "-mod=mod", "GOPROXY": "off", "GOSUMDB": "off", "GOTOOLCHAIN": "local",
    "CGO_ENABLED": "0",
}


class Broken(Exception):
    """tool failure / vacuity / self-test failure: exit 2, never a violation"""


class TLCResult:
    def __init__(self):
        self.ok = False            # completed, no error
        self.generated = 0
        self.distinct = 0
        self.depth = 0
        self.violated = None       # name of violated invariant / property
        self.error = None          # other error text
        self.out = ""
        self.wall = 0.0
        self.trace = []            # counterexample states (text)

    def __repr__(self):
        return "TLC(ok=%s gen=%d distinct=%d violated=%s err=%s)" % (
            self.ok, self.generated, self.distinct, self.violated,
            (self.error or "")[:200])


def load_scaled(timeout):
    """time limits are protections against hung tools, not part of any verdict: on an oversubscribed machine (load average
    above the number of cores) they are stretched proportionally, up to 5x, so that slowness is not mistaken for a hang."""
    try:
        f = os.getloadavg()[0] / max(1, (os.cpu_count() or 1))
    except OSError:
        f = 1.0
    return int(timeout * min(5.0, max(1.0, f)))


class Ctx:
    def __init__(self, pid, tier, seed, replay=None):
        self.pid = pid
        self.tier = tier
        self.seed = seed
        self.replay = replay
        self.t0 = time.time()
        self.scratch = tempfile.mkdtemp(prefix="verif-%s-" % pid.lower(),
                                        dir=os.environ.get("VERIF_SCRATCH", "/tmp"))
        self.rng = random.Random(seed)
        self.cov = {
            "states": 0, "transitions": 0, "traces_validated_against_impl": 0,
            "evaluations": 0, "distinct_nontrivial": 0, "samples": [],
            "rule": "", "exhaustive": False, "checker_cmd": "", "trusted_base": [],
            "tlc_runs": [], "model_drift": False, "known_findings_hit": [],
        }
        self.assumptions = []
        self.violations = []       # list of dict(witness, replay)
        self.known_hits = []
        self.notes = []
        self._kf = None
        self._bins = {}

    # ------------------------------------------------------------------ util
    @property
    def thorough(self):
        return self.tier == "thorough"

    def log(self, *a):
        print("[%s %6.1fs]" % (self.pid, time.time() - self.t0), *a, flush=True)

    def sub(self, name):
        d = os.path.join(self.scratch, name)
        os.makedirs(d, exist_ok=True)
        return d

    def cleanup(self):
        shutil.rmtree(self.scratch, ignore_errors=True)

    # ------------------------------------------------------------ harness
    def build_harness(self, cmd, race=False):
        """go build -tags verif of /verif/harness/cmd/<cmd> against /repo's working tree."""
        key = (cmd, race)
        if key in self._bins:
            return self._bins[key]
        src = os.path.join(self.scratch, "harness-src")
        if not os.path.isdir(src):
            shutil.copytree(os.path.join(VERIF, "harness"), src)
            gomod = open(os.path.join(src, "go.mod")).read().replace("/repo/", REPO.rstrip("/") + "/")
            open(os.path.join(src, "go.mod"), "w").write(gomod)
        out = os.path.join(self.scratch, "bin-%s%s" % (cmd, "-race" if race else ""))
        env = dict(os.environ); env.update(GOENV)
        args = ["go", "build", "-tags", "verif"]
        if race:
            env["CGO_ENABLED"] = "1"
            args.append("-race")
        args += ["-o", out, "./cmd/" + cmd]
        t = time.time()
        p = subprocess.run(args, cwd=src, env=env, stdout=subprocess.PIPE, stderr=subprocess.STDOUT, text=True)
        if p.returncode != 0:
            raise Broken("harness build failed (cmd/%s):\n%s" % (cmd, p.stdout[-4000:]))
        self.log("built harness cmd/%s in %.1fs" % (cmd, time.time() - t))
        self._bins[key] = out
        return out

    def run_harness(self, binary, args, cwd=None, timeout=600, env=None, check=True, stdin=None):
        """run a harness binary with a scratch cwd (the engine writes policies.yaml into cwd)."""
        timeout = load_scaled(timeout)
        cwd = cwd or self.sub("cwd")
        e = dict(os.environ)
        e["VERIF_REPO"] = REPO
        e["LUNAR_PROXY_PROCESSORS_DIRECTORY"] = os.path.join(ENGINE, "streams/processors/registry")
        e.setdefault("VERIF_SEED", str(self.seed))
        # temp files / dirs of the executors land in the scratch directory of this run and disappear with it
        e["TMPDIR"] = self.sub("tmp")
        if env:
            e.update(env)
        try:
            p = subprocess.run([binary] + list(args), cwd=cwd, env=e, stdout=subprocess.PIPE,
                               stderr=subprocess.PIPE, text=True, timeout=timeout, input=stdin)
        except subprocess.TimeoutExpired:
            raise Broken("harness timed out after %ds: %s %s" % (timeout, binary, " ".join(args)))
        if check and p.returncode != 0:
            raise Broken("harness failed rc=%d: %s %s\nstdout: %s\nstderr: %s" % (
                p.returncode, os.path.basename(binary), " ".join(args), p.stdout[-2000:], p.stderr[-4000:]))
        return p

    # ---------------------------------------------------------------- TLC
    def spec_dir(self, name, fresh=False):
        """scratch copy of specs/<name> with specs/common/* alongside."""
        d = os.path.join(self.scratch, "spec-" + name)
        if fresh and os.path.isdir(d):
            shutil.rmtree(d)
        if not os.path.isdir(d):
            shutil.copytree(os.path.join(VERIF, "specs", name), d)
            com = os.path.join(VERIF, "specs", "common")
            if os.path.isdir(com):
                for f in os.listdir(com):
                    if not os.path.exists(os.path.join(d, f)):
                        shutil.copy(os.path.join(com, f), d)
        return d

    def tlc(self, specdir, module, cfg=None, workers=None, timeout=600, extra=(), env=None,
            deque=False, count=True, label=None, simulate=None, depth=None, heap=None):
        """run TLC on <specdir>/<module>.tla with <cfg>; parse the result."""
        cfg = cfg or (module + ".cfg")
        timeout = load_scaled(timeout)
        meta = tempfile.mkdtemp(prefix="meta-", dir=self.scratch)
        w = str(workers if workers is not None else (NCPU if self.thorough else min(8, NCPU)))
        jopts = ["-XX:+UseParallelGC", "-Xss64m"]
        if not heap and str(w) == "1":
            # single-worker runs (trace validation, behaviour generation) are started many at a time: without a cap every JVM
            # may grow to a quarter of the machine's memory and the kernel kills one of them
            heap = "4g"
        if not heap:
            # the JVM default (a quarter of the machine, and as much again off-heap for TLC's fingerprint set) is far more than any
            # model here needs and invites the kernel's OOM killer when several checks run at once
            heap = "8g"
        if heap:
            jopts.append("-Xmx%s" % heap)
        if deque:
            jopts.append("-Dtlc2.tool.queue.IStateQueue=StateDeque")
        args = ["timeout", str(timeout), "java"] + jopts + ["-cp", TLA_CP, "tlc2.TLC",
                "-workers", w, "-metadir", meta, "-config", cfg]
        if simulate:
            args += ["-simulate", simulate]
        if depth:
            args += ["-depth", str(depth)]
        if simulate or "-seed" in extra:
            pass
        args += list(extra) + [module + ".tla"]
        e = dict(os.environ)
        if env:
            e.update(env)
        t = time.time()
        p = subprocess.run(args, cwd=specdir, env=e, stdout=subprocess.PIPE, stderr=subprocess.STDOUT, text=True)
        shutil.rmtree(meta, ignore_errors=True)
        r = TLCResult()
        r.out = p.stdout
        r.wall = time.time() - t
        m = re.findall(r"(\d+) states generated, (\d+) distinct states found", p.stdout)
        if m:
            r.generated, r.distinct = int(m[-1][0]), int(m[-1][1])
        m = re.search(r"depth of the complete state graph search is (\d+)", p.stdout)
        if m:
            r.depth = int(m.group(1))
        m = re.search(r"Error: Invariant (\S+) is violated", p.stdout)
        if m:
            r.violated = m.group(1)
        m2 = re.search(r"Error: Action property (.*?) is violated", p.stdout)
        if m2:
            r.violated = "ACTION-PROPERTY " + m2.group(1)
        if "Temporal properties were violated" in p.stdout:
            r.violated = r.violated or "TEMPORAL"
        if re.search(r"Error: Assumption .* is false", p.stdout):
            r.violated = r.violated or "ASSUME"
        if p.returncode == 124:
            r.error = "timeout after %ds" % timeout
        elif r.violated is None and ("Error:" in p.stdout or p.returncode not in (0,)):
            if "Model checking completed. No error has been found." not in p.stdout and \
               not (simulate and p.returncode == 0):
                em = re.search(r"Error:.*(?:\n.*){0,12}", p.stdout)
                r.error = (em.group(0) if em else "rc=%d\n%s" % (p.returncode, p.stdout[-1500:]))
        r.ok = (r.violated is None and r.error is None)
        if r.violated:
            r.trace = re.findall(r"State \d+:.*?(?=\nState \d+:|\n\d+ states generated|\Z)", p.stdout, re.S)
        if count:
            self.cov["tlc_runs"].append({"module": module, "cfg": cfg, "generated": r.generated,
                                         "distinct": r.distinct, "depth": r.depth, "wall_s": round(r.wall, 1),
                                         "result": "ok" if r.ok else (r.violated or "error"),
                                         "label": label or ""})
        return r

    def tlc_exhaustive(self, specdir, module, cfg=None, **kw):
        """exhaustive run that must succeed; adds to states/transitions."""
        r = self.tlc(specdir, module, cfg, **kw)
        if not r.ok:
            raise Broken("TLC %s/%s: %r\n%s" % (module, cfg or "", r, r.out[-3000:]))
        if r.distinct <= 1 and not kw.get("allow_trivial"):
            raise Broken("TLC %s/%s explored a trivial state space" % (module, cfg))
        self.cov["states"] += r.distinct
        self.cov["transitions"] += r.generated
        self.log("TLC %s %s: %d generated / %d distinct, depth %d, %.1fs" % (
            module, cfg or "", r.generated, r.distinct, r.depth, r.wall))
        return r

    def tlc_trace(self, specdir, module, trace_path, cfg=None, timeout=600, deque=False, expect_len=None):
        """validate an NDJSON trace file with a Trace spec.  Returns (accepted, matched_prefix, result)."""
        dst = os.path.join(specdir, "trace.ndjson")
        if os.path.abspath(trace_path) != dst:
            shutil.copy(trace_path, dst)
        r = self.tlc(specdir, module, cfg, workers=1, timeout=timeout, deque=deque, count=False)
        m = re.findall(r"TRACE-HWM (\d+) (\d+)", r.out)
        hwm, tot = (int(m[-1][0]), int(m[-1][1])) if m else (-1, -1)
        accepted = r.ok and hwm == tot and tot >= 0
        if r.error and "TRACE-HWM" not in r.out:
            raise Broken("trace validation %s failed to run: %s\n%s" % (module, r.error, r.out[-3000:]))
        return accepted, hwm, r

    # ----------------------------------------------------- findings / results
    def known_findings(self):
        if self._kf is None:
            p = os.path.join(VERIF, "known_findings.json")
            self._kf = json.load(open(p)) if os.path.exists(p) else {"findings": [], "fixed": []}
        return [f for f in self._kf.get("findings", []) if f.get("property") == self.pid and f.get("status") == "open"]

    def match_known(self, witness):
        for f in self.known_findings():
            sig = f.get("signature", {})
            if sig and all(witness.get(k) == v for k, v in sig.items()):
                return f
        return None

    def violation(self, witness, replay_obj):
        """report a real-code behaviour judged by the specification as violating the property.
        witness: dict with at least 'class' (coarse failing class used for known-finding matching)."""
        f = self.match_known(witness)
        if f is not None:
            if f["id"] not in [k["id"] for k in self.known_hits]:
                self.known_hits.append(f)
            return False
        d = os.path.join(OUTROOT, "replays", self.pid)
        os.makedirs(d, exist_ok=True)
        body = json.dumps({"property": self.pid, "witness": witness, "replay": replay_obj}, indent=1, sort_keys=True, default=str)
        h = hashlib.sha1(body.encode()).hexdigest()[:10]
        path = os.path.join(d, "%s-%s.json" % (witness.get("class", "v"), h))
        open(path, "w").write(body)
        if len(self.violations) < 50:
            self.violations.append({"witness": witness, "replay": path})
        return True

    def sample(self, s, limit=3):
        if len(self.cov["samples"]) < limit:
            self.cov["samples"].append(s)

    def finish(self, level="model_checking"):
        for f in self.known_hits:
            print("KNOWN-FINDING: property=%s %s" % (self.pid, f.get("describe", f["id"])), flush=True)
        seen = set()
        for v in self.violations:
            if v["replay"] in seen:
                continue
            seen.add(v["replay"])
            if len(seen) <= 8:
                print("VIOLATION property=%s replay=%s" % (self.pid, v["replay"]), flush=True)
                print("   witness: %s" % json.dumps(v["witness"], default=str)[:600], flush=True)
        if len(seen) > 8:
            print("   ... %d further violations (replay files under replays/%s/)" % (len(seen) - 8, self.pid), flush=True)
        self.cov["known_findings_hit"] = [f["id"] for f in self.known_hits]
        ev = {
            "property_id": self.pid, "tier": self.tier, "seed": self.seed, "level": level,
            "coverage": self.cov, "assumptions": self.assumptions,
            "wall_s": round(time.time() - self.t0, 2), "violations": len(seen),
            "notes": self.notes,
        }
        write_evidence(self.pid, ev)
        return 1 if self.violations else 0


def write_evidence(pid, ev):
    d = os.path.join(OUTROOT, "evidence")
    os.makedirs(d, exist_ok=True)
    tmp = os.path.join(d, ".%s.json.tmp" % pid)
    json.dump(ev, open(tmp, "w"), indent=1, sort_keys=True, default=str)
    os.replace(tmp, os.path.join(d, "%s.json" % pid))


def write_ndjson(path, events):
    with open(path, "w") as f:
        for e in events:
            f.write(json.dumps(e, separators=(",", ":"), sort_keys=True) + "\n")


def read_ndjson(path):
    out = []
    for line in open(path):
        line = line.strip()
        if line:
            out.append(json.loads(line))
    return out


def main(argv):
    import argparse, importlib
    ap = argparse.ArgumentParser()
    ap.add_argument("pid")
    ap.add_argument("--tier", default=os.environ.get("VERIF_TIER", "quick"), choices=["quick", "thorough"])
    ap.add_argument("--replay", default=None)
    a = ap.parse_args(argv)
    seed = int(os.environ.get("VERIF_SEED", "1") or 1)
    pid = a.pid.upper()
    sys.path.insert(0, os.path.join(VERIF, "checks"))
    try:
        mod = importlib.import_module(pid.lower())
    except ImportError as e:
        print("no check for %s: %s" % (pid, e)); return 2
    ctx = Ctx(pid, a.tier, seed, a.replay)
    try:
        try:
            if a.replay:
                rc = mod.replay(ctx, a.replay)
                return rc
            mod.run(ctx)
            rc = ctx.finish(getattr(mod, "LEVEL", "model_checking"))
            ctx.log("done rc=%d violations=%d known=%d" % (rc, len(ctx.violations), len(ctx.known_hits)))
            return rc
        except Broken as b:
            print("BROKEN %s: %s" % (pid, b), flush=True)
            return 2
        except Exception:
            import traceback
            traceback.print_exc()
            print("BROKEN %s: internal error" % pid, flush=True)
            return 2
    finally:
        if not os.environ.get("VERIF_KEEP"):
            ctx.cleanup()
        else:
            print("scratch kept:", ctx.scratch)


# ---------------------------------------------------------------------------
# history-structured traces:  line 1 = {"ev":"config",...}; every history starts with {"ev":"reset",...}

def split_histories(events):
    cfg, hs = events[0], []
    for e in events[1:]:
        if e.get("ev") == "reset":
            hs.append([e])
        else:
            if not hs:
                raise Broken("trace does not start with reset after config")
            hs[-1].append(e)
    return cfg, hs


def validate_history_trace(ctx, specname, module, events, cfg=None, max_rounds=6, deque=False, tag="t", timeout=600):
    """TLC-validate one trace (config + histories).  Returns (n_accepted_histories, rejected) where rejected is a
    list of dict(hist=<events of the rejected history>, at=<index in history of the first rejected event>, config=...).
    A rejected history is removed and the rest re-validated, so one rejection does not hide later ones."""
    config, hs = split_histories(events)
    rejected = []
    sd = ctx.spec_dir(specname)
    wd = os.path.join(ctx.scratch, "tv-%s-%s" % (specname, tag))
    if not os.path.isdir(wd):
        shutil.copytree(sd, wd)
    rounds = 0
    while True:
        rounds += 1
        flat = [config] + [e for h in hs for e in h]
        p = os.path.join(wd, "trace.ndjson")
        write_ndjson(p, flat)
        ok, hwm, r = ctx.tlc_trace(wd, module, p, cfg=cfg, deque=deque, timeout=timeout)
        if r.violated and r.violated not in ("ASSUME",):
            # an invariant of the property spec failed on the observed trace: locate via hwm as well
            pass
        if ok and not r.violated:
            return len(hs), rejected, rounds
        if hwm < 1:
            raise Broken("trace validation made no progress (%s): %s\n%s" % (module, r, r.out[-2000:]))
        # line hwm+1 (1-based) is the first unexplained event; when an invariant failed the offending
        # state is the one after consuming line hwm
        bad_line = hwm + 1 if not r.violated else hwm
        idx = bad_line - 2          # 0-based index into the flattened history events
        k = 0
        for hi, h in enumerate(hs):
            if idx < k + len(h):
                rejected.append({"config": config, "hist": h, "at": idx - k,
                                 "invariant": r.violated})
                del hs[hi]
                break
            k += len(h)
        else:
            raise Broken("cannot locate rejected line %d of %d" % (bad_line, len(flat)))
        if rounds >= max_rounds or not hs:
            return len(hs), rejected, rounds


def parallel(fn, items, n=8):
    from concurrent.futures import ThreadPoolExecutor
    with ThreadPoolExecutor(max_workers=n) as ex:
        return list(ex.map(fn, items))


def tlc_vh_lines(out):
    """behaviours printed by a Gen spec as  <<"VH", "<json>">>  (deduplicated, order kept)."""
    seen, res = set(), []
    for line in out.splitlines():
        if line.startswith('<<"VH", "') and line.endswith('">>'):
            s = line[len('<<"VH", "'):-3]
            s = s.replace('\\"', '"').replace('\\\\', '\\')
            if s not in seen:
                seen.add(s)
                res.append(json.loads(s))
    return res
