#!/usr/bin/env python3
"""C19 executor (pure: drives the real interceptor classes, records what they answered; no oracle logic).

  c19_exec.py tree    <spec.json> <out.ndjson>    every event sequence over an alphabet up to a depth, per configuration
  c19_exec.py scripts <scripts.json> <out.ndjson> given event scripts (linear histories), same output format
  c19_exec.py trie    <scripts.json> <out.ndjson> given event scripts sharing prefixes, recorded as their prefix tree
  c19_exec.py filter  <cases.json> <out.ndjson>   TrafficFilter.is_allowed cases
  c19_exec.py probe                                 facts about the environment (python version, what gethostbyname raises)

The real modules fail_safe.py / traffic_filter.py / configuration.py are loaded from
$VERIF_REPO/interceptors/lunar-py-interceptor/lunar_interceptor/src by file path: stub *package* objects are put
into sys.modules so that the package __init__ (which needs requests/aiohttp, not installed here) is not executed.
FailSafe and TrafficFilter are constructed exactly as lunar_interceptor/__init__.py constructs them: the
`interceptor_config = ...` assignment and the `FailSafe(...)` / `TrafficFilter(...)` call expressions are taken from that
file's AST and evaluated against the real configuration module, which reads the environment variables
LUNAR_ENTER_COOLDOWN_AFTER_ATTEMPTS / LUNAR_EXIT_COOLDOWN_AFTER_SEC / LUNAR_ALLOW_LIST / LUNAR_BLOCK_LIST when it is loaded.

Output (NDJSON, one node per line, line number = node id, line 1 = root):
  {"k":[child ids], "ev":..., "N":..,"C":..,"d":..,"read":..,"out":..,"ans":..,"raised":..}
every node carries every field (TLC compares uniform records).  A linear history is a chain.
"""
import ast, importlib, importlib.util, json, logging, os, socket, sys, types

sys.dont_write_bytecode = True      # nothing is written into the repository under test

REPO = os.environ.get("VERIF_REPO", "/repo")
SRC = os.path.join(REPO, "interceptors/lunar-py-interceptor/lunar_interceptor/src")
PKG = os.path.join(SRC, "lunar_interceptor")
T0 = 1_700_000_000.0          # patched time(): T0 + ticks (1 tick = 1 s)

LOGGER = logging.getLogger("c19-exec")
LOGGER.addHandler(logging.NullHandler())
LOGGER.propagate = False
LOGGER.setLevel(logging.CRITICAL)


def _stub_packages():
    for name, path in (("lunar_interceptor", PKG),
                       ("lunar_interceptor.interceptor", os.path.join(PKG, "interceptor")),
                       ("lunar_interceptor.interceptor.hooks", os.path.join(PKG, "interceptor", "hooks"))):
        m = types.ModuleType(name)
        m.__path__ = [path]
        m.__package__ = name
        sys.modules[name] = m


def _load(name):
    """(re)load one real module of the interceptor by its dotted name (file found through the stub package path)."""
    sys.modules.pop(name, None)
    return importlib.import_module(name)


_stub_packages()
import warnings
with warnings.catch_warnings():
    warnings.simplefilter("ignore")
    FS = _load("lunar_interceptor.interceptor.fail_safe")
    TF = _load("lunar_interceptor.interceptor.traffic_filter")

_INIT_AST = ast.parse(open(os.path.join(PKG, "__init__.py")).read())


def _find_call(func_name):
    for n in ast.walk(_INIT_AST):
        if isinstance(n, ast.Call) and isinstance(n.func, ast.Name) and n.func.id == func_name:
            return n
    raise SystemExit("no %s(...) call in lunar_interceptor/__init__.py" % func_name)


def _find_assign(target):
    for n in _INIT_AST.body:
        if isinstance(n, ast.AnnAssign) and isinstance(n.target, ast.Name) and n.target.id == target:
            return n.value
        if isinstance(n, ast.Assign) and any(isinstance(t, ast.Name) and t.id == target for t in n.targets):
            return n.value
    raise SystemExit("no assignment to %s in lunar_interceptor/__init__.py" % target)


def _ev(node, ns):
    return eval(compile(ast.Expression(body=node), "lunar_interceptor/__init__.py", "eval"), ns)


_ENV_KEYS = ("LUNAR_ENTER_COOLDOWN_AFTER_ATTEMPTS", "LUNAR_EXIT_COOLDOWN_AFTER_SEC", "LUNAR_ALLOW_LIST", "LUNAR_BLOCK_LIST",
             "LUNAR_PROXY_HOST")


def build(env):
    """namespace of lunar_interceptor/__init__.py as far as the two constructions need it, for the given environment."""
    for k in _ENV_KEYS:
        os.environ.pop(k, None)
    for k, v in env.items():
        if v is not None:
            os.environ[k] = str(v)
    with warnings.catch_warnings():
        warnings.simplefilter("ignore")
        conf = _load("lunar_interceptor.interceptor.configuration")      # dataclass defaults read the environment now
    ns = {"FailSafe": FS.FailSafe, "ProxyErrorException": FS.ProxyErrorException, "TrafficFilter": TF.TrafficFilter,
          "_LOGGER": LOGGER, "get_interceptor_config": conf.get_interceptor_config,
          "InterceptorConfig": conf.InterceptorConfig}
    ns["interceptor_config"] = _ev(_find_assign("interceptor_config"), ns)
    return ns


class Clock:
    """patched time(): T0 + ticks / unit seconds.  unit is a power of two (1, 8, 64, 1024): every instant is a dyadic
    rational exactly representable as a float, so comparisons at the boundary of the cool-down are exact."""

    def __init__(self):
        self.t = 0
        self.unit = 1

    def __call__(self):
        return T0 + self.t / self.unit


CLOCK = Clock()
FS.time = CLOCK                 # fail_safe.py does `from time import time`


# --- exception classes standing in for what the hooks register with fail_safe.handle_on(...)
class StubRequestException(IOError):          # requests.RequestException(IOError)
    pass


class StubConnectionError(StubRequestException):   # requests.ConnectionError / aiohttp.ClientConnectionError
    pass


class AppBase(BaseException):                 # e.g. asyncio.CancelledError / KeyboardInterrupt in the application
    pass


def fail_safe_factory(cfg):
    if cfg.get("level") == "hook":
        return hook_factory(cfg)
    return _unit_factory(cfg)


def _unit_factory(cfg):
    """the environment is read once per configuration (as at interpreter start); every history gets a fresh FailSafe
    built by the constructor call of lunar_interceptor/__init__.py"""
    env = {}
    if not cfg.get("default"):
        env["LUNAR_ENTER_COOLDOWN_AFTER_ATTEMPTS"] = cfg["N"]
        env["LUNAR_EXIT_COOLDOWN_AFTER_SEC"] = cfg["C"]
    ns = build(env)
    code = compile(ast.Expression(body=_find_call("FailSafe")), "lunar_interceptor/__init__.py", "eval")

    def mk():
        fs = eval(code, ns)
        fs.handle_on((StubConnectionError, socket.gaierror))       # as RequestsHook / AioHttpHook / TornadoHook do
        CLOCK.unit = int(cfg.get("unit", 1))
        CLOCK.t = int(cfg.get("phase", 0))         # the history starts at T0 + phase/unit (a fractional instant)
        return fs
    return mk


# --- the header containers the hooks hand to FailSafe.validate_headers (the HTTP libraries are not installed here):
#     requests: requests.structures.CaseInsensitiveDict, aiohttp: multidict.CIMultiDictProxy, tornado: httputil.HTTPHeaders
from collections.abc import Mapping, MutableMapping


class CIDictRequests(MutableMapping):
    """semantics of requests.structures.CaseInsensitiveDict: lookups ignore case, iteration yields the names as set"""

    def __init__(self, items=()):
        self._store = {}
        for k, v in items:
            self[k] = v

    def __setitem__(self, k, v):
        self._store[k.lower()] = (k, v)

    def __getitem__(self, k):
        return self._store[k.lower()][1]

    def __delitem__(self, k):
        del self._store[k.lower()]

    def __iter__(self):
        return (k for k, _ in self._store.values())

    def __len__(self):
        return len(self._store)


class CIMultiDictAiohttp(Mapping):
    """semantics of multidict.CIMultiDictProxy: read-only multi-valued mapping, case-insensitive lookup (first value),
    `in` ignores case, iteration yields the names as received"""

    def __init__(self, items=()):
        self._items = [(k, v) for k, v in items]

    def __getitem__(self, k):
        for n, v in self._items:
            if n.lower() == k.lower():
                return v
        raise KeyError(k)

    def __contains__(self, k):
        return isinstance(k, str) and any(n.lower() == k.lower() for n, _ in self._items)

    def __iter__(self):
        return (n for n, _ in self._items)

    def __len__(self):
        return len(self._items)

    def getall(self, k):
        return [v for n, v in self._items if n.lower() == k.lower()]


class HTTPHeadersTornado(MutableMapping):
    """semantics of tornado.httputil.HTTPHeaders: names are normalised to Http-Header-Case on every access"""

    @staticmethod
    def _norm(k):
        return "-".join(w.capitalize() for w in k.split("-"))

    def __init__(self, items=()):
        self._d = {}
        for k, v in items:
            self[k] = v

    def __setitem__(self, k, v):
        self._d[self._norm(k)] = v

    def __getitem__(self, k):
        return self._d[self._norm(k)]

    def __delitem__(self, k):
        del self._d[self._norm(k)]

    def __iter__(self):
        return iter(self._d)

    def __len__(self):
        return len(self._d)


_CONTAINERS = {"dict": lambda items: dict(items), "requests": CIDictRequests, "aiohttp": CIMultiDictAiohttp,
               "tornado": HTTPHeadersTornado}


def _response_headers(container, error_name=None, code="2"):
    """headers of a response that came back through the gateway, in the container a hook would pass"""
    items = [("Content-Type", "application/json"), ("x-lunar-sequence-id", "abc"), ("Date", "Mon, 28 Sep 2026 00:00:00 GMT")]
    if error_name:
        items.insert(1, (error_name, code))
    return _CONTAINERS[container](items)


def _raise_gw(fs, kind):
    """every way a gateway-side failure reaches FailSafe: exceptions of the types the hooks register with handle_on, and error
    *responses* (header x-lunar-error) through validate_headers.  kind: "conn" | "gai" | "proxy[/container/header-name/code]" """
    if kind == "conn":
        raise StubConnectionError("connection refused")
    if kind == "gai":
        raise socket.gaierror(-2, "Name or service not known")
    parts = kind.split("/")
    container = parts[1] if len(parts) > 1 else "requests"
    name = parts[2] if len(parts) > 2 else "x-lunar-error"
    code = parts[3] if len(parts) > 3 else "2"
    # as the hooks do after the gateway answered; when it does not raise the hook hands the response to the application
    fs.validate_headers(_response_headers(container, name, code))


def _gw_ok(fs, kind):
    """a good response through the gateway: the hooks validate its headers too"""
    parts = kind.split("/") if kind else []
    fs.validate_headers(_response_headers(parts[1] if len(parts) > 1 else "requests"))


def _app_exc(kind):
    if kind == "io":
        return OSError("disk full")                 # a parent class of the handled connection errors
    if kind == "base":
        return AppBase("cancelled")
    return ValueError("application bug")


def step(fs, e):
    """execute one event on the real object; returns the full event record with the observation."""
    rec = {"ev": e["ev"], "N": 0, "C": 0, "d": 0, "read": False, "out": "", "kind": "", "ans": True, "raised": "none"}
    rig = None
    if isinstance(fs, HookRig):
        rig, fs = fs, fs.fs
    if e["ev"] == "req":
        rig.req(e, rec)
    elif e["ev"] == "adv":
        CLOCK.t += e["d"]
        rec["d"] = e["d"]
    elif e["ev"] == "ask":
        rec["ans"] = bool(fs.state_ok)
    elif e["ev"] == "call":
        read, out, kind = bool(e.get("read", True)), e["out"], e.get("kind", "")
        rec.update(read=read, out=out, kind=kind)
        thrown = None
        try:
            with fs:
                go = True
                if read:
                    go = bool(fs.state_ok)
                    rec["ans"] = go
                if go and out != "skip":
                    if out == "gwerr":
                        _raise_gw(fs, kind)
                    elif out == "ok":
                        _gw_ok(fs, kind)
                    elif out == "appexc":
                        thrown = _app_exc(kind)
                        raise thrown
        except BaseException as x:      # noqa: whatever leaves the with-block is the observation
            rec["raised"] = "same" if x is thrown else "other"
            if x is not thrown:
                rec["raised_type"] = type(x).__name__
    else:
        raise SystemExit("unknown event %r" % (e,))
    return rec


def reset_rec(cfg):
    # the configuration the property is judged against: what the operator configured (or the documented defaults),
    # the cool-down expressed in clock ticks (unit ticks per second)
    n, c = (5, 10) if cfg.get("default") else (cfg["N"], cfg["C"])
    unit = int(cfg.get("unit", 1))
    return {"ev": "reset", "N": n, "C": c * unit, "d": 0, "read": False, "out": "", "kind": "", "ans": True, "raised": "none",
            "default": bool(cfg.get("default")), "unit": unit, "phase": int(cfg.get("phase", 0)), "Csec": c, "level": cfg.get("level", "unit")}


class Out:
    def __init__(self, path):
        self.nodes = [{"k": [], "ev": "root", "N": 0, "C": 0, "d": 0, "read": False, "out": "", "kind": "", "ans": True,
                       "raised": "none"}]
        self.path = path

    def add(self, parent, rec):
        rec = dict(rec)
        rec["k"] = []
        self.nodes.append(rec)
        nid = len(self.nodes)
        self.nodes[parent - 1]["k"].append(nid)
        return nid

    def write(self):
        with open(self.path, "w") as f:
            for n in self.nodes:
                f.write(json.dumps(n, separators=(",", ":"), sort_keys=True) + "\n")


def cmd_tree(spec_path, out_path):
    spec = json.load(open(spec_path))
    alphabet, depth = spec["alphabet"], spec["depth"]
    out = Out(out_path)
    execs = nondet = 0
    k = len(alphabet)
    for cfg in spec["configs"]:
        mk = fail_safe_factory(cfg)
        root = out.add(1, reset_rec(cfg))
        # every leaf path is executed from a fresh object (no state cloning); a node is recorded when its prefix is
        # reached for the first time; re-executions of a prefix must reproduce the recorded observation
        ids = [root] + [0] * depth          # ids[j] = node of the current prefix of length j
        fresh_from = 0                      # prefixes longer than this are new
        path = [0] * depth
        while True:
            fs = mk()
            for i in range(depth):
                rec = step(fs, alphabet[path[i]])
                execs += 1
                if i + 1 > fresh_from:
                    ids[i + 1] = out.add(ids[i], rec)
                else:
                    old = out.nodes[ids[i + 1] - 1]
                    if any(old.get(f) != rec.get(f) for f in ("ans", "raised", "gw", "prov", "via", "araised")):
                        nondet += 1
            i = depth - 1
            while i >= 0 and path[i] == k - 1:
                path[i] = 0
                i -= 1
            if i < 0:
                break
            path[i] += 1
            fresh_from = i
    out.write()
    print(json.dumps({"nodes": len(out.nodes), "executions": execs, "nondeterministic": nondet}))


def cmd_scripts(path, out_path):
    scripts = json.load(open(path))
    out = Out(out_path)
    execs = 0
    for s in scripts:
        fs = fail_safe_factory(s["config"])()
        cur = out.add(1, reset_rec(s["config"]))
        for e in s["events"]:
            cur = out.add(cur, step(fs, e))
            execs += 1
    out.write()
    print(json.dumps({"nodes": len(out.nodes), "executions": execs}))


def cmd_trie(path, out_path):
    """scripts sharing prefixes (one history per edge of the model's state graph): every script is executed from a fresh
    object, the recorded nodes form the prefix tree of the scripts."""
    scripts = json.load(open(path))
    out = Out(out_path)
    roots, kids, factories = {}, {}, {}
    execs = nondet = 0
    for s in scripts:
        ck = json.dumps(s["config"], sort_keys=True)
        if ck not in roots:
            factories[ck] = fail_safe_factory(s["config"])
            roots[ck] = out.add(1, reset_rec(s["config"]))
        fs = factories[ck]()
        cur = roots[ck]
        for e in s["events"]:
            rec = step(fs, e)
            execs += 1
            k = (cur, e["ev"], e.get("d", 0), e.get("read", False), e.get("out", ""), e.get("kind", ""), e.get("dest", ""),
                 "/".join(e.get("attempts", [])), e.get("provider", ""))
            nid = kids.get(k)
            if nid is None:
                nid = kids[k] = out.add(cur, rec)
            else:
                old = out.nodes[nid - 1]
                if old["ans"] != rec["ans"] or old["raised"] != rec["raised"]:
                    nondet += 1
            cur = nid
    out.write()
    print(json.dumps({"nodes": len(out.nodes), "executions": execs, "nondeterministic": nondet}))


# ------------------------------------------------------------------ traffic filter
class Resolver:
    """stands in for socket.gethostbyname: table host -> IPv4 string | "fail" (gaierror) | "unicode" (UnicodeError, what
    CPython's gethostbyname raises for a host the idna codec cannot encode, e.g. an empty label)."""

    def __init__(self):
        self.table = {}
        self.calls = 0

    def __call__(self, host):
        self.calls += 1
        r = self.table.get(host.lower(), "fail")         # name resolution is case-insensitive
        if r == "fail":
            raise socket.gaierror(-2, "Name or service not known")
        if r == "unicode":
            raise UnicodeError("encoding with 'idna' codec failed (UnicodeError: label empty or too long)")
        return r


RESOLVER = Resolver()
TF.gethostbyname = RESOLVER


def new_filter(allow, block):
    """allow / block: the list items as typed (items of the spec: {"raw": ...}); the variable is the items joined by a comma,
    unset when that is the empty string"""
    a, b = ",".join(x["raw"] for x in allow), ",".join(x["raw"] for x in block)
    env = {"LUNAR_ALLOW_LIST": a if a else None, "LUNAR_BLOCK_LIST": b if b else None}
    ns = build(env)
    return _ev(_find_call("TrafficFilter"), ns)


def cmd_filter(path, out_path):
    """spec: {"hosts":[{"h":host string,"hlow","hcanon","kind","ip":[a,b,c,d]|[],"ip6":[g1..g8]|[],"rsv"}...], "headers":[...],
    "configs":[{"allow":[{"raw","low","canon"}..],"block":[..]}],
    "rounds":n}.  The resolver table is rendered from the host objects (names: dotted quad of `ip`, or the failure mode)."""
    spec = json.load(open(path))
    RESOLVER.table = {h["h"].lower(): (".".join(str(o) for o in h["ip"]) if h["rsv"] == "ok" else h["rsv"])
                      for h in spec["hosts"] if h["kind"] in ("name", "junk")}
    n = 0
    with open(out_path, "w") as f:
        f.write(json.dumps({"ev": "config", "resolve": RESOLVER.table}, separators=(",", ":"), sort_keys=True) + "\n")
        for cfg in spec["configs"]:
            allow, block = cfg["allow"], cfg["block"]
            tf = new_filter(allow, block)          # one filter per configuration: later decisions see its result cache
            for rnd in range(spec.get("rounds", 1)):
                for h in spec["hosts"]:
                    for header in spec["headers"]:
                        headers = None if header == "absent" else ({} if header == "empty" else
                                                                   {"x-lunar-allow": header, "accept": "*/*"})
                        rec = {"ev": "case", "allow": allow, "block": block, "host": h["h"], "hlow": h["hlow"], "hcanon": h["hcanon"],
                               "kind": h["kind"], "ip": h["ip"],
                               "ip6": h["ip6"], "rsv": h["rsv"], "header": header, "round": rnd}
                        try:
                            r = tf.is_allowed(h["h"], headers)
                            rec["res"] = "yes" if r is True else ("no" if r is False else "other")
                        except BaseException as x:      # noqa
                            rec["res"] = "raise"
                            rec["exc"] = type(x).__name__
                        f.write(json.dumps(rec, separators=(",", ":"), sort_keys=True) + "\n")
                        n += 1
    print(json.dumps({"cases": n, "resolver_calls": RESOLVER.calls}))


# ------------------------------------------------------------------ hook level (hooks/requests.py)
# The real RequestsHook over a scripted transport.  Stand-ins only for the two third-party libraries the hook module imports
# and that are not installed here: yarl.URL (the members the hook and its helpers use) and requests (Session.request =
# the scripted transport, ConnectionError, models.CaseInsensitiveDict).  FailSafe, TrafficFilter, configuration, helpers,
# RequestsHook are the repository's.
from urllib.parse import urlsplit, urlunsplit


class _URL:
    _DEF = {"http": 80, "https": 443}

    def __init__(self, url):
        self._p = urlsplit(str(url))

    scheme = property(lambda self: self._p.scheme)
    host = property(lambda self: self._p.hostname)

    @property
    def port(self):
        return self._p.port if self._p.port is not None else self._DEF.get(self.scheme)

    def is_default_port(self):
        return self._p.port is None or self._p.port == self._DEF.get(self.scheme)

    def _rep(self, scheme=None, host=None, port=None):
        scheme = scheme if scheme is not None else self.scheme
        host = host if host is not None else self.host
        port = port if port is not None else self._p.port
        netloc = ("[%s]" % host if host and ":" in host else (host or "")) + (":%d" % port if port is not None else "")
        return _URL(urlunsplit((scheme, netloc, self._p.path, self._p.query, self._p.fragment)))

    def with_scheme(self, v):
        return self._rep(scheme=v)

    def with_host(self, v):
        return self._rep(host=v)

    def with_port(self, v):
        return self._rep(port=v)

    def __str__(self):
        return urlunsplit(self._p)


class _ReqConnectionError(StubRequestException):          # requests.ConnectionError
    pass


class _CIDict(CIDictRequests):
    def __init__(self, data=None, **kw):
        CIDictRequests.__init__(self, list(dict(data or {}).items()))

    def copy(self):
        return _CIDict(dict(self.items()))


class _Response:
    def __init__(self, origin, headers=None, status=200):
        self.origin, self.status_code, self.content = origin, status, b"{}"
        self.headers = _CIDict(headers or {})


class _Transport:
    def __init__(self):
        self.handler = None

    def send(self, method, url, headers):
        return self.handler(method, url, headers)


_TRANSPORT = _Transport()


class _Session:
    def request(self, method, url, *a, **kw):
        return _TRANSPORT.send(method, url, kw.get("headers"))


def _install_http_stand_ins():
    y = types.ModuleType("yarl")
    y.URL = _URL
    sys.modules["yarl"] = y
    r, m, ss = types.ModuleType("requests"), types.ModuleType("requests.models"), types.ModuleType("requests.sessions")
    m.CaseInsensitiveDict, m.Response, ss.Session = _CIDict, _Response, _Session
    r.models, r.sessions, r.Session, r.Response = m, ss, _Session, _Response
    r.RequestException, r.ConnectionError = StubRequestException, _ReqConnectionError
    r.get = lambda url, **kw: _Session().request("GET", url, **kw)
    sys.modules.update({"requests": r, "requests.models": m, "requests.sessions": ss})


_HOOKMOD = None
GW_HOST = "gw.lunar.test"
DESTS = {"pub": "api.pub.com", "excl": "blocked.partner.com", "int": "db.corp"}


class HookRig:
    """one application process: FailSafe + TrafficFilter + RequestsHook as lunar_interceptor/__init__.py wires them"""

    def __init__(self, ns):
        self.fs = _ev(_find_call("FailSafe"), ns)
        self.tf = _ev(_find_call("TrafficFilter"), ns)
        self.hook = _HOOKMOD.RequestsHook(LOGGER, self.fs, self.tf, ns["interceptor_config"].connection_config)
        self.request = self.hook._hook_module()          # what init_hooks installs as requests.Session.request

    def req(self, e, rec):
        attempts = list(e["attempts"])
        st = {"gw": 0, "prov": 0, "thrown": None, "pthrown": None}

        def handler(method, url, headers):
            host = urlsplit(url).hostname
            if host == GW_HOST:
                st["gw"] += 1
                a = attempts.pop(0) if attempts else "ok"
                if a == "ok":
                    return _Response("gateway", {"Content-Type": "text/plain"})
                if a == "err":
                    return _Response("gateway", {e.get("errname", "x-lunar-error"): "3"}, 504)
                if a == "retry":
                    return _Response("gateway", {"x-lunar-retry-after": "0", "x-lunar-sequence-id": "seq-1"}, 429)
                if a == "raise":
                    raise _ReqConnectionError("gateway unreachable")
                st["thrown"] = ValueError("bug in the application's transport adapter")
                raise st["thrown"]
            st["prov"] += 1
            if e["provider"] == "raise":
                st["pthrown"] = _ReqConnectionError("provider unreachable")
                raise st["pthrown"]
            return _Response("provider")
        _TRANSPORT.handler = handler
        url = "https://%s/v1/things?id=7" % DESTS[e["dest"]]
        via, araised = "", "none"
        try:
            resp = self.request(_Session(), "POST", url, headers={"accept": "*/*"})
            via = {"gateway": "gateway", "provider": "direct"}.get(getattr(resp, "origin", None), "other")
        except BaseException as x:      # noqa: what reaches the application is the observation
            araised = "same" if x is st["thrown"] else ("provider" if x is st["pthrown"] else "other")
            if araised == "other":
                rec["raised_type"] = type(x).__name__
        rec.update(gw=st["gw"], prov=st["prov"], via=via, araised=araised, dest=e["dest"], final=e["final"],
                   provider=e["provider"], attempts="/".join(e["attempts"]), errname=e.get("errname", "x-lunar-error"))


def hook_factory(cfg):
    global _HOOKMOD
    env = {"LUNAR_ENTER_COOLDOWN_AFTER_ATTEMPTS": cfg["N"], "LUNAR_EXIT_COOLDOWN_AFTER_SEC": cfg["C"],
           "LUNAR_BLOCK_LIST": DESTS["excl"], "LUNAR_PROXY_HOST": "%s:8000" % GW_HOST}
    ns = build(env)
    if _HOOKMOD is None:
        _install_http_stand_ins()
        with warnings.catch_warnings():
            warnings.simplefilter("ignore")
            _HOOKMOD = _load("lunar_interceptor.interceptor.hooks.requests")
        _HOOKMOD.sleep = lambda s: None          # retry-after waits are not part of the observation
    RESOLVER.table = {"api.pub.com": "93.184.216.34", "db.corp": "10.1.2.3", "blocked.partner.com": "93.184.216.35",
                      GW_HOST: "93.184.216.36"}

    def mk():
        rig = HookRig(ns)
        CLOCK.unit = int(cfg.get("unit", 1))
        CLOCK.t = int(cfg.get("phase", 0))
        return rig
    return mk


def cmd_probe():
    real = socket.gethostbyname
    res = {"python": sys.version.split()[0]}
    for h in ("a..com", "x" * 70 + ".com", ""):
        try:
            res[h[:12]] = real(h)
        except BaseException as x:      # noqa
            res[h[:12]] = type(x).__name__ + (" (socket.error)" if isinstance(x, socket.error) else " (NOT socket.error)")
    print(json.dumps(res))


if __name__ == "__main__":
    a = sys.argv[1:]
    if a and a[0] == "tree":
        cmd_tree(a[1], a[2])
    elif a and a[0] == "scripts":
        cmd_scripts(a[1], a[2])
    elif a and a[0] == "trie":
        cmd_trie(a[1], a[2])
    elif a and a[0] == "filter":
        cmd_filter(a[1], a[2])
    elif a and a[0] == "probe":
        cmd_probe()
    else:
        print(__doc__)
        sys.exit(2)
