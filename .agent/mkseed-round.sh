#!/bin/bash
# usage: .agent/mkseed-round.sh <Cnn> <round>   - scratch worktree /tmp/seed<round>-<cnn> of /repo HEAD + prompt file (property text + one-line list of earlier mutants to avoid)
set -e
pid=$1; r=$2; id=$(echo $pid | tr A-Z a-z); wt=/tmp/seed$r-$id
git -C /repo worktree add --detach $wt HEAD >/dev/null 2>&1
python3 /verif/.agent/mkseed.py $pid $wt > $wt.prompt
python3 - $pid >> $wt.prompt <<'PY'
import json,glob,sys,re
pid=sys.argv[1]
ds=sorted(glob.glob('/verif/seeded/%s-*/meta.json'%pid), key=lambda p:int(re.search(r'-(\d+)/',p).group(1)))
if ds:
    print("\n\nEarlier rounds already produced these mutants - produce three that are DIFFERENT in site and kind, and look at parts of the anchored code (and of the behaviour in the statement) they did not touch:")
    for i,p in enumerate(ds,1):
        print("(%d) %s"%(i,json.load(open(p)).get('summary','')[:320].replace('\n',' ')))
PY
echo $wt.prompt
