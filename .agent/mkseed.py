#!/usr/bin/env python3
"""print the prompt for a seeding agent: mkseed.py <Cnn> <worktree>   (only the property text goes in, nothing from /verif)"""
import json, sys
pid, wt = sys.argv[1], sys.argv[2]
p = next(json.loads(l) for l in open('/verif/properties.jsonl') if json.loads(l)['id'] == pid)
py = pid == 'C19'
print(f"""You are testing how robust a software property is against subtle regressions. You work ONLY inside the git worktree {wt}
(a checkout of TheLunarCompany/lunar: a Go HAProxy SPOE engine for outbound API traffic - flows of processors, quotas, queues, caches -
plus a Python interceptor). Do NOT read or write anything under /verif or /repo; do not look at other /tmp directories.
Environment: no network; Go 1.23 (`export GOFLAGS=-mod=mod GOPROXY=off GOSUMDB=off GOTOOLCHAIN=local` in every shell); Go modules of the repo:
proxy/src/services/lunar-engine, proxy/src/libs/toolkit-core, proxy/src/libs/shared-model, proxy/src/services/aggregation-output-plugin.
Engine code that initialises streams writes a policies.yaml into the current directory: run programs from a scratch cwd or clean up.
Some source files contain calls to `verifhook.Point(...)`/`verifhook.Fault(...)` and files named `export_verif*.go` (build tag `verif`): they are
inert test instrumentation - leave them alone and do not build with that tag. The test `TestLLMTokensProcessor` fails in this sandbox on the
unmodified tree (it needs the network) - ignore it.

TASK: produce THREE different, independent changes ("mutants") to the repository's NON-TEST source code, each of which
  (a) makes the property quoted below FALSE for some input / history / schedule / configuration,
  (b) still compiles (`go build ./...` in the touched module) and still passes the existing test suite of the touched module(s)
      (`go test -vet=off -count=1 ./...` there{'; the Python interceptor has no runnable suite here (requests/aiohttp missing) - keep the module importable by file path' if py else ''}),
  (c) is realistic - the kind of slip a maintainer could make in a refactoring or "optimisation" (an off-by-one at a boundary, a lock
      released too early, a forgotten reset on one path, a merge in the wrong order, a key missing a component, two sites that each look
      fine alone) - and needs something SPECIFIC to manifest: a particular interleaving, a fault at a particular point, a multi-step
      sequence of operations, an unusual input or configuration. NOT something ordinary use would expose at once, and not something the
      existing tests catch. Make the three mutants different in kind (different code sites / different triggering conditions).
For each mutant write, in the worktree under `seeded/<n>/` (n = 1,2,3):
  - `patch.diff`  : `git diff` of the change relative to HEAD (source files only; must apply cleanly with `git apply` from the worktree root),
  - a demonstration (`demo_test.go` or `demo.go`/{'`demo.py`' if py else '`demo.sh`'} + a `run.sh` that copies it where it must live, runs it and removes it again) which FAILS
    (non-zero exit) with the patch applied and PASSES (exit 0) on the unpatched tree, exercising the real code through its public/package API,
  - `meta.json`: {{"property": "{pid}", "summary": "...", "needs_to_manifest": "...", "files": [...], "test_packages": ["./pkg/..." relative to the module, used for (b)], "module": "<module dir relative to the worktree root>", "how_verified": "commands you ran and their results"}}.
Keep the worktree's tracked files UNCHANGED at the end (`git checkout -- .` after each mutant; leave only the untracked seeded/ directory).
Verify all of (a), (b), (c) yourself before finishing. Final message: a short table of the three mutants.

PROPERTY {pid} - "{p['title']}":
{p['statement']}
(Quantified over: {p['quantifier']['text']}.)
Anchored in: {', '.join(p['anchors']['files'])}.
Observable at: {'; '.join(p['anchors'].get('observe_at') or [])}.""")
