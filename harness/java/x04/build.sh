#!/bin/sh
# usage: build.sh <repo root> <output dir>
# compiles the Java interceptor of <repo> (unchanged sources) + stand-ins for the dependencies that cannot be fetched offline
# (javassist, org.json, okhttp3) + the generated okhttp3.RealCall (injected code, verbatim) + the X04 executor into <output dir>/cls
set -e
REPO="$1"; OUT="$2"
H="$(cd "$(dirname "$0")" && pwd)"
R="$REPO/interceptors/lunar-java-interceptor"
mkdir -p "$OUT/cls" "$OUT/gen"
javac -encoding UTF-8 -nowarn -d "$OUT/cls" $(find "$R/src/main/java" -name '*.java') \
      $(find "$H/stubs/javassist" "$H/stubs/org" -name '*.java') "$H/src/dev/lunar/interceptor/X04Gen.java" "$H/src/x04/J.java"
LUNAR_PROXY_HOST=lunar-proxy.test:8000 LUNAR_INTERCEPTOR_LOG_LEVEL=OFF \
      java -cp "$OUT/cls:$R/src/main/resources" dev.lunar.interceptor.X04Gen "$OUT/gen"
javac -encoding UTF-8 -nowarn -cp "$OUT/cls" -d "$OUT/cls" "$H"/stubs/okhttp3/*.java "$OUT/gen/okhttp3/RealCall.java" \
      "$H/src/dev/lunar/interceptor/X04Exec.java"
