package dev.lunar.interceptor;

import dev.lunar.clock.Clock;
import dev.lunar.clock.MockClock;
import okhttp3.Headers;
import okhttp3.OkHttpClient;
import okhttp3.RealCall;
import okhttp3.Request;
import okhttp3.Response;
import okhttp3.Transport;
import x04.J;

import java.io.BufferedWriter;
import java.io.IOException;
import java.lang.reflect.Constructor;
import java.lang.reflect.Field;
import java.lang.reflect.Method;
import java.net.InetAddress;
import java.nio.charset.StandardCharsets;
import java.nio.file.Files;
import java.nio.file.Paths;
import java.util.ArrayDeque;
import java.util.ArrayList;
import java.util.Deque;
import java.util.HashMap;
import java.util.LinkedHashMap;
import java.util.List;
import java.util.Map;
import java.util.Optional;

/**
 * X04 executor for the Java interceptor (pure: drives the real classes, records what they answered; no oracle logic).
 *
 *   X04Exec tree    spec.json    out.ndjson   every event sequence over an alphabet up to a depth, per configuration
 *   X04Exec scripts scripts.json out.ndjson   given event scripts (linear histories)
 *   X04Exec trie    scripts.json out.ndjson   given event scripts sharing prefixes, recorded as their prefix tree
 *   X04Exec filter  cases.json   out.ndjson   TrafficFilter decisions
 *   X04Exec probe   hosts.json   out.json     how the platform resolver (InetAddress + -Djdk.net.hosts.file) sees the hosts
 *
 * Same script / trace formats as py/c19_exec.py (a trace is a tree of observed events, line number = node id).
 *
 * What runs: the REAL dev.lunar.interceptor.{FailSafe, TrafficFilter, InetRange, Retry, RoutingData, InjectData, LunarLogger} and
 * dev.lunar.clock.MockClock compiled from $VERIF_REPO, and the REAL injected code (InjectData.initializeDeclarations + the
 * method templates resources/okhttp3/realcall.*) compiled verbatim into a stand-in okhttp3.RealCall by X04Gen.  One event
 * "call" = one RealCall.execute() of an application request; the stand-in client hands every leg (through the gateway / direct)
 * to the scripted Transport below, which plays the network and the application's own interceptors.
 *
 * FailSafe is configured as in production: by the environment variables LUNAR_ENTER_COOLDOWN_AFTER_ATTEMPTS /
 * LUNAR_EXIT_COOLDOWN_AFTER_SEC (Optional.empty() arguments, as in InjectData); only the clock is the repository's MockClock
 * instead of RealClock.  The process environment is patched in place between configurations (java.lang.ProcessEnvironment,
 * needs --add-opens); "cold" runs of the driver use the real environment of a fresh JVM and must agree.
 */
public final class X04Exec {
    private X04Exec() { }

    static final String ENTER_KEY = "LUNAR_ENTER_COOLDOWN_AFTER_ATTEMPTS";
    static final String EXIT_KEY = "LUNAR_EXIT_COOLDOWN_AFTER_SEC";
    static final String ALLOW_KEY = "LUNAR_ALLOW_LIST";
    static final String BLOCK_KEY = "LUNAR_BLOCK_LIST";
    static String proxyHost;            // host part of LUNAR_PROXY_HOST
    static final String DEST_URL = "https://api.pub.com/v1/items?page=2";

    // ------------------------------------------------------------------------------------------ environment / reflection
    private static Map<String, String> envMap;

    @SuppressWarnings("unchecked")
    static void setEnv(String key, String value) {
        try {
            if (envMap == null) {
                Map<String, String> env = System.getenv();
                Field f = env.getClass().getDeclaredField("m");
                f.setAccessible(true);
                envMap = (Map<String, String>) f.get(env);
            }
            if (value == null) envMap.remove(key); else envMap.put(key, value);
        } catch (ReflectiveOperationException | RuntimeException e) {
            throw new IllegalStateException("cannot patch the process environment (run with --add-opens java.base/java.util=ALL-UNNAMED "
                    + "--add-opens java.base/java.lang=ALL-UNNAMED): " + e);
        }
        String now = System.getenv(key);
        if (value == null ? now != null : !value.equals(now)) throw new IllegalStateException("environment patch not effective for " + key);
    }

    static void setStatic(Class<?> c, String field, Object value) throws ReflectiveOperationException {
        Field f = c.getDeclaredField(field);
        f.setAccessible(true);
        f.set(null, value);
    }

    // ------------------------------------------------------------------------------------------ fail-safe world
    /** observer: remembers what every stateOk() read answered (a filter-skipped call shows its read nowhere else). */
    static final class SpyFailSafe extends FailSafe {
        final List<Boolean> reads = new ArrayList<>();

        SpyFailSafe(Clock clock) { super(Optional.empty(), Optional.empty(), clock); }

        @Override public boolean stateOk() {
            boolean r = super.stateOk();
            reads.add(r);
            return r;
        }
    }

    /** exceptions standing in for what the application's own interceptors may throw inside the chain. */
    static final class AppRuntimeException extends RuntimeException {
        AppRuntimeException(String m) { super(m); }
    }

    static final class AppError extends Error {
        AppError(String m) { super(m); }
    }

    static final class Plan {
        final String out, kind;
        Runnable during;            // runs while the gateway leg of this call is in flight (other calls, clock advances)
        Throwable thrown;           // the application exception object of an "appexc" event
        boolean gatewaySeen;
        int directLegs;
        boolean allowHeaderReachedNetwork;

        Plan(String out, String kind, Runnable during) { this.out = out; this.kind = kind == null ? "" : kind; this.during = during; }
    }

    static final class World implements Transport {
        final MockClock clock = new MockClock();
        final SpyFailSafe fs;
        final OkHttpClient client;
        final long tickMs;
        final Deque<Plan> stack = new ArrayDeque<>();
        long executions;

        World(Map<String, Object> cfg) throws ReflectiveOperationException {
            long unit = J.n(cfg, "unit", 1);
            if (1000 % unit != 0) throw new IllegalArgumentException("unit must divide 1000 (milliseconds): " + unit);
            tickMs = 1000 / unit;
            clock.sleep(J.n(cfg, "phase", 0) * tickMs);
            if (J.b(cfg, "default", false)) {
                setEnv(ENTER_KEY, null);
                setEnv(EXIT_KEY, null);
            } else {
                setEnv(ENTER_KEY, String.valueOf(J.n(cfg, "N", 0)));
                setEnv(EXIT_KEY, String.valueOf(J.n(cfg, "C", 0)));
            }
            fs = new SpyFailSafe(clock);                          // FailSafe(Optional.empty(), Optional.empty(), clock): reads the environment
            setStatic(FailSafe.class, "instance", fs);            // what FailSafe.getInstance(...) of the injected field initializer returns
            new Retry(clock);                                     // Retry(Clock) installs the static clock of Retry
            client = new OkHttpClient(this);
        }

        // ---- the network + the application's interceptors
        @Override public Response exchange(RealCall call, Request request) throws IOException {
            Plan pl = stack.peek();
            if (pl == null) throw new IllegalStateException("exchange outside of a scripted call");
            boolean gateway = request.url().host().equals(proxyHost);
            if (request.header("x-lunar-allow") != null) pl.allowHeaderReachedNetwork = true;
            if (!gateway) {
                pl.directLegs++;
                // "+": the application's interceptor fails again when the request is re-executed directly after its gateway leg
                if (pl.out.equals("appexc") && pl.kind.endsWith("+") && pl.gatewaySeen) sneaky(pl.thrown);
                return new Response(request, 200, Headers.of("Content-Type", "application/json"), "direct");
            }
            if (request.header("x-lunar-host") == null) throw new IllegalStateException("gateway leg without x-lunar-host");
            pl.gatewaySeen = true;
            if (pl.during != null) {
                Runnable r = pl.during;
                pl.during = null;
                r.run();
            }
            switch (pl.out) {
                case "ok":
                    return new Response(request, 200, okHeaders(pl.kind), "gateway");
                case "gwerr":
                    return gatewayFailure(request, pl.kind);
                case "appexc":
                    sneaky(pl.thrown);
                    return null;
                default:
                    throw new IllegalStateException("a '" + pl.out + "' call reached the gateway leg");
            }
        }

        private Headers okHeaders(String kind) {
            if (kind.equals("seq")) return Headers.of("Content-Type", "application/json", "x-lunar-sequence-id", "abc-1");
            if (kind.equals("retry0")) return Headers.of("x-lunar-retry-after", "0", "x-lunar-sequence-id", "abc-2");
            return Headers.of("Content-Type", "application/json", "Date", "Mon, 28 Sep 2026 00:00:00 GMT");
        }

        /** every way a gateway-side failure shows: no connection / time-out (IOException), an error response (x-lunar-error). */
        private Response gatewayFailure(Request request, String kind) throws IOException {
            if (kind.equals("conn") || kind.isEmpty()) throw new java.net.ConnectException("Failed to connect to " + proxyHost);
            if (kind.equals("timeout")) throw new java.net.SocketTimeoutException("timeout");
            if (kind.equals("unknownhost")) throw new java.net.UnknownHostException(proxyHost);
            String[] parts = kind.split("/");          // proxy/<header name as sent>/<code>
            String name = parts.length > 1 ? parts[1] : "x-lunar-error";
            String code = parts.length > 2 ? parts[2] : "2";
            return new Response(request, 503, Headers.of("Content-Type", "text/plain", name, code, "x-lunar-sequence-id", "abc"), "gateway");
        }

        @SuppressWarnings("unchecked")
        private static <T extends Throwable> void sneaky(Throwable t) throws T { throw (T) t; }

        private Throwable appException(String kind) {
            String k = kind.endsWith("+") ? kind.substring(0, kind.length() - 1) : kind;
            switch (k) {
                case "io": return new IOException("Canceled");
                case "error": return new AppError("application failure inside the chain");
                default: return new AppRuntimeException("application bug inside an interceptor");
            }
        }

        // ---- one event
        Map<String, Object> blank(String ev) {
            Map<String, Object> rec = new LinkedHashMap<>();
            rec.put("ev", ev); rec.put("N", 0L); rec.put("C", 0L); rec.put("d", 0L); rec.put("read", false); rec.put("out", "");
            rec.put("kind", ""); rec.put("ans", true); rec.put("raised", "none"); rec.put("via", "");
            return rec;
        }

        /** one intercepted application request: RealCall.execute() with the injected code */
        Map<String, Object> call(boolean read, String out, String kind, Runnable during) {
            executions++;
            Plan pl = new Plan(out, kind, during);
            if (out.equals("appexc")) pl.thrown = appException(pl.kind);
            Request.Builder rb = new Request.Builder().url(DEST_URL).addHeader("accept", "*/*");
            if (out.equals("skip")) rb.addHeader("x-lunar-allow", "false");     // the traffic filter keeps this call off the gateway
            RealCall rc = client.newCall(rb.build());
            int readsBefore = fs.reads.size();
            Throwable left = null;
            Response res = null;
            stack.push(pl);
            try {
                res = rc.execute();
            } catch (Throwable t) {       // whatever leaves execute() is the observation
                left = t;
            } finally {
                stack.pop();
            }
            Map<String, Object> rec = blank("call");
            rec.put("read", read); rec.put("out", out); rec.put("kind", pl.kind);
            boolean firstRead = fs.reads.size() > readsBefore ? fs.reads.get(readsBefore) : true;
            if (read) {
                // routed through the gateway or not is the observable answer; a filter-skipped call shows its read only to the spy
                rec.put("ans", out.equals("skip") ? firstRead : pl.gatewaySeen);
            } else if (!pl.gatewaySeen) {
                throw new IllegalStateException("a call reported as already in flight was not started through the gateway");
            }
            rec.put("routed", pl.gatewaySeen);
            rec.put("raised", left == null ? "none" : (left == pl.thrown ? "same" : "other"));
            if (left != null && left != pl.thrown) rec.put("raised_type", left.getClass().getName());
            rec.put("via", res != null ? res.via() : "");
            rec.put("direct_legs", (long) pl.directLegs);
            rec.put("allow_header_leaked", pl.allowHeaderReachedNetwork);
            return rec;
        }

        Map<String, Object> plain(Map<String, Object> e) {
            String ev = (String) e.get("ev");
            switch (ev) {
                case "adv": {
                    long d = J.n(e, "d", 0);
                    clock.sleep(d * tickMs);
                    Map<String, Object> rec = blank("adv");
                    rec.put("d", d);
                    return rec;
                }
                case "ask": {
                    executions++;
                    Map<String, Object> rec = blank("ask");
                    rec.put("ans", FailSafe.getInstance(Optional.empty(), Optional.empty(), clock).stateOk());
                    return rec;
                }
                case "call":
                    return call(true, (String) e.get("out"), J.s(e, "kind", ""), null);
                default:
                    throw new IllegalArgumentException("unknown event " + e);
            }
        }

        /**
         * a whole history.  Events with read = false are outcomes of legs that were already in flight: such a call is STARTED at
         * the beginning of the history (a fresh breaker lets it through), everything before its event happens while its gateway
         * leg is in flight (nested in the transport callback, one thread, deterministic), then the leg ends with the scripted outcome.
         */
        List<Map<String, Object>> history(List<Object> events) {
            List<Integer> lates = new ArrayList<>();
            for (int i = 0; i < events.size(); i++) {
                Map<String, Object> e = J.obj(events.get(i));
                if ("call".equals(e.get("ev")) && !J.b(e, "read", true)) lates.add(i);
            }
            List<Map<String, Object>> recs = new ArrayList<>();
            level(events, lates, lates.size(), recs);
            int from = lates.isEmpty() ? 0 : lates.get(lates.size() - 1) + 1;
            for (int i = from; i < events.size(); i++) recs.add(plain(J.obj(events.get(i))));
            return recs;
        }

        private void level(List<Object> events, List<Integer> lates, int j, List<Map<String, Object>> recs) {
            if (j == 0) {
                int to = lates.isEmpty() ? 0 : lates.get(0);        // without late events the caller runs everything
                for (int i = 0; i < to; i++) recs.add(plain(J.obj(events.get(i))));
                return;
            }
            int pos = lates.get(j - 1);
            Map<String, Object> e = J.obj(events.get(pos));
            Runnable during = () -> {
                level(events, lates, j - 1, recs);
                if (j >= 2) {
                    for (int i = lates.get(j - 2) + 1; i < pos; i++) recs.add(plain(J.obj(events.get(i))));
                }
            };
            Map<String, Object> rec = call(false, (String) e.get("out"), J.s(e, "kind", ""), during);
            recs.add(rec);
        }
    }

    static Map<String, Object> resetRec(Map<String, Object> cfg) {
        boolean dflt = J.b(cfg, "default", false);
        long n = dflt ? 5 : J.n(cfg, "N", 0), c = dflt ? 10 : J.n(cfg, "C", 0), unit = J.n(cfg, "unit", 1);
        Map<String, Object> rec = new LinkedHashMap<>();
        rec.put("ev", "reset"); rec.put("N", n); rec.put("C", c * unit); rec.put("d", 0L); rec.put("read", false); rec.put("out", "");
        rec.put("kind", ""); rec.put("ans", true); rec.put("raised", "none"); rec.put("via", "");
        rec.put("default", dflt); rec.put("unit", unit); rec.put("phase", J.n(cfg, "phase", 0)); rec.put("Csec", c); rec.put("impl", "java");
        return rec;
    }

    // ------------------------------------------------------------------------------------------ output tree
    static final class Out {
        final List<Map<String, Object>> nodes = new ArrayList<>();
        final String path;

        Out(String path) {
            this.path = path;
            Map<String, Object> root = new LinkedHashMap<>();
            root.put("ev", "root"); root.put("N", 0L); root.put("C", 0L); root.put("d", 0L); root.put("read", false); root.put("out", "");
            root.put("kind", ""); root.put("ans", true); root.put("raised", "none"); root.put("via", ""); root.put("k", new ArrayList<Object>());
            nodes.add(root);
        }

        int add(int parent, Map<String, Object> rec) {
            Map<String, Object> r = new LinkedHashMap<>(rec);
            r.put("k", new ArrayList<Object>());
            nodes.add(r);
            int id = nodes.size();
            J.arr(nodes.get(parent - 1).get("k")).add((long) id);
            return id;
        }

        void write() throws IOException {
            try (BufferedWriter w = Files.newBufferedWriter(Paths.get(path), StandardCharsets.UTF_8)) {
                for (Map<String, Object> n : nodes) {
                    w.write(J.str(n));
                    w.write("\n");
                }
            }
        }
    }

    static boolean sameObs(Map<String, Object> a, Map<String, Object> b) {
        return a.get("ans").equals(b.get("ans")) && a.get("raised").equals(b.get("raised")) && a.get("via").equals(b.get("via"));
    }

    static Object readJson(String path) throws IOException {
        return J.parse(new String(Files.readAllBytes(Paths.get(path)), StandardCharsets.UTF_8));
    }

    static void summary(Map<String, Object> m) { System.out.println(J.str(m)); }

    // ------------------------------------------------------------------------------------------ commands (fail-safe)
    static void cmdTree(String specPath, String outPath) throws Exception {
        Map<String, Object> spec = J.obj(readJson(specPath));
        List<Object> alphabet = J.arr(spec.get("alphabet"));
        int depth = (int) J.n(spec, "depth", 1), k = alphabet.size();
        Out out = new Out(outPath);
        long execs = 0, nondet = 0;
        for (Object c : J.arr(spec.get("configs"))) {
            Map<String, Object> cfg = J.obj(c);
            int root = out.add(1, resetRec(cfg));
            int[] ids = new int[depth + 1];
            ids[0] = root;
            int freshFrom = 0;
            int[] path = new int[depth];
            while (true) {
                World w = new World(cfg);
                List<Object> evs = new ArrayList<>();
                for (int i = 0; i < depth; i++) evs.add(alphabet.get(path[i]));
                List<Map<String, Object>> recs = w.history(evs);
                execs += w.executions;
                for (int i = 0; i < depth; i++) {
                    if (i + 1 > freshFrom) ids[i + 1] = out.add(ids[i], recs.get(i));
                    else if (!sameObs(out.nodes.get(ids[i + 1] - 1), recs.get(i))) nondet++;
                }
                int i = depth - 1;
                while (i >= 0 && path[i] == k - 1) { path[i] = 0; i--; }
                if (i < 0) break;
                path[i]++;
                freshFrom = i;
            }
        }
        out.write();
        Map<String, Object> s = new LinkedHashMap<>();
        s.put("nodes", (long) out.nodes.size()); s.put("executions", execs); s.put("nondeterministic", nondet);
        summary(s);
    }

    static void cmdScripts(String path, String outPath) throws Exception {
        Out out = new Out(outPath);
        long execs = 0;
        for (Object o : J.arr(readJson(path))) {
            Map<String, Object> sc = J.obj(o), cfg = J.obj(sc.get("config"));
            World w = new World(cfg);
            int cur = out.add(1, resetRec(cfg));
            for (Map<String, Object> rec : w.history(J.arr(sc.get("events")))) cur = out.add(cur, rec);
            execs += w.executions;
        }
        out.write();
        Map<String, Object> s = new LinkedHashMap<>();
        s.put("nodes", (long) out.nodes.size()); s.put("executions", execs);
        summary(s);
    }

    static void cmdTrie(String path, String outPath) throws Exception {
        Out out = new Out(outPath);
        Map<String, Integer> roots = new HashMap<>(), kids = new HashMap<>();
        long execs = 0, nondet = 0;
        for (Object o : J.arr(readJson(path))) {
            Map<String, Object> sc = J.obj(o), cfg = J.obj(sc.get("config"));
            String ck = J.str(cfg);
            Integer root = roots.get(ck);
            if (root == null) {
                root = out.add(1, resetRec(cfg));
                roots.put(ck, root);
            }
            World w = new World(cfg);
            List<Object> evs = J.arr(sc.get("events"));
            List<Map<String, Object>> recs = w.history(evs);
            execs += w.executions;
            int cur = root;
            for (int i = 0; i < evs.size(); i++) {
                String key = cur + "|" + J.str(evs.get(i));
                Integer nid = kids.get(key);
                if (nid == null) {
                    nid = out.add(cur, recs.get(i));
                    kids.put(key, nid);
                } else if (!sameObs(out.nodes.get(nid - 1), recs.get(i))) {
                    nondet++;
                }
                cur = nid;
            }
        }
        out.write();
        Map<String, Object> s = new LinkedHashMap<>();
        s.put("nodes", (long) out.nodes.size()); s.put("executions", execs); s.put("nondeterministic", nondet);
        summary(s);
    }

    // ------------------------------------------------------------------------------------------ traffic filter
    static String joinRaw(List<Object> items) {
        StringBuilder b = new StringBuilder();
        for (int i = 0; i < items.size(); i++) {
            if (i > 0) b.append(',');
            b.append((String) J.obj(items.get(i)).get("raw"));
        }
        return b.toString();
    }

    /**
     * a filter for the given lists, built the way production builds it: the lists come from the environment variables through the
     * private static TrafficFilter.parseList, the object from TrafficFilter.getInstance() (private constructor, validation).
     * cold = the environment of this JVM already holds the lists (nothing is patched; the class initializer parsed them).
     */
    static TrafficFilter newFilter(String allow, String block, boolean cold) throws Throwable {
        if (!cold) {
            setEnv(ALLOW_KEY, allow);
            setEnv(BLOCK_KEY, block);
            Method parse = TrafficFilter.class.getDeclaredMethod("parseList", String.class);
            parse.setAccessible(true);
            setStatic(TrafficFilter.class, "allowList", parse.invoke(null, ALLOW_KEY));
            setStatic(TrafficFilter.class, "blockList", parse.invoke(null, BLOCK_KEY));
            setStatic(TrafficFilter.class, "instance", null);
        }
        return TrafficFilter.getInstance();
    }

    static void cmdFilter(String path, String outPath) throws Exception {
        Map<String, Object> spec = J.obj(readJson(path));
        boolean cold = J.b(spec, "cold", false), wired = J.b(spec, "wired", false);
        long rounds = J.n(spec, "rounds", 1), n = 0, ctorRaises = 0;
        List<Object> hosts = J.arr(spec.get("hosts")), headers = J.arr(spec.get("headers"));
        World world = null;
        try (BufferedWriter w = Files.newBufferedWriter(Paths.get(outPath), StandardCharsets.UTF_8)) {
            Map<String, Object> cfgLine = new LinkedHashMap<>();
            cfgLine.put("ev", "config"); cfgLine.put("impl", "java"); cfgLine.put("cold", cold); cfgLine.put("wired", wired);
            cfgLine.put("hosts_file", String.valueOf(System.getProperty("jdk.net.hosts.file")));
            w.write(J.str(cfgLine)); w.write("\n");
            for (Object co : J.arr(spec.get("configs"))) {
                Map<String, Object> cfg = J.obj(co);
                List<Object> allow = J.arr(cfg.get("allow")), block = J.arr(cfg.get("block"));
                String a = joinRaw(allow), b = joinRaw(block);
                String envform = J.s(cfg, "envform", "normal");        // "allow-empty": LUNAR_ALLOW_LIST is SET to the empty string
                TrafficFilter tf = null;
                Throwable ctor = null;
                try {
                    // the variable is unset when the joined list is the empty string (as py/c19_exec.py)
                    tf = newFilter(a.isEmpty() ? (envform.equals("allow-empty") ? "" : null) : a, b.isEmpty() ? null : b, cold);
                } catch (java.lang.reflect.InvocationTargetException e) {
                    ctor = e.getCause();
                } catch (Throwable e) {
                    ctor = e;
                }
                if (ctor != null) ctorRaises++;
                if (wired && ctor == null) {
                    Map<String, Object> wc = new LinkedHashMap<>();
                    wc.put("default", true);
                    world = new World(wc);
                }
                for (long rnd = 0; rnd < rounds; rnd++) {
                    for (Object ho : hosts) {
                        Map<String, Object> h = J.obj(ho);
                        for (Object hd : headers) {
                            String header = (String) hd;
                            Map<String, Object> rec = new LinkedHashMap<>();
                            rec.put("ev", "case"); rec.put("impl", "java"); rec.put("allow", allow); rec.put("block", block);
                            rec.put("host", h.get("h")); rec.put("hlow", h.get("hlow")); rec.put("hcanon", h.get("hcanon"));
                            rec.put("kind", h.get("kind")); rec.put("ip", h.get("ip")); rec.put("ip6", h.get("ip6")); rec.put("rsv", h.get("rsv"));
                            rec.put("header", header); rec.put("round", rnd); rec.put("exc", ""); rec.put("stage", ""); rec.put("envform", envform);
                            if (ctor != null) {
                                rec.put("res", "raise"); rec.put("exc", ctor.getClass().getSimpleName()); rec.put("stage", "construct");
                            } else {
                                // what the injected code hands over: Optional.of(value of the request header x-lunar-allow) when present
                                Optional<String> hv = header.equals("absent") ? Optional.empty()
                                        : Optional.of(header.equals("blank") ? "" : header);
                                try {
                                    boolean r = wired ? wiredDecision(world, (String) h.get("h"), hv) : tf.isAllowed((String) h.get("h"), hv);
                                    rec.put("res", r ? "yes" : "no");
                                } catch (Throwable x) {
                                    rec.put("res", "raise"); rec.put("exc", x.getClass().getSimpleName()); rec.put("stage", "decide");
                                }
                            }
                            w.write(J.str(rec)); w.write("\n");
                            n++;
                        }
                    }
                }
            }
        }
        Map<String, Object> s = new LinkedHashMap<>();
        s.put("cases", n); s.put("constructor_raises", ctorRaises);
        summary(s);
    }

    /** the decision as an application request sees it: routed through the gateway or not (injected code + filter + fresh breaker) */
    static boolean wiredDecision(World w, String host, Optional<String> header) throws Throwable {
        Plan pl = new Plan("ok", "", null);
        String h = host.contains(":") ? "[" + host + "]" : host;
        Request.Builder rb = new Request.Builder().url("http://" + h + ":8080/v1/x").addHeader("accept", "*/*");
        if (header.isPresent()) rb.addHeader("x-lunar-allow", header.get());
        RealCall rc = w.client.newCall(rb.build());
        w.stack.push(pl);
        try {
            rc.execute();
        } finally {
            w.stack.pop();
        }
        if (pl.allowHeaderReachedNetwork) throw new IllegalStateException("x-lunar-allow reached the network");
        return pl.gatewaySeen;
    }

    /** how the platform resolver sees each host (facts of the environment, independent of the classes under test) */
    static void cmdProbe(String path, String outPath) throws Exception {
        List<Object> res = new ArrayList<>();
        for (Object ho : J.arr(readJson(path))) {
            String h = (String) J.obj(ho).get("h");
            Map<String, Object> r = new LinkedHashMap<>();
            r.put("h", h);
            try {
                InetAddress a = InetAddress.getByName(h);
                byte[] b = a.getAddress();
                List<Object> o = new ArrayList<>();
                if (b.length == 4) {
                    for (byte x : b) o.add((long) (x & 0xff));
                    r.put("ip", o); r.put("ip6", new ArrayList<Object>());
                } else {
                    for (int i = 0; i < 16; i += 2) o.add((long) (((b[i] & 0xff) << 8) | (b[i + 1] & 0xff)));
                    r.put("ip", new ArrayList<Object>()); r.put("ip6", o);
                }
                r.put("rsv", "ok");
            } catch (java.net.UnknownHostException e) {
                r.put("ip", new ArrayList<Object>()); r.put("ip6", new ArrayList<Object>()); r.put("rsv", "fail");
            } catch (Throwable e) {
                r.put("ip", new ArrayList<Object>()); r.put("ip6", new ArrayList<Object>()); r.put("rsv", "raise:" + e.getClass().getSimpleName());
            }
            res.add(r);
        }
        Files.write(Paths.get(outPath), J.str(res).getBytes(StandardCharsets.UTF_8));
        Map<String, Object> s = new LinkedHashMap<>();
        s.put("hosts", (long) res.size()); s.put("java", System.getProperty("java.version"));
        summary(s);
    }

    public static void main(String[] a) throws Exception {
        String ph = System.getenv("LUNAR_PROXY_HOST");
        if (ph == null || !ph.contains(":")) throw new IllegalStateException("LUNAR_PROXY_HOST=host:port must be set");
        proxyHost = ph.split(":")[0];
        if (a.length >= 3 && a[0].equals("tree")) cmdTree(a[1], a[2]);
        else if (a.length >= 3 && a[0].equals("scripts")) cmdScripts(a[1], a[2]);
        else if (a.length >= 3 && a[0].equals("trie")) cmdTrie(a[1], a[2]);
        else if (a.length >= 3 && a[0].equals("filter")) cmdFilter(a[1], a[2]);
        else if (a.length >= 3 && a[0].equals("probe")) cmdProbe(a[1], a[2]);
        else {
            System.err.println("usage: X04Exec tree|scripts|trie|filter|probe <in.json> <out>");
            System.exit(2);
        }
    }
}
