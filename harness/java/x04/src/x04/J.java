package x04;

import java.util.ArrayList;
import java.util.LinkedHashMap;
import java.util.List;
import java.util.Map;
import java.util.TreeMap;

/** Tiny JSON reader / writer (the JDK has none): objects = Map<String,Object>, arrays = List<Object>, numbers = Long | Double. */
public final class J {
    private final String s;
    private int p;

    private J(String s) { this.s = s; }

    public static Object parse(String text) {
        J j = new J(text);
        j.ws();
        Object v = j.value();
        j.ws();
        if (j.p != j.s.length()) throw new IllegalArgumentException("trailing characters at " + j.p);
        return v;
    }

    private void ws() { while (p < s.length() && Character.isWhitespace(s.charAt(p))) p++; }

    private Object value() {
        char c = s.charAt(p);
        if (c == '{') {
            Map<String, Object> m = new LinkedHashMap<>();
            p++; ws();
            if (s.charAt(p) == '}') { p++; return m; }
            while (true) {
                ws();
                String k = string();
                ws(); expect(':'); ws();
                m.put(k, value());
                ws();
                if (s.charAt(p) == ',') { p++; continue; }
                expect('}');
                return m;
            }
        }
        if (c == '[') {
            List<Object> l = new ArrayList<>();
            p++; ws();
            if (s.charAt(p) == ']') { p++; return l; }
            while (true) {
                ws();
                l.add(value());
                ws();
                if (s.charAt(p) == ',') { p++; continue; }
                expect(']');
                return l;
            }
        }
        if (c == '"') return string();
        if (s.startsWith("true", p)) { p += 4; return Boolean.TRUE; }
        if (s.startsWith("false", p)) { p += 5; return Boolean.FALSE; }
        if (s.startsWith("null", p)) { p += 4; return null; }
        int q = p;
        while (q < s.length() && "+-0123456789.eE".indexOf(s.charAt(q)) >= 0) q++;
        String num = s.substring(p, q);
        p = q;
        if (num.indexOf('.') >= 0 || num.indexOf('e') >= 0 || num.indexOf('E') >= 0) return Double.parseDouble(num);
        return Long.parseLong(num);
    }

    private void expect(char c) {
        if (s.charAt(p) != c) throw new IllegalArgumentException("expected " + c + " at " + p);
        p++;
    }

    private String string() {
        expect('"');
        StringBuilder b = new StringBuilder();
        while (true) {
            char c = s.charAt(p++);
            if (c == '"') return b.toString();
            if (c == '\\') {
                char e = s.charAt(p++);
                switch (e) {
                    case 'n': b.append('\n'); break;
                    case 't': b.append('\t'); break;
                    case 'r': b.append('\r'); break;
                    case 'b': b.append('\b'); break;
                    case 'f': b.append('\f'); break;
                    case 'u': b.append((char) Integer.parseInt(s.substring(p, p + 4), 16)); p += 4; break;
                    default: b.append(e);
                }
            } else {
                b.append(c);
            }
        }
    }

    // ------------------------------------------------------------------ writer (keys sorted, compact)
    public static String str(Object v) {
        StringBuilder b = new StringBuilder();
        write(b, v);
        return b.toString();
    }

    @SuppressWarnings("unchecked")
    private static void write(StringBuilder b, Object v) {
        if (v == null) { b.append("null"); return; }
        if (v instanceof String) { quote(b, (String) v); return; }
        if (v instanceof Boolean || v instanceof Long || v instanceof Integer) { b.append(v); return; }
        if (v instanceof Double) {
            double d = (Double) v;
            if (d == Math.rint(d) && Math.abs(d) < 1e15) b.append((long) d); else b.append(d);
            return;
        }
        if (v instanceof Map) {
            b.append('{');
            boolean first = true;
            for (Map.Entry<String, Object> e : new TreeMap<>((Map<String, Object>) v).entrySet()) {
                if (!first) b.append(',');
                first = false;
                quote(b, e.getKey());
                b.append(':');
                write(b, e.getValue());
            }
            b.append('}');
            return;
        }
        if (v instanceof List) {
            b.append('[');
            boolean first = true;
            for (Object o : (List<Object>) v) {
                if (!first) b.append(',');
                first = false;
                write(b, o);
            }
            b.append(']');
            return;
        }
        throw new IllegalArgumentException("cannot serialize " + v.getClass());
    }

    private static void quote(StringBuilder b, String s) {
        b.append('"');
        for (int i = 0; i < s.length(); i++) {
            char c = s.charAt(i);
            if (c == '"' || c == '\\') b.append('\\').append(c);
            else if (c == '\n') b.append("\\n");
            else if (c == '\t') b.append("\\t");
            else if (c == '\r') b.append("\\r");
            else if (c < 0x20 || c > 0x7e) b.append(String.format("\\u%04x", (int) c));
            else b.append(c);
        }
        b.append('"');
    }

    // ------------------------------------------------------------------ accessors
    @SuppressWarnings("unchecked")
    public static Map<String, Object> obj(Object o) { return (Map<String, Object>) o; }

    @SuppressWarnings("unchecked")
    public static List<Object> arr(Object o) { return (List<Object>) o; }

    public static String s(Map<String, Object> m, String k, String dflt) {
        Object v = m.get(k);
        return v == null ? dflt : (String) v;
    }

    public static long n(Map<String, Object> m, String k, long dflt) {
        Object v = m.get(k);
        if (v == null) return dflt;
        return v instanceof Double ? (long) (double) (Double) v : ((Number) v).longValue();
    }

    public static boolean b(Map<String, Object> m, String k, boolean dflt) {
        Object v = m.get(k);
        return v == null ? dflt : (Boolean) v;
    }
}
