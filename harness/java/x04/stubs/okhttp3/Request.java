package okhttp3;

import java.util.ArrayList;
import java.util.List;

/** Minimal stand-in for okhttp3.Request (okhttp 3.x: package-private final field `url`, read by the injected code). */
public final class Request {
    final HttpUrl url;
    final String method;
    final Headers headers;

    Request(Builder b) {
        this.url = b.url; this.method = b.method; this.headers = new Headers(new ArrayList<>(b.nv));
    }

    public HttpUrl url() { return url; }
    public String method() { return method; }
    public Headers headers() { return headers; }
    public String header(String name) { return headers.get(name); }
    public Builder newBuilder() { return new Builder(this); }

    public static class Builder {
        HttpUrl url;
        String method = "GET";
        final List<String[]> nv = new ArrayList<>();

        public Builder() { }

        Builder(Request r) { this.url = r.url; this.method = r.method; this.nv.addAll(r.headers.nv); }

        public Builder url(HttpUrl url) {
            if (url == null) throw new NullPointerException("url == null");
            this.url = url;
            return this;
        }

        public Builder url(String url) {
            HttpUrl parsed = HttpUrl.parse(url);
            if (parsed == null) throw new IllegalArgumentException("unexpected url: " + url);
            return url(parsed);
        }

        public Builder header(String name, String value) { removeHeader(name); return addHeader(name, value); }
        public Builder addHeader(String name, String value) { nv.add(new String[] {name, value}); return this; }
        public Builder removeHeader(String name) { nv.removeIf(p -> p[0].equalsIgnoreCase(name)); return this; }

        public Request build() {
            if (url == null) throw new IllegalStateException("url == null");
            return new Request(this);
        }
    }
}
