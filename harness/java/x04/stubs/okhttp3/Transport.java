package okhttp3;

/** Harness side of the stand-in client: what the renamed original getResponseWithInterceptorChain() does with a request
 *  (the application's interceptors + the network). Scripted by the executor. */
public interface Transport {
    Response exchange(RealCall call, Request request) throws java.io.IOException;
}
