package okhttp3;

/** Minimal stand-in for okhttp3.OkHttpClient. */
public class OkHttpClient {
    public Transport transport;

    public OkHttpClient(Transport transport) { this.transport = transport; }

    public RealCall newCall(Request request) { return RealCall.newRealCall(this, request, false); }
}
