package okhttp3;

import java.util.Locale;

/** Minimal stand-in for okhttp3.HttpUrl: scheme://host[:port][/path][?query]; host lower-cased, IPv6 literals without
 *  their brackets (as HttpUrl.host() hands them over). parse() returns null for what it cannot read (okhttp 3.x). */
public final class HttpUrl {
    final String scheme, host, path, query;
    final int port;

    HttpUrl(String scheme, String host, int port, String path, String query) {
        this.scheme = scheme; this.host = host; this.port = port; this.path = path; this.query = query;
    }

    public String scheme() { return scheme; }
    public String host() { return host; }
    public int port() { return port; }
    public String encodedPath() { return path; }
    public String encodedQuery() { return query; }

    public static HttpUrl parse(String url) {
        int p = url.indexOf("://");
        if (p < 0) return null;
        String scheme = url.substring(0, p).toLowerCase(Locale.US);
        if (!scheme.equals("http") && !scheme.equals("https")) return null;
        String rest = url.substring(p + 3);
        int slash = rest.length();
        for (int i = 0; i < rest.length(); i++) {
            char c = rest.charAt(i);
            if (c == '/' || c == '?' || c == '#') { slash = i; break; }
        }
        String authority = rest.substring(0, slash);
        String tail = rest.substring(slash);
        String host; int port = scheme.equals("http") ? 80 : 443;
        if (authority.startsWith("[")) {
            int e = authority.indexOf(']');
            if (e < 0) return null;
            host = authority.substring(1, e);
            if (e + 1 < authority.length()) {
                if (authority.charAt(e + 1) != ':') return null;
                try { port = Integer.parseInt(authority.substring(e + 2)); } catch (NumberFormatException x) { return null; }
            }
        } else {
            int c = authority.lastIndexOf(':');
            if (c >= 0) {
                try { port = Integer.parseInt(authority.substring(c + 1)); } catch (NumberFormatException x) { return null; }
                host = authority.substring(0, c);
            } else {
                host = authority;
            }
        }
        if (host.isEmpty()) return null;
        String path = "/", query = null;
        int h = tail.indexOf('#');
        if (h >= 0) tail = tail.substring(0, h);
        int q = tail.indexOf('?');
        if (q >= 0) { query = tail.substring(q + 1); tail = tail.substring(0, q); }
        if (!tail.isEmpty()) path = tail;
        return new HttpUrl(scheme, host.toLowerCase(Locale.US), port, path, query);
    }

    @Override public String toString() {
        String h = host.contains(":") ? "[" + host + "]" : host;
        boolean dflt = (scheme.equals("http") && port == 80) || (scheme.equals("https") && port == 443);
        return scheme + "://" + h + (dflt ? "" : ":" + port) + path + (query != null ? "?" + query : "");
    }
}
