package okhttp3;

import java.util.ArrayList;
import java.util.Collections;
import java.util.List;
import java.util.Locale;
import java.util.Map;
import java.util.TreeMap;

/** Minimal stand-in for okhttp3.Headers (okhttp 3.x semantics): an ordered list of name/value pairs, look-ups ignore case,
 *  toMultimap() = TreeMap(CASE_INSENSITIVE_ORDER) keyed by the lower-cased names. */
public final class Headers {
    final List<String[]> nv;

    Headers(List<String[]> nv) { this.nv = nv; }

    public String get(String name) {
        for (int i = nv.size() - 1; i >= 0; i--) {
            if (nv.get(i)[0].equalsIgnoreCase(name)) return nv.get(i)[1];
        }
        return null;
    }

    public int size() { return nv.size(); }
    public String name(int i) { return nv.get(i)[0]; }
    public String value(int i) { return nv.get(i)[1]; }

    public Map<String, List<String>> toMultimap() {
        Map<String, List<String>> result = new TreeMap<>(String.CASE_INSENSITIVE_ORDER);
        for (String[] p : nv) {
            String name = p[0].toLowerCase(Locale.US);
            List<String> values = result.get(name);
            if (values == null) {
                values = new ArrayList<>(2);
                result.put(name, values);
            }
            values.add(p[1]);
        }
        return Collections.unmodifiableMap(result);
    }

    public static Headers of(String... namesAndValues) {
        List<String[]> l = new ArrayList<>();
        for (int i = 0; i + 1 < namesAndValues.length; i += 2) l.add(new String[] {namesAndValues[i], namesAndValues[i + 1]});
        return new Headers(l);
    }
}
