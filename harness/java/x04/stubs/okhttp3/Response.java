package okhttp3;

/** Minimal stand-in for okhttp3.Response. */
public final class Response {
    final Request request;
    final int code;
    final Headers headers;
    final String via;     // "gateway" | "direct": which leg produced it (harness bookkeeping)

    public Response(Request request, int code, Headers headers, String via) {
        this.request = request; this.code = code; this.headers = headers; this.via = via;
    }

    public Request request() { return request; }
    public int code() { return code; }
    public Headers headers() { return headers; }
    public String header(String name) { return headers.get(name); }
    public String via() { return via; }
}
