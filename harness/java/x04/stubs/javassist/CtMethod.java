package javassist;
public class CtMethod {
    public static CtMethod make(String src, CtClass declaring) throws CannotCompileException { throw new UnsupportedOperationException("javassist stub"); }
    public void setName(String newname) { }
}
