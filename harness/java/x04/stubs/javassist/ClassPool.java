package javassist;
/** signature-only stand-in (javassist cannot be fetched offline): lets dev.lunar.interceptor.Interceptor compile unchanged. */
public class ClassPool {
    public static ClassPool getDefault() { throw new UnsupportedOperationException("javassist stub"); }
    public ClassPath appendPathList(String pathlist) throws NotFoundException { throw new UnsupportedOperationException("javassist stub"); }
    public CtClass get(String classname) throws NotFoundException { throw new UnsupportedOperationException("javassist stub"); }
    public interface ClassPath { }
}
