package javassist;
public class CannotCompileException extends Exception {
    public CannotCompileException(String msg) { super(msg); }
}
