package javassist;
public class NotFoundException extends Exception {
    public NotFoundException(String msg) { super(msg); }
}
