package javassist;
public class CtClass {
    public void addField(CtField f) throws CannotCompileException { throw new UnsupportedOperationException("javassist stub"); }
    public void addMethod(CtMethod m) throws CannotCompileException { throw new UnsupportedOperationException("javassist stub"); }
    public CtMethod getDeclaredMethod(String name) throws NotFoundException { throw new UnsupportedOperationException("javassist stub"); }
    public byte[] toBytecode() throws java.io.IOException, CannotCompileException { throw new UnsupportedOperationException("javassist stub"); }
    public void detach() { }
}
