package javassist;
public class CtField {
    public static CtField make(String src, CtClass declaring) throws CannotCompileException { throw new UnsupportedOperationException("javassist stub"); }
}
