package org.json;
/** signature-only stand-in (org.json cannot be fetched offline): used by LunarHelpers.validateLunarProxyConnection (the handshake),
 *  which the X04 executor never calls. */
public class JSONObject {
    public JSONObject(String source) throws JSONException { throw new JSONException("org.json stub"); }
    public boolean getBoolean(String key) throws JSONException { throw new JSONException("org.json stub"); }
}
