package org.json;
public class JSONException extends RuntimeException {
    public JSONException(String msg) { super(msg); }
}
