// c07: pure executor for property C07 (combined actions).
//
//	c07 run <cases.json> <out.ndjson>
//
// cases.json: [case, ...]
//
//	{"id":n,"side":"req"|"resp","via":"routing","seq":[action,...],"h":H}
//	    the real routing.getSPOEReqActions / getSPOERespActions (fold + SPOE encoding) on that sequence; with H > 0 the
//	    consecutive cases of history H share action instances and header map objects (equal values = same object)
//	{"id":n,"side":"req"|"resp","via":"runner","remedies":[remedy,...],"headers":{..},"status":s}
//	    the real runner.runOnRequest / runOnResponse over real remedy plugins configured by `remedies`;
//	    the actions the plugins produced are observed at the verif points runner.req_action / runner.resp_action
//
// action: {"k":"noop|early|modh|modreq|gen|modresp|retry","h":[[name,value],..],"st":int,"b":body,"p":path,"ho":host,"q":query,"rm":[names]}
//
//	c07 conc <cases.json> <out.ndjson> <workers>   the routing cases encoded by concurrent goroutines
//
// In both modes the encoded actions of every transaction are retained and decoded only after all later transactions were
// encoded ("stable": false when they changed after the call returned).
//
// One NDJSON event per case: {"ev":side,"id":n,"via":..,"seq":[actions as given / as observed],"out":{decoded SPOE variables}}.
// No expectation is computed here: the events are judged by TLC against specs/c07_actions/ActionsP.tla.
package main

import (
	"encoding/json"
	"fmt"
	"os"
	"runtime"
	"sort"
	"strconv"
	"strings"
	"sync"

	"lunar/engine/actions"
	"lunar/engine/config"
	lunarMessages "lunar/engine/messages"
	"lunar/engine/routing"
	"lunar/engine/runner"
	"lunar/engine/services"
	"lunar/engine/services/remedies"
	"lunar/engine/utils"
	sharedConfig "lunar/shared-model/config"
	"lunar/toolkit-core/clock"
	"lunar/toolkit-core/verifhook"

	"github.com/negasus/haproxy-spoe-go/action"

	"verifharness/internal/vh"
)

type Act struct {
	K  string      `json:"k"`
	H  [][2]string `json:"h"`
	St int         `json:"st"`
	B  string      `json:"b"`
	P  string      `json:"p"`
	Ho string      `json:"ho"`
	Q  string      `json:"q"`
	Rm []string    `json:"rm"`
	// the header map (and the list of headers to remove) is nil instead of empty, the way processors build an action that
	// sets no header (&actions.RetryRequestAction{}); only meaningful when h is empty
	NilH bool `json:"nilh,omitempty"`
}

type Remedy struct {
	T        string      `json:"t"` // fixed | acct | apikey | basic | oauth | retry
	Status   int         `json:"status,omitempty"`
	Tokens   [][2]string `json:"tokens,omitempty"`
	From     int         `json:"from,omitempty"`
	To       int         `json:"to,omitempty"`
	Attempts int         `json:"attempts,omitempty"`
	Cooldown int         `json:"cooldown,omitempty"`
	Mult     int         `json:"mult,omitempty"`
}

type Case struct {
	ID       int               `json:"id"`
	Side     string            `json:"side"`
	Via      string            `json:"via"`
	Seq      []Act             `json:"seq,omitempty"`
	Remedies []Remedy          `json:"remedies,omitempty"`
	Headers  map[string]string `json:"headers,omitempty"`
	Status   int               `json:"status,omitempty"`
	Body     string            `json:"body,omitempty"`
	// H > 0: the case belongs to history H. All cases of one history (consecutive in the file) draw their actions from one
	// pool: equal action values are the SAME action instance and equal header maps the SAME map object, within a sequence
	// and across the folds of the history (a processor handing out its configured action / header map again).
	H int `json:"h,omitempty"`
	// every action of the sequence that sets no header gets a nil header map
	NilEmpty bool `json:"nil_empty,omitempty"`
}

// pool of interned action instances and header maps of one history
type pool struct {
	h    int
	req  map[string]actions.ReqLunarAction
	resp map[string]actions.RespLunarAction
	maps map[string]map[string]string
}

var cur = &pool{}

func (p *pool) enter(h int) {
	if h != p.h || h == 0 {
		*p = pool{h: h, req: map[string]actions.ReqLunarAction{}, resp: map[string]actions.RespLunarAction{}, maps: map[string]map[string]string{}}
	}
}

func key(v any) string {
	b, err := json.Marshal(v)
	if err != nil {
		vh.Die("marshal: %v", err)
	}
	return string(b)
}

// hmapOf returns the header map for h: a fresh one, or inside a history the one shared map object of that value
func (p *pool) hmapOf(h [][2]string) map[string]string {
	if p.h == 0 {
		return hmap(h)
	}
	k := key(h)
	if m, ok := p.maps[k]; ok {
		return m
	}
	m := hmap(h)
	p.maps[k] = m
	return m
}

func (p *pool) reqOf(a Act) actions.ReqLunarAction {
	if p.h == 0 {
		return reqAction(a)
	}
	k := key(a)
	if x, ok := p.req[k]; ok {
		return x
	}
	x := reqAction(a)
	p.req[k] = x
	return x
}

func (p *pool) respOf(a Act) actions.RespLunarAction {
	if p.h == 0 {
		return respAction(a)
	}
	k := key(a)
	if x, ok := p.resp[k]; ok {
		return x
	}
	x := respAction(a)
	p.resp[k] = x
	return x
}

type Out struct {
	Names   []string    `json:"names"`
	Early   bool        `json:"early"`
	ModReq  bool        `json:"modreq"`
	Gen     bool        `json:"gen"`
	ModResp bool        `json:"modresp"`
	Retry   bool        `json:"retry"`
	St      int         `json:"st"`
	Body    string      `json:"body"`
	Rh      [][2]string `json:"rh"`
	Qh      [][2]string `json:"qh"`
	QBody   string      `json:"qbody"`
	Path    string      `json:"path"`
	Host    string      `json:"host"`
	Query   string      `json:"query"`
	Th      [][2]string `json:"th"`
	Bad     []string    `json:"bad"`
	Scopes  []string    `json:"scopes"`
}

func hmap(h [][2]string) map[string]string {
	m := map[string]string{}
	for _, p := range h {
		m[p[0]] = p[1]
	}
	return m
}

func hpairs(m map[string]string) [][2]string {
	out := make([][2]string, 0, len(m))
	for k, v := range m {
		out = append(out, [2]string{k, v})
	}
	sort.Slice(out, func(i, j int) bool { return out[i][0] < out[j][0] })
	return out
}

func strs(s []string) []string {
	if s == nil {
		return []string{}
	}
	return append([]string{}, s...)
}

// hm is the header map of an action: nil when the action is to be built with a nil map
func hm(a Act) map[string]string {
	if a.NilH && len(a.H) == 0 {
		return nil
	}
	return cur.hmapOf(a.H)
}

func rm(a Act) []string {
	if a.NilH && len(a.Rm) == 0 {
		return nil
	}
	return strs(a.Rm)
}

func reqAction(a Act) actions.ReqLunarAction {
	switch a.K {
	case "noop":
		return &actions.NoOpAction{}
	case "early":
		return &actions.EarlyResponseAction{Status: a.St, Body: a.B, Headers: hm(a)}
	case "modh":
		return &actions.ModifyHeadersAction{HeadersToSet: hm(a)}
	case "modreq":
		return &actions.ModifyRequestAction{HeadersToSet: hm(a), Host: a.Ho, Path: a.P, QueryParams: a.Q, Body: a.B}
	case "gen":
		return &actions.GenerateRequestAction{HeadersToSet: hm(a), HeadersToRemove: rm(a), Body: a.B}
	}
	vh.Die("unknown request action kind %q", a.K)
	return nil
}

func respAction(a Act) actions.RespLunarAction {
	switch a.K {
	case "noop":
		return &actions.NoOpAction{}
	case "modresp":
		return &actions.ModifyResponseAction{HeadersToSet: hm(a), Body: a.B, Status: a.St}
	case "retry":
		return &actions.RetryRequestAction{HeadersToSet: hm(a)}
	}
	vh.Die("unknown response action kind %q", a.K)
	return nil
}

// snapshot of a real action object as an Act (deep copy: the fold may update actions in place)
func actOf(x any) Act {
	a := Act{H: [][2]string{}, Rm: []string{}}
	switch v := x.(type) {
	case *actions.NoOpAction:
		a.K = "noop"
	case *actions.EarlyResponseAction:
		a.K, a.St, a.B, a.H = "early", v.Status, v.Body, hpairs(v.Headers)
	case *actions.ModifyHeadersAction:
		a.K, a.H = "modh", hpairs(v.HeadersToSet)
	case *actions.ModifyRequestAction:
		a.K, a.H, a.Ho, a.P, a.Q, a.B = "modreq", hpairs(v.HeadersToSet), v.Host, v.Path, v.QueryParams, v.Body
	case *actions.GenerateRequestAction:
		a.K, a.H, a.Rm, a.B = "gen", hpairs(v.HeadersToSet), strs(v.HeadersToRemove), v.Body
	case *actions.ModifyResponseAction:
		a.K, a.H, a.B, a.St = "modresp", hpairs(v.HeadersToSet), v.Body, v.Status
	case *actions.RetryRequestAction:
		a.K, a.H = "retry", hpairs(v.HeadersToSet)
	default:
		a.K = fmt.Sprintf("unknown:%T", x)
	}
	return a
}

// parseDump inverts utils.DumpHeaders ("name:value\n" per header).
func parseDump(s string, bad *[]string, what string) [][2]string {
	m := map[string]string{}
	if !strings.HasSuffix(s, "\n") {
		*bad = append(*bad, what+":no-trailing-newline")
	}
	for _, line := range strings.Split(strings.TrimSuffix(s, "\n"), "\n") {
		if line == "" {
			continue
		}
		i := strings.Index(line, ":")
		if i < 0 {
			*bad = append(*bad, what+":malformed-line")
			continue
		}
		if _, dup := m[line[:i]]; dup {
			*bad = append(*bad, what+":duplicate-header")
		}
		m[line[:i]] = line[i+1:]
	}
	return hpairs(m)
}

func asString(v any, bad *[]string, name string) string {
	switch x := v.(type) {
	case string:
		return x
	case []byte:
		return string(x)
	}
	*bad = append(*bad, name+":type")
	return ""
}

func asBool(v any, bad *[]string, name string) bool {
	if b, ok := v.(bool); ok {
		return b
	}
	*bad = append(*bad, name+":type")
	return false
}

func asInt(v any, bad *[]string, name string) int {
	switch x := v.(type) {
	case int:
		return x
	case int32:
		return int(x)
	case int64:
		return int(x)
	}
	*bad = append(*bad, name+":type")
	return -1
}

var scopeNames = map[action.Scope]string{
	action.ScopeProcess: "proc", action.ScopeSession: "sess", action.ScopeTransaction: "txn",
	action.ScopeRequest: "req", action.ScopeResponse: "res",
}

// decode projects the SPOE actions handed to the proxy onto the record the specification talks about.
func decode(as action.Actions) Out {
	o := Out{Names: []string{}, St: -1, Rh: [][2]string{}, Qh: [][2]string{}, Th: [][2]string{}, Bad: []string{}, Scopes: []string{}}
	seen := map[string]bool{}
	for _, a := range as {
		if a.Type != action.TypeSetVar {
			o.Bad = append(o.Bad, a.Name+":not-set-var")
			continue
		}
		if seen[a.Name] {
			o.Bad = append(o.Bad, a.Name+":duplicate-variable")
		}
		seen[a.Name] = true
		o.Names = append(o.Names, a.Name)
		o.Scopes = append(o.Scopes, a.Name+"@"+scopeNames[a.Scope])
		switch a.Name {
		case actions.ReturnEarlyResponseActionName:
			o.Early = asBool(a.Value, &o.Bad, a.Name)
		case actions.StatusCodeActionName:
			o.St = asInt(a.Value, &o.Bad, a.Name)
		case actions.ResponseBodyActionName:
			o.Body = asString(a.Value, &o.Bad, a.Name)
		case actions.ResponseHeadersActionName:
			o.Rh = parseDump(asString(a.Value, &o.Bad, a.Name), &o.Bad, a.Name)
		case actions.ModifyRequestActionName:
			o.ModReq = asBool(a.Value, &o.Bad, a.Name)
		case actions.GenerateRequestActionName:
			o.Gen = asBool(a.Value, &o.Bad, a.Name)
		case actions.RequestHeadersActionName:
			o.Qh = parseDump(asString(a.Value, &o.Bad, a.Name), &o.Bad, a.Name)
		case actions.RequestBodyActionName:
			o.QBody = asString(a.Value, &o.Bad, a.Name)
		case actions.RequestPathActionName:
			o.Path = asString(a.Value, &o.Bad, a.Name)
		case actions.RequestHostActionName:
			o.Host = asString(a.Value, &o.Bad, a.Name)
		case actions.RequestQueryParamsActionName:
			o.Query = asString(a.Value, &o.Bad, a.Name)
		case actions.ModifyResponseActionName:
			o.ModResp = asBool(a.Value, &o.Bad, a.Name)
		case actions.RetryRequestActionName:
			o.Retry = asBool(a.Value, &o.Bad, a.Name)
		case actions.RetryHeadersActionName:
			o.Th = parseDump(asString(a.Value, &o.Bad, a.Name), &o.Bad, a.Name)
		}
	}
	return o
}

func copyHeaders(h map[string]string) map[string]string {
	m := map[string]string{}
	for k, v := range h {
		m[k] = v
	}
	return m
}

func viaRouting(c Case) (vh.Ev, action.Actions) {
	if c.Side == "req" {
		list := make([]actions.ReqLunarAction, len(c.Seq))
		for i, a := range c.Seq {
			list[i] = cur.reqOf(a)
		}
		args := lunarMessages.OnRequest{ID: "t", SequenceID: "t", Method: "GET", URL: "api.test/x", Path: "/x",
			Headers: map[string]string{"host": "api.test"}}
		return vh.Ev{"ev": "req", "id": c.ID, "via": c.Via, "h": c.H, "seq": echo(c.Seq), "nil_positions": nilPositions(c.Seq)}, routing.VerifGetSPOEReqActions(args, list)
	}
	list := make([]actions.RespLunarAction, len(c.Seq))
	for i, a := range c.Seq {
		list[i] = cur.respOf(a)
	}
	args := lunarMessages.OnResponse{ID: "t", SequenceID: "t", Method: "GET", URL: "api.test/x", Status: 200,
		Headers: map[string]string{"content-type": "text/plain"}}
	return vh.Ev{"ev": "resp", "id": c.ID, "via": c.Via, "h": c.H, "seq": echo(c.Seq), "nil_positions": nilPositions(c.Seq)}, routing.VerifGetSPOERespActions(args, list)
}

// real remedy plugins, fresh per case
func plugins() *services.RemedyPlugins {
	clk := clock.NewMockClock()
	return &services.RemedyPlugins{
		FixedResponsePlugin:        remedies.NewFixedResponsePlugin(clk),
		AccountOrchestrationPlugin: remedies.NewAccountOrchestrationPlugin(),
		RetryPlugin:                remedies.NewRetryPlugin(clk),
		AuthPlugin:                 remedies.NewAuthPlugin(),
	}
}

func scoped(i int, r Remedy, accounts map[sharedConfig.AccountID]sharedConfig.Account) config.ScopedRemedy {
	name := fmt.Sprintf("r%d", i)
	acc := sharedConfig.AccountID(fmt.Sprintf("acc%d", i))
	rem := &sharedConfig.Remedy{Name: name, Enabled: true}
	switch r.T {
	case "fixed":
		rem.Config.FixedResponse = &sharedConfig.FixedResponseConfig{StatusCode: r.Status}
	case "acct":
		toks := []sharedConfig.Token{}
		for _, t := range r.Tokens {
			toks = append(toks, sharedConfig.Token{Header: &sharedConfig.Header{Name: t[0], Value: t[1]}})
		}
		accounts[acc] = sharedConfig.Account{Tokens: toks}
		rem.Config.AccountOrchestration = &sharedConfig.AccountOrchestrationConfig{RoundRobin: []sharedConfig.AccountID{acc}}
	case "apikey":
		toks := []sharedConfig.Header{}
		for _, t := range r.Tokens {
			toks = append(toks, sharedConfig.Header{Name: t[0], Value: t[1]})
		}
		accounts[acc] = sharedConfig.Account{Authentication: sharedConfig.Authentication{APIKey: &sharedConfig.APIKey{Tokens: toks}}}
		rem.Config.Authentication = &sharedConfig.AuthConfig{Account: acc}
	case "basic":
		accounts[acc] = sharedConfig.Account{Authentication: sharedConfig.Authentication{
			Basic: &sharedConfig.BasicAuth{Username: r.Tokens[0][0], Password: r.Tokens[0][1]}}}
		rem.Config.Authentication = &sharedConfig.AuthConfig{Account: acc}
	case "oauth":
		toks := []sharedConfig.Body{}
		for _, t := range r.Tokens {
			toks = append(toks, sharedConfig.Body{Name: t[0], Value: t[1]})
		}
		accounts[acc] = sharedConfig.Account{Authentication: sharedConfig.Authentication{OAuth: &sharedConfig.OAuth{Tokens: toks}}}
		rem.Config.Authentication = &sharedConfig.AuthConfig{Account: acc}
	case "retry":
		rem.Config.Retry = &sharedConfig.RetryConfig{
			Attempts: r.Attempts, InitialCooldownSeconds: r.Cooldown, CooldownMultiplier: r.Mult,
			Conditions: sharedConfig.RetryConfigConditions{StatusCode: []sharedConfig.Range[int]{{From: r.From, To: r.To}}},
		}
	default:
		vh.Die("unknown remedy kind %q", r.T)
	}
	// every remedy gets its own endpoint: the authentication mechanisms memoise per endpoint
	return config.ScopedRemedy{Scope: utils.ScopeEndpoint, Method: "GET", NormalizedURL: fmt.Sprintf("api.test/x%d", i), Remedy: rem}
}

func viaRunner(c Case) (vh.Ev, action.Actions) {
	accounts := map[sharedConfig.AccountID]sharedConfig.Account{}
	rems := make([]config.ScopedRemedy, len(c.Remedies))
	for i, r := range c.Remedies {
		rems[i] = scoped(i, r, accounts)
	}
	observed := []Act{}
	verifhook.SetSink(func(point string, kv ...any) {
		if (point == "runner.req_action" || point == "runner.resp_action") && len(kv) == 1 {
			observed = append(observed, actOf(kv[0]))
		}
	})
	defer verifhook.SetSink(nil)
	p := plugins()
	if c.Side == "req" {
		args := lunarMessages.OnRequest{ID: "t", SequenceID: "t", Method: "GET", URL: "api.test/x", Path: "/x",
			Headers: copyHeaders(c.Headers), Body: c.Body}
		res, err := runner.VerifRunOnRequest(args, rems, p, accounts)
		if err != nil {
			return vh.Ev{"ev": "error", "id": c.ID, "via": c.Via, "error": err.Error()}, nil
		}
		return vh.Ev{"ev": "req", "id": c.ID, "via": c.Via, "seq": observed, "remedies": c.Remedies}, res.ReqToSpoeActions()
	}
	args := lunarMessages.OnResponse{ID: "t", SequenceID: "t", Method: "GET", URL: "api.test/x", Status: c.Status,
		Headers: copyHeaders(c.Headers), Body: c.Body}
	res, err := runner.VerifRunOnResponse(args, rems, p)
	if err != nil {
		return vh.Ev{"ev": "error", "id": c.ID, "via": c.Via, "error": err.Error()}, nil
	}
	return vh.Ev{"ev": "resp", "id": c.ID, "via": c.Via, "seq": observed, "remedies": c.Remedies}, res.RespToSpoeActions()
}

func normalize(c *Case) {
	for i := range c.Seq {
		if c.Seq[i].H == nil {
			c.Seq[i].H = [][2]string{}
		}
		if c.Seq[i].Rm == nil {
			c.Seq[i].Rm = []string{}
		}
	}
	if c.Seq == nil {
		c.Seq = []Act{}
	}
	if c.NilEmpty {
		for i := range c.Seq {
			if len(c.Seq[i].H) == 0 {
				c.Seq[i].NilH = true
			}
		}
	}
}

// echo is the sequence as the specification sees it (values only: a nil header map is an empty set of edits)
func echo(seq []Act) []Act {
	out := make([]Act, len(seq))
	for i, a := range seq {
		a.NilH = false
		out[i] = a
	}
	return out
}

func nilPositions(seq []Act) []int {
	out := []int{}
	for i, a := range seq {
		if a.NilH {
			out = append(out, i)
		}
	}
	return out
}

// guarded runs one transaction; a panic of the real code is an observation: no action, no encoding
func guarded(c Case, f func(Case) (vh.Ev, action.Actions)) (ev vh.Ev, acts action.Actions, panicked string) {
	defer func() {
		if r := recover(); r != nil {
			side := "req"
			if c.Side != "req" {
				side = "resp"
			}
			ev = vh.Ev{"ev": side, "id": c.ID, "via": c.Via, "h": c.H, "seq": echo(c.Seq), "nil_positions": nilPositions(c.Seq)}
			acts, panicked = nil, fmt.Sprintf("panic: %v", r)
		}
	}()
	ev, acts = f(c)
	return ev, acts, ""
}

// one encoded transaction whose SPOE actions are retained and read only after later transactions were encoded
type pending struct {
	ev    vh.Ev
	acts  action.Actions
	early string
	panic string
}

func (p *pending) finish() vh.Ev {
	if p.ev["ev"] == "error" {
		return p.ev
	}
	out := decode(p.acts)
	p.ev["stable"] = key(out) == p.early // false: the actions handed back changed after the call returned
	if p.panic != "" {
		out.Bad = append(out.Bad, p.panic)
	}
	p.ev["out"] = out
	return p.ev
}

// run: the cases one after the other.  The encoded actions of every transaction are retained (as the SPOE worker does until
// it has written the reply) and decoded only when the whole batch has been encoded: what is judged is what the proxy would
// read after later transactions were handled.
func run(cases []Case, tr *vh.Trace) {
	all := make([]*pending, 0, len(cases))
	for _, c := range cases {
		normalize(&c)
		cur.enter(c.H)
		var p pending
		switch c.Via {
		case "routing":
			p.ev, p.acts, p.panic = guarded(c, viaRouting)
		case "runner":
			p.ev, p.acts, p.panic = guarded(c, viaRunner)
		default:
			vh.Die("unknown via %q", c.Via)
		}
		p.early = key(decode(p.acts))
		all = append(all, &p)
	}
	for _, p := range all {
		tr.Add(p.finish())
	}
}

// conc: `workers` goroutines encode concurrently (routing cases only, fresh actions per case); worker w takes the cases
// w, w+workers, ... and reads its retained results when it is done.  Every transaction is judged on its own.
func conc(cases []Case, tr *vh.Trace, workers int) {
	results := make([][]*pending, workers)
	start := make(chan struct{})
	var wg sync.WaitGroup
	for w := 0; w < workers; w++ {
		wg.Add(1)
		go func(w int) {
			defer wg.Done()
			<-start
			for i := w; i < len(cases); i += workers {
				c := cases[i]
				var p pending
				p.ev, p.acts, p.panic = guarded(c, viaRouting)
				p.ev["worker"] = w
				p.early = key(decode(p.acts))
				results[w] = append(results[w], &p)
				runtime.Gosched()
			}
		}(w)
	}
	close(start)
	wg.Wait()
	evs := make([]vh.Ev, len(cases))
	for w := 0; w < workers; w++ {
		for k, p := range results[w] {
			evs[w+k*workers] = p.finish()
		}
	}
	for _, e := range evs {
		tr.Add(e)
	}
}

func main() {
	vh.Quiet()
	if len(os.Args) < 4 || (os.Args[1] != "run" && os.Args[1] != "conc") {
		vh.Die("usage: c07 run <cases.json> <out.ndjson> | c07 conc <cases.json> <out.ndjson> <workers>")
	}
	var cases []Case
	vh.ReadJSON(os.Args[2], &cases)
	tr := vh.NewTrace()
	if os.Args[1] == "run" {
		run(cases, tr)
	} else {
		workers, _ := strconv.Atoi(os.Args[4])
		for i := range cases {
			normalize(&cases[i])
			if cases[i].Via != "routing" || cases[i].H != 0 {
				vh.Die("conc: routing cases without history only")
			}
		}
		cur.enter(0)
		conc(cases, tr, workers)
	}
	tr.Write(os.Args[3])
}
