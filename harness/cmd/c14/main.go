// c14: pure executor for property C14 (traffic a flow or policy must see is always
// registered as managed).
//
//	c14 run <groups.ndjson> <out.ndjson> <workdir>
//
// input, one group per line:
//
//	{"kind":"policy","items":[{"name":"d1","m":["GET"],"h":["a","com"],"p":["a+b","{id}","*"]},...],"reqs":[{"m":..,"h":..,"p":..},...]}
//	{"kind":"flow",  "items":[{"name":"f1","m":[],"h":..,"p":..},...],"reqs":[...]}     filter tree level
//	{"kind":"engine","items":[...],"reqs":[...]}                                       loaded stream engine
//
// a request may carry "var": "ts" (URL text ends with an extra "/"), "uc" (host in upper case), "dot" ("." after the host)
//
// For every group the REAL code produces the managed-endpoint expressions
//
//	policy: config.BuildHAProxyEndpointsRequest (-> config.HaproxyEndpointFormat per enabled remedy)
//	flow:   config.HaproxyEndpointFormat for every Filter.GetSupportedMethods() of the real streamconfig.Filter
//	engine: routing.buildHAProxyFlowsEndpointsRequest (export_verif_c14.go) of the engine loaded from YAML
//
// and for every request both verdicts are recorded:
//
//	proxy:  some expression, compiled with Go's regexp, is found in "METHOD:::url" (unanchored search, as HAProxy's
//	        map_reg does); manage_all as reported by the real request builder
//	engine: policy: runner.getRemedies on the real EndpointPolicyTree selects a remedy of the declaration;
//	        flow:   streamfilter.FilterTree.GetFlow selects the flow;  engine: Stream.ExecuteFlow invoked the flow
//
// output, one line per group:
//
//	{"err":"", "manage_all":false, "exprs":[{"owner":"d1","e":"GET:::a\\.com/x$","rxerr":""}],
//	 "outs":[{"engine":["d1"],"proxy":[0]}, ...]}       engine = names selected, proxy = indices of matching expressions
//
// No oracle logic here.
package main

import (
	"bufio"
	"encoding/json"
	"fmt"
	"os"
	"path/filepath"
	"regexp"
	"sort"
	"strings"

	"lunar/engine/config"
	lunar_messages "lunar/engine/messages"
	"lunar/engine/routing"
	"lunar/engine/runner"
	"lunar/engine/streams"
	stream_config "lunar/engine/streams/config"
	streamfilter "lunar/engine/streams/filter"
	stream_flow "lunar/engine/streams/flow"
	internaltypes "lunar/engine/streams/internal-types"
	lunar_context "lunar/engine/streams/lunar-context"
	public_types "lunar/engine/streams/public-types"
	stream_types "lunar/engine/streams/types"
	"lunar/engine/utils/environment"
	sharedConfig "lunar/shared-model/config"
	context_manager "lunar/toolkit-core/context-manager"

	"verifharness/internal/vh"
)

type Item struct {
	Name string      `json:"name"`
	M    []string    `json:"m"`
	H    []string    `json:"h"`
	P    []string    `json:"p"`
	Hdr  [][2]string `json:"hdr,omitempty"` // flow items: header constraints of the filter (key, value)
}

type Req struct {
	M   string   `json:"m"`
	H   []string `json:"h"`
	P   []string `json:"p"`
	Var string   `json:"var"` // spelling of the URL text: "" canonical, "ts" extra trailing "/", "uc" host in upper case, "dot" "." after the host
}

func (rq Req) url() string {
	switch rq.Var {
	case "ts":
		return render(rq.H, rq.P) + "/"
	case "uc":
		h := make([]string, len(rq.H))
		for i, l := range rq.H {
			h[i] = strings.ToUpper(l)
		}
		return render(h, rq.P)
	case "dot":
		s := strings.Join(rq.H, ".") + "."
		if len(rq.P) > 0 {
			s += "/" + strings.Join(rq.P, "/")
		}
		return s
	case "":
		return render(rq.H, rq.P)
	}
	vh.Die("unknown URL variant %q", rq.Var)
	return ""
}

type Group struct {
	Kind  string `json:"kind"`
	Items []Item `json:"items"`
	Reqs  []Req  `json:"reqs"`
}

type Expr struct {
	Owner string `json:"owner"`
	E     string `json:"e"`
	RxErr string `json:"rxerr"`
	rx    *regexp.Regexp
}

type Out struct {
	Engine []string `json:"engine"`
	Proxy  []int    `json:"proxy"`
}

type GroupOut struct {
	Err       string `json:"err"`
	ManageAll bool   `json:"manage_all"`
	Exprs     []Expr `json:"exprs"`
	Outs      []Out  `json:"outs"`
}

func render(h, p []string) string {
	s := strings.Join(h, ".")
	if len(p) > 0 {
		s += "/" + strings.Join(p, "/")
	}
	return s
}

func compile(exprs []Expr) {
	for i := range exprs {
		rx, err := regexp.Compile(exprs[i].E)
		if err != nil {
			exprs[i].RxErr = err.Error()
			continue
		}
		exprs[i].rx = rx
	}
}

// the proxy's test: acl is_managed capture.req.method,concat(":::",txn.url),map_reg(endpoints.map) -m found
func proxyVerdict(exprs []Expr, rq Req) []int {
	subject := rq.M + ":::" + rq.url()
	res := []int{}
	for i, e := range exprs {
		if e.rx != nil && e.rx.MatchString(subject) {
			res = append(res, i)
		}
	}
	return res
}

func remedyOfType(name string, t int) sharedConfig.Remedy {
	r := sharedConfig.Remedy{Enabled: true, Name: name}
	switch t % 9 {
	case 0:
		r.Config.FixedResponse = &sharedConfig.FixedResponseConfig{}
	case 1:
		r.Config.Caching = &sharedConfig.CachingConfig{}
	case 2:
		r.Config.Retry = &sharedConfig.RetryConfig{}
	case 3:
		r.Config.StrategyBasedThrottling = &sharedConfig.StrategyBasedThrottlingConfig{}
	case 4:
		r.Config.ResponseBasedThrottling = &sharedConfig.ResponseBasedThrottlingConfig{}
	case 5:
		r.Config.StrategyBasedQueue = &sharedConfig.StrategyBasedQueueConfig{}
	case 6:
		r.Config.ConcurrencyBasedThrottling = &sharedConfig.ConcurrencyBasedThrottlingConfig{}
	case 7:
		r.Config.AccountOrchestration = &sharedConfig.AccountOrchestrationConfig{}
	case 8:
		r.Config.Authentication = &sharedConfig.AuthConfig{}
	}
	return r
}

func runPolicy(g Group) GroupOut {
	res := GroupOut{Exprs: []Expr{}, Outs: []Out{}}
	eps := []sharedConfig.EndpointConfig{}
	for i, it := range g.Items {
		if len(it.M) != 1 {
			vh.Die("policy item needs exactly one method")
		}
		eps = append(eps, sharedConfig.EndpointConfig{
			URL: render(it.H, it.P), Method: it.M[0],
			Remedies: []sharedConfig.Remedy{remedyOfType(it.Name, i)},
		})
	}
	policies := &sharedConfig.PoliciesConfig{Endpoints: eps}
	hreq := config.BuildHAProxyEndpointsRequest(policies)
	res.ManageAll = hreq.ManageAll
	for i, me := range hreq.ManagedEndpoints {
		owner := ""
		if i < len(g.Items) {
			owner = g.Items[i].Name // one enabled remedy per endpoint, in declaration order
		}
		res.Exprs = append(res.Exprs, Expr{Owner: owner, E: me.Endpoint})
	}
	compile(res.Exprs)
	tree, err := config.BuildEndpointPolicyTree(eps)
	if err != nil {
		res.Err = err.Error()
		return res
	}
	global := &sharedConfig.Global{}
	for _, rq := range g.Reqs {
		o := Out{Engine: []string{}, Proxy: proxyVerdict(res.Exprs, rq)}
		for _, sr := range runner.VerifGetRemedies(rq.M, rq.url(), tree, global) {
			o.Engine = append(o.Engine, sr.Remedy.Name)
		}
		sort.Strings(o.Engine)
		res.Outs = append(res.Outs, o)
	}
	return res
}

var shared = lunar_context.NewMemoryState[[]byte]()

func apiStream(rq Req, id string) public_types.APIStreamI {
	return stream_types.NewRequestAPIStream(lunar_messages.OnRequest{
		ID: id, SequenceID: id, Method: rq.M, Scheme: "https", URL: rq.url(), Headers: map[string]string{},
	}, shared)
}

func runFlowTree(g Group) GroupOut {
	res := GroupOut{Exprs: []Expr{}, Outs: []Out{}}
	tree := streamfilter.NewFilterTree()
	for _, it := range g.Items {
		filter := &stream_config.Filter{Name: it.Name, URL: render(it.H, it.P), Method: append([]string{}, it.M...)}
		flow := stream_flow.NewFlow(nil, &stream_config.FlowRepresentation{
			Name: it.Name, Filter: filter, Type: internaltypes.UserFlow,
		}, nil)
		if err := tree.AddFlow(flow); err != nil {
			res.Err = err.Error()
			return res
		}
		res.ManageAll = res.ManageAll || filter.IsAnyURLAccepted()
		for _, m := range filter.GetSupportedMethods() {
			res.Exprs = append(res.Exprs, Expr{
				Owner: it.Name,
				E:     config.HaproxyEndpointFormat(m, filter.GetURL(), &stream_types.ProcessorRequirement{}).Endpoint,
			})
		}
	}
	compile(res.Exprs)
	for ri, rq := range g.Reqs {
		o := Out{Engine: []string{}, Proxy: proxyVerdict(res.Exprs, rq)}
		r, found := tree.GetFlow(apiStream(rq, fmt.Sprintf("t%d", ri)))
		if found && r != nil {
			if fl, ok := r.GetUserFlow(); ok {
				for _, f := range fl {
					o.Engine = append(o.Engine, f.GetName())
				}
			}
		}
		sort.Strings(o.Engine)
		res.Outs = append(res.Outs, o)
	}
	return res
}

func flowYAML(it Item) string {
	var b strings.Builder
	fmt.Fprintf(&b, "name: %s\nfilter:\n  url: %q\n", it.Name, render(it.H, it.P))
	if len(it.M) > 0 {
		q := []string{}
		for _, m := range it.M {
			q = append(q, fmt.Sprintf("%q", m))
		}
		fmt.Fprintf(&b, "  method: [%s]\n", strings.Join(q, ", "))
	}
	if len(it.Hdr) > 0 {
		b.WriteString("  headers:\n")
		for _, kv := range it.Hdr {
			fmt.Fprintf(&b, "    - key: %q\n      value: %q\n", kv[0], kv[1])
		}
	}
	b.WriteString(`processors:
  procReq:
    processor: UserDefinedMetrics
    parameters:
      - key: metric_name
        value: "verif_req"
      - key: metric_type
        value: "counter"
  procRes:
    processor: UserDefinedMetrics
    parameters:
      - key: metric_name
        value: "verif_res"
      - key: metric_type
        value: "counter"
flow:
  request:
    - from:
        stream:
          name: globalStream
          at: start
      to:
        processor:
          name: procReq
    - from:
        processor:
          name: procReq
      to:
        stream:
          name: globalStream
          at: end
  response:
    - from:
        stream:
          name: globalStream
          at: start
      to:
        processor:
          name: procRes
    - from:
        processor:
          name: procRes
      to:
        stream:
          name: globalStream
          at: end
`)
	return b.String()
}

func runEngine(g Group, work string, n int) GroupOut {
	res := GroupOut{Exprs: []Expr{}, Outs: []Out{}}
	dir := filepath.Join(work, fmt.Sprintf("eng-%d", n))
	defer os.RemoveAll(dir)
	for _, d := range []string{"flows", "quotas"} {
		if err := os.MkdirAll(filepath.Join(dir, d), 0o755); err != nil {
			vh.Die("mkdir: %v", err)
		}
	}
	for _, it := range g.Items {
		if err := os.WriteFile(filepath.Join(dir, "flows", it.Name+".yaml"), []byte(flowYAML(it)), 0o644); err != nil {
			vh.Die("write flow: %v", err)
		}
	}
	st, err := streams.NewValidationStream(dir)
	if err != nil {
		res.Err = "NewValidationStream: " + err.Error()
		return res
	}
	if err := st.Initialize(); err != nil {
		res.Err = "Initialize: " + err.Error()
		return res
	}
	hreq := routing.VerifBuildHAProxyFlowsEndpointsRequest(st)
	res.ManageAll = hreq.ManageAll
	for _, me := range hreq.ManagedEndpoints {
		res.Exprs = append(res.Exprs, Expr{Owner: "", E: me.Endpoint})
	}
	sort.Slice(res.Exprs, func(i, j int) bool { return res.Exprs[i].E < res.Exprs[j].E })
	compile(res.Exprs)
	for ri, rq := range g.Reqs {
		o := Out{Engine: []string{}, Proxy: proxyVerdict(res.Exprs, rq)}
		before := st.GetFlowInvocations()
		actions := &stream_config.StreamActions{
			Request: &stream_config.RequestStream{}, Response: &stream_config.ResponseStream{},
		}
		as := apiStream(rq, fmt.Sprintf("e%d-t%d", n, ri))
		as.SetContext(lunar_context.NewLunarContext(lunar_context.NewContext()))
		if err := st.ExecuteFlow(as, actions); err != nil {
			res.Err = "ExecuteFlow: " + err.Error()
			return res
		}
		after := st.GetFlowInvocations()
		for name, c := range after {
			if c > before[name] {
				o.Engine = append(o.Engine, name)
			}
		}
		sort.Strings(o.Engine)
		res.Outs = append(res.Outs, o)
	}
	return res
}

func main() {
	vh.Quiet()
	if len(os.Args) != 5 || (os.Args[1] != "run" && os.Args[1] != "proto") {
		vh.Die("usage: c14 run|proto <in.ndjson> <out.ndjson> <workdir>")
	}
	repo := os.Getenv("VERIF_REPO")
	if repo == "" {
		repo = "/repo"
	}
	environment.SetProcessorsDirectory(filepath.Join(repo, "proxy/src/services/lunar-engine/streams/processors/registry"))
	context_manager.Get().SetMockClock()
	if os.Args[1] == "proto" {
		runProto(os.Args[2], os.Args[3], os.Args[4])
		return
	}
	in, err := os.Open(os.Args[2])
	if err != nil {
		vh.Die("open: %v", err)
	}
	defer in.Close()
	out, err := os.Create(os.Args[3])
	if err != nil {
		vh.Die("create: %v", err)
	}
	w := bufio.NewWriterSize(out, 1<<20)
	sc := bufio.NewScanner(in)
	sc.Buffer(make([]byte, 1<<20), 1<<28)
	n := 0
	for sc.Scan() {
		line := sc.Bytes()
		if len(strings.TrimSpace(string(line))) == 0 {
			continue
		}
		var g Group
		if err := json.Unmarshal(line, &g); err != nil {
			vh.Die("parse group %d: %v", n, err)
		}
		var r GroupOut
		switch g.Kind {
		case "policy":
			r = runPolicy(g)
		case "flow":
			r = runFlowTree(g)
		case "engine":
			r = runEngine(g, os.Args[4], n)
		default:
			vh.Die("unknown kind %q", g.Kind)
		}
		b, err := json.Marshal(r)
		if err != nil {
			vh.Die("marshal: %v", err)
		}
		w.Write(b)
		w.WriteByte('\n')
		n++
	}
	if err := sc.Err(); err != nil {
		vh.Die("scan: %v", err)
	}
	w.Flush()
	out.Close()
	fmt.Printf("groups=%d\n", n)
}
