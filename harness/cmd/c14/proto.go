package main

// c14 proto <histories.ndjson> <out.ndjson> <workdir>
//
// The REGISTRATION PROTOCOL over a history of (re)loads, against a recording fake of HAProxy's admin API
// (PUT/DELETE /managed_endpoint, PUT /manage_all, DELETE /unmanage_global, PUT /unmanage_all ...; always 200).
//
// input, one history per line:
//
//	{"mode":"policy"|"flow","steps":[{"op":"load","immediate":false,"global":false,"items":[...]},{"op":"drain"},...],"reqs":[...]}
//	item (policy): {"name":"d1","m":["GET"],"h":[..],"p":[..],"remedy":"on"|"off"|"none","diags":["on","off",...]}
//	item (flow):   {"name":"f1","m":[..],"h":[..],"p":[..]}
//
// load  policy: first load = config.ManageHAProxyEndpoints(config.BuildHAProxyEndpointsRequest(cfg)) + NewTxnPoliciesAccessor
//               (what BuildInitialFromFile does), later loads = the REAL TxnPoliciesAccessor.UpdatePoliciesData(data, immediate)
//       flow:   flows written as YAML, the REAL HandlingDataManager.initializeStreams (export_verif_c14.go)
// drain the mock clock is advanced past the 30 s stale-version TTL until every scheduled unmanage has run
//       (haproxy.unmanage.scheduled / .done hook points)
//
// After every step every request is probed: the engine's verdict on the CURRENT configuration (policy: dispatcher
// getRemedies+getDiagnoses on the accessor's current data; flow: ExecuteFlow on the serving engine) and the list of
// expressions (of all ever PUT) that find the request, compiled with Go's regexp. Which of them the proxy currently
// holds is NOT decided here: the admin calls are reported in order and the specification keeps the map.
//
// output per history: {"err":"", "steps":[{"admin":[{"op":"put","e":"..."},...],"probes":[{"engine":[..],"matching":[..]}]}]}

import (
	"bufio"
	"encoding/json"
	"fmt"
	"io"
	"net"
	"net/http"
	"os"
	"path/filepath"
	"regexp"
	"sort"
	"strings"
	"sync"
	"sync/atomic"
	"time"

	"lunar/engine/config"
	"lunar/engine/routing"
	"lunar/engine/runner"
	stream_config "lunar/engine/streams/config"
	lunar_context "lunar/engine/streams/lunar-context"
	sharedConfig "lunar/shared-model/config"
	context_manager "lunar/toolkit-core/context-manager"
	"lunar/toolkit-core/verifhook"

	"verifharness/internal/vh"
)

type PItem struct {
	Item
	Remedy string   `json:"remedy"`
	Diags  []string `json:"diags"`
}

type Step struct {
	Op        string  `json:"op"`
	Immediate bool    `json:"immediate"`
	Global    bool    `json:"global"`
	Items     []PItem `json:"items"`
}

type History struct {
	Mode  string `json:"mode"`
	Steps []Step `json:"steps"`
	Reqs  []Req  `json:"reqs"`
}

type AdminOp struct {
	Op string `json:"op"`
	E  string `json:"e"`
}

type Probe struct {
	Engine   []string `json:"engine"`
	Matching []string `json:"matching"`
}

type StepOut struct {
	Admin  []AdminOp `json:"admin"`
	Probes []Probe   `json:"probes"`
}

type HistoryOut struct {
	Err   string    `json:"err"`
	Steps []StepOut `json:"steps"`
}

// ---------------------------------------------------------------- fake admin API
type fakeProxy struct {
	mu  sync.Mutex
	ops []AdminOp
}

func (f *fakeProxy) ServeHTTP(w http.ResponseWriter, r *http.Request) {
	body, _ := io.ReadAll(r.Body)
	op := ""
	switch {
	case r.URL.Path == "/managed_endpoint" && r.Method == http.MethodPut:
		op = "put"
	case r.URL.Path == "/managed_endpoint" && r.Method == http.MethodDelete:
		op = "del"
	case r.URL.Path == "/manage_all" && r.Method == http.MethodPut:
		op = "manage_all"
	case r.URL.Path == "/unmanage_all" && r.Method == http.MethodPut:
		op = "unmanage_all"
	case r.URL.Path == "/unmanage_global" && r.Method == http.MethodDelete:
		op = "unmanage_global"
	}
	if op != "" {
		f.mu.Lock()
		f.ops = append(f.ops, AdminOp{Op: op, E: string(body)})
		f.mu.Unlock()
	}
	w.WriteHeader(http.StatusOK)
	_, _ = w.Write([]byte("true"))
}

func (f *fakeProxy) take() []AdminOp {
	f.mu.Lock()
	defer f.mu.Unlock()
	res := f.ops
	if res == nil {
		res = []AdminOp{}
	}
	f.ops = nil
	return res
}

func startFake(port string) *fakeProxy {
	f := &fakeProxy{}
	// "localhost" for both address families (a 127.0.0.1-only listener makes the engine's client fail on ::1)
	started := 0
	for _, addr := range []string{"127.0.0.1:" + port, "[::1]:" + port} {
		ln, err := net.Listen("tcp", addr)
		if err != nil {
			continue
		}
		started++
		go func() { _ = http.Serve(ln, f) }()
	}
	if started == 0 {
		vh.Die("cannot listen on localhost:%s", port)
	}
	return f
}

// ---------------------------------------------------------------- delayed unmanage
var scheduled, done atomic.Int64

func drain() {
	mock := context_manager.Get().GetMockClock()
	for round := 0; round < 200; round++ {
		if done.Load() >= scheduled.Load() {
			return
		}
		mock.AdvanceTime(31 * time.Second)
		// the sleepers woken by the advance perform their admin calls; a sleeper that had not yet
		// registered its timer is woken by the next advance
		for i := 0; i < 200 && done.Load() < scheduled.Load(); i++ {
			time.Sleep(time.Millisecond)
		}
	}
	vh.Die("delayed unmanage did not complete: scheduled=%d done=%d", scheduled.Load(), done.Load())
}

// ---------------------------------------------------------------- policy mode
func policiesOf(st Step) *sharedConfig.PoliciesConfig {
	cfg := &sharedConfig.PoliciesConfig{}
	if st.Global {
		cfg.Global.Remedies = []sharedConfig.Remedy{remedyOfType("global", 8)}
	}
	for i, it := range st.Items {
		ep := sharedConfig.EndpointConfig{URL: render(it.H, it.P), Method: it.M[0]}
		if it.Remedy != "none" && it.Remedy != "" {
			r := remedyOfType(it.Name, i)
			r.Enabled = it.Remedy == "on"
			ep.Remedies = []sharedConfig.Remedy{r}
		}
		for k, d := range it.Diags {
			ep.Diagnosis = append(ep.Diagnosis, sharedConfig.Diagnosis{
				Enabled: d == "on", Name: fmt.Sprintf("%s.g%d", it.Name, k+1), Export: "file",
				Config: sharedConfig.DiagnosisConfig{Void: &sharedConfig.VoidConfig{}},
			})
		}
		cfg.Endpoints = append(cfg.Endpoints, ep)
	}
	return cfg
}

type exprSet struct {
	rx map[string]*regexp.Regexp
}

func (s *exprSet) learn(ops []AdminOp) {
	for _, o := range ops {
		if o.Op != "put" {
			continue
		}
		if _, ok := s.rx[o.E]; !ok {
			r, err := regexp.Compile(o.E)
			if err != nil {
				r = nil
			}
			s.rx[o.E] = r
		}
	}
}

func (s *exprSet) matching(rq Req) []string {
	subject := rq.M + ":::" + rq.url()
	res := []string{}
	for e, r := range s.rx {
		if r != nil && r.MatchString(subject) {
			res = append(res, e)
		}
	}
	sort.Strings(res)
	return res
}

func runPolicyHistory(h History, fake *fakeProxy) HistoryOut {
	out := HistoryOut{Steps: []StepOut{}}
	var acc *config.TxnPoliciesAccessor
	exprs := &exprSet{rx: map[string]*regexp.Regexp{}}
	fake.take()
	for _, st := range h.Steps {
		switch st.Op {
		case "load":
			data, err := config.BuildPolicyData(policiesOf(st), false)
			if err != nil {
				out.Err = "BuildPolicyData: " + err.Error()
				return out
			}
			if acc == nil {
				// BuildInitialFromFile without the file and the health check
				if err := config.ManageHAProxyEndpoints(config.BuildHAProxyEndpointsRequest(&data.Config)); err != nil {
					out.Err = "ManageHAProxyEndpoints: " + err.Error()
					return out
				}
				a := config.NewTxnPoliciesAccessor(data)
				acc = &a
			} else if err := acc.UpdatePoliciesData(data, st.Immediate); err != nil {
				out.Err = "UpdatePoliciesData: " + err.Error()
				return out
			}
		case "drain":
			drain()
		default:
			vh.Die("unknown step %q", st.Op)
		}
		so := StepOut{Admin: fake.take(), Probes: []Probe{}}
		exprs.learn(so.Admin)
		cur := acc.GetCurrentPoliciesData()
		for _, rq := range h.Reqs {
			p := Probe{Engine: []string{}, Matching: exprs.matching(rq)}
			for _, sr := range runner.VerifGetRemedies(rq.M, rq.url(), &cur.EndpointPolicyTree, &cur.Config.Global) {
				p.Engine = append(p.Engine, sr.Remedy.Name)
			}
			for _, sd := range runner.VerifGetDiagnoses(rq.M, rq.url(), &cur.EndpointPolicyTree, cur.Config.Global.Diagnosis) {
				p.Engine = append(p.Engine, sd.Diagnosis.Name)
			}
			sort.Strings(p.Engine)
			so.Probes = append(so.Probes, p)
		}
		out.Steps = append(out.Steps, so)
	}
	drain() // leave no sleeper behind for the next history
	fake.take()
	return out
}

// ---------------------------------------------------------------- flow mode
func runFlowHistory(h History, fake *fakeProxy, work string, n int) HistoryOut {
	out := HistoryOut{Steps: []StepOut{}}
	dir := filepath.Join(work, fmt.Sprintf("hist-%d", n))
	defer os.RemoveAll(dir)
	flows, quotas, pp := filepath.Join(dir, "flows"), filepath.Join(dir, "quotas"), filepath.Join(dir, "pp")
	for _, d := range []string{flows, quotas, pp} {
		if err := os.MkdirAll(d, 0o755); err != nil {
			vh.Die("mkdir: %v", err)
		}
	}
	os.Setenv("LUNAR_PROXY_FLOW_DIRECTORY", flows)
	os.Setenv("LUNAR_PROXY_QUOTAS_DIRECTORY", quotas)
	os.Setenv("LUNAR_FLOWS_PATH_PARAM_DIR", pp)
	rd := routing.VerifNewStreamsManager()
	exprs := &exprSet{rx: map[string]*regexp.Regexp{}}
	fake.take()
	for si, st := range h.Steps {
		switch st.Op {
		case "load":
			old, _ := filepath.Glob(filepath.Join(flows, "*.yaml"))
			for _, f := range old {
				os.Remove(f)
			}
			for _, it := range st.Items {
				if err := os.WriteFile(filepath.Join(flows, it.Name+".yaml"), []byte(flowYAML(it.Item)), 0o644); err != nil {
					vh.Die("write flow: %v", err)
				}
			}
			if err := rd.VerifInitializeStreams(); err != nil {
				out.Err = "initializeStreams: " + err.Error()
				return out
			}
		case "drain":
			drain()
		default:
			vh.Die("unknown step %q", st.Op)
		}
		so := StepOut{Admin: fake.take(), Probes: []Probe{}}
		exprs.learn(so.Admin)
		stream := rd.VerifActiveStream()
		for ri, rq := range h.Reqs {
			p := Probe{Engine: []string{}, Matching: exprs.matching(rq)}
			before := stream.GetFlowInvocations()
			actions := &stream_config.StreamActions{
				Request: &stream_config.RequestStream{}, Response: &stream_config.ResponseStream{},
			}
			as := apiStream(rq, fmt.Sprintf("h%d-s%d-t%d", n, si, ri))
			as.SetContext(lunar_context.NewLunarContext(lunar_context.NewContext()))
			if err := stream.ExecuteFlow(as, actions); err != nil {
				out.Err = "ExecuteFlow: " + err.Error()
				return out
			}
			for name, c := range stream.GetFlowInvocations() {
				if c > before[name] {
					p.Engine = append(p.Engine, name)
				}
			}
			sort.Strings(p.Engine)
			so.Probes = append(so.Probes, p)
		}
		out.Steps = append(out.Steps, so)
	}
	drain()
	fake.take()
	return out
}

func runProto(inPath, outPath, work string) {
	port := os.Getenv("HAPROXY_MANAGE_ENDPOINTS_PORT")
	if port == "" || os.Getenv("LUNAR_HEALTHCHECK_PORT") != port {
		vh.Die("HAPROXY_MANAGE_ENDPOINTS_PORT and LUNAR_HEALTHCHECK_PORT must name the fake's port")
	}
	fake := startFake(port)
	verifhook.SetSink(func(point string, _ ...any) {
		switch point {
		case "haproxy.unmanage.scheduled":
			scheduled.Add(1)
		case "haproxy.unmanage.done":
			done.Add(1)
		}
	})
	in, err := os.Open(inPath)
	if err != nil {
		vh.Die("open: %v", err)
	}
	defer in.Close()
	outf, err := os.Create(outPath)
	if err != nil {
		vh.Die("create: %v", err)
	}
	w := bufio.NewWriterSize(outf, 1<<20)
	sc := bufio.NewScanner(in)
	sc.Buffer(make([]byte, 1<<20), 1<<28)
	n := 0
	for sc.Scan() {
		if len(strings.TrimSpace(sc.Text())) == 0 {
			continue
		}
		var h History
		if err := json.Unmarshal(sc.Bytes(), &h); err != nil {
			vh.Die("parse history %d: %v", n, err)
		}
		var r HistoryOut
		switch h.Mode {
		case "policy":
			r = runPolicyHistory(h, fake)
		case "flow":
			r = runFlowHistory(h, fake, work, n)
		default:
			vh.Die("unknown mode %q", h.Mode)
		}
		b, _ := json.Marshal(r)
		w.Write(b)
		w.WriteByte('\n')
		n++
	}
	w.Flush()
	outf.Close()
	fmt.Printf("histories=%d\n", n)
}
