// c06: executes scenarios against the real flows-mode Queue processor inside a real
// engine (flow `Queue -> allowed | blocked -> GenerateResponse`) and records what
// happened as NDJSON traces for TLC.  Pure executor: no oracle logic here.
//
//	c06 run <scenarios.json> <outdir> [parallel]   parent: one child process per scenario (a panic of the
//	                                                real code is observed as the child's exit status)
//	c06 child <scenario.json> <trace.ndjson>       one scenario
//
// scenario: {"name":..., "config":{"ttl_s":2,"queue_size":2,"qmax":1,"qwin_s":1,"slack_ms":2000},
//
//	"steps":[{"op":...},...]}
//
// steps (executed in order by the controller goroutine; the real goroutines run on their own and are
// steered only through the verifhook yield points of /repo, which act as gates; a scenario with a "hold"
// is recorded as gated: the time predicate is then judged from the removal of the gates, see FlowQueueTrace):
//
//	{"op":"hold","point":P,"id":I}      from now on a goroutine reaching point P (for request I; "" = any) blocks
//	{"op":"pass","point":P,"id":I}      let exactly one goroutine through that gate (now or when it arrives)
//	{"op":"unhold","point":P,"id":I}    remove the gate and wake everything blocked on it
//	{"op":"await","point":P,"id":I}     wait until point P was reached (once more than already awaited)
//	{"op":"arrive","id":I,"prio":"p0"}  start a goroutine calling ExecuteFlow for request I
//	{"op":"await_verdict","id":I}       wait until that call returned
//	{"op":"sleep","ms":N}               (random recordings only) real-time pause
//	{"op":"until","ms":N}               wait until N ms after the start of the scenario
//	{"op":"fault","point":P,"ms":K}     the next K calls of verifhook.Fault(P) return an error
//	{"op":"shutdown"}                   cancel the context-manager context
//	{"op":"end"}                        remove all gates, wait for the outstanding calls up to their deadline
//
// trace: {"ev":"reset",...} then one event per observation, in the order of one global sequence:
// arrive / verdict / shutdown / end (stamped by the harness), enq / pick / quota / grant / expire / drain and the
// implementation-level slot / tick / requeue / stopall_done / before_remove / removed (stamped by
// the yield points), diverged (the script could not be followed; everything then runs freely), crash /
// abort (appended by the parent: the child died / the harness itself failed).
package main

import (
	"bufio"
	"bytes"
	"context"
	"encoding/json"
	"fmt"
	"os"
	"os/exec"
	"path/filepath"
	"runtime"
	"strconv"
	"strings"
	"sync"
	"sync/atomic"
	"time"

	lunar_messages "lunar/engine/messages"
	"lunar/engine/streams"
	stream_config "lunar/engine/streams/config"
	lunar_context "lunar/engine/streams/lunar-context"
	processorqueue "lunar/engine/streams/processors/queue"
	stream_types "lunar/engine/streams/types"
	context_manager "lunar/toolkit-core/context-manager"
	"lunar/toolkit-core/verifhook"

	"verifharness/internal/vh"
)

type Config struct {
	Align     bool `json:"align,omitempty"` // start the scenario clock 100 ms after a wall-clock second boundary
	TTLs      int  `json:"ttl_s"`
	QueueSize int  `json:"queue_size"`
	QMax      int  `json:"qmax"`
	QWins     int  `json:"qwin_s"`
	SlackMs   int  `json:"slack_ms"`
	Procs     int  `json:"gomaxprocs,omitempty"` // GOMAXPROCS of the child (0 = default)
	Flows     int  `json:"flows,omitempty"`      // 2 = two flows, each with its own Queue processor (requests name "a"/"b")
	SameQuota bool `json:"same_quota,omitempty"` // both Queue processors on one quota id
}

type Step struct {
	Op    string `json:"op"`
	Point string `json:"point,omitempty"`
	ID    string `json:"id,omitempty"`
	Prio  string `json:"prio,omitempty"`
	Ms    int    `json:"ms,omitempty"`
	Flow  string `json:"flow,omitempty"` // arrive: "a" | "b" with two flows
}

type Scenario struct {
	Name   string `json:"name"`
	Config Config `json:"config"`
	Steps  []Step `json:"steps"`
}

// ---------------------------------------------------------------------------- trace (unbuffered: survives a panic)

type tracer struct {
	mu    sync.Mutex
	f     *os.File
	start time.Time
}

func (t *tracer) ms() int64 { return time.Since(t.start).Milliseconds() } // called with mu held

// add stamps and writes one event; the lock orders the events (one global sequence).
func (t *tracer) add(ev vh.Ev, withT bool) {
	t.mu.Lock()
	if withT {
		ev["t"] = t.ms()
	}
	b, _ := json.Marshal(ev)
	t.f.Write(append(b, '\n'))
	t.mu.Unlock()
}

// ---------------------------------------------------------------------------- gates

type gate struct {
	held    bool
	permits int
	reached int
	awaited int
}

type gates struct {
	mu sync.Mutex
	cv *sync.Cond
	g  map[string]*gate
}

func newGates() *gates {
	gs := &gates{g: map[string]*gate{}}
	gs.cv = sync.NewCond(&gs.mu)
	return gs
}

func key(point, id string) string { return point + "|" + id }

func (gs *gates) get(k string) *gate {
	x := gs.g[k]
	if x == nil {
		x = &gate{}
		gs.g[k] = x
	}
	return x
}

// reach is called by the real goroutine at a yield point (after the event was logged).  It blocks while a
// gate for (point, id) or for (point, any id) is held and no permit is available for it.
func (gs *gates) reach(point, id string) {
	gs.mu.Lock()
	defer gs.mu.Unlock()
	gi, gw := gs.get(key(point, id)), gs.get(key(point, ""))
	gi.reached++
	if id != "" {
		gw.reached++
	}
	gs.cv.Broadcast()
	for {
		if !gi.held && !gw.held {
			return
		}
		// an arrival let through by a permit counts as observed (a later await waits for the next one)
		if gi.permits > 0 {
			gi.permits--
			gi.awaited = max(gi.awaited, gi.reached)
			return
		}
		if id != "" && gw.permits > 0 {
			gw.permits--
			gw.awaited = max(gw.awaited, gw.reached)
			return
		}
		gs.cv.Wait()
	}
}

func (gs *gates) hold(point, id string) {
	gs.mu.Lock()
	gs.get(key(point, id)).held = true
	gs.mu.Unlock()
}

func (gs *gates) pass(point, id string) {
	gs.mu.Lock()
	gs.get(key(point, id)).permits++
	gs.cv.Broadcast()
	gs.mu.Unlock()
}

func (gs *gates) unhold(point, id string) {
	gs.mu.Lock()
	x := gs.get(key(point, id))
	x.held = false
	x.permits = 0
	gs.cv.Broadcast()
	gs.mu.Unlock()
}

func (gs *gates) unholdAll() {
	gs.mu.Lock()
	for _, x := range gs.g {
		x.held = false
		x.permits = 0
	}
	gs.cv.Broadcast()
	gs.mu.Unlock()
}

func (gs *gates) await(point, id string, timeout time.Duration) bool {
	deadline := time.Now().Add(timeout)
	stop := time.AfterFunc(timeout, func() { gs.mu.Lock(); gs.cv.Broadcast(); gs.mu.Unlock() })
	defer stop.Stop()
	gs.mu.Lock()
	defer gs.mu.Unlock()
	x := gs.get(key(point, id))
	for x.reached <= x.awaited {
		if time.Now().After(deadline) {
			return false
		}
		gs.cv.Wait()
	}
	x.awaited++
	return true
}

// ---------------------------------------------------------------------------- engine from a directory

func writeEngineDir(dir string, c Config) {
	os.MkdirAll(filepath.Join(dir, "flows"), 0o755)
	os.MkdirAll(filepath.Join(dir, "quotas"), 0o755)
	flow := fmt.Sprintf(`name: QueueFlow
filter:
  url: api.test/*
processors:
  TheQueue:
    processor: Queue
    parameters:
      - key: quota_id
        value: QueueQuota
      - key: ttl_seconds
        value: %d
      - key: queue_size
        value: %d
      - key: priority_group_by_header
        value: x-prio
      - key: priority_groups
        value:
          p0: 0
          p1: 1
          p2: 2
          p3: 3
          p4: 4
          p5: 5
          p6: 6
          p7: 7
          p8: 8
          p9: 9
          p10: 10
          p11: 11
  TooMany:
    processor: GenerateResponse
    parameters:
      - key: status
        value: 429
      - key: body
        value: Too many requests
      - key: Content-Type
        value: text/plain
flow:
  request:
    - from:
        stream:
          name: globalStream
          at: start
      to:
        processor:
          name: TheQueue
    - from:
        processor:
          name: TheQueue
          condition: blocked
      to:
        processor:
          name: TooMany
    - from:
        processor:
          name: TheQueue
          condition: allowed
      to:
        stream:
          name: globalStream
          at: end
  response:
    - from:
        processor:
          name: TooMany
      to:
        stream:
          name: globalStream
          at: end
    - from:
        stream:
          name: globalStream
          at: start
      to:
        stream:
          name: globalStream
          at: end
`, c.TTLs, c.QueueSize)
	quota := fmt.Sprintf(`quotas:
  - id: QueueQuota
    filter:
      url: api.test/*
    strategy:
      fixed_window:
        max: %d
        interval: %d
        interval_unit: second
`, c.QMax, c.QWins)
	flows := map[string]string{"flow.yaml": flow}
	if c.Flows == 2 {
		// two flows, each with its own Queue processor; on one quota id or on two
		mk := func(sfx, quotaID string) string {
			f := strings.ReplaceAll(flow, "name: QueueFlow", "name: QueueFlow"+sfx)
			f = strings.ReplaceAll(f, "url: api.test/*", "url: api.test/"+strings.ToLower(sfx)+"/*")
			f = strings.ReplaceAll(f, "TheQueue", "TheQueue"+sfx)
			f = strings.ReplaceAll(f, "TooMany", "TooMany"+sfx)
			return strings.ReplaceAll(f, "value: QueueQuota", "value: "+quotaID)
		}
		if c.SameQuota {
			flows = map[string]string{"flow_a.yaml": mk("A", "QueueQuota"), "flow_b.yaml": mk("B", "QueueQuota")}
		} else {
			flows = map[string]string{"flow_a.yaml": mk("A", "QueueQuotaA"), "flow_b.yaml": mk("B", "QueueQuotaB")}
			qa := strings.ReplaceAll(strings.ReplaceAll(quota, "id: QueueQuota", "id: QueueQuotaA"), "url: api.test/*", "url: api.test/a/*")
			qb := strings.ReplaceAll(strings.ReplaceAll(quota, "id: QueueQuota", "id: QueueQuotaB"), "url: api.test/*", "url: api.test/b/*")
			quota = qa + strings.TrimPrefix(qb, "quotas:\n")
		}
	}
	for name, f := range flows {
		if err := os.WriteFile(filepath.Join(dir, "flows", name), []byte(f), 0o644); err != nil {
			vh.Die("write flow: %v", err)
		}
	}
	if err := os.WriteFile(filepath.Join(dir, "quotas", "quota.yaml"), []byte(quota), 0o644); err != nil {
		vh.Die("write quota: %v", err)
	}
}

// gid: the id of the calling goroutine (the yield points of the processing loops carry no processor name: with two Queue
// processors the recording tells the loops apart by their goroutine)
func gid() int {
	var b [40]byte
	n := runtime.Stack(b[:], false)
	f := strings.Fields(string(b[:n]))
	if len(f) > 1 {
		g, _ := strconv.Atoi(f[1])
		return g
	}
	return 0
}

// ---------------------------------------------------------------------------- arbiter rounds
//
// {"op":"arbiter","ms":<rounds>,"point":"loop-watcher"|"drain-watcher"}: the arbitration primitive of the real
// Request object under true concurrency.  Each round = one history: a fresh Request (NewRequest), a waiter in
// Request.Wait, and two parties released by a spin barrier that do exactly what the processing loop
// (StartProcessing, then SetProcessedSuccess), the TTL watcher (StartProcessing, then SetProcessedTimeout) and the
// drain (StopAll: StartProcessing, then SetProcessedTimeout) do with a request, at the same instant.  A second
// WaitGroup.Done kills the process (the parent records `crash`).
func arbiter(sc Scenario, tr *tracer) {
	rounds, pairing := sc.Steps[0].Ms, sc.Steps[0].Point
	ttl := time.Duration(sc.Config.TTLs) * time.Second
	seed := uint64(time.Now().UnixNano())
	rnd := func() int { seed = seed*6364136223846793005 + 1442695040888963407; return int(seed>>33) % 64 }
	for k := 0; k < rounds; k++ {
		tr.mu.Lock()
		tr.start = time.Now()
		tr.mu.Unlock()
		tr.add(vh.Ev{"ev": "reset", "name": sc.Name, "gated": false, "ttl": int(ttl.Milliseconds()), "slack": sc.Config.SlackMs,
			"qsize": 1, "qmax": 1, "qwin": 1000}, false)
		api := stream_types.NewRequestAPIStream(lunar_messages.OnRequest{ID: "r1", SequenceID: "r1", Method: "GET", URL: "api.test/x"},
			lunar_context.NewMemoryState[[]byte]())
		tr.add(vh.Ev{"ev": "arrive", "id": "r1", "prio": 0}, true)
		req := processorqueue.NewRequest(0, ttl, api)
		tr.add(vh.Ev{"ev": "enq", "id": "r1"}, true)
		done := make(chan struct{})
		go func() {
			out := "blocked"
			if req.Wait() {
				out = "allowed"
			}
			tr.add(vh.Ev{"ev": "verdict", "id": "r1", "out": out}, true)
			close(done)
		}()
		var barrier atomic.Int32
		d1, d2 := rnd(), rnd()
		meet := func(spin int) {
			barrier.Add(1)
			for barrier.Load() < 2 {
			}
			for i := 0; i < spin; i++ {
				barrier.Load()
			}
		}
		var wg sync.WaitGroup
		wg.Add(2)
		if pairing == "drain-watcher" {
			tr.add(vh.Ev{"ev": "drain"}, true)
		}
		go func() { // the processing loop admitting the request / the loop draining on shutdown
			defer wg.Done()
			meet(d1)
			if req.StartProcessing() {
				if pairing == "drain-watcher" {
					req.SetProcessedTimeout()
				} else {
					tr.add(vh.Ev{"ev": "quota", "id": "r1", "ok": true}, true)
					tr.add(vh.Ev{"ev": "grant", "id": "r1"}, true)
					req.SetProcessedSuccess()
				}
			}
		}()
		go func() { // the TTL watcher
			defer wg.Done()
			meet(d2)
			if req.StartProcessing() {
				tr.add(vh.Ev{"ev": "expire", "id": "r1"}, true)
				req.SetProcessedTimeout()
			}
		}()
		wg.Wait()
		select {
		case <-done:
		case <-time.After(2 * time.Second):
		}
		tr.add(vh.Ev{"ev": "end"}, true)
	}
	os.Exit(0)
}

// ---------------------------------------------------------------------------- child: one scenario

var pointEvent = map[string]string{
	"q.after_slot_check": "slot", "q.enqueued": "enq", "q.loop_tick": "tick", "q.loop_pop": "pick",
	"q.quota": "quota", "q.requeued": "requeue", "q.stopall": "drain", "q.stopall_done": "stopall_done",
	"q.before_remove": "before_remove", "q.removed": "removed",
	"mq.enqueue": "mq_enqueue", "mq.enqueued": "mq_enqueued",
}

func child(scPath, tracePath string) {
	var sc Scenario
	vh.ReadJSON(scPath, &sc)
	f, err := os.Create(tracePath)
	if err != nil {
		vh.Die("create trace: %v", err)
	}
	tr := &tracer{f: f, start: time.Now()}
	if len(sc.Steps) > 0 && sc.Steps[0].Op == "arbiter" {
		arbiter(sc, tr)
	}
	gs := newGates()
	slack := time.Duration(sc.Config.SlackMs) * time.Millisecond
	ttl := time.Duration(sc.Config.TTLs) * time.Second

	ctx, cancel := context.WithCancel(context.Background())
	context_manager.Get().WithContext(ctx)

	twoFlows := sc.Config.Flows == 2
	verifhook.SetSink(func(point string, kv ...any) {
		if !strings.HasPrefix(point, "q.") && !strings.HasPrefix(point, "mq.") {
			return
		}
		m := map[string]any{}
		for i := 0; i+1 < len(kv); i += 2 {
			m[fmt.Sprint(kv[i])] = kv[i+1]
		}
		id, _ := m["id"].(string)
		if it, ok := m["item"].(string); ok {
			id = it // yield points inside the shared queue name the queued item
		}
		ev := vh.Ev{}
		if id != "" {
			ev["id"] = id
		}
		switch point {
		case "q.before_signal":
			if m["result"] == "success" {
				ev["ev"] = "grant"
			} else {
				ev["ev"] = "expire"
			}
		case "q.quota":
			ev["ev"] = "quota"
			ev["ok"] = m["allowed"] == true
		default:
			name, ok := pointEvent[point]
			if !ok {
				return
			}
			ev["ev"] = name
		}
		if twoFlows {
			ev["g"] = gid()
		}
		gatePoint := point
		if point == "q.before_signal" {
			gatePoint = point + "." + fmt.Sprint(m["result"])
		}
		if point == "q.loop_pop" {
			// `pick` must be stamped before the pop; when the loop is held here it is stamped as it is let go, so that
			// requests queued while the loop was held count as queued before the choice began
			gs.reach(gatePoint, id)
			tr.add(ev, true)
			return
		}
		tr.add(ev, true)
		gs.reach(gatePoint, id)
	})

	// fault injection: {"op":"fault","point":P,"ms":k} makes the next k calls of verifhook.Fault(P) fail
	var fmu sync.Mutex
	faults := map[string]int{}
	verifhook.SetFault(func(point string) error {
		fmu.Lock()
		defer fmu.Unlock()
		if faults[point] > 0 {
			faults[point]--
			tr.add(vh.Ev{"ev": "fault", "point": point}, true)
			return fmt.Errorf("injected fault at %s", point)
		}
		return nil
	})
	dir, err := os.MkdirTemp(".", "engine-")
	if err != nil {
		vh.Die("mkdtemp: %v", err)
	}
	writeEngineDir(dir, sc.Config)
	gated := false
	for _, st := range sc.Steps {
		gated = gated || st.Op == "hold"
	}
	tr.add(vh.Ev{"ev": "reset", "name": sc.Name, "gated": gated, "ttl": int(ttl.Milliseconds()), "slack": sc.Config.SlackMs,
		"qsize": sc.Config.QueueSize, "qmax": sc.Config.QMax, "qwin": sc.Config.QWins * 1000}, false)

	// gates requested before the engine exists (the processing loop starts with the processor)
	k0 := 0
	for k0 < len(sc.Steps) && sc.Steps[k0].Op == "hold" {
		gs.hold(sc.Steps[k0].Point, sc.Steps[k0].ID)
		k0++
	}
	stream, err := streams.NewValidationStream(dir)
	if err != nil {
		vh.Die("NewValidationStream: %v", err)
	}
	if err := stream.Initialize(); err != nil {
		vh.Die("Initialize: %v", err)
	}

	var mu sync.Mutex
	arrivedAt := map[string]time.Time{}
	answered := map[string]chan struct{}{}
	// finish: remove all gates, wait for the outstanding calls up to their deadline (TTL + slack), log `end`
	finish := func() {
		gs.unholdAll()
		free := time.Now()
		tr.add(vh.Ev{"ev": "free"}, true)
		mu.Lock()
		var deadline time.Time
		chans := []chan struct{}{}
		for id, ch := range answered {
			chans = append(chans, ch)
			from := arrivedAt[id]
			if gated && free.After(from) {
				from = free // the gates delayed the goroutines: the time-to-live is counted from their removal
			}
			if d := from.Add(ttl + slack + 150*time.Millisecond); d.After(deadline) {
				deadline = d
			}
		}
		mu.Unlock()
		for _, ch := range chans {
			select {
			case <-ch:
			case <-time.After(time.Until(deadline)):
			}
		}
		tr.add(vh.Ev{"ev": "end"}, true)
		os.Exit(0)
	}
	// the script could not be followed (the real code did not reach the expected point): record it, let
	// everything run freely to the end - the recording is still a real behaviour the specification judges
	abort := func(k int, why string) {
		tr.add(vh.Ev{"ev": "diverged", "step": k, "why": why}, true)
		finish()
	}
	if sc.Config.Align {
		// quota windows start on whole wall-clock seconds: tick k of a forced schedule = wall second k.  The scenario
		// clock starts 100 ms after the next second boundary (computed now, after the engine is up)
		tr.mu.Lock()
		tr.start = time.Now().Truncate(time.Second).Add(1100 * time.Millisecond)
		tr.mu.Unlock()
		time.Sleep(time.Until(tr.start))
	}
	awaitTimeout := 4 * time.Second

	for k := k0; k < len(sc.Steps); k++ {
		st := sc.Steps[k]
		switch st.Op {
		case "hold":
			gs.hold(st.Point, st.ID)
		case "pass":
			gs.pass(st.Point, st.ID)
		case "unhold":
			gs.unhold(st.Point, st.ID)
		case "await":
			if !gs.await(st.Point, st.ID, awaitTimeout) {
				abort(k, "timeout awaiting "+st.Point+" "+st.ID)
			}
		case "arrive":
			ch := make(chan struct{})
			mu.Lock()
			answered[st.ID] = ch
			arrivedAt[st.ID] = time.Now()
			mu.Unlock()
			url := "api.test/x"
			if st.Flow != "" {
				url = "api.test/" + st.Flow + "/x"
			}
			flowName := st.Flow
			go func(id, prio string) {
				api := stream_types.NewRequestAPIStream(lunar_messages.OnRequest{
					ID: id, SequenceID: id, Method: "GET", Scheme: "https", URL: url,
					Headers: map[string]string{"x-prio": prio},
				}, lunar_context.NewMemoryState[[]byte]())
				acts := &stream_config.StreamActions{
					Request: &stream_config.RequestStream{}, Response: &stream_config.ResponseStream{},
				}
				av := vh.Ev{"ev": "arrive", "id": id, "prio": prioNum(prio)}
				if flowName != "" {
					av["flow"] = flowName
				}
				tr.add(av, true)
				err := stream.ExecuteFlow(api, acts)
				out := "allowed"
				if err != nil {
					out = "error:" + err.Error()
				} else if acts.Request.Actions != nil {
					for _, a := range acts.Request.Actions {
						if a.IsEarlyReturnType() {
							out = "blocked"
						}
					}
				}
				tr.add(vh.Ev{"ev": "verdict", "id": id, "out": out}, true)
				close(ch)
			}(st.ID, st.Prio)
		case "await_verdict":
			mu.Lock()
			ch := answered[st.ID]
			mu.Unlock()
			if ch == nil {
				abort(k, "await_verdict of unknown "+st.ID)
			}
			select {
			case <-ch:
			case <-time.After(awaitTimeout):
				abort(k, "timeout awaiting verdict "+st.ID)
			}
		case "fault":
			fmu.Lock()
			faults[st.Point] += st.Ms
			fmu.Unlock()
		case "sleep":
			time.Sleep(time.Duration(st.Ms) * time.Millisecond)
		case "until":
			if d := time.Until(tr.start.Add(time.Duration(st.Ms) * time.Millisecond)); d > 0 {
				time.Sleep(d)
			}
		case "shutdown":
			tr.add(vh.Ev{"ev": "shutdown"}, true)
			cancel()
		case "end":
			finish()
		default:
			abort(k, "unknown op "+st.Op)
		}
	}
	abort(len(sc.Steps), "script has no end")
}

func prioNum(p string) int {
	n, err := strconv.Atoi(strings.TrimPrefix(p, "p"))
	if err != nil {
		return 999
	}
	return n
}

// ---------------------------------------------------------------------------- parent

func run(scPath, outdir string, par int) {
	var scs []Scenario
	vh.ReadJSON(scPath, &scs)
	outdir, _ = filepath.Abs(outdir)
	self, _ := os.Executable()
	sem := make(chan struct{}, par)
	var wg sync.WaitGroup
	for i := range scs {
		wg.Add(1)
		sem <- struct{}{}
		go func(i int) {
			defer wg.Done()
			defer func() { <-sem }()
			cwd := filepath.Join(outdir, fmt.Sprintf("cwd-%04d", i))
			os.MkdirAll(cwd, 0o755)
			sp := filepath.Join(cwd, "scenario.json")
			vh.WriteJSON(sp, scs[i])
			tp := filepath.Join(outdir, fmt.Sprintf("trace-%04d.ndjson", i))
			ctx, cancel := context.WithTimeout(context.Background(), 90*time.Second)
			defer cancel()
			cmd := exec.CommandContext(ctx, self, "child", sp, tp)
			cmd.Dir = cwd
			if scs[i].Config.Procs > 0 {
				cmd.Env = append(os.Environ(), "GOMAXPROCS="+strconv.Itoa(scs[i].Config.Procs))
			}
			var stderr bytes.Buffer
			cmd.Stderr = &stderr
			err := cmd.Run()
			if err != nil {
				rc := -1
				if ee, ok := err.(*exec.ExitError); ok {
					rc = ee.ExitCode()
				}
				msg := ""
				sc := bufio.NewScanner(&stderr)
				for sc.Scan() {
					l := sc.Text()
					if strings.HasPrefix(l, "panic:") || strings.HasPrefix(l, "fatal error:") || strings.HasPrefix(l, "harness:") {
						msg = l
						break
					}
				}
				ev := vh.Ev{"ev": "crash", "rc": rc, "msg": msg}
				if rc == 3 || ctx.Err() != nil {
					ev = vh.Ev{"ev": "abort", "why": "harness failure rc=" + strconv.Itoa(rc) + " " + msg, "step": -1}
				}
				if ev != nil {
					f, _ := os.OpenFile(tp, os.O_APPEND|os.O_CREATE|os.O_WRONLY, 0o644)
					b, _ := json.Marshal(ev)
					f.Write(append(b, '\n'))
					f.Close()
				}
			}
			os.RemoveAll(cwd)
		}(i)
	}
	wg.Wait()
}

func main() {
	vh.Quiet()
	switch {
	case len(os.Args) == 4 && os.Args[1] == "child":
		child(os.Args[2], os.Args[3])
	case len(os.Args) >= 4 && os.Args[1] == "run":
		par := 8
		if len(os.Args) > 4 {
			par, _ = strconv.Atoi(os.Args[4])
		}
		run(os.Args[2], os.Args[3], par)
	default:
		vh.Die("usage: c06 run <scenarios.json> <outdir> [parallel] | c06 child <scenario.json> <trace.ndjson>")
	}
}
