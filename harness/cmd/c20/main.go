// c20: drives the real failsafe.StateChangeWatcher (diagnosis fail-safe debouncer) with a lock-step clock and a scripted
// predicate, one observation per loop iteration, and records observations and reactions as NDJSON for TLC.
//
//	c20 run <scripts.json> <outdir>
//
// scripts.json: [{"histories":[[event,...],...]}, ...]      one trace file per script
// event: {"ev":"reset","N":n,"ms":ticks,"cd":ticks,"iv":ticks}      fresh watcher; 1 tick = 1 s on the lock-step clock
//
//	{"ev":"step","b":bool,"j":ticks,"lat":ticks}   next observation b; timers the watcher waits on before it are
//	                                               fired j ticks late; the predicate takes lat ticks
//
// recorded: {"ev":"obs","b":..,"t":..,"j":..,"lat":..} when the predicate returns, {"ev":"react","k":..,"t":..} from the
// OnChangeToFalse ("unhealthy") / OnChangeToTrue ("healthy") callbacks, t = clock value in ticks.  Pure executor.
//
//	c20 wire <scripts.json> <outdir>    same scripts against failsafe.NewDiagnosisFailsafeStateChangeWatcher: settings come from
//	    the DIAGNOSIS_FAILSAFE_* environment, the real predicate areSPOEConnectionsHealthy reads HAProxy statistics from the
//	    loopback fake on localhost:9000 (which answers each request with the scripted observation), and the reactions are the
//	    real ones: RevertToDiagnosisFree / RevertToLastLoaded on a real config.TxnPoliciesAccessor.  A reaction is recorded
//	    when the accessor is seen to hold a new current version: diagnosis-free content = "unhealthy", full content = "healthy".
//	    Exit code 4: port 9000 is not available.
package main

import (
	"fmt"
	"net"
	"net/http"
	"os"
	"path/filepath"
	"runtime"
	"strconv"
	"time"

	"lunar/engine/config"
	"lunar/engine/failsafe"

	"github.com/rs/zerolog"

	"verifharness/internal/c11acc"
	"verifharness/internal/vh"
)

type Event struct {
	Ev  string `json:"ev"`
	N   int    `json:"N"`
	Ms  int    `json:"ms"`
	Cd  int    `json:"cd"`
	Iv  int    `json:"iv"`
	B   bool   `json:"b"`
	J   int    `json:"j"`
	Lat int    `json:"lat"`
}

type Script struct {
	Histories [][]Event `json:"histories"`
}

const tick = time.Second

var epoch = time.Unix(1_700_000_000, 0)

type obsIn struct {
	b      bool
	j, lat int
}

type run struct {
	clk        *vh.StepClock
	tr         *vh.Trace
	predCalled chan struct{}
	predRet    chan obsIn
	fx         *c11acc.Fixture // wire mode: the accessor the reactions act on
	lastCur    int
}

func (r *run) ticks() int64 { return int64(r.clk.Now().Sub(epoch) / tick) }

func start(e Event, tr *vh.Trace) *run {
	r := &run{clk: vh.NewStepClock(epoch), tr: tr, predCalled: make(chan struct{}), predRet: make(chan obsIn)}
	cfg := failsafe.Config{
		ObtainPredicate: func() bool {
			r.predCalled <- struct{}{}
			in := <-r.predRet // the driver has let `lat` ticks pass before answering
			r.tr.Add(vh.Ev{"ev": "obs", "b": in.b, "t": r.ticks(), "j": in.j, "lat": in.lat})
			return in.b
		},
		OnChangeToTrue:      func() { r.tr.Add(vh.Ev{"ev": "react", "k": "healthy", "t": r.ticks()}) },
		OnChangeToFalse:     func() { r.tr.Add(vh.Ev{"ev": "react", "k": "unhealthy", "t": r.ticks()}) },
		MinTimeBetweenCalls: time.Duration(e.Iv) * tick,
		ConsecutiveN:        e.N,
		MinStablePeriod:     time.Duration(e.Ms) * tick,
		CooldownPeriod:      time.Duration(e.Cd) * tick,
	}
	failsafe.NewStateChangeWatcher("c20", cfg, r.clk, zerolog.Nop()).RunInBackground()
	return r
}

// statsServer is the loopback fake of HAProxy's statistics page: each request is one call of the real predicate.
type statsServer struct{ cur *run }

func (s *statsServer) ServeHTTP(w http.ResponseWriter, _ *http.Request) {
	r := s.cur
	r.predCalled <- struct{}{}
	in := <-r.predRet
	r.tr.Add(vh.Ev{"ev": "obs", "b": in.b, "t": r.ticks(), "j": in.j, "lat": in.lat})
	// healthy = session rate equal to the configured healthy rate (0) and last session older than the configured bound (10 s)
	rate, lastsess := 0, 100
	if !in.b {
		rate = 7
	}
	fmt.Fprintf(w, "# pxname,svname,rate,lastsess\nother,FRONTEND,3,1\nlunar,BACKEND,%d,%d\n", rate, lastsess)
}

func startStats() *statsServer {
	s := &statsServer{}
	n := 0
	for _, host := range []string{"127.0.0.1", "[::1]"} {
		ln, err := net.Listen("tcp", host+":9000")
		if err != nil {
			continue
		}
		n++
		go func() { _ = http.Serve(ln, s) }()
	}
	if n == 0 {
		fmt.Fprintln(os.Stderr, "harness: localhost:9000 is not available")
		os.Exit(4)
	}
	return s
}

func startWired(e Event, tr *vh.Trace, s *statsServer, dir string) *run {
	r := &run{clk: vh.NewStepClock(epoch), tr: tr, predCalled: make(chan struct{}), predRet: make(chan obsIn)}
	r.fx = c11acc.New(dir, "W", epoch)
	r.lastCur = 1
	s.cur = r
	for k, v := range map[string]int{
		"DIAGNOSIS_FAILSAFE_MIN_SEC_BETWEEN_CALLS": e.Iv, "DIAGNOSIS_FAILSAFE_CONSECUTIVE_N": e.N,
		"DIAGNOSIS_FAILSAFE_MIN_STABLE_SEC": e.Ms, "DIAGNOSIS_FAILSAFE_COOLDOWN_SEC": e.Cd,
		"DIAGNOSIS_FAILSAFE_HEALTHY_SESSION_RATE": 0, "DIAGNOSIS_FAILSAFE_HEALTHY_MAX_LAST_SESSION_SEC": 10,
	} {
		os.Setenv(k, strconv.Itoa(v))
	}
	w, err := failsafe.NewDiagnosisFailsafeStateChangeWatcher(r.fx.Accessor, r.clk)
	if err != nil {
		vh.Die("NewDiagnosisFailsafeStateChangeWatcher: %v", err)
	}
	w.RunInBackground()
	return r
}

// untilPredicate lets the watcher run until it asks for the next observation; every timer it waits on meanwhile
// (cool-down sleep, wait between calls) is fired j ticks late.  The watcher is the only user of the clock, so an
// armed timer means it is (about to be) blocked on it.
func (r *run) untilPredicate(j int) {
	deadline := time.Now().Add(10 * time.Second)
	for {
		select {
		case <-r.predCalled:
			return
		default:
		}
		if at, ok := r.clk.NextTimer(); ok {
			r.reactions() // the watcher sleeps: whatever it did after the last observation is done
			r.clk.Set(at.Add(time.Duration(j) * tick))
		} else {
			runtime.Gosched()
		}
		if time.Now().After(deadline) {
			vh.Die("watcher neither waits nor observes")
		}
	}
}

// reactions (wire mode): a new current version of the accessor is the effect of a reaction.
func (r *run) reactions() {
	if r.fx == nil {
		return
	}
	cur, vers, _ := r.fx.Accessor.VerifSnapshot()
	for v := r.lastCur + 1; v <= int(cur); v++ {
		k := "healthy"
		if p, ok := vers[config.PoliciesVersion(v)]; ok {
			if _, df := c11acc.Describe(p); df {
				k = "unhealthy"
			}
		} else {
			k = "unknown-version"
		}
		r.tr.Add(vh.Ev{"ev": "react", "k": k, "t": r.ticks(), "ver": v})
	}
	r.lastCur = int(cur)
}

func (r *run) step(e Event) {
	r.untilPredicate(e.J)
	r.reactions()
	if e.Lat > 0 {
		r.clk.Advance(time.Duration(e.Lat) * tick)
	}
	r.predRet <- obsIn{e.B, e.J, e.Lat}
}

func main() {
	vh.Quiet()
	if len(os.Args) != 4 || (os.Args[1] != "run" && os.Args[1] != "wire") {
		vh.Die("usage: c20 run|wire <scripts.json> <outdir>")
	}
	wire := os.Args[1] == "wire"
	var stats *statsServer
	if wire {
		stats = startStats()
		c11acc.StartFake(os.Getenv("HAPROXY_MANAGE_ENDPOINTS_PORT"), os.Getenv("LUNAR_HEALTHCHECK_PORT"))
	}
	nacc := 0
	var scripts []Script
	vh.ReadJSON(os.Args[2], &scripts)
	for si, sc := range scripts {
		tr := vh.NewTrace()
		tr.Add(vh.Ev{"ev": "config", "property": "C20"})
		for _, h := range sc.Histories {
			var r *run
			for _, e := range h {
				switch e.Ev {
				case "reset":
					tr.Add(vh.Ev{"ev": "reset", "N": e.N, "ms": e.Ms, "cd": e.Cd, "iv": e.Iv})
					if wire {
						nacc++
						r = startWired(e, tr, stats, filepath.Join(os.Args[3], fmt.Sprintf("acc-%d", nacc)))
					} else {
						r = start(e, tr)
					}
				case "step":
					r.step(e)
				default:
					vh.Die("unknown event %q", e.Ev)
				}
			}
			if r != nil {
				// the reactions to the last observation are logged before the watcher asks again; it then stays
				// blocked in the predicate for ever (the watcher has no stop)
				r.untilPredicate(0)
				r.reactions()
				if r.fx != nil {
					os.RemoveAll(r.fx.Dir)
				}
			}
		}
		tr.Write(filepath.Join(os.Args[3], fmt.Sprintf("trace-%03d.ndjson", si)))
	}
}
