// c20: drives the real failsafe.StateChangeWatcher (diagnosis fail-safe debouncer) with a lock-step clock and a scripted
// predicate, one observation per loop iteration, and records observations and reactions as NDJSON for TLC.
//
//	c20 run <scripts.json> <outdir>
//
// scripts.json: [{"histories":[[event,...],...]}, ...]      one trace file per script
// event: {"ev":"reset","N":n,"ms":ticks,"cd":ticks,"iv":ticks}      fresh watcher; 1 tick = 1 s on the lock-step clock
//
//	{"ev":"step","b":bool,"j":ticks,"lat":ticks}   next observation b; timers the watcher waits on before it are
//	                                               fired j ticks late; the predicate takes lat ticks
//
// recorded: {"ev":"obs","b":..,"t":..,"j":..,"lat":..} when the predicate returns, {"ev":"react","k":..,"t":..} from the
// OnChangeToFalse ("unhealthy") / OnChangeToTrue ("healthy") callbacks, t = clock value in ticks.  Pure executor.
package main

import (
	"fmt"
	"os"
	"path/filepath"
	"runtime"
	"time"

	"lunar/engine/failsafe"

	"github.com/rs/zerolog"

	"verifharness/internal/vh"
)

type Event struct {
	Ev  string `json:"ev"`
	N   int    `json:"N"`
	Ms  int    `json:"ms"`
	Cd  int    `json:"cd"`
	Iv  int    `json:"iv"`
	B   bool   `json:"b"`
	J   int    `json:"j"`
	Lat int    `json:"lat"`
}

type Script struct {
	Histories [][]Event `json:"histories"`
}

const tick = time.Second

var epoch = time.Unix(1_700_000_000, 0)

type obsIn struct {
	b      bool
	j, lat int
}

type run struct {
	clk        *vh.StepClock
	tr         *vh.Trace
	predCalled chan struct{}
	predRet    chan obsIn
}

func (r *run) ticks() int64 { return int64(r.clk.Now().Sub(epoch) / tick) }

func start(e Event, tr *vh.Trace) *run {
	r := &run{clk: vh.NewStepClock(epoch), tr: tr, predCalled: make(chan struct{}), predRet: make(chan obsIn)}
	cfg := failsafe.Config{
		ObtainPredicate: func() bool {
			r.predCalled <- struct{}{}
			in := <-r.predRet // the driver has let `lat` ticks pass before answering
			r.tr.Add(vh.Ev{"ev": "obs", "b": in.b, "t": r.ticks(), "j": in.j, "lat": in.lat})
			return in.b
		},
		OnChangeToTrue:      func() { r.tr.Add(vh.Ev{"ev": "react", "k": "healthy", "t": r.ticks()}) },
		OnChangeToFalse:     func() { r.tr.Add(vh.Ev{"ev": "react", "k": "unhealthy", "t": r.ticks()}) },
		MinTimeBetweenCalls: time.Duration(e.Iv) * tick,
		ConsecutiveN:        e.N,
		MinStablePeriod:     time.Duration(e.Ms) * tick,
		CooldownPeriod:      time.Duration(e.Cd) * tick,
	}
	failsafe.NewStateChangeWatcher("c20", cfg, r.clk, zerolog.Nop()).RunInBackground()
	return r
}

// untilPredicate lets the watcher run until it asks for the next observation; every timer it waits on meanwhile
// (cool-down sleep, wait between calls) is fired j ticks late.  The watcher is the only user of the clock, so an
// armed timer means it is (about to be) blocked on it.
func (r *run) untilPredicate(j int) {
	deadline := time.Now().Add(10 * time.Second)
	for {
		select {
		case <-r.predCalled:
			return
		default:
		}
		if at, ok := r.clk.NextTimer(); ok {
			r.clk.Set(at.Add(time.Duration(j) * tick))
		} else {
			runtime.Gosched()
		}
		if time.Now().After(deadline) {
			vh.Die("watcher neither waits nor observes")
		}
	}
}

func (r *run) step(e Event) {
	r.untilPredicate(e.J)
	if e.Lat > 0 {
		r.clk.Advance(time.Duration(e.Lat) * tick)
	}
	r.predRet <- obsIn{e.B, e.J, e.Lat}
}

func main() {
	vh.Quiet()
	if len(os.Args) != 4 || os.Args[1] != "run" {
		vh.Die("usage: c20 run <scripts.json> <outdir>")
	}
	var scripts []Script
	vh.ReadJSON(os.Args[2], &scripts)
	for si, sc := range scripts {
		tr := vh.NewTrace()
		tr.Add(vh.Ev{"ev": "config", "property": "C20"})
		for _, h := range sc.Histories {
			var r *run
			for _, e := range h {
				switch e.Ev {
				case "reset":
					tr.Add(vh.Ev{"ev": "reset", "N": e.N, "ms": e.Ms, "cd": e.Cd, "iv": e.Iv})
					r = start(e, tr)
				case "step":
					r.step(e)
				default:
					vh.Die("unknown event %q", e.Ev)
				}
			}
			if r != nil {
				// the reactions to the last observation are logged before the watcher asks again; it then stays
				// blocked in the predicate for ever (the watcher has no stop)
				r.untilPredicate(0)
			}
		}
		tr.Write(filepath.Join(os.Args[3], fmt.Sprintf("trace-%03d.ndjson", si)))
	}
}
