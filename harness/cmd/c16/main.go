// c16: pure executor for property C16 (obfuscation hides every value that is not explicitly excluded).
//
//	c16 run  <cases.json> <out.ndjson>                      cases one after the other (histories on one object: see run)
//	c16 conc <cases.json> <out.ndjson> <workers> <millis>   concurrent obfuscation, every call judged on its own (see conc)
//
// case: {"id":n,"entry":"json"|"har_request"|"har_response","excl":[{"n":notation,"segs":[..],"raw":"<optional literal>"}],"doc":tree}
// tree: {"k":"leaf","t":"s|n|b|z","f":[],"v":"<value: string content / raw JSON token>"}   (v optional: synthesised per leaf)
//
//	{"k":"obj","t":"","f":[[key,tree],..]}    {"k":"arr","t":"","f":[tree,..]}
//
// The document and the exclusions are rendered to text, handed to the real code (Obfuscator.ObfuscateJSON with the
// production MD5 hasher, or the HAR collector's body obfuscation), and the output is projected leaf by leaf:
// "kept" = byte-identical value, "hidden" = the production hash of a canonical form of the value (and different from it),
// "other" = anything else; "shape" says whether keys, nesting and array lengths are those of the input.
// Which leaf must be kept / hidden is not decided here: the events are judged by TLC against specs/c16_obfuscation/ObfP.tla.
package main

import (
	"bytes"
	"compress/gzip"
	"encoding/json"
	"errors"
	"fmt"
	"os"
	"runtime"
	"strconv"
	"strings"
	"sync"
	"time"

	"lunar/engine/config"
	lunarMessages "lunar/engine/messages"
	"lunar/engine/services/diagnoses"
	harcollector "lunar/engine/streams/processors/har-collector"
	public_types "lunar/engine/streams/public-types"
	test_utils "lunar/engine/streams/test-utils"
	"lunar/engine/utils/obfuscation"
	sharedConfig "lunar/shared-model/config"
	"lunar/toolkit-core/clock"

	"verifharness/internal/vh"
)

type Doc struct {
	K string            `json:"k"`
	T string            `json:"t"`
	F []json.RawMessage `json:"f"`
	V *string           `json:"v,omitempty"`
	// large documents: a string leaf whose value is v repeated rep times; an array whose single child is repeated times times
	Rep   int `json:"rep,omitempty"`
	Times int `json:"times,omitempty"`

	keys []string
	kids []*Doc
}

type Excl struct {
	N    string   `json:"n"`
	Segs []string `json:"segs"`
	Raw  *string  `json:"raw,omitempty"`
}

type Case struct {
	ID    int    `json:"id"`
	Entry string `json:"entry"`
	Excl  []Excl `json:"excl"`
	Doc   *Doc   `json:"doc"`
	H     int    `json:"h,omitempty"`    // history id (run mode): consecutive cases with the same h > 0 share one object
	Pair  string `json:"pair,omitempty"` // "req" / "resp": request and response body of one generateHAR call
	// transport (exporter entries): Content-Encoding header value ("" = no header), the header's spelling, and how the JSON
	// text travels: "plain" (as is) or "gzip" (really gzip-compressed)
	Enc     string `json:"enc,omitempty"`
	EncName string `json:"enc_name,omitempty"`
	Wire    string `json:"wire,omitempty"`
	// the body handed to the real code is NOT the JSON text of the document but a corruption of it (a body that fails to
	// parse): "form" (form-encoded), "truncated" (the text without its last character), "trailing" (text + "}"),
	// "binary" (the gzip bytes of the text, undeclared).  The event then says wire = "garbage".
	Garbage string `json:"garbage,omitempty"`
}

type Leaf struct {
	P []string `json:"p"`
	T string   `json:"t"`
	C string   `json:"c"`
}

var hasher = obfuscation.MD5Hasher{}

func (d *Doc) resolve(ctr *int) {
	switch d.K {
	case "leaf":
		if d.V == nil {
			*ctr++
			var v string
			switch d.T {
			case "s":
				v = fmt.Sprintf("value-%d", *ctr)
			case "n":
				v = []string{"%d", "%d.5", "-%d", "%d.125", "%de2"}[*ctr%5]
				v = fmt.Sprintf(v, *ctr)
			case "b":
				v = []string{"true", "false"}[*ctr%2]
			default:
				v = "null"
			}
			d.V = &v
		}
		if d.Rep > 1 && d.T == "s" {
			v := strings.Repeat(*d.V, d.Rep)
			d.V = &v
		}
	case "arr":
		for _, raw := range d.F {
			k := &Doc{}
			if err := json.Unmarshal(raw, k); err != nil {
				vh.Die("bad array item: %v", err)
			}
			k.resolve(ctr)
			d.kids = append(d.kids, k)
			for n := 1; n < d.Times; n++ {
				d.kids = append(d.kids, k)
			}
		}
	case "obj":
		for _, raw := range d.F {
			var pair []json.RawMessage
			if err := json.Unmarshal(raw, &pair); err != nil || len(pair) != 2 {
				vh.Die("bad object field: %v", err)
			}
			var key string
			k := &Doc{}
			if err := json.Unmarshal(pair[0], &key); err != nil {
				vh.Die("bad key: %v", err)
			}
			if err := json.Unmarshal(pair[1], k); err != nil {
				vh.Die("bad field value: %v", err)
			}
			k.resolve(ctr)
			d.keys = append(d.keys, key)
			d.kids = append(d.kids, k)
		}
	default:
		vh.Die("unknown node kind %q", d.K)
	}
}

func jstr(s string) string {
	var b bytes.Buffer
	e := json.NewEncoder(&b)
	e.SetEscapeHTML(false)
	if err := e.Encode(s); err != nil {
		vh.Die("encode string: %v", err)
	}
	return strings.TrimSuffix(b.String(), "\n")
}

func (d *Doc) render(b *strings.Builder) {
	switch d.K {
	case "leaf":
		if d.T == "s" {
			b.WriteString(jstr(*d.V))
		} else {
			b.WriteString(*d.V)
		}
	case "arr":
		b.WriteByte('[')
		for i, k := range d.kids {
			if i > 0 {
				b.WriteByte(',')
			}
			k.render(b)
		}
		b.WriteByte(']')
	case "obj":
		b.WriteByte('{')
		for i, k := range d.kids {
			if i > 0 {
				b.WriteByte(',')
			}
			b.WriteString(jstr(d.keys[i]))
			b.WriteByte(':')
			k.render(b)
		}
		b.WriteByte('}')
	}
}

func renderExcl(x Excl) string {
	if x.Raw != nil {
		return *x.Raw
	}
	var b strings.Builder
	switch x.N {
	case "plain", "plain_other":
	case "request":
		b.WriteString("$.request.body")
	case "response":
		b.WriteString("$.response.body")
	default:
		b.WriteString("$.request.headers")
	}
	for _, s := range x.Segs {
		if s == "[]" {
			b.WriteString("[]")
		} else {
			b.WriteString("." + s)
		}
	}
	return b.String()
}

// canonical forms of a primitive whose hash counts as "its hash"
func canon(t, v string) []string {
	if t != "n" {
		return []string{v}
	}
	out := []string{v}
	if f, err := strconv.ParseFloat(v, 64); err == nil || errors.Is(err, strconv.ErrRange) { // out of range reads as +-Inf / 0
		out = append(out, strconv.FormatFloat(f, 'f', 2, 64), strconv.FormatFloat(f, 'f', -1, 64), strconv.FormatFloat(f, 'g', -1, 64))
	}
	return out
}

func classify(t, v string, out any) string {
	switch t {
	case "s":
		if s, ok := out.(string); ok && s == v {
			return "kept"
		}
	case "n":
		if n, ok := out.(json.Number); ok && n.String() == v {
			return "kept"
		}
	case "b":
		if b, ok := out.(bool); ok && strconv.FormatBool(b) == v {
			return "kept"
		}
	case "z":
		if out == nil {
			return "kept"
		}
	}
	if s, ok := out.(string); ok {
		for _, c := range canon(t, v) {
			if s == hasher.HashBytes([]byte(c)) && s != v {
				return "hidden"
			}
		}
	}
	return "other"
}

// Tree is a document stripped to its structure: leaves carry the type (input) or the class (output).
type Tree struct {
	K string `json:"k"`
	T string `json:"t"`
	F []any  `json:"f"`
}

func (d *Doc) depth() int {
	m := 0
	for _, k := range d.kids {
		if n := k.depth(); n > m {
			m = n
		}
	}
	return m + 1
}

func (d *Doc) tree(classes *[]Leaf, next *int) Tree {
	t := Tree{K: d.K, T: "", F: []any{}}
	switch d.K {
	case "leaf":
		t.T = d.T
		if classes != nil {
			t.T = (*classes)[*next].C
			*next++
		}
	case "arr":
		for _, k := range d.kids {
			t.F = append(t.F, k.tree(classes, next))
		}
	case "obj":
		for i, k := range d.kids {
			t.F = append(t.F, []any{d.keys[i], k.tree(classes, next)})
		}
	}
	return t
}

// compare walks input tree and output value together
func compare(d *Doc, out any, path []string, leaves *[]Leaf, shape *string) {
	note := func(what string) {
		if *shape == "same" {
			*shape = what + " at " + strings.Join(path, "/")
		}
	}
	p := append([]string{}, path...)
	switch d.K {
	case "leaf":
		switch out.(type) {
		case map[string]any, []any:
			note("leaf-became-container")
			*leaves = append(*leaves, Leaf{P: p, T: d.T, C: "other"})
		default:
			*leaves = append(*leaves, Leaf{P: p, T: d.T, C: classify(d.T, *d.V, out)})
		}
	case "arr":
		arr, ok := out.([]any)
		if !ok {
			note("array-became-" + fmt.Sprintf("%T", out))
			return
		}
		if len(arr) != len(d.kids) {
			note(fmt.Sprintf("array-length-%d-became-%d", len(d.kids), len(arr)))
		}
		for i, k := range d.kids {
			if i < len(arr) {
				compare(k, arr[i], append(p, "[]"), leaves, shape)
			}
		}
	case "obj":
		obj, ok := out.(map[string]any)
		if !ok {
			note("object-became-" + fmt.Sprintf("%T", out))
			return
		}
		if len(obj) != len(d.kids) {
			note(fmt.Sprintf("object-with-%d-keys-became-%d", len(d.kids), len(obj)))
		}
		for i, k := range d.kids {
			v, found := obj[d.keys[i]]
			if !found {
				note("key-lost-" + d.keys[i])
				continue
			}
			compare(k, v, append(p, d.keys[i]), leaves, shape)
		}
	}
}

// legacy runs the real HARGeneratorPlugin.GenerateHAR (legacy diagnosis exporter) with the document as request and as
// response body; exclusions go to the list of the body under test, those tagged "plain_other" to the other list.
func legacy(obf obfuscation.Obfuscator, p *prepared) (string, error) {
	c, excl := p.c, p.excl
	mine, other := []string{}, []string{}
	for i, x := range c.Excl {
		if x.N == "plain_other" {
			other = append(other, excl[i])
		} else {
			mine = append(mine, excl[i])
		}
	}
	cfg := &sharedConfig.HARExporterConfig{TransactionMaxSize: 1 << 30, Obfuscate: sharedConfig.Obfuscate{Enabled: true}}
	if c.Entry == "legacy_request" {
		cfg.Obfuscate.Exclusions.RequestBodyPaths, cfg.Obfuscate.Exclusions.ResponseBodyPaths = mine, other
	} else {
		cfg.Obfuscate.Exclusions.RequestBodyPaths, cfg.Obfuscate.Exclusions.ResponseBodyPaths = other, mine
	}
	tree, err := config.BuildEndpointPolicyTree([]sharedConfig.EndpointConfig{})
	if err != nil {
		return "", err
	}
	plugin := diagnoses.NewHARGeneratorPlugin(clock.NewMockClock(), obf)
	req := lunarMessages.OnRequest{ID: "t", SequenceID: "t", Method: "POST", Scheme: "https", URL: "api.test/users/1",
		Headers: p.encHeaders(map[string]string{"content-type": "application/json"}, false), Body: p.body}
	resp := lunarMessages.OnResponse{ID: "t", SequenceID: "t", Method: "POST", URL: "api.test/users/1", Status: 200,
		Headers: p.encHeaders(map[string]string{"content-type": "application/json"}, false), Body: p.body}
	h, err := plugin.GenerateHAR(req, resp, tree, cfg)
	if err != nil {
		return "", err
	}
	if len(h.Log.Entries) != 1 {
		return "", fmt.Errorf("%d HAR entries", len(h.Log.Entries))
	}
	var body any = h.Log.Entries[0].Request.Body
	if c.Entry == "legacy_response" {
		body = h.Log.Entries[0].Response.Content
	}
	s, ok := body.(string)
	if !ok {
		return "", fmt.Errorf("HAR body is %T", body)
	}
	return s, nil
}

// prepared is a case rendered to text
type prepared struct {
	c    Case
	text string // the JSON text of the document
	body string // the bytes handed to the exporter (text, or its gzip compression)
	excl []string
}

// direct is the body for the entry points that take the body text itself (no content decoding in front of them)
func (p *prepared) direct() string {
	if p.c.Garbage != "" {
		return p.body
	}
	return p.text
}

func gz(s string) string {
	var b bytes.Buffer
	w := gzip.NewWriter(&b)
	if _, err := w.Write([]byte(s)); err != nil {
		vh.Die("gzip: %v", err)
	}
	w.Close()
	return b.String()
}

// encHeaders adds the Content-Encoding header of the case to a header map
func (p *prepared) encHeaders(h map[string]string, lower bool) map[string]string {
	if p.c.Enc != "" {
		name := p.c.EncName
		if name == "" {
			name = "Content-Encoding"
		}
		if lower {
			name = strings.ToLower(name)
		}
		h[name] = p.c.Enc
	}
	return h
}

func prepare(c Case) *prepared {
	ctr := 0
	c.Doc.resolve(&ctr)
	var b strings.Builder
	c.Doc.render(&b)
	excl := make([]string, len(c.Excl))
	for i, x := range c.Excl {
		excl[i] = renderExcl(x)
		if c.Excl[i].Segs == nil {
			c.Excl[i].Segs = []string{}
		}
		c.Excl[i].Raw = nil
	}
	if c.Wire == "" {
		c.Wire = "plain"
	}
	p := &prepared{c: c, text: b.String(), excl: excl}
	p.body = p.text
	if c.Wire == "gzip" {
		p.body = gz(p.text)
	}
	switch c.Garbage {
	case "":
	case "form":
		p.body = "user=alice&name=bob&id=7"
	case "truncated":
		p.body = p.text[:len(p.text)-1]
	case "trailing":
		p.body = p.text + "}"
	case "binary":
		p.body = gz(p.text)
	default:
		vh.Die("unknown garbage kind %q", c.Garbage)
	}
	if c.Garbage != "" {
		p.c.Wire = "garbage"
	}
	return p
}

func mockStream(req, resp *prepared) public_types.APIStreamI {
	return test_utils.NewMockAPIStream("https://api.test/users/1?id=2",
		req.encHeaders(map[string]string{"authorization": "Bearer t"}, true),
		resp.encHeaders(map[string]string{"content-type": "application/json"}, true), req.body, resp.body)
}

var obf = obfuscation.Obfuscator{Hasher: hasher}

// call hands one body to the real code through a fresh object of its entry point
func call(p *prepared) (string, error) {
	switch p.c.Entry {
	case "json":
		return obf.ObfuscateJSON(p.direct(), p.excl)
	case "har_request", "har_response":
		return harcollector.VerifObfuscateBody(p.excl, mockStream(p, p), p.direct(), p.c.Entry == "har_response"), nil
	case "legacy_request", "legacy_response":
		return legacy(obf, p)
	}
	vh.Die("unknown entry %q", p.c.Entry)
	return "", nil
}

func short(s string) string {
	if len(s) > 2000 {
		return fmt.Sprintf("%s...(%d bytes)", s[:300], len(s))
	}
	return s
}

// project builds the event of one call: the real output compared leaf by leaf with the input document
func project(p *prepared, outText string, err error) vh.Ev {
	c := p.c
	ev := vh.Ev{"ev": "obf", "id": c.ID, "h": c.H, "entry": c.Entry, "excl": c.Excl, "excl_strings": p.excl, "in": short(p.text),
		"out": short(strconv.QuoteToASCII(outText)), "enc": c.Enc, "wire": c.Wire}
	if c.Wire == "plain" {
		ev["out"] = short(outText)
	}
	leaves := []Leaf{}
	shape := "same"
	if err != nil {
		// the call failed and returned no output: nothing of the body is exported
		shape = "opaque"
		ev["error"] = err.Error()
	} else if outText == "" || outText == hasher.HashBytes([]byte(p.body)) || outText == hasher.HashBytes([]byte(p.text)) {
		// nothing of the body exported: empty, or the production hash of the whole body (as received / as text)
		shape = "opaque"
	} else {
		dec := json.NewDecoder(strings.NewReader(outText))
		dec.UseNumber()
		var out any
		if derr := dec.Decode(&out); derr != nil {
			shape = "output-not-json"
		} else if dec.More() {
			shape = "output-trailing-data"
		} else {
			compare(c.Doc, out, nil, &leaves, &shape)
		}
	}
	// document and (when the structure is preserved) the output with the class at every leaf, for the comparison with ObfI
	// (documents nested deeper than the JSON reader of the trace validation can take are compared leaf by leaf only)
	deep := c.Doc.depth() > 60
	ev["deep"] = deep
	if deep {
		ev["doc"] = Tree{K: "none", T: "", F: []any{}}
		ev["otree"] = Tree{K: "none", T: "", F: []any{}}
	} else if ev["doc"] = c.Doc.tree(nil, nil); shape == "same" {
		next := 0
		ev["otree"] = c.Doc.tree(&leaves, &next)
	} else {
		ev["otree"] = Tree{K: "none", T: "", F: []any{}}
	}
	ev["shape"] = shape
	ev["leaves"] = leaves
	return ev
}

// run: cases one after the other.  Consecutive cases with the same h > 0 form a history on ONE object of the entry point:
// HAR collector bodies of a history go through one obfuscator object (created with the exclusions of the first case);
// a case with pair="req" is the request body of a transaction whose response body is the next case (pair="resp"): both
// are exported by one call of the collector's generateHAR.
func run(cases []Case, tr *vh.Trace) {
	var hist int
	var har *harcollector.VerifBodyObfuscator
	for i := 0; i < len(cases); i++ {
		p := prepare(cases[i])
		c := p.c
		if c.H != hist || c.H == 0 {
			hist, har = c.H, nil
		}
		switch {
		case c.Pair == "req":
			if i+1 >= len(cases) || cases[i+1].Pair != "resp" {
				vh.Die("case %d: pair=req without a following pair=resp", c.ID)
			}
			q := prepare(cases[i+1])
			i++
			reqOut, respOut, err := harcollector.VerifGenerateHARBodies(p.excl, mockStream(p, q))
			tr.Add(project(p, reqOut, err))
			tr.Add(project(q, respOut, err))
		case c.H > 0 && (c.Entry == "har_request" || c.Entry == "har_response"):
			if har == nil {
				har = harcollector.VerifNewBodyObfuscator(p.excl, mockStream(p, p))
			}
			var out string
			if c.Entry == "har_response" {
				out = har.ResponseBody(p.direct())
			} else {
				out = har.RequestBody(p.direct())
			}
			tr.Add(project(p, out, nil))
		default:
			out, err := call(p)
			tr.Add(project(p, out, err))
		}
	}
}

// conc: `workers` goroutines obfuscate concurrently for `millis` ms; worker w keeps handing case w mod len(cases) to the
// real code.  Every call is projected against ITS OWN document; identical outputs of one worker are one event with a count.
func conc(cases []Case, tr *vh.Trace, workers int, millis int) {
	preps := make([]*prepared, len(cases))
	for i, c := range cases {
		preps[i] = prepare(c)
	}
	deadline := time.Now().Add(time.Duration(millis) * time.Millisecond)
	hard := time.Now().Add(30 * time.Second)
	const minCalls = 6
	var wg sync.WaitGroup
	start := make(chan struct{})
	type seen struct {
		out string
		err error
		n   int
	}
	results := make([][]*seen, workers)
	for w := 0; w < workers; w++ {
		wg.Add(1)
		go func(w int) {
			defer wg.Done()
			p := preps[w%len(preps)]
			<-start
			calls := 0
			// for `millis` ms, and on a loaded machine until every worker has made minCalls calls (at most 30 s)
			for (time.Now().Before(deadline) || (calls < minCalls && time.Now().Before(hard))) && len(results[w]) < 8 {
				calls++
				out, err := call(p)
				found := false
				for _, s := range results[w] {
					if s.out == out && (s.err == nil) == (err == nil) {
						s.n++
						found = true
						break
					}
				}
				if !found {
					results[w] = append(results[w], &seen{out: out, err: err, n: 1})
				}
			}
		}(w)
	}
	close(start)
	wg.Wait()
	id := 0
	for w := 0; w < workers; w++ {
		p := preps[w%len(preps)]
		for _, s := range results[w] {
			ev := project(p, s.out, s.err)
			ev["id"], ev["worker"], ev["calls"], ev["case"] = id, w, s.n, p.c.ID
			id++
			tr.Add(ev)
		}
	}
}

func main() {
	vh.Quiet()
	if len(os.Args) < 4 || (os.Args[1] != "run" && os.Args[1] != "conc") {
		vh.Die("usage: c16 run <cases.json> <out.ndjson> | c16 conc <cases.json> <out.ndjson> <workers> <millis>")
	}
	var cases []Case
	vh.ReadJSON(os.Args[2], &cases)
	tr := vh.NewTrace()
	if os.Args[1] == "run" {
		// one call after the other on one P: what a call leaves behind in a pool is what the next call gets
		runtime.GOMAXPROCS(1)
		run(cases, tr)
	} else {
		workers, _ := strconv.Atoi(os.Args[4])
		millis, _ := strconv.Atoi(os.Args[5])
		conc(cases, tr, workers, millis)
	}
	tr.Write(os.Args[3])
}
