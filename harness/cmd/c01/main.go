// c01: executes request scripts against a real flows-mode engine (streams.Stream built from
// generated YAML: fixed-window quotas with internal limits + one Limiter flow per quota) on the
// mock clock and records what the engine answered, as NDJSON traces for TLC.
//
//	c01 run <scripts.json> <outdir>
//
// scripts.json: [{"config":{...model constants...}, "files":{"quotas/q.yaml":"...","flows/f.yaml":"..."},
//
//	"header":"x-group", "cost_header":"x-cost", "histories":[[event,...],...]}, ...]
//
// event: {"ev":"reset","now":t} | {"ev":"adv","d":d} | {"ev":"arrive","q":..,"g":..,"cost":c} |
//
//	{"ev":"conc","reqs":[{"q":..,"g":..,"cost":c},...]} | {"ev":"resetin","q":..}
//
// One tick = 500 ms. A request for quota q goes to URL api.test/<q>; the group is the value of the
// group header ("default" = header absent). Observation: early-return action present => "refuse".
package main

import (
	"fmt"
	"os"
	"path/filepath"
	"runtime"
	"sync"
	"sync/atomic"
	"time"

	"lunar/toolkit-core/verifhook"

	"verifharness/internal/c01eng"
	"verifharness/internal/vh"
)

const (
	tick      = 500 * time.Millisecond
	baseTicks = int64(3_400_000_080) // even: instants with even tick numbers are whole seconds
)

type Req struct {
	Q    string `json:"q"`
	G    string `json:"g"`
	Cost int64  `json:"cost"`
}

type Event struct {
	Ev   string `json:"ev"`
	Now  int64  `json:"now,omitempty"`
	D    int64  `json:"d,omitempty"`
	Q    string `json:"q,omitempty"`
	G    string `json:"g,omitempty"`
	Cost int64  `json:"cost,omitempty"`
	Reqs []Req  `json:"reqs,omitempty"`
	N    int    `json:"n,omitempty"`  // storm: total number of requests
	Par  int    `json:"par,omitempty"` // storm: goroutines
	// gated: a directed schedule through the yield point limiter.after_inc (between quota.Inc and quota.Allowed)
	Steps []Step `json:"steps,omitempty"`
}

// Step of a gated schedule: "inc" starts request I and parks it after its Inc; "allowed" lets it collect its
// verdict and return; "go" runs a whole request un-gated; "adv" moves the clock while requests are parked.
type Step struct {
	Op   string `json:"op"`
	I    int    `json:"i,omitempty"`
	D    int64  `json:"d,omitempty"`
	Q    string `json:"q,omitempty"`
	G    string `json:"g,omitempty"`
	Cost int64  `json:"cost,omitempty"`
}

type gate struct {
	parked  chan struct{}
	release chan struct{}
}

var (
	gatesMu sync.Mutex
	gates   = map[string]*gate{}
)

func gateSink(point string, kv ...any) {
	if point != "limiter.after_inc" {
		return
	}
	var req string
	for i := 0; i+1 < len(kv); i += 2 {
		if kv[i] == "req" {
			req = fmt.Sprint(kv[i+1])
		}
	}
	gatesMu.Lock()
	g := gates[req]
	delete(gates, req)
	gatesMu.Unlock()
	if g == nil {
		return
	}
	close(g.parked)
	<-g.release
}

type Script struct {
	Config     map[string]any    `json:"config"`
	Files      map[string]string `json:"files"`
	Header     string            `json:"header"`
	CostHeader string            `json:"cost_header"`
	Hooks      bool              `json:"hooks"`
	Histories  [][]Event         `json:"histories"`
}

func at(t int64) time.Time { return time.Unix(0, 0).Add(time.Duration(baseTicks+t) * tick) }

func (sc *Script) headers(r Req) map[string]string {
	h := map[string]string{}
	if r.G != "default" && r.G != "" {
		h[sc.Header] = r.G
	}
	if sc.CostHeader != "" {
		h[sc.CostHeader] = fmt.Sprintf("%d", r.Cost)
	}
	return h
}

func outcome(res c01eng.ReqResult) string {
	if res.Err != "" {
		return "error:" + res.Err
	}
	if res.Early {
		return "refuse"
	}
	return "admit"
}

func main() {
	vh.Quiet()
	if len(os.Args) != 4 || os.Args[1] != "run" {
		vh.Die("usage: c01 run <scripts.json> <outdir>")
	}
	var scripts []Script
	vh.ReadJSON(os.Args[2], &scripts)
	uid := 0
	for si := range scripts {
		sc := &scripts[si]
		dir, err := c01eng.WriteFiles(sc.Files)
		if err != nil {
			vh.Die("files: %v", err)
		}
		tr := vh.NewTrace()
		cfg := vh.Ev{"ev": "config"}
		for k, v := range sc.Config {
			cfg[k] = v
		}
		tr.Add(cfg)
		var hooks *vh.Trace
		if sc.Hooks {
			hooks = vh.NewTrace()
			hooks.Add(cfg)
		}
		{
			verifhook.SetSink(func(point string, kv ...any) {
				if point == "limiter.after_inc" {
					gateSink(point, kv...)
					return
				}
				if point != "fw.inc" || hooks == nil {
					return
				}
				e := vh.Ev{"ev": point}
				for i := 0; i+1 < len(kv); i += 2 {
					e[fmt.Sprint(kv[i])] = kv[i+1]
				}
				hooks.Add(e)
			})
		}
		var eng *c01eng.Engine
		for _, h := range sc.Histories {
			var now int64
			seq := 0
			for _, e := range h {
				switch e.Ev {
				case "reset":
					now = e.Now
					eng, err = c01eng.New(dir, at(now), eng)
					if err != nil {
						vh.Die("engine: %v", err)
					}
					seq = 0
					tr.Add(vh.Ev{"ev": "reset", "now": now})
					if hooks != nil {
						hooks.Add(vh.Ev{"ev": "reset", "now": now})
					}
				case "adv":
					now += e.D
					eng.Clk.Set(at(now))
					tr.Add(vh.Ev{"ev": "adv", "d": e.D})
					if hooks != nil {
						hooks.Add(vh.Ev{"ev": "adv", "d": e.D})
					}
				case "arrive":
					// transaction ids are reused (three in rotation) once the previous holder is finished
					id := fmt.Sprintf("s%d", seq%3)
					seq++
					r := Req{e.Q, e.G, e.Cost}
					res := eng.Request(id, "GET", "api.test/"+e.Q, sc.headers(r))
					tr.Add(vh.Ev{"ev": "arrive", "q": e.Q, "g": e.G, "cost": e.Cost, "out": outcome(res)})
				case "resetin":
					resetIn(eng, e.Q)
					tr.Add(vh.Ev{"ev": "resetin", "q": e.Q})
				case "conc":
					var wg sync.WaitGroup
					start := make(chan struct{})
					for _, q := range e.Reqs {
						uid++
						wg.Add(1)
						go func(i int, q Req) {
							defer wg.Done()
							<-start
							b := tr.Stamp()
							res := eng.Request(fmt.Sprintf("c%d", i), "GET", "api.test/"+q.Q, sc.headers(q))
							tr.AddAt(b, vh.Ev{"ev": "begin", "id": i, "q": q.Q, "g": q.G, "cost": q.Cost, "out": outcome(res)})
							tr.Add(vh.Ev{"ev": "end", "id": i})
						}(uid, q)
					}
					close(start)
					wg.Wait()
				case "gated":
					type run struct {
						g    *gate
						done chan struct{}
					}
					runs := map[int]*run{}
					for _, st := range e.Steps {
						switch st.Op {
						case "adv":
							now += st.D
							eng.Clk.Set(at(now))
							tr.Add(vh.Ev{"ev": "adv", "d": st.D})
						case "go":
							uid++
							r := Req{st.Q, st.G, st.Cost}
							b := tr.Stamp()
							res := eng.Request(fmt.Sprintf("u%d", uid), "GET", "api.test/"+st.Q, sc.headers(r))
							tr.AddAt(b, vh.Ev{"ev": "begin", "id": uid, "q": st.Q, "g": st.G, "cost": st.Cost, "out": outcome(res)})
							tr.Add(vh.Ev{"ev": "end", "id": uid})
						case "inc":
							uid++
							id := uid
							req := fmt.Sprintf("p%d", id)
							r := &run{g: &gate{parked: make(chan struct{}), release: make(chan struct{})}, done: make(chan struct{})}
							runs[st.I] = r
							gatesMu.Lock()
							gates[req] = r.g
							gatesMu.Unlock()
							rq := Req{st.Q, st.G, st.Cost}
							b := tr.Stamp()
							go func() {
								defer close(r.done)
								res := eng.Request(req, "GET", "api.test/"+rq.Q, sc.headers(rq))
								tr.AddAt(b, vh.Ev{"ev": "begin", "id": id, "q": rq.Q, "g": rq.G, "cost": rq.Cost, "out": outcome(res), "gated": true})
								tr.Add(vh.Ev{"ev": "end", "id": id})
							}()
							select {
							case <-r.g.parked:
							case <-r.done:
								vh.Die("gated: request %d returned without passing limiter.after_inc", st.I)
							case <-time.After(30 * time.Second):
								vh.Die("gated: request %d never reached limiter.after_inc", st.I)
							}
						case "allowed":
							r := runs[st.I]
							if r == nil {
								vh.Die("gated: allowed before inc for %d", st.I)
							}
							close(r.g.release)
							select {
							case <-r.done:
							case <-time.After(30 * time.Second):
								vh.Die("gated: request %d did not return", st.I)
							}
							delete(runs, st.I)
						default:
							vh.Die("gated: unknown step %q", st.Op)
						}
					}
					for _, r := range runs {
						close(r.g.release)
						<-r.done
					}
				case "storm":
					// e.N identical requests issued by e.Par goroutines at one mock instant; one compact event
					var wg sync.WaitGroup
					var admitted, failed, arrived atomic.Int64
					start := make(chan struct{})
					par := e.Par
					if par < 1 {
						par = 1
					}
					r := Req{e.Q, e.G, e.Cost}
					for gi := 0; gi < par; gi++ {
						cnt := e.N / par
						if gi < e.N%par {
							cnt++
						}
						wg.Add(1)
						go func(gi, cnt int) {
							defer wg.Done()
							<-start
							arrived.Add(1)
							for spins := 0; arrived.Load() < int64(par) && spins < 1_000_000; spins++ {
								runtime.Gosched() // all goroutines of the storm reach the real code together
							}
							for k := 0; k < cnt; k++ {
								res := eng.Request(fmt.Sprintf("st%d-%d-%d", uid, gi, k), "GET", "api.test/"+e.Q, sc.headers(r))
								switch outcome(res) {
								case "admit":
									admitted.Add(1)
								case "refuse":
								default:
									failed.Add(1)
								}
							}
						}(gi, cnt)
					}
					uid++
					close(start)
					wg.Wait()
					ev := vh.Ev{"ev": "storm", "q": e.Q, "g": e.G, "cost": e.Cost, "n": e.N, "admitted": admitted.Load()}
					if failed.Load() > 0 {
						ev["errors"] = failed.Load()
					}
					tr.Add(ev)
				default:
					vh.Die("unknown event %q", e.Ev)
				}
			}
		}
		if eng != nil {
			eng.Close()
		}
		verifhook.SetSink(nil)
		tr.Write(filepath.Join(os.Args[3], fmt.Sprintf("trace-%03d.ndjson", si)))
		if hooks != nil {
			hooks.Write(filepath.Join(os.Args[3], fmt.Sprintf("hooks-%03d.ndjson", si)))
		}
		os.RemoveAll(dir)
	}
}

// resetIn drives QuotaResourceI.ResetIn of quota q (the metrics / queue path of the real code).
func resetIn(eng *c01eng.Engine, q string) {
	if qr, err := eng.S.VerifQuota(q); err == nil {
		_ = qr.ResetIn()
	}
}
