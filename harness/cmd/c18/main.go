// c18: drives concurrent transactions (requests, responses, proxy errors, metric reads)
// against one real flows-mode engine and records invocation / return of every operation
// with its result, as NDJSON histories for TLC's linearizability search (EngineLinTrace).
//
//	c18 run <scripts.json> <outdir>
//
// scripts.json: [{"config":{"M":m,"C":c}, "files":{rel: yaml}, "histories":[[event,...],...]}, ...]
// event: {"ev":"reset"} | {"ev":"conc","threads":[[op,...],...]}   (one goroutine per thread) |
//
//	{"ev":"sched","w":seconds,"steps":[["inc",i]|["allowed",i]|["tick"],...]}   (directed schedule through the gate limiter.after_inc)
//
// op: {"op":"reqfw"} | {"op":"reqcq","txn":t} | {"op":"endcq","txn":t,"how":"resp"|"err"} | {"op":"metrics"}
// An endcq is only issued (and logged) when the transaction's request was admitted.
package main

import (
	"fmt"
	"os"
	"path/filepath"
	"runtime"
	"sort"
	"strings"
	"sync"
	"sync/atomic"
	"time"

	"lunar/toolkit-core/verifhook"

	"verifharness/internal/c01eng"
	"verifharness/internal/vh"
)

type Op struct {
	Op  string `json:"op"`
	Txn string `json:"txn,omitempty"`
	How string `json:"how,omitempty"`
	G   string `json:"g,omitempty"`
	URL string `json:"url,omitempty"`
}

type Event struct {
	Ev      string  `json:"ev"`
	Threads [][]Op  `json:"threads,omitempty"`
	Steps   [][]any `json:"steps,omitempty"` // sched: ["inc",i] | ["allowed",i] | ["tick"]
	W       int64   `json:"w,omitempty"`
	G       string  `json:"g,omitempty"` // fwstorm: group
	N       int     `json:"n,omitempty"` // fwstorm / cqstorm: number of simultaneous requests
}

// which processors ran for the transaction handled by the calling goroutine (ExecuteFlow runs on the caller's goroutine)
var (
	procMu  sync.Mutex
	procsOf = map[uint64][]string{}
)

func goid() uint64 {
	var buf [64]byte
	n := runtime.Stack(buf[:], false)
	// "goroutine 123 [running]:"
	var id uint64
	for _, c := range buf[len("goroutine "):n] {
		if c < '0' || c > '9' {
			break
		}
		id = id*10 + uint64(c-'0')
	}
	return id
}

// gates: requests parked at the yield point limiter.after_inc (between quota.Inc and quota.Allowed)
type gate struct {
	parked  chan struct{}
	release chan struct{}
}

var (
	gatesMu sync.Mutex
	gates   = map[string]*gate{}
	gcDone  atomic.Int64 // completed passes of the concurrency quota's background collection (cq.gc.done)
)

func sink(point string, kv ...any) {
	if point == "proc.exec" {
		var key string
		for i := 0; i+1 < len(kv); i += 2 {
			if kv[i] == "key" {
				key = fmt.Sprint(kv[i+1])
			}
		}
		g := goid()
		procMu.Lock()
		if _, ok := procsOf[g]; ok {
			procsOf[g] = append(procsOf[g], key)
		}
		procMu.Unlock()
		return
	}
	if point == "cq.gc.done" {
		gcDone.Add(1)
		return
	}
	if point != "limiter.after_inc" && point != "cq.inc.after_sadd" {
		return
	}
	var req string
	for i := 0; i+1 < len(kv); i += 2 {
		if kv[i] == "req" {
			req = fmt.Sprint(kv[i+1])
		}
	}
	gatesMu.Lock()
	g := gates[point+"|"+req]
	delete(gates, point+"|"+req) // a gate parks one passage of its yield point
	gatesMu.Unlock()
	if g == nil {
		return
	}
	close(g.parked)
	<-g.release
}

type Script struct {
	Config    map[string]any    `json:"config"`
	Files     map[string]string `json:"files"`
	Histories [][]Event         `json:"histories"`
}

var base = time.Unix(1_700_000_000, 0)

// scrape reads the used-quota gauges of both quotas the way the metrics observer does on every scrape
// (quotaResource.observeQuotaUsed -> GetQuotaGroupsCounters); the values are not part of any verdict, the read is
// an operation that must leave the engine's state alone.
func scrape(eng *c01eng.Engine) string {
	for _, id := range []string{"fw", "cq"} {
		q, err := eng.S.VerifQuota(id)
		if err != nil {
			return "error:" + err.Error()
		}
		c, ok := q.(interface{ GetQuotaGroupsCounters() map[string]int64 })
		if !ok {
			return fmt.Sprintf("error:quota %s (%T) has no GetQuotaGroupsCounters", id, q)
		}
		c.GetQuotaGroupsCounters()
	}
	return "ok"
}

func outcome(res c01eng.ReqResult) string {
	if res.Err != "" {
		return "error:" + res.Err
	}
	if res.Early {
		return "refuse"
	}
	return "admit"
}

func main() {
	vh.Quiet()
	verifhook.SetSink(sink)
	if len(os.Args) != 4 || os.Args[1] != "run" {
		vh.Die("usage: c18 run <scripts.json> <outdir>")
	}
	var scripts []Script
	vh.ReadJSON(os.Args[2], &scripts)
	var uid atomic.Int64
	for si := range scripts {
		sc := &scripts[si]
		dir, err := c01eng.WriteFiles(sc.Files)
		if err != nil {
			vh.Die("files: %v", err)
		}
		tr := vh.NewTrace()
		cfg := vh.Ev{"ev": "config"}
		for k, v := range sc.Config {
			cfg[k] = v
		}
		tr.Add(cfg)
		var eng *c01eng.Engine
		for hi, h := range sc.Histories {
			var admitted sync.Map
			for _, e := range h {
				switch e.Ev {
				case "adv":
					vh.Die("adv outside sched is not supported")
				case "reset":
					eng, err = c01eng.New(dir, base, eng)
					if err != nil {
						vh.Die("engine: %v", err)
					}
					tr.Add(vh.Ev{"ev": "reset"})
				case "fwstorm", "cqstorm":
					// n simultaneous first requests; only the admitted ones are recorded (compact batch event)
					var wg sync.WaitGroup
					var arrived atomic.Int32
					var mu sync.Mutex
					adm := []string{}
					bad := ""
					for i := 0; i < e.N; i++ {
						wg.Add(1)
						id := uid.Add(1)
						go func() {
							defer wg.Done()
							arrived.Add(1)
							for spins := 0; arrived.Load() < int32(e.N) && spins < 1_000_000; spins++ {
								runtime.Gosched() // yield: all goroutines of the batch reach the real code together
							}
							var res c01eng.ReqResult
							txn := fmt.Sprintf("st%d", id)
							if e.Ev == "fwstorm" {
								res = eng.Request(txn, "GET", "api.test/fw", map[string]string{"x-group": e.G})
							} else {
								res = eng.Request(txn, "GET", "api.test/cq", nil)
							}
							out := outcome(res)
							mu.Lock()
							if out == "admit" {
								adm = append(adm, txn)
							} else if out != "refuse" {
								bad = out
							}
							mu.Unlock()
						}()
					}
					wg.Wait()
					if bad != "" {
						vh.Die("storm: %s", bad)
					}
					if e.Ev == "fwstorm" {
						tr.Add(vh.Ev{"ev": "fwbatch", "g": e.G, "n": e.N, "p": len(adm)})
					} else {
						sort.Strings(adm)
						tr.Add(vh.Ev{"ev": "cqbatch", "n": e.N, "adm": adm})
						for _, txn := range adm { // give the slots back, one at a time
							id := uid.Add(1)
							if msg := eng.Response(txn, "GET", "api.test/cq", 200, nil); msg != "" {
								vh.Die("response: %s", msg)
							}
							tr.Add(vh.Ev{"ev": "begin", "id": id, "op": "endcq", "txn": txn})
							tr.Add(vh.Ev{"ev": "end", "id": id})
						}
					}
				case "hammer":
					// e.N goroutines, each e.W times: request a slot of the concurrency quota and, when admitted, give it back;
					// no barriers, so calls overlap in every phase. Every call is logged (invoke / return).
					var wg sync.WaitGroup
					for th := 0; th < e.N; th++ {
						wg.Add(1)
						go func(th int) {
							defer wg.Done()
							for it := int64(0); it < e.W; it++ {
								id := uid.Add(1)
								txn := fmt.Sprintf("hm%d", id)
								b := tr.Stamp()
								out := outcome(eng.Request(txn, "GET", "api.test/cq", nil))
								tr.AddAt(b, vh.Ev{"ev": "begin", "id": id, "op": "reqcq", "txn": txn, "out": out})
								tr.Add(vh.Ev{"ev": "end", "id": id})
								if out == "admit" {
									id2 := uid.Add(1)
									b2 := tr.Stamp()
									if msg := eng.Response(txn, "GET", "api.test/cq", 200, nil); msg != "" {
										vh.Die("response: %s", msg)
									}
									tr.AddAt(b2, vh.Ev{"ev": "begin", "id": id2, "op": "endcq", "txn": txn})
									tr.Add(vh.Ev{"ev": "end", "id": id2})
								} else if out != "refuse" {
									vh.Die("hammer: %s", out)
								}
							}
						}(th)
					}
					wg.Wait()
				case "sched":
					// directed schedule from the interleaving model: one fixed-window request per model request
					type run struct {
						g    *gate
						done chan struct{}
					}
					runs := map[int]*run{}
					now := int64(0)
					for _, st := range e.Steps {
						kind := fmt.Sprint(st[0])
						switch kind {
						case "tick":
							now += e.W
							eng.Clk.Set(base.Add(time.Duration(now) * time.Second))
							tr.Add(vh.Ev{"ev": "adv", "d": e.W})
						case "inc":
							i := int(st[1].(float64))
							id := uid.Add(1)
							req := fmt.Sprintf("g%d", id)
							r := &run{g: &gate{parked: make(chan struct{}), release: make(chan struct{})}, done: make(chan struct{})}
							runs[i] = r
							gatesMu.Lock()
							gates["limiter.after_inc|"+req] = r.g
							gatesMu.Unlock()
							go func() {
								defer close(r.done)
								b := tr.Stamp()
								res := eng.Request(req, "GET", "api.test/fw", map[string]string{"x-group": "g0"})
								tr.AddAt(b, vh.Ev{"ev": "begin", "id": id, "op": "reqfw", "g": "g0", "out": outcome(res), "model_req": i})
								tr.Add(vh.Ev{"ev": "end", "id": id})
							}()
							select {
							case <-r.g.parked:
							case <-r.done: // refused before the yield point is impossible; returned without passing it
							case <-time.After(20 * time.Second):
								vh.Die("sched: request %d never reached limiter.after_inc", i)
							}
						case "scrape":
							id := uid.Add(1)
							b := tr.Stamp()
							out := scrape(eng)
							tr.AddAt(b, vh.Ev{"ev": "begin", "id": id, "op": "scrape", "out": out})
							tr.Add(vh.Ev{"ev": "end", "id": id})
						case "allowed":
							i := int(st[1].(float64))
							r := runs[i]
							if r == nil {
								vh.Die("sched: allowed before inc for %d", i)
							}
							close(r.g.release)
							select {
							case <-r.done:
							case <-time.After(20 * time.Second):
								vh.Die("sched: request %d did not return", i)
							}
							delete(runs, i)
						}
					}
					for _, r := range runs { // schedule ended with requests still parked: let them finish
						close(r.g.release)
						<-r.done
					}
				case "cqsched":
					// directed schedule on the concurrency quota: take i = transaction i asks for a slot and is parked at the yield
					// point cq.inc.after_sadd (its slot is in the shared set, the request not registered yet); gc = the clock moves
					// by the collection interval and one background collection pass runs; go i = transaction i continues;
					// req i = a whole request; end i = its response.
					type run struct {
						g    *gate
						done chan struct{}
					}
					runs := map[int]*run{}
					now := int64(0)
					reqcq := func(i int, txn string, id int64, after func()) {
						b := tr.Stamp()
						res := eng.Request(txn, "GET", "api.test/cq", nil)
						out := outcome(res)
						if out == "admit" {
							admitted.Store(txn, true)
						}
						tr.AddAt(b, vh.Ev{"ev": "begin", "id": id, "op": "reqcq", "txn": txn, "out": out, "model_req": i})
						tr.Add(vh.Ev{"ev": "end", "id": id})
						if after != nil {
							after()
						}
					}
					for _, st := range e.Steps {
						kind := fmt.Sprint(st[0])
						i := 0
						if len(st) > 1 {
							i = int(st[1].(float64))
						}
						txn := fmt.Sprintf("h%d-q%d", hi, i)
						switch kind {
						case "take":
							r := &run{g: &gate{parked: make(chan struct{}), release: make(chan struct{})}, done: make(chan struct{})}
							runs[i] = r
							gatesMu.Lock()
							gates["cq.inc.after_sadd|"+txn] = r.g
							gatesMu.Unlock()
							id := uid.Add(1)
							go reqcq(i, txn, id, func() { close(r.done) })
							select {
							case <-r.g.parked:
							case <-r.done: // refused: the yield point is behind the slot take
							case <-time.After(20 * time.Second):
								vh.Die("cqsched: request %d neither parked nor returned", i)
							}
						case "go":
							r := runs[i]
							if r == nil {
								vh.Die("cqsched: go before take for %d", i)
							}
							close(r.g.release)
							select {
							case <-r.done:
							case <-time.After(20 * time.Second):
								vh.Die("cqsched: request %d did not return", i)
							}
							delete(runs, i)
						case "req":
							reqcq(i, txn, uid.Add(1), nil)
						case "end":
							if _, ok := admitted.LoadAndDelete(txn); ok {
								id := uid.Add(1)
								b := tr.Stamp()
								if msg := eng.Response(txn, "GET", "api.test/cq", 200, nil); msg != "" {
									vh.Die("response: %s", msg)
								}
								tr.AddAt(b, vh.Ev{"ev": "begin", "id": id, "op": "endcq", "txn": txn})
								tr.Add(vh.Ev{"ev": "end", "id": id})
							}
						case "gc":
							for k := 0; len(eng.Clk.PendingTimers()) == 0; k++ { // the collector has armed its timer
								if k > 50000 {
									vh.Die("cqsched: the collection goroutine never armed its timer")
								}
								time.Sleep(100 * time.Microsecond)
							}
							before := gcDone.Load()
							now += e.W
							eng.Clk.Set(base.Add(time.Duration(now) * time.Second))
							for k := 0; gcDone.Load() == before; k++ {
								if k > 100000 {
									vh.Die("cqsched: no collection pass within 10 s after the clock moved")
								}
								time.Sleep(100 * time.Microsecond)
							}
							tr.Add(vh.Ev{"ev": "adv", "d": e.W})
						default:
							vh.Die("cqsched: unknown step %q", kind)
						}
					}
					for _, r := range runs {
						close(r.g.release)
						<-r.done
					}
				case "conc":
					var wg sync.WaitGroup
					var arrived atomic.Int32
					n := int32(len(e.Threads))
					for _, th := range e.Threads {
						wg.Add(1)
						go func(ops []Op) {
							defer wg.Done()
							arrived.Add(1)
							for spins := 0; arrived.Load() < n && spins < 1_000_000; spins++ {
								runtime.Gosched() // yield: all goroutines of the batch reach the real code together
							}
							for _, op := range ops {
								id := uid.Add(1)
								txn := fmt.Sprintf("h%d-%s", hi, op.Txn)
								switch op.Op {
								case "reqfw":
									b := tr.Stamp()
									res := eng.Request(fmt.Sprintf("f%d", id), "GET", "api.test/fw", map[string]string{"x-group": op.G})
									tr.AddAt(b, vh.Ev{"ev": "begin", "id": id, "op": "reqfw", "g": op.G, "out": outcome(res)})
									tr.Add(vh.Ev{"ev": "end", "id": id})
								case "reqsel":
									g := goid()
									procMu.Lock()
									procsOf[g] = []string{}
									procMu.Unlock()
									b := tr.Stamp()
									res := eng.Request(fmt.Sprintf("s%d", id), "GET", op.URL, nil)
									procMu.Lock()
									keys := procsOf[g]
									delete(procsOf, g)
									procMu.Unlock()
									out := fmt.Sprintf("%d|%s", res.Status, strings.Join(keys, ","))
									if res.Err != "" {
										out = "error:" + res.Err
									}
									tr.AddAt(b, vh.Ev{"ev": "begin", "id": id, "op": "reqsel", "url": op.URL, "out": out})
									tr.Add(vh.Ev{"ev": "end", "id": id})
								case "reqcq":
									b := tr.Stamp()
									res := eng.Request(txn, "GET", "api.test/cq", nil)
									out := outcome(res)
									if out == "admit" {
										admitted.Store(txn, true)
									}
									tr.AddAt(b, vh.Ev{"ev": "begin", "id": id, "op": "reqcq", "txn": txn, "out": out})
									tr.Add(vh.Ev{"ev": "end", "id": id})
								case "endcq":
									if _, ok := admitted.LoadAndDelete(txn); !ok {
										continue
									}
									b := tr.Stamp()
									if op.How == "err" {
										eng.S.OnError(txn)
									} else if msg := eng.Response(txn, "GET", "api.test/cq", 200, nil); msg != "" {
										vh.Die("response: %s", msg)
									}
									tr.AddAt(b, vh.Ev{"ev": "begin", "id": id, "op": "endcq", "txn": txn})
									tr.Add(vh.Ev{"ev": "end", "id": id})
								case "scrape":
									b := tr.Stamp()
									out := scrape(eng)
									tr.AddAt(b, vh.Ev{"ev": "begin", "id": id, "op": "scrape", "out": out})
									tr.Add(vh.Ev{"ev": "end", "id": id})
								case "metrics":
									b := tr.Stamp()
									inv := eng.S.GetFlowInvocations()
									tr.AddAt(b, vh.Ev{"ev": "begin", "id": id, "op": "metrics",
										"nfw": inv["flow_fw"], "ncq": inv["flow_cq"]})
									tr.Add(vh.Ev{"ev": "end", "id": id})
								default:
									vh.Die("unknown op %q", op.Op)
								}
							}
						}(th)
					}
					wg.Wait()
				default:
					vh.Die("unknown event %q", e.Ev)
				}
			}
		}
		if eng != nil {
			eng.Close()
		}
		tr.Write(filepath.Join(os.Args[3], fmt.Sprintf("trace-%03d.ndjson", si)))
		os.RemoveAll(dir)
	}
}
