// x01: policy-mode dispatch - drives the REAL top-level SPOE message handler routing.Handler of a policy-mode
// HandlingDataManager (real config.BuildInitialFromFile accessor, real services.Initialize plugins, real diagnosis
// worker, real POST /apply_policies route) through histories of requests, responses, policy reloads and clock advances
// and records, per message, what the remedy plugins did (runner.req_action / runner.resp_action points), what was
// handed to the proxy (decoded SPOE variables incl. request_/response_active_remedies) and what the diagnosis plugins
// exported for the transaction (messages written to the export writer between diag.notify and diag.done).
// Pure executor: no verdicts - the events are judged by TLC (specs/x01_policy_dispatch).
//
//	x01 run <scripts.json> <outdir>       env: HAPROXY_MANAGE_ENDPOINTS_PORT, LUNAR_HEALTHCHECK_PORT (loopback fake)
//
// scripts.json: [{"config":{...}, "files":{"1":yaml,"2":yaml,..}, "histories":[[event,..],..]}, ..]
// event: {"ev":"reset","now":t}                         fresh engine on policies file 1, mock clock at t (ticks of 500 ms)
//
//	{"ev":"adv","d":d}
//	{"ev":"apply","v":k,"how":"body"|"file"}      POST /apply_policies with file k as body / after writing file k
//	{"ev":"req","id":..,"m":..,"h":[labels],"p":[segments],"early":"true"|"false"|"","grp":".."}
//	{"ev":"res","id":..,"status":n}               response of transaction id (method / URL of its request); skipped when
//	                                              the engine answered the request itself
package main

import (
	"bytes"
	"encoding/json"
	"fmt"
	"net/http"
	"net/http/httptest"
	"os"
	"path/filepath"
	"sort"
	"strings"
	"sync"
	"time"

	"lunar/engine/actions"
	"lunar/engine/config"
	"lunar/engine/routing"
	"lunar/engine/runner"
	"lunar/engine/services"
	sharedConfig "lunar/shared-model/config"
	contextmanager "lunar/toolkit-core/context-manager"
	"lunar/toolkit-core/verifhook"

	"github.com/negasus/haproxy-spoe-go/action"
	"github.com/negasus/haproxy-spoe-go/message"
	"github.com/negasus/haproxy-spoe-go/payload/kv"
	"github.com/negasus/haproxy-spoe-go/request"

	"verifharness/internal/c11acc"
	"verifharness/internal/vh"
)

const (
	tick      = 500 * time.Millisecond
	baseTicks = int64(3_400_005_840) // multiple of every window length used (see cmd/c09)
)

func at(t int64) time.Time { return time.Unix(0, 0).Add(time.Duration(baseTicks+t) * tick) }

type Event struct {
	Ev     string   `json:"ev"`
	Now    int64    `json:"now,omitempty"`
	D      int64    `json:"d,omitempty"`
	V      int      `json:"v,omitempty"`
	How    string   `json:"how,omitempty"`
	ID     string   `json:"id,omitempty"`
	M      string   `json:"m,omitempty"`
	H      []string `json:"h,omitempty"`
	P      []string `json:"p,omitempty"`
	Early  string   `json:"early,omitempty"`
	Grp    string   `json:"grp,omitempty"`
	Status int      `json:"status,omitempty"`
}

type Script struct {
	Config    map[string]any    `json:"config"`
	Files     map[string]string `json:"files"`
	Histories [][]Event         `json:"histories"`
}

// ---------------------------------------------------------------- observation

type Act struct {
	K  string      `json:"k"`
	H  [][2]string `json:"h"`
	St int         `json:"st"`
	B  string      `json:"b"`
	P  string      `json:"p"`
	Ho string      `json:"ho"`
	Q  string      `json:"q"`
	Rm []string    `json:"rm"`
}

func hpairs(m map[string]string) [][2]string {
	out := make([][2]string, 0, len(m))
	for k, v := range m {
		out = append(out, [2]string{k, v})
	}
	sort.Slice(out, func(i, j int) bool { return out[i][0] < out[j][0] })
	return out
}

func strs(s []string) []string {
	if s == nil {
		return []string{}
	}
	return append([]string{}, s...)
}

// snapshot of a real action object (deep copy: the fold may update actions in place)
func actOf(x any) Act {
	a := Act{H: [][2]string{}, Rm: []string{}}
	switch v := x.(type) {
	case *actions.NoOpAction:
		a.K = "noop"
	case *actions.EarlyResponseAction:
		a.K, a.St, a.B, a.H = "early", v.Status, v.Body, hpairs(v.Headers)
	case *actions.ModifyHeadersAction:
		a.K, a.H = "modh", hpairs(v.HeadersToSet)
	case *actions.ModifyRequestAction:
		a.K, a.H, a.Ho, a.P, a.Q, a.B = "modreq", hpairs(v.HeadersToSet), v.Host, v.Path, v.QueryParams, v.Body
	case *actions.GenerateRequestAction:
		a.K, a.H, a.Rm, a.B = "gen", hpairs(v.HeadersToSet), strs(v.HeadersToRemove), v.Body
	case *actions.ModifyResponseAction:
		a.K, a.H, a.B, a.St = "modresp", hpairs(v.HeadersToSet), v.Body, v.Status
	case *actions.RetryRequestAction:
		a.K, a.H = "retry", hpairs(v.HeadersToSet)
	default:
		a.K = fmt.Sprintf("unknown:%T", x)
	}
	return a
}

type Out struct {
	Names   []string    `json:"names"`
	Early   bool        `json:"early"`
	ModReq  bool        `json:"modreq"`
	Gen     bool        `json:"gen"`
	ModResp bool        `json:"modresp"`
	Retry   bool        `json:"retry"`
	St      int         `json:"st"`
	Body    string      `json:"body"`
	Rh      [][2]string `json:"rh"`
	Qh      [][2]string `json:"qh"`
	QBody   string      `json:"qbody"`
	Path    string      `json:"path"`
	Host    string      `json:"host"`
	Query   string      `json:"query"`
	Th      [][2]string `json:"th"`
	Bad     []string    `json:"bad"`
}

func parseDump(s string, bad *[]string, what string) [][2]string {
	m := map[string]string{}
	if !strings.HasSuffix(s, "\n") {
		*bad = append(*bad, what+":no-trailing-newline")
	}
	for _, line := range strings.Split(strings.TrimSuffix(s, "\n"), "\n") {
		if line == "" {
			continue
		}
		i := strings.Index(line, ":")
		if i < 0 {
			*bad = append(*bad, what+":malformed-line")
			continue
		}
		if _, dup := m[line[:i]]; dup {
			*bad = append(*bad, what+":duplicate-header")
		}
		m[line[:i]] = line[i+1:]
	}
	return hpairs(m)
}

func asString(v any, bad *[]string, name string) string {
	switch x := v.(type) {
	case string:
		return x
	case []byte:
		return string(x)
	}
	*bad = append(*bad, name+":type")
	return ""
}

func asBool(v any, bad *[]string, name string) bool {
	if b, ok := v.(bool); ok {
		return b
	}
	*bad = append(*bad, name+":type")
	return false
}

func asInt(v any, bad *[]string, name string) int {
	switch x := v.(type) {
	case int:
		return x
	case int32:
		return int(x)
	case int64:
		return int(x)
	}
	*bad = append(*bad, name+":type")
	return -1
}

// active-remedies variable: {"fixed_response":["obtained_response"],..} as sorted [type, [results]] pairs
func activeOf(v any, bad *[]string, name string) [][2]any {
	raw := []byte(asString(v, bad, name))
	m := map[string][]string{}
	if err := json.Unmarshal(raw, &m); err != nil {
		*bad = append(*bad, name+":json")
		return [][2]any{}
	}
	keys := make([]string, 0, len(m))
	for k := range m {
		keys = append(keys, k)
	}
	sort.Strings(keys)
	res := [][2]any{}
	for _, k := range keys {
		res = append(res, [2]any{k, strs(m[k])})
	}
	return res
}

// decode projects the SPOE actions handed to the proxy onto the record the specification talks about (as cmd/c07),
// plus the two active-remedies variables.
func decode(as action.Actions) (Out, [][2]any, [][2]any, bool, bool) {
	o := Out{Names: []string{}, St: -1, Rh: [][2]string{}, Qh: [][2]string{}, Th: [][2]string{}, Bad: []string{}}
	reqActive, respActive := [][2]any{}, [][2]any{}
	hasReqA, hasRespA := false, false
	seen := map[string]bool{}
	for _, a := range as {
		if a.Type != action.TypeSetVar {
			o.Bad = append(o.Bad, a.Name+":not-set-var")
			continue
		}
		if seen[a.Name] {
			o.Bad = append(o.Bad, a.Name+":duplicate-variable")
		}
		seen[a.Name] = true
		switch a.Name {
		case "request_active_remedies":
			reqActive, hasReqA = activeOf(a.Value, &o.Bad, a.Name), true
			continue
		case "response_active_remedies":
			respActive, hasRespA = activeOf(a.Value, &o.Bad, a.Name), true
			continue
		}
		o.Names = append(o.Names, a.Name)
		switch a.Name {
		case actions.ReturnEarlyResponseActionName:
			o.Early = asBool(a.Value, &o.Bad, a.Name)
		case actions.StatusCodeActionName:
			o.St = asInt(a.Value, &o.Bad, a.Name)
		case actions.ResponseBodyActionName:
			o.Body = asString(a.Value, &o.Bad, a.Name)
		case actions.ResponseHeadersActionName:
			o.Rh = parseDump(asString(a.Value, &o.Bad, a.Name), &o.Bad, a.Name)
		case actions.ModifyRequestActionName:
			o.ModReq = asBool(a.Value, &o.Bad, a.Name)
		case actions.GenerateRequestActionName:
			o.Gen = asBool(a.Value, &o.Bad, a.Name)
		case actions.RequestHeadersActionName:
			o.Qh = parseDump(asString(a.Value, &o.Bad, a.Name), &o.Bad, a.Name)
		case actions.RequestBodyActionName:
			o.QBody = asString(a.Value, &o.Bad, a.Name)
		case actions.RequestPathActionName:
			o.Path = asString(a.Value, &o.Bad, a.Name)
		case actions.RequestHostActionName:
			o.Host = asString(a.Value, &o.Bad, a.Name)
		case actions.RequestQueryParamsActionName:
			o.Query = asString(a.Value, &o.Bad, a.Name)
		case actions.ModifyResponseActionName:
			o.ModResp = asBool(a.Value, &o.Bad, a.Name)
		case actions.RetryRequestActionName:
			o.Retry = asBool(a.Value, &o.Bad, a.Name)
		case actions.RetryHeadersActionName:
			o.Th = parseDump(asString(a.Value, &o.Bad, a.Name), &o.Bad, a.Name)
		}
	}
	return o, reqActive, respActive, hasReqA, hasRespA
}

// recording export writer (stands for the syslog connection to Fluent Bit)
type recWriter struct {
	mu   sync.Mutex
	msgs [][]byte
}

func (w *recWriter) Write(b []byte) (int, error) {
	w.mu.Lock()
	w.msgs = append(w.msgs, append([]byte{}, b...))
	w.mu.Unlock()
	return len(b), nil
}
func (w *recWriter) Close() error { return nil }
func (w *recWriter) take() [][]byte {
	w.mu.Lock()
	defer w.mu.Unlock()
	m := w.msgs
	w.msgs = nil
	return m
}

var (
	obsMu    sync.Mutex
	reqSeq   []Act
	respSeq  []Act
	notified []string
	doneCh   = make(chan string, 1024)
)

func sink(point string, kv ...any) {
	switch point {
	case "runner.req_action":
		if len(kv) == 1 {
			obsMu.Lock()
			reqSeq = append(reqSeq, actOf(kv[0]))
			obsMu.Unlock()
		}
	case "runner.resp_action":
		if len(kv) == 1 {
			obsMu.Lock()
			respSeq = append(respSeq, actOf(kv[0]))
			obsMu.Unlock()
		}
	case "diag.notify":
		obsMu.Lock()
		notified = append(notified, fmt.Sprint(kv[1]))
		obsMu.Unlock()
	case "diag.done":
		doneCh <- fmt.Sprint(kv[1])
	}
}

func resetObs() {
	obsMu.Lock()
	reqSeq, respSeq, notified = []Act{}, []Act{}, nil
	obsMu.Unlock()
}

// ---------------------------------------------------------------- fixture

type engine struct {
	dir     string
	files   map[string]string
	w       *recWriter
	dm      *routing.HandlingDataManager
	mux     *http.ServeMux
	handler routing.MessageHandler
	txn     map[string][2]string // id -> method, url
	early   map[string]bool      // transactions the engine answered itself: the proxy never sends their response
}

func policiesPath(dir string) string { return filepath.Join(dir, "policies.yaml") }

func newEngine(dir string, files map[string]string, now int64) (*engine, error) {
	if err := os.MkdirAll(dir, 0o755); err != nil {
		vh.Die("mkdir: %v", err)
	}
	os.Setenv("LUNAR_PROXY_POLICIES_CONFIG", policiesPath(dir))
	os.Setenv("LUNAR_PROXY_CONFIG_DIR", dir)
	if err := os.WriteFile(policiesPath(dir), []byte(files["1"]), 0o644); err != nil {
		vh.Die("write policies: %v", err)
	}
	contextmanager.Get().SetMockClock()
	contextmanager.Get().GetMockClock().Set(at(now))
	build, err := config.BuildInitialFromFile()
	if err != nil {
		return nil, err
	}
	e := &engine{dir: dir, files: files, w: &recWriter{}, txn: map[string][2]string{}, early: map[string]bool{}}
	svc, err := services.Initialize(e.w, 5*time.Second, build.Initial.Config.Exporters)
	if err != nil {
		vh.Die("services.Initialize: %v", err)
	}
	e.dm = routing.VerifNewPolicyModeManager(build, svc, runner.NewDiagnosisWorker(), e.w)
	e.mux = http.NewServeMux()
	e.dm.SetHandleRoutes(e.mux)
	e.handler = routing.Handler(e.dm)
	return e, nil
}

func (e *engine) close() {
	e.dm.StopDiagnosisWorker()
	os.RemoveAll(e.dir)
}

func (e *engine) spoe(name string, args [][2]any) (action.Actions, bool) {
	k := kv.NewKV()
	for _, a := range args {
		k.Add(a[0].(string), a[1])
	}
	req := &request.Request{Messages: &message.Messages{{Name: name, KV: k}}}
	e.handler(req)
	return req.Actions, req.Actions != nil
}

func render(h, p []string) string {
	s := strings.Join(h, ".")
	if len(p) > 0 {
		s += "/" + strings.Join(p, "/")
	}
	return s
}

// diagnosis exports of the transaction just handled: wait for every task handed to the worker, then collect
func (e *engine) exports(id string) []vh.Ev {
	obsMu.Lock()
	pending := append([]string{}, notified...)
	notified = nil
	obsMu.Unlock()
	for range pending {
		select {
		case <-doneCh:
		case <-time.After(20 * time.Second):
			vh.Die("diagnosis worker did not finish the task of %s", id)
		}
	}
	res := []vh.Ev{}
	for _, m := range e.w.take() {
		name, content := string(m), ""
		if i := bytes.IndexByte(m, ' '); i >= 0 {
			name, content = string(m[:i]), string(m[i+1:])
		}
		kind := "void"
		if len(content) > 0 {
			kind = "har"
		}
		res = append(res, vh.Ev{"exp": name, "k": kind, "mine": strings.Contains(content, id), "tasks": len(pending)})
	}
	return res
}

func (e *engine) apply(v int, how string) (int, string) {
	body := []byte(e.files[fmt.Sprint(v)])
	if len(body) == 0 {
		vh.Die("no policies file %d", v)
	}
	var rd *bytes.Reader
	if how == "file" {
		if err := os.WriteFile(policiesPath(e.dir), body, 0o644); err != nil {
			vh.Die("write policies: %v", err)
		}
		rd = bytes.NewReader(nil)
	} else {
		rd = bytes.NewReader(body)
	}
	w := httptest.NewRecorder()
	e.mux.ServeHTTP(w, httptest.NewRequest(http.MethodPost, "/apply_policies", rd))
	return w.Code, w.Body.String()
}

func main() {
	vh.Quiet()
	if len(os.Args) != 4 || os.Args[1] != "run" {
		vh.Die("usage: x01 run <scripts.json> <outdir>")
	}
	verifhook.SetSink(sink)
	// the validations routing.initializePolicies registers at start-up
	sharedConfig.Validate.RegisterStructValidation(config.ValidateStructLevel,
		sharedConfig.Remedy{}, sharedConfig.Diagnosis{}, sharedConfig.PoliciesConfig{})
	if err := sharedConfig.Validate.RegisterValidation("validateInt", config.ValidateInt); err != nil {
		vh.Die("register validation: %v", err)
	}
	fake := c11acc.StartFake(os.Getenv("HAPROXY_MANAGE_ENDPOINTS_PORT"), os.Getenv("LUNAR_HEALTHCHECK_PORT"))
	var scripts []Script
	vh.ReadJSON(os.Args[2], &scripts)
	n := 0
	for si := range scripts {
		sc := &scripts[si]
		tr := vh.NewTrace()
		cfg := vh.Ev{"ev": "config"}
		for k, v := range sc.Config {
			cfg[k] = v
		}
		tr.Add(cfg)
		loadfail := false
		for _, h := range sc.Histories {
			var e *engine
			var now int64
			if loadfail {
				break
			}
			for _, ev := range h {
				if loadfail {
					break
				}
				if e == nil && ev.Ev != "reset" {
					vh.Die("history does not start with reset")
				}
				switch ev.Ev {
				case "reset":
					if e != nil {
						e.close()
					}
					n++
					now = ev.Now
					var lerr error
					e, lerr = newEngine(filepath.Join(os.Args[3], fmt.Sprintf("eng-%d", n)), sc.Files, now)
					if lerr != nil {
						// a policies file the validator rejects: recorded as such, the configuration is skipped
						tr.Add(vh.Ev{"ev": "loadfail", "error": lerr.Error()})
						loadfail = true
						e = nil
						break
					}
					tr.Add(vh.Ev{"ev": "reset", "now": now})
				case "adv":
					now += ev.D
					contextmanager.Get().GetMockClock().Set(at(now))
					tr.Add(vh.Ev{"ev": "adv", "d": ev.D})
				case "apply":
					code, msg := e.apply(ev.V, ev.How)
					rec := vh.Ev{"ev": "apply", "v": ev.V, "how": ev.How, "ok": code == 200}
					if code != 200 {
						rec["error"] = msg
					}
					tr.Add(rec)
				case "req":
					resetObs()
					url := render(ev.H, ev.P)
					e.txn[ev.ID] = [2]string{ev.M, url}
					var hb strings.Builder
					fmt.Fprintf(&hb, "host: %s\r\nx-txn: %s\r\n", strings.Join(ev.H, "."), ev.ID)
					if ev.Early != "" {
						fmt.Fprintf(&hb, "Early-Response: %s\r\n", ev.Early)
					}
					if ev.Grp == "" {
						ev.Grp = "-" // "-" = the request carries no group header
					}
					if ev.Grp != "-" {
						fmt.Fprintf(&hb, "X-Group: %s\r\n", ev.Grp)
					}
					path := "/" + strings.Join(ev.P, "/")
					acts, ok := e.spoe("lunar-on-request", [][2]any{
						{"id", ev.ID}, {"sequence_id", ev.ID}, {"method", ev.M}, {"scheme", "https"}, {"url", url},
						{"path", path}, {"query", ""}, {"headers", hb.String()}, {"body", []byte("")},
					})
					out, ra, pa, hasRA, hasPA := decode(acts)
					e.early[ev.ID] = out.Early
					obsMu.Lock()
					rs, ps := reqSeq, respSeq
					obsMu.Unlock()
					tr.Add(vh.Ev{"ev": "req", "id": ev.ID, "m": ev.M, "h": ev.H, "p": ev.P, "early": ev.Early, "grp": ev.Grp,
						"seq": rs, "rseq": ps, "out": out, "active": ra, "ractive": pa, "hasa": hasRA, "hasra": hasPA,
						"answered": ok, "diag": e.exports(ev.ID)})
				case "res":
					resetObs()
					mu, known := e.txn[ev.ID]
					if !known {
						vh.Die("response for unknown transaction %s", ev.ID)
					}
					if e.early[ev.ID] {
						continue // answered by the engine: there is no provider response (script bookkeeping)
					}
					acts, ok := e.spoe("lunar-on-response", [][2]any{
						{"id", ev.ID}, {"sequence_id", ev.ID}, {"method", mu[0]}, {"url", mu[1]}, {"status", int64(ev.Status)},
						{"headers", "content-type: text/plain\r\n"}, {"body", []byte("")},
					})
					out, ra, pa, hasRA, hasPA := decode(acts)
					obsMu.Lock()
					rs, ps := reqSeq, respSeq
					obsMu.Unlock()
					tr.Add(vh.Ev{"ev": "res", "id": ev.ID, "status": ev.Status,
						"seq": rs, "rseq": ps, "out": out, "active": ra, "ractive": pa, "hasa": hasRA, "hasra": hasPA,
						"answered": ok, "diag": e.exports(ev.ID)})
				default:
					vh.Die("unknown event %q", ev.Ev)
				}
			}
			if e != nil {
				e.close()
			}
		}
		tr.Write(filepath.Join(os.Args[3], fmt.Sprintf("trace-%03d.ndjson", si)))
	}
	if fake.Count() == 0 {
		vh.Die("the fake HAProxy admin API was never called")
	}
}
