// c12: executes request/response scripts against the real CachingPlugin,
// ResponseBasedThrottlingPlugin (OnRequest/OnResponse) and utils.MemoryCache on a
// lock-step clock and records what the real code answered, as NDJSON traces for TLC.
//
//	c12 run <scripts.json> <outdir>
//
// scripts.json: [{"config":{...}, "histories":[[event,...],...]}, ...]
// config: {"typ":"cache"|"rel"|"abs"|"mem","ttl":ticks,"max":units|-1,"sel":[param names],"relevant":[statuses]}
// event:  {"ev":"reset","now":t} | {"ev":"adv","d":d}
//
//	| {"ev":"adv","d":d,"lag":1} the clock moves, the sleeping goroutines are not woken | {"ev":"fire"} they are
//	| {"ev":"resp","m","u","pp","v","st","hh","hdr","sz"} | {"ev":"req","m","u","pp"}
//	| {"ev":"conc","ops":[op,...]}                       ops run by concurrent goroutines
//	| {"ev":"sched","ops":[op,...],"steps":[{"a":"start"|"release","i":n} | {"a":"fire"},...]}
//	     directed schedule: a response op with "gate":true stops at the yield point
//	     cache.set.checked (between the size test and the insertion) until released; with "sgate":true (typ mem) it
//	     stops inside the size function while it measures the entry it is about to replace
//
// One tick = 250 ms, one size unit = 1 KiB. The executor is a pure executor: no oracle logic.
package main

import (
	"fmt"
	"math"
	"os"
	"path/filepath"
	"runtime"
	"strconv"
	"strings"
	"sync"
	"time"

	"lunar/engine/actions"
	lunarMessages "lunar/engine/messages"
	"lunar/engine/services/remedies"
	"lunar/engine/utils"
	sharedConfig "lunar/shared-model/config"
	"lunar/toolkit-core/verifhook"

	"verifharness/internal/c12q"
	"verifharness/internal/vh"
)

const (
	tick      = 250 * time.Millisecond
	perSec    = 4                    // ticks per second
	baseTicks = int64(6_800_000_000) // 1.7e9 s: a whole second
	unit      = 1024                 // bytes per size unit
	hdrName   = "Retry-After"
	patience  = 20 * time.Second // harness failure detection only
)

type Config struct {
	Typ      string   `json:"typ"`
	Ttl      int      `json:"ttl"`
	Max      int      `json:"max"`
	Sel      []string `json:"sel"`
	Relevant []int    `json:"relevant"`
	HdrName  string   `json:"hdrname,omitempty"` // spelling of the retry-after header in the policy
}

type Step struct {
	A string `json:"a"`
	I int    `json:"i"`
}

type Op struct {
	Ev    string            `json:"ev,omitempty"`
	Op    string            `json:"op,omitempty"`
	Now   int64             `json:"now,omitempty"`
	D     int64             `json:"d,omitempty"`
	M     string            `json:"m,omitempty"`
	U     string            `json:"u,omitempty"`
	PP    map[string]string `json:"pp,omitempty"`
	V     string            `json:"v,omitempty"`
	St    int               `json:"st,omitempty"`
	HH    int               `json:"hh,omitempty"`
	Hdr   int64             `json:"hdr,omitempty"`
	Sz    int               `json:"sz,omitempty"`
	Gate  bool              `json:"gate,omitempty"`
	SGate bool              `json:"sgate,omitempty"`
	Lag   int               `json:"lag,omitempty"`
	Ops   []Op              `json:"ops,omitempty"`
	Steps []Step            `json:"steps,omitempty"`
}

type Script struct {
	Config    Config `json:"config"`
	Histories [][]Op `json:"histories"`
}

func at(t int64) time.Time { return time.Unix(0, 0).Add(time.Duration(baseTicks+t) * tick) }

type memCache = utils.MemoryCache[string, string]

type runner struct {
	cfg    Config
	clk    *c12q.Clock
	cache  *remedies.CachingPlugin
	ccfg   *sharedConfig.CachingConfig
	thr    *remedies.ResponseBasedThrottlingPlugin
	tcfg   *sharedConfig.ResponseBasedThrottlingConfig
	mem    *memCache
	mu     sync.Mutex
	bodies map[string]string // tag -> body handed to the real code
	gates  map[string]*gate  // tag -> gate of a running gated response op
	sgates map[string]*gate  // cache key -> gate of a writer held in the size function (typ mem)
}

type gate struct {
	reached chan struct{}
	release chan struct{}
	done    chan struct{}
	once    sync.Once
	tag     string // value tag of the held writer
}

// sizeGate is a yield point inside the size function the harness hands to MemoryCache: a writer ("sgate") is held while
// it measures the entry it is about to replace - wherever the code under test does that, under its lock or outside it.
func (rn *runner) sizeGate(key, value string) {
	rn.mu.Lock()
	g := rn.sgates[key]
	rn.mu.Unlock()
	if g == nil || tagOf(value) == g.tag {
		return // not held, or the writer measures its own new value
	}
	buf := make([]byte, 8192)
	st := string(buf[:runtime.Stack(buf, false)])
	if strings.Contains(st, "clearKey") { // the clean-up goroutine measuring what it removes
		return
	}
	g.once.Do(func() { close(g.reached) })
	<-g.release
}

func tagOf(body string) string {
	if i := strings.IndexByte(body, '|'); i >= 0 {
		return body[:i]
	}
	return "?"
}

// sink of the yield points: a gated response op blocks at cache.set.checked until released.
func (rn *runner) sink(point string, kv ...any) {
	if point != "cache.set.checked" || len(kv) < 4 {
		return
	}
	var body string
	switch v := kv[3].(type) {
	case remedies.CachedResponse:
		body = v.Body
	case string:
		body = v
	default:
		return
	}
	rn.mu.Lock()
	g := rn.gates[tagOf(body)]
	rn.mu.Unlock()
	if g == nil {
		return
	}
	g.once.Do(func() { close(g.reached) })
	<-g.release
}

func (rn *runner) fresh(now int64) {
	if rn.clk != nil { // let the background goroutines of the previous instance run out
		rn.clk.Set(rn.clk.Now().Add(10000 * time.Hour))
		rn.quiesce("drain")
	}
	rn.clk = c12q.NewClock(at(now))
	rn.bodies = map[string]string{}
	rn.gates = map[string]*gate{}
	rn.sgates = map[string]*gate{}
	rn.cache, rn.thr, rn.mem = nil, nil, nil
	switch rn.cfg.Typ {
	case "cache":
		rn.cache = remedies.NewCachingPlugin(rn.clk)
		var paths []sharedConfig.PayloadPath
		for _, s := range rn.cfg.Sel {
			paths = append(paths, sharedConfig.PayloadPath{
				PayloadType: sharedConfig.PayloadRequestPathParams.String(), Path: s,
			})
		}
		rn.ccfg = &sharedConfig.CachingConfig{
			RequestPayloadPaths:   paths,
			TTLSeconds:            float32(rn.cfg.Ttl) / perSec,
			MaxRecordSizeBytes:    64 * unit,
			MaxCacheSizeMegabytes: float32(rn.cfg.Max) / 1024,
		}
	case "rel", "abs":
		rn.thr = remedies.NewResponseBasedThrottlingPlugin(rn.clk)
		t := sharedConfig.RetryAfterRelativeSeconds
		if rn.cfg.Typ == "abs" {
			t = sharedConfig.RetryAfterAbsoluteEpoch
		}
		rn.tcfg = &sharedConfig.ResponseBasedThrottlingConfig{
			RetryAfterHeader: rn.hdrName(), RetryAfterType: t, RelevantStatuses: rn.cfg.Relevant,
		}
	case "mem":
		rn.mem = utils.NewMemoryCache[string, string](rn.clk)
		if rn.cfg.Max >= 0 {
			rn.mem.WithMaxCacheSize(func(k, v string) float64 {
				rn.sizeGate(k, v)
				return float64(len(k)+len(v)) / 1024 / 1024
			}, float64(rn.cfg.Max)/1024)
		}
	default:
		vh.Die("unknown typ %q", rn.cfg.Typ)
	}
	verifhook.SetSink(rn.sink)
}

// name of the retry-after header as the policy spells it
func (rn *runner) hdrName() string {
	if rn.cfg.HdrName != "" {
		return rn.cfg.HdrName
	}
	return hdrName
}

func otherCase(s string) string {
	if l := strings.ToLower(s); l != s {
		return l
	}
	return strings.ToUpper(s)
}

func (rn *runner) memKey(o Op) string {
	parts := []string{o.M, o.U}
	for _, s := range rn.cfg.Sel {
		parts = append(parts, o.PP[s])
	}
	return strings.Join(parts, "\x00")
}

// header value (seconds, as the provider would send it) of a retry-after given in ticks
func (rn *runner) hdrString(ticks int64) string {
	if rn.cfg.Typ == "abs" {
		ticks += baseTicks
	}
	return strconv.FormatFloat(float64(ticks)/perSec, 'f', -1, 64)
}

// ticks of a replayed retry-after header; -777 when it is not a whole number of ticks
func (rn *runner) hdrTicks(s string) int64 {
	f, err := strconv.ParseFloat(s, 64)
	if err != nil {
		return -778
	}
	t := f * perSec
	if math.Abs(t-math.Round(t)) > 1e-6 {
		return -777
	}
	n := int64(math.Round(t))
	if rn.cfg.Typ == "abs" {
		n -= baseTicks
	}
	return n
}

const txnID = "txn"

// body of the given tag padded so that the footprint the real size function measures is exactly sz units
func (rn *runner) body(o Op, headers map[string]string) string {
	overhead := 0
	switch rn.cfg.Typ {
	case "cache":
		overhead = len(o.M) + len(o.U) + 64 + len(txnID) + 4 + 8
		for k, v := range headers {
			overhead += len(k) + len(v)
		}
	case "mem":
		overhead = len(rn.memKey(o))
	default:
		return o.V + "|"
	}
	n := o.Sz*unit - overhead - len(o.V) - 1
	if n < 0 {
		vh.Die("size %d units too small for tag %q", o.Sz, o.V)
	}
	return o.V + "|" + strings.Repeat("x", n)
}

func (rn *runner) snapshot() (int64, int) {
	var cur float64
	var n int
	switch {
	case rn.cache != nil:
		mc, ok := rn.cache.VerifCache().(*utils.MemoryCache[remedies.CachingPluginKey, remedies.CachedResponse])
		if !ok {
			return -1, -1
		}
		cur, n = mc.VerifSnapshot()
	case rn.mem != nil:
		cur, n = rn.mem.VerifSnapshot()
	default:
		return -1, -1
	}
	u := cur * 1024
	if math.Abs(u-math.Round(u)) > 1e-9 {
		return -2, n
	}
	return int64(math.Round(u)), n
}

func (rn *runner) doResp(o Op) {
	headers := map[string]string{"Content-Type": "text/plain"}
	switch o.HH {
	case 1: // spelled as in the policy
		headers[rn.hdrName()] = rn.hdrString(o.Hdr)
	case 2: // the same header in another letter case
		headers[otherCase(rn.hdrName())] = rn.hdrString(o.Hdr)
	}
	body := rn.body(o, headers)
	rn.mu.Lock()
	rn.bodies[o.V] = body
	rn.mu.Unlock()
	switch {
	case rn.cache != nil:
		_, err := rn.cache.OnResponse(lunarMessages.OnResponse{
			ID: txnID, Method: o.M, URL: o.U, Status: o.St, Headers: headers, Body: body,
		}, rn.ccfg, o.PP)
		if err != nil {
			vh.Die("OnResponse: %v", err)
		}
	case rn.thr != nil:
		_, err := rn.thr.OnResponse(lunarMessages.OnResponse{
			ID: txnID, Method: o.M, URL: o.U, Status: o.St, Headers: headers, Body: body,
		}, rn.tcfg)
		if err != nil {
			vh.Die("OnResponse: %v", err)
		}
	case rn.mem != nil:
		_ = rn.mem.Set(rn.memKey(o), body, float64(o.Hdr)/perSec)
	}
}

type out struct {
	kind string
	rv   string
	rst  int
	rhdr int64
}

func (rn *runner) project(status int, body string, headers map[string]string) out {
	tag := tagOf(body)
	rn.mu.Lock()
	orig, known := rn.bodies[tag]
	rn.mu.Unlock()
	if !known || orig != body {
		tag = "corrupt:" + tag
	}
	res := out{kind: "replay", rv: tag, rst: status, rhdr: -1}
	if rn.thr != nil {
		res.rhdr = -779 // header names are not case sensitive: any spelling of the retry-after header counts
		for k, h := range headers {
			if strings.EqualFold(k, rn.hdrName()) {
				res.rhdr = rn.hdrTicks(h)
			}
		}
	}
	return res
}

func (rn *runner) doReq(o Op) out {
	var a actions.ReqLunarAction
	var err error
	switch {
	case rn.cache != nil:
		a, err = rn.cache.OnRequest(lunarMessages.OnRequest{ID: txnID, Method: o.M, URL: o.U}, rn.ccfg, o.PP)
	case rn.thr != nil:
		a, err = rn.thr.OnRequest(lunarMessages.OnRequest{ID: txnID, Method: o.M, URL: o.U}, rn.tcfg)
	case rn.mem != nil:
		v, found := rn.mem.Get(rn.memKey(o))
		if !found {
			return out{kind: "noop", rhdr: -1}
		}
		return rn.project(200, v, nil)
	}
	if err != nil {
		return out{kind: "error:" + err.Error(), rhdr: -1}
	}
	switch v := a.(type) {
	case *actions.NoOpAction:
		return out{kind: "noop", rhdr: -1}
	case *actions.EarlyResponseAction:
		return rn.project(v.Status, v.Body, v.Headers)
	default:
		return out{kind: fmt.Sprintf("other:%T", a), rhdr: -1}
	}
}

func pp(o Op) map[string]string {
	if o.PP == nil {
		return map[string]string{}
	}
	return o.PP
}

func (rn *runner) event(name string, o Op, res *out) vh.Ev {
	e := vh.Ev{"ev": name, "m": o.M, "u": o.U, "pp": pp(o)}
	if res == nil {
		e["v"], e["st"], e["hh"], e["hdr"], e["sz"] = o.V, o.St, o.HH, o.Hdr, o.Sz
	} else {
		e["out"], e["rv"], e["rst"], e["rhdr"] = res.kind, res.rv, res.rst, res.rhdr
	}
	return e
}

func (rn *runner) quiesce(what string) {
	if !c12q.Quiesce(patience) {
		vh.Die("no quiescence after %s", what)
	}
}

// runs one op of a concurrent group; begin is stamped at invocation, end at return
func (rn *runner) concurrent(tr *vh.Trace, id int, o Op) {
	b := tr.Stamp()
	var e vh.Ev
	if o.Op == "resp" {
		rn.doResp(o)
		e = rn.event("begin", o, nil)
	} else {
		res := rn.doReq(o)
		e = rn.event("begin", o, &res)
	}
	e["id"], e["op"] = id, o.Op
	tr.AddAt(b, e)
	tr.Add(vh.Ev{"ev": "end", "id": id})
}

func main() {
	vh.Quiet()
	if len(os.Args) != 4 || os.Args[1] != "run" {
		vh.Die("usage: c12 run <scripts.json> <outdir>")
	}
	var scripts []Script
	vh.ReadJSON(os.Args[2], &scripts)
	id := 0
	for si, sc := range scripts {
		tr := vh.NewTrace()
		sel := sc.Config.Sel
		if sel == nil {
			sel = []string{}
		}
		rel := sc.Config.Relevant
		if rel == nil {
			rel = []int{}
		}
		tr.Add(vh.Ev{"ev": "config", "typ": sc.Config.Typ, "ttl": sc.Config.Ttl, "max": sc.Config.Max,
			"sel": sel, "relevant": rel})
		rn := &runner{cfg: sc.Config}
		for _, h := range sc.Histories {
			var now int64
			for _, e := range h {
				switch e.Ev {
				case "reset":
					now = e.Now
					rn.fresh(now)
					tr.Add(vh.Ev{"ev": "reset", "now": now})
				case "adv":
					// lag=1: the time moves but the goroutines sleeping on the clock are not woken yet
					now += e.D
					rn.clk.SetNow(at(now))
					cur, n := rn.snapshot()
					tr.Add(vh.Ev{"ev": "adv", "d": e.D, "lag": e.Lag, "cur": cur, "n": n})
					if e.Lag == 0 && rn.clk.FireDue() > 0 {
						rn.quiesce("adv")
						cur, n = rn.snapshot()
						tr.Add(vh.Ev{"ev": "fire", "cur": cur, "n": n})
					}
				case "fire":
					if rn.clk.FireDue() > 0 {
						rn.quiesce("fire")
						cur, n := rn.snapshot()
						tr.Add(vh.Ev{"ev": "fire", "cur": cur, "n": n})
					}
				case "resp":
					rn.doResp(e)
					rn.quiesce("resp")
					ev := rn.event("resp", e, nil)
					ev["cur"], ev["n"] = rn.snapshot()
					tr.Add(ev)
				case "req":
					res := rn.doReq(e)
					rn.quiesce("req")
					ev := rn.event("req", e, &res)
					ev["cur"], ev["n"] = rn.snapshot()
					tr.Add(ev)
				case "conc":
					var wg sync.WaitGroup
					start := make(chan struct{})
					for _, o := range e.Ops {
						id++
						wg.Add(1)
						go func(i int, o Op) {
							defer wg.Done()
							<-start
							rn.concurrent(tr, i, o)
						}(id, o)
					}
					close(start)
					wg.Wait()
					rn.quiesce("conc")
				case "sched":
					gs := make([]*gate, len(e.Ops))
					for _, st := range e.Steps {
						if st.A == "fire" { // wake the sleeping clean-up goroutines in the middle of the schedule
							if rn.clk.FireDue() > 0 {
								rn.quiesce("sched fire")
								cur, n := int64(-1), -1
								rn.mu.Lock()
								holding := len(rn.sgates) > 0 // a writer held in the size function may hold the cache's lock
								rn.mu.Unlock()
								if !holding {
									cur, n = rn.snapshot()
								}
								tr.Add(vh.Ev{"ev": "fire", "cur": cur, "n": n})
							}
							continue
						}
						if st.I < 0 || st.I >= len(e.Ops) {
							vh.Die("sched: bad op index %d", st.I)
						}
						o := e.Ops[st.I]
						switch st.A {
						case "start":
							g := &gate{reached: make(chan struct{}), release: make(chan struct{}), done: make(chan struct{})}
							gs[st.I] = g
							if o.Op == "resp" && o.Gate {
								rn.mu.Lock()
								rn.gates[o.V] = g
								rn.mu.Unlock()
							}
							if o.Op == "resp" && o.SGate && rn.mem != nil {
								g.tag = o.V
								rn.mu.Lock()
								rn.sgates[rn.memKey(o)] = g
								rn.mu.Unlock()
							}
							id++
							go func(i int, o Op, g *gate) {
								rn.concurrent(tr, i, o)
								close(g.done)
							}(id, o, g)
							select {
							case <-g.reached:
							case <-g.done:
							case <-time.After(patience):
								vh.Die("sched: op %d neither reached the gate nor returned", st.I)
							}
						case "release":
							g := gs[st.I]
							if g == nil {
								vh.Die("sched: release before start of op %d", st.I)
							}
							rn.mu.Lock()
							for k, x := range rn.sgates {
								if x == g {
									delete(rn.sgates, k)
								}
							}
							rn.mu.Unlock()
							select {
							case <-g.release:
							default:
								close(g.release)
							}
							select {
							case <-g.done:
							case <-time.After(patience):
								vh.Die("sched: op %d did not return after release", st.I)
							}
						default:
							vh.Die("sched: unknown step %q", st.A)
						}
					}
					for i, g := range gs {
						if g == nil {
							continue
						}
						select {
						case <-g.release:
						default:
							close(g.release)
						}
						select {
						case <-g.done:
						case <-time.After(patience):
							vh.Die("sched: op %d did not return", i)
						}
					}
					rn.mu.Lock()
					rn.gates = map[string]*gate{}
					rn.sgates = map[string]*gate{}
					rn.mu.Unlock()
					rn.quiesce("sched")
				default:
					vh.Die("unknown event %q", e.Ev)
				}
			}
		}
		tr.Write(filepath.Join(os.Args[3], fmt.Sprintf("trace-%03d.ndjson", si)))
	}
}
