// c08: executes configuration-update cases against the real HTTP handlers of
// routing.HandlingDataManager (PUT /configuration, PUT /apply_flows) and records
// what the real code did, as one NDJSON trace for TLC.  Pure executor: no verdicts.
//
//	c08 run <cases.json> <outdir>
//
// cases.json: {"cases":[Case,...]}            (see type Case)
// outdir/trace.ndjson: line 1 {"ev":"config",...}; per case a history
//
// (the tree also holds default_metrics.yaml, the gateway's built-in default metrics file: never part of a payload, not backed up)
//
//	{"ev":"reset","case":id,"endpoint":..,"method":..,"disk":{path:tag},"tree":sha,"payload":{path:tag},"decodable":b,"badb64":[..],
//	 "keep":b}   keep = next update of a history on the same gateway: "disk" is what the previous update left
//	{"ev":"probe","ph":"req|resp","txn":k,"served":{flowpath:tag}}   probe transactions through the ACTIVE engine
//	{"ev":"call"}                                                    handler invoked
//	{"ev":"fs","op":"store|remove","path":p}                         file-system step reached (hook fs.store / fs.remove)
//	{"ev":"hook","point":"published|initialized"}                   switch points of initializeStreams
//	{"ev":"haproxy","n":i,"code":c}                                  call to the (fake) HAProxy admin API, i-th PUT
//	{"ev":"fault","point":..}                                        injected failure fired here
//	{"ev":"status","code":c}                                         handler called WriteHeader(c)
//
// outdir/trace-conc.ndjson: cases with "updates" (overlapping requests, see runConc): reset{disk,tree,ups,sched}, call{u},
// gate{u,point,path}, status{u,code}, reply{u,code}, probe{served} after every step, quiet{disk,tree,served} at the end
//
//	{"ev":"reply","code":c,"ok":b,"disk":{path:tag},"tree":sha,"loaded":{pp path:tag}}   handler returned; loaded = which
//	     version of every path-parameter file the engine loaded last (reset carries the same field)
//
// The process re-executes itself once with the environment the engine reads at
// package-initialisation time (ports of the HAProxy admin API).
package main

import (
	"bytes"
	"crypto/sha256"
	"encoding/base64"
	"encoding/hex"
	"encoding/json"
	"errors"
	"fmt"
	"io"
	"net"
	"net/http"
	"net/http/httptest"
	"os"
	"path/filepath"
	"runtime"
	"sort"
	"strconv"
	"strings"
	"sync"
	"sync/atomic"
	"syscall"
	"time"

	"lunar/engine/actions"
	lunar_messages "lunar/engine/messages"
	"lunar/engine/routing"
	"lunar/engine/runner"
	"lunar/engine/streams"
	stream_config "lunar/engine/streams/config"
	lunar_context "lunar/engine/streams/lunar-context"
	public_types "lunar/engine/streams/public-types"
	stream_types "lunar/engine/streams/types"
	"lunar/toolkit-core/verifhook"

	"verifharness/internal/vh"
)

type Fault struct {
	Point string `json:"point"` // fs.store | fs.remove | hdm.initialize | haproxy | health
	Nth   int    `json:"nth"`   // the n-th occurrence after the handler was called fails (once)
}

type Case struct {
	ID       int               `json:"id"`
	Endpoint string            `json:"endpoint"` // configuration | apply_flows
	Method   string            `json:"method"`   // PUT (default) or another verb
	Disk     map[string]string `json:"disk"`     // rel path -> abstract content tag ("none" = absent)
	Payload  map[string]string `json:"payload"`  // rel path -> tag
	Raw      string            `json:"raw"`      // if set: body sent verbatim (undecodable payloads)
	BadB64   []string          `json:"badb64"`   // payload paths whose base64 text is corrupted
	Fault    *Fault            `json:"fault"`
	Conc     int               `json:"conc"` // >0: that many goroutines run probe transactions during the update
	Keep     bool              `json:"keep"` // next update of a HISTORY: tree, engine and handler state stay as the previous update left them
	// overlapping updates: every update is sent by its own goroutine, which stops at every yield point (hooks fs.remove =
	// before each file operation, hdm.initialized, hdm.published); Sched names the update that is let go next
	Updates []CUpd   `json:"updates"`
	Sched   []string `json:"sched"`
}

type CUpd struct {
	Key      string            `json:"key"`
	Endpoint string            `json:"endpoint"`
	Payload  map[string]string `json:"payload"`
}

type Script struct {
	Cases []Case `json:"cases"`
}

// ---------------------------------------------------------------- abstract contents

var flowFiles = []string{"flows/a.yaml", "flows/b.yaml", "flows/c.yaml"}

const hdrName = "x-ver"

func flowLetter(rel string) string {
	return strings.TrimSuffix(filepath.Base(rel), ".yaml")
}

func flowYAML(letter, tag string) string {
	if tag == "bad" { // parses as YAML, fails flow validation (edge to an undeclared processor)
		return fmt.Sprintf(`name: flow_%s
filter:
  url: api.test/%s
  method: [GET]
processors:
  tagReq:
    processor: TransformAPICall
    parameters:
      - key: set
        value:
          "$.request.headers['%s']": "%s:bad"
flow:
  request:
    - from:
        stream:
          name: globalStream
          at: start
      to:
        processor:
          name: missingProcessor
    - from:
        processor:
          name: missingProcessor
      to:
        stream:
          name: globalStream
          at: end
  response:
    - from:
        stream:
          name: globalStream
          at: start
      to:
        stream:
          name: globalStream
          at: end
`, letter, letter, hdrName, letter)
	}
	if tag == "junk" { // not YAML at all
		return "}{ this is : not [ a flow\n\t- x"
	}
	return fmt.Sprintf(`name: flow_%s
filter:
  url: api.test/%s
  method: [GET]
processors:
  tagReq:
    processor: TransformAPICall
    parameters:
      - key: set
        value:
          "$.request.headers['%s']": "%s:%s"
  tagResp:
    processor: TransformAPICall
    parameters:
      - key: set
        value:
          "$.response.headers['%s']": "%s:%s"
flow:
  request:
    - from:
        stream:
          name: globalStream
          at: start
      to:
        processor:
          name: tagReq
    - from:
        processor:
          name: tagReq
      to:
        stream:
          name: globalStream
          at: end
  response:
    - from:
        stream:
          name: globalStream
          at: start
      to:
        processor:
          name: tagResp
    - from:
        processor:
          name: tagResp
      to:
        stream:
          name: globalStream
          at: end
`, letter, letter, hdrName, letter, tag, hdrName, letter, tag)
}

var metricsBase []byte

// content returns the concrete bytes of an abstract (path, tag).
func content(rel, tag string) []byte {
	switch tag { // legal placeholders: a zero-length file, a whitespace-only file, a comment-only file
	case "e0":
		return []byte{}
	case "ws":
		return []byte(" \n  \n")
	case "cm":
		return []byte("# placeholder\n")
	}
	switch {
	case strings.HasPrefix(rel, "flows/"):
		return []byte(flowYAML(flowLetter(rel), tag))
	case rel == "gateway_config.yaml":
		if tag == "gbad" {
			return []byte("allowed_domains: [a, b\n  - : :\n\t}")
		}
		return []byte("# gateway config " + tag + "\nallowed_domains: []\nblocked_domains: []\n")
	case rel == "default_metrics.yaml": // the gateway's built-in default metrics file (read when the user's file is absent)
		if tag == "d1" {
			return append([]byte("# built-in default metrics config\n"), metricsBase...)
		}
		return content("metrics.yaml", tag) // a pushed metrics config that landed here
	case rel == "metrics.yaml":
		if tag == "mbad" {
			return []byte("general_metrics: [unclosed\n\t}: x")
		}
		return append([]byte("# metrics config "+tag+"\n"), metricsBase...)
	case strings.HasPrefix(rel, "quotas/"):
		return []byte("# quota file " + tag + "\nquotas: []\n")
	case strings.HasPrefix(rel, "path_params/"):
		// the engine loads path-parameter files recursively and writes every URL it loaded into the file named by
		// LUNAR_FLOWS_PATH_PARAM_CONFIG: the URL tells which version of which file is loaded
		return []byte("# path params " + tag + "\npath_params:\n  - url: pp.test/" + ppSlug(rel) + "/" + tag + "/{id}\n")
	}
	return []byte(tag)
}

func ppSlug(rel string) string {
	return strings.TrimSuffix(filepath.Base(rel), ".yaml")
}

// files of the universe besides the three probed flows; nested ones live in a sub-directory (flows and quotas are read
// from the top level only - a nested file there is inert for the engine but still part of the tree; path parameters are
// read recursively)
var ppFiles = []string{"path_params/p.yaml", "path_params/team/np.yaml", "path_params/a.yaml"}
var universeCat = map[string]int{
	"flows/a.yaml": 1, "flows/b.yaml": 1, "flows/c.yaml": 1, "flows/team/n.yaml": 1,
	"quotas/q.yaml": 2, "quotas/team/nq.yaml": 2, "path_params/p.yaml": 3, "path_params/team/np.yaml": 3,
	"quotas/a.yaml": 2, "path_params/a.yaml": 3, // the same base name as flows/a.yaml in the other directories
	"gateway_config.yaml": 4, "metrics.yaml": 5, "default_metrics.yaml": 6}
var inertFiles = []string{"flows/team/n.yaml", "quotas/team/nq.yaml"}

var allTags = []string{"e0", "ws", "cm", "d1", "v1", "v2", "v3", "bad", "junk", "g1", "g2", "gbad", "m1", "m2", "mbad", "q1", "q2", "p1", "p2"}

// ---------------------------------------------------------------- executor state

type exec struct {
	root       string
	dm         *routing.HandlingDataManager
	mux        *http.ServeMux
	tr         *vh.Trace
	shared     public_types.SharedStateI[[]byte]
	inCall     atomic.Bool
	mu         sync.Mutex
	fault      *Fault
	count      map[string]int
	fired      bool
	txn        int
	pending    int // txn whose request phase ran at the previous observation point (0 = none)
	hap        *fakeHAProxy
	quiet      bool // hooks do not probe (concurrent cases)
	healthFail int
	trc        *vh.Trace // overlapping-update cases (their own trace, judged by CfgConcTrace)
	gmu        sync.Mutex
	gates      map[uint64]*gated
}

// one overlapping update: its goroutine parks at every yield point until the driver lets it go
type gated struct {
	key     string
	started bool
	park    chan struct{}
	release chan struct{}
	done    chan struct{}
}

func goid() uint64 {
	var buf [64]byte
	n := runtime.Stack(buf[:], false)
	var id uint64
	for _, c := range buf[len("goroutine "):n] {
		if c < '0' || c > '9' {
			break
		}
		id = id*10 + uint64(c-'0')
	}
	return id
}

func (x *exec) abs(rel string) string { return filepath.Join(x.root, rel) }

func (x *exec) snapshot() (map[string]string, string) {
	type ent struct {
		rel string
		b   []byte
	}
	var ents []ent
	_ = filepath.Walk(x.root, func(p string, info os.FileInfo, err error) error {
		if err != nil || info.IsDir() {
			return nil
		}
		b, _ := os.ReadFile(p)
		rel, _ := filepath.Rel(x.root, p)
		ents = append(ents, ent{rel, b})
		return nil
	})
	sort.Slice(ents, func(i, j int) bool { return ents[i].rel < ents[j].rel })
	h := sha256.New()
	disk := map[string]string{}
	for _, e := range ents {
		fmt.Fprintf(h, "%s\x00%d\x00", e.rel, len(e.b))
		h.Write(e.b)
		tag := ""
		for _, t := range allTags {
			if bytes.Equal(content(e.rel, t), e.b) {
				tag = t
				break
			}
		}
		if tag == "" {
			s := sha256.Sum256(e.b)
			tag = "?" + hex.EncodeToString(s[:4])
		}
		disk[e.rel] = tag
	}
	return disk, hex.EncodeToString(h.Sum(nil))
}

func (x *exec) writeDisk(disk map[string]string) {
	for _, d := range []string{"flows", "quotas", "path_params"} {
		os.RemoveAll(x.abs(d))
		if err := os.MkdirAll(x.abs(d), 0o755); err != nil {
			vh.Die("mkdir: %v", err)
		}
	}
	os.Remove(x.abs("gateway_config.yaml"))
	os.Remove(x.abs("metrics.yaml"))
	os.Remove(x.abs("default_metrics.yaml"))
	if _, ok := disk["default_metrics.yaml"]; !ok {
		if err := os.WriteFile(x.abs("default_metrics.yaml"), content("default_metrics.yaml", "d1"), 0o644); err != nil {
			vh.Die("write default metrics: %v", err)
		}
	}
	for rel, tag := range disk {
		if tag == "none" {
			continue
		}
		if err := os.MkdirAll(filepath.Dir(x.abs(rel)), 0o755); err != nil {
			vh.Die("mkdir: %v", err)
		}
		if err := os.WriteFile(x.abs(rel), content(rel, tag), 0o644); err != nil {
			vh.Die("write %s: %v", rel, err)
		}
	}
}

// which version of every path-parameter file the engine loaded last (read from the file it generates on every load)
func (x *exec) loaded() map[string]string {
	out := map[string]string{}
	for _, rel := range ppFiles {
		out[rel] = "none"
	}
	b, err := os.ReadFile(os.Getenv("LUNAR_FLOWS_PATH_PARAM_CONFIG"))
	if err != nil {
		return out
	}
	for _, line := range strings.Split(string(b), "\n") {
		i := strings.Index(line, "pp.test/")
		if i < 0 {
			continue
		}
		parts := strings.Split(strings.TrimSpace(line[i:]), "/")
		if len(parts) < 3 {
			continue
		}
		for _, rel := range ppFiles {
			if ppSlug(rel) == parts[1] {
				if out[rel] != "none" && out[rel] != parts[2] {
					out[rel] = "both"
				} else {
					out[rel] = parts[2]
				}
			}
		}
	}
	return out
}

// one probe transaction phase through the engine that is active right now
func (x *exec) probePhase(st *streams.Stream, phase string, txn int) map[string]string {
	served := map[string]string{}
	for _, rel := range flowFiles {
		served[rel] = x.probeOne(st, phase, txn, flowLetter(rel))
	}
	return served
}

func (x *exec) probeOne(st *streams.Stream, phase string, txn int, letter string) (res string) {
	defer func() {
		if r := recover(); r != nil {
			res = "panic"
		}
	}()
	if st == nil {
		return "nil-engine"
	}
	id := fmt.Sprintf("probe-%d-%s", txn, letter)
	acts := &stream_config.StreamActions{
		Request:  &stream_config.RequestStream{},
		Response: &stream_config.ResponseStream{},
	}
	hdrs := map[string]string{"host": "api.test", "content-type": "application/json"}
	if phase == "req" {
		api := stream_types.NewRequestAPIStream(lunar_messages.OnRequest{
			ID: id, SequenceID: id, Method: "GET", Scheme: "https", URL: "api.test/" + letter,
			Path: "/" + letter, Headers: hdrs, RawBody: []byte("{}"), Body: "{}", Time: time.Now(),
		}, x.shared)
		if err := runner.RunFlow(st, api, acts); err != nil {
			return "error"
		}
		for _, a := range acts.Request.Actions {
			if m, ok := a.(*actions.ModifyRequestAction); ok {
				if v, ok := m.HeadersToSet[hdrName]; ok {
					return tagOf(v, letter)
				}
			}
		}
		return "none"
	}
	api := stream_types.NewResponseAPIStream(lunar_messages.OnResponse{
		ID: id, SequenceID: id, Method: "GET", URL: "api.test/" + letter, Status: 200,
		Headers: hdrs, RawBody: []byte("{}"), Body: "{}", Time: time.Now(),
	}, x.shared)
	if err := runner.RunFlow(st, api, acts); err != nil {
		return "error"
	}
	for _, a := range acts.Response.Actions {
		if m, ok := a.(*actions.ModifyResponseAction); ok {
			if v, ok := m.HeadersToSet[hdrName]; ok {
				return tagOf(v, letter)
			}
		}
	}
	return "none"
}

func tagOf(v, letter string) string {
	if strings.HasPrefix(v, letter+":") {
		return strings.TrimPrefix(v, letter+":")
	}
	return "foreign:" + v
}

// observe: the response phase of the transaction opened at the previous observation point, then the
// request phase of a new transaction - all through whatever engine is active at this very moment.
func (x *exec) observe() {
	st := x.dm.VerifActiveStream()
	if x.pending != 0 {
		x.tr.Add(vh.Ev{"ev": "probe", "ph": "resp", "txn": x.pending, "served": x.probePhase(st, "resp", x.pending)})
	}
	x.txn++
	x.pending = x.txn
	x.tr.Add(vh.Ev{"ev": "probe", "ph": "req", "txn": x.txn, "served": x.probePhase(st, "req", x.txn)})
}

func (x *exec) rel(p string) string {
	r, err := filepath.Rel(x.root, p)
	if err != nil {
		return p
	}
	return r
}

func (x *exec) sink(point string, kv ...any) {
	if point == "fs.remove" || point == "hdm.initialized" || point == "hdm.published" {
		x.gmu.Lock()
		g := x.gates[goid()]
		x.gmu.Unlock()
		if g != nil { // yield point of an overlapping update
			ev := vh.Ev{"ev": "gate", "u": g.key, "point": point}
			if len(kv) >= 2 {
				if p, ok := kv[1].(string); ok {
					ev["path"] = x.rel(p)
				}
			}
			x.trc.Add(ev)
			g.park <- struct{}{}
			<-g.release
			return
		}
	}
	if !x.inCall.Load() {
		return
	}
	switch point {
	case "fs.store", "fs.remove":
		p := ""
		if len(kv) >= 2 {
			p, _ = kv[1].(string)
		}
		x.tr.Add(vh.Ev{"ev": "fs", "op": strings.TrimPrefix(point, "fs."), "path": x.rel(p)})
	case "hdm.published", "hdm.initialized":
		x.tr.Add(vh.Ev{"ev": "hook", "point": strings.TrimPrefix(point, "hdm.")})
		if !x.quiet {
			x.observe()
		}
	}
}

func (x *exec) faultFn(point string) error {
	if !x.inCall.Load() {
		return nil
	}
	x.mu.Lock()
	defer x.mu.Unlock()
	x.count[point]++
	if x.fault != nil && !x.fired && x.fault.Point == point && x.count[point] == x.fault.Nth {
		x.fired = true
		x.tr.Add(vh.Ev{"ev": "fault", "point": point})
		return errors.New("verif: injected failure at " + point)
	}
	return nil
}

// ---------------------------------------------------------------- fake HAProxy admin API

type fakeHAProxy struct {
	x *exec
}

func (f *fakeHAProxy) ServeHTTP(w http.ResponseWriter, r *http.Request) {
	io.Copy(io.Discard, r.Body)
	x := f.x
	if strings.HasPrefix(r.URL.Path, "/healthcheck") {
		if x.inCall.Load() {
			x.mu.Lock()
			if x.fault != nil && x.fault.Point == "health" && !x.fired {
				x.fired = true
				x.healthFail = 40 // one whole WaitForProxyHealthcheck (40 attempts, 250 ms apart) fails
				x.tr.Add(vh.Ev{"ev": "fault", "point": "health"})
			}
			fail := x.healthFail > 0
			if fail {
				x.healthFail--
			}
			x.mu.Unlock()
			if fail {
				w.WriteHeader(500)
				return
			}
		}
		w.WriteHeader(200)
		w.Write([]byte("OK\n")) // the engine's health check fails on an empty body
		return
	}
	if r.Method == http.MethodDelete || !x.inCall.Load() { // delayed unmanage calls of earlier reloads: not part of the update
		w.WriteHeader(200)
		return
	}
	x.mu.Lock()
	x.count["haproxy"]++
	n := x.count["haproxy"]
	code := 200
	if x.fault != nil && !x.fired && x.fault.Point == "haproxy" && n == x.fault.Nth {
		x.fired = true
		code = 500
	}
	x.tr.Add(vh.Ev{"ev": "haproxy", "n": n, "code": code})
	if code != 200 {
		x.tr.Add(vh.Ev{"ev": "fault", "point": "haproxy"})
	}
	x.mu.Unlock()
	w.WriteHeader(code)
}

// ---------------------------------------------------------------- response writer that reports WriteHeader calls

type rw struct {
	x     *exec
	u     string // overlapping update this answer belongs to
	hdr   http.Header
	code  int
	body  bytes.Buffer
	wrote bool
}

func (w *rw) Header() http.Header { return w.hdr }
func (w *rw) WriteHeader(c int) {
	if w.u != "" {
		w.x.trc.Add(vh.Ev{"ev": "status", "u": w.u, "code": c})
	} else if w.x.inCall.Load() {
		w.x.tr.Add(vh.Ev{"ev": "status", "code": c})
	}
	if !w.wrote {
		w.wrote = true
		w.code = c
	}
}

func (w *rw) Write(b []byte) (int, error) {
	if !w.wrote {
		w.WriteHeader(200)
	}
	return w.body.Write(b)
}

// ---------------------------------------------------------------- one case

func (x *exec) body(c Case) []byte {
	if c.Raw != "" {
		return []byte(c.Raw)
	}
	bad := map[string]bool{}
	for _, p := range c.BadB64 {
		bad[p] = true
	}
	enc := func(rel, tag string) string {
		s := base64.StdEncoding.EncodeToString(content(rel, tag))
		if bad[rel] {
			return "%%%" + s
		}
		return s
	}
	out := map[string]any{}
	sub := func(key string) map[string]string {
		m, ok := out[key].(map[string]string)
		if !ok {
			m = map[string]string{}
			out[key] = m
		}
		return m
	}
	for rel, tag := range c.Payload {
		switch {
		case strings.HasPrefix(rel, "flows/"):
			sub("flows")[strings.TrimPrefix(rel, "flows/")] = enc(rel, tag)
		case strings.HasPrefix(rel, "quotas/"):
			sub("quotas")[strings.TrimPrefix(rel, "quotas/")] = enc(rel, tag)
		case strings.HasPrefix(rel, "path_params/"):
			sub("path_params")[strings.TrimPrefix(rel, "path_params/")] = enc(rel, tag)
		case rel == "gateway_config.yaml":
			out["gateway_config"] = enc(rel, tag)
		case rel == "metrics.yaml":
			out["metrics"] = enc(rel, tag)
		}
	}
	b, _ := json.Marshal(out)
	return b
}

func (x *exec) call(method, path string, body []byte) *rw {
	w := &rw{x: x, hdr: http.Header{}}
	req := httptest.NewRequest(method, path, bytes.NewReader(body))
	x.mux.ServeHTTP(w, req)
	return w
}

func (x *exec) runCase(c Case) {
	if c.Method == "" {
		c.Method = http.MethodPut
	}
	x.inCall.Store(false)
	if !c.Keep {
		// bring disk and engine to the "old" configuration through the real loader
		x.writeDisk(c.Disk)
		if w := x.call(http.MethodPost, "/load_flows", nil); w.code != 200 {
			vh.Die("case %d: baseline load failed: %d %s", c.ID, w.code, w.body.String())
		}
	}
	disk0, tree0 := x.snapshot()
	x.mu.Lock()
	x.fault, x.count, x.fired, x.healthFail = c.Fault, map[string]int{}, false, 0
	x.mu.Unlock()
	x.pending = 0
	x.quiet = c.Conc > 0
	payload := c.Payload
	if payload == nil {
		payload = map[string]string{}
	}
	badb64 := c.BadB64
	if badb64 == nil {
		badb64 = []string{}
	}
	fault := vh.Ev{"point": "none", "nth": 0}
	if c.Fault != nil {
		fault = vh.Ev{"point": c.Fault.Point, "nth": c.Fault.Nth}
	}
	x.tr.Add(vh.Ev{"ev": "reset", "case": c.ID, "endpoint": c.Endpoint, "method": c.Method, "disk": disk0, "tree": tree0,
		"payload": payload, "decodable": c.Raw == "", "badb64": badb64, "fault": fault, "keep": c.Keep, "loaded": x.loaded()})
	x.observe() // before the update

	var wg sync.WaitGroup
	stop := make(chan struct{})
	for g := 0; g < c.Conc; g++ {
		wg.Add(1)
		go func(g int) {
			defer wg.Done()
			k := 0
			for {
				select {
				case <-stop:
					return
				default:
				}
				k++
				txn := 1000*(g+1) + k
				st := x.dm.VerifActiveStream()
				x.tr.Add(vh.Ev{"ev": "probe", "ph": "req", "txn": txn, "served": x.probePhase(st, "req", txn)})
				st = x.dm.VerifActiveStream()
				x.tr.Add(vh.Ev{"ev": "probe", "ph": "resp", "txn": txn, "served": x.probePhase(st, "resp", txn)})
				if k >= 400 {
					return
				}
			}
		}(g)
	}

	x.tr.Add(vh.Ev{"ev": "call"})
	x.inCall.Store(true)
	w := x.call(c.Method, "/"+c.Endpoint, x.body(c))
	x.inCall.Store(false)
	close(stop)
	wg.Wait()
	disk1, tree1 := x.snapshot()
	if !w.wrote {
		w.code = 200
	}
	x.tr.Add(vh.Ev{"ev": "reply", "code": w.code, "ok": w.code >= 200 && w.code < 300, "disk": disk1, "tree": tree1, "loaded": x.loaded()})
	x.observe() // after the update: closes the in-flight transaction, opens one more
	x.observe() // and a transaction entirely after the update
}

// ---------------------------------------------------------------- overlapping updates

func (x *exec) runConc(c Case) {
	x.inCall.Store(false)
	x.mu.Lock()
	x.fault = nil
	x.mu.Unlock()
	x.writeDisk(c.Disk)
	if w := x.call(http.MethodPost, "/load_flows", nil); w.code != 200 {
		vh.Die("case %d: baseline load failed: %d %s", c.ID, w.code, w.body.String())
	}
	disk0, tree0 := x.snapshot()
	ups := vh.Ev{}
	gs := map[string]*gated{}
	for _, u := range c.Updates {
		pl := u.Payload
		if pl == nil {
			pl = map[string]string{}
		}
		ups[u.Key] = vh.Ev{"endpoint": u.Endpoint, "payload": pl}
		gs[u.Key] = &gated{key: u.Key, park: make(chan struct{}), release: make(chan struct{}), done: make(chan struct{})}
	}
	x.trc.Add(vh.Ev{"ev": "reset", "case": c.ID, "disk": disk0, "tree": tree0, "ups": ups, "sched": c.Sched})
	probe := func() {
		x.txn++
		x.trc.Add(vh.Ev{"ev": "probe", "served": x.probePhase(x.dm.VerifActiveStream(), "req", x.txn)})
	}
	probe()
	start := func(u CUpd) {
		g := gs[u.Key]
		g.started = true
		go func() {
			defer close(g.done)
			id := goid()
			x.gmu.Lock()
			x.gates[id] = g
			x.gmu.Unlock()
			defer func() {
				x.gmu.Lock()
				delete(x.gates, id)
				x.gmu.Unlock()
			}()
			x.trc.Add(vh.Ev{"ev": "call", "u": u.Key})
			w := &rw{x: x, u: u.Key, hdr: http.Header{}}
			x.mux.ServeHTTP(w, httptest.NewRequest(http.MethodPut, "/"+u.Endpoint,
				bytes.NewReader(x.body(Case{Payload: u.Payload}))))
			if !w.wrote {
				w.code = 200
			}
			x.trc.Add(vh.Ev{"ev": "reply", "u": u.Key, "code": w.code})
		}()
	}
	byKey := map[string]CUpd{}
	for _, u := range c.Updates {
		byKey[u.Key] = u
	}
	// let update k run to its next yield point (or to its answer)
	step := func(k string) {
		g := gs[k]
		if g == nil {
			return
		}
		select {
		case <-g.done:
			return
		default:
		}
		if !g.started {
			start(byKey[k])
		} else {
			g.release <- struct{}{}
		}
		select {
		case <-g.park:
		case <-g.done:
		case <-time.After(60 * time.Second):
			vh.Die("case %d: update %s neither reached a yield point nor answered", c.ID, k)
		}
		probe()
	}
	for _, k := range c.Sched {
		step(k)
	}
	for _, u := range c.Updates { // the schedule is over: the rest runs one update after the other
		for {
			select {
			case <-gs[u.Key].done:
			default:
				step(u.Key)
				continue
			}
			break
		}
	}
	disk1, tree1 := x.snapshot()
	x.txn++
	x.trc.Add(vh.Ev{"ev": "quiet", "disk": disk1, "tree": tree1,
		"served": x.probePhase(x.dm.VerifActiveStream(), "req", x.txn)})
}

// ---------------------------------------------------------------- main

func freePort() int {
	l, err := net.Listen("tcp", ":0")
	if err != nil {
		vh.Die("no free port: %v", err)
	}
	defer l.Close()
	return l.Addr().(*net.TCPAddr).Port
}

func main() {
	if len(os.Args) != 4 || os.Args[1] != "run" {
		vh.Die("usage: c08 run <cases.json> <outdir>")
	}
	outdir, _ := filepath.Abs(os.Args[3])
	root := filepath.Join(outdir, "root")
	if os.Getenv("VERIF_C08_CHILD") == "" {
		// stage 1: choose ports and directories, then re-exec: the engine reads the ports at package init
		port := strconv.Itoa(freePort())
		repo := os.Getenv("VERIF_REPO")
		if repo == "" {
			repo = "/repo"
		}
		env := map[string]string{
			"VERIF_C08_CHILD":                    "1",
			"LUNAR_STREAMS_ENABLED":              "true",
			"LUNAR_PROXY_FLOW_DIRECTORY":         filepath.Join(root, "flows"),
			"LUNAR_PROXY_QUOTAS_DIRECTORY":       filepath.Join(root, "quotas"),
			"LUNAR_FLOWS_PATH_PARAM_DIR":         filepath.Join(root, "path_params"),
			"LUNAR_PROXY_CONFIG":                 filepath.Join(root, "gateway_config.yaml"),
			"LUNAR_PROXY_METRICS_CONFIG":         filepath.Join(root, "metrics.yaml"),
			"HAPROXY_MANAGE_ENDPOINTS_PORT":      port,
			"LUNAR_HEALTHCHECK_PORT":             port,
			"TENANT_NAME":                        "verif",
			"DISCOVERY_STATE_LOCATION":           filepath.Join(outdir, "discovery.json"),
			"REMEDY_STATE_LOCATION":              filepath.Join(outdir, "remedy.json"),
			"LOG_LEVEL":                          "panic",
			"LUNAR_FLOWS_PATH_PARAM_CONFIG":      filepath.Join(outdir, "generated_path_params.yaml"),
			"VERIF_C08_METRICS_SRC":              filepath.Join(repo, "proxy/metrics.yaml"),
			"LUNAR_PROXY_METRICS_CONFIG_DEFAULT": filepath.Join(root, "default_metrics.yaml"),
		}
		for k, v := range env {
			os.Setenv(k, v)
		}
		os.Unsetenv("LUNAR_API_KEY")
		exe, err := os.Executable()
		if err != nil {
			vh.Die("executable: %v", err)
		}
		if err := syscall.Exec(exe, os.Args, os.Environ()); err != nil {
			vh.Die("exec: %v", err)
		}
	}
	vh.Quiet()
	var sc Script
	vh.ReadJSON(os.Args[2], &sc)
	var err error
	if metricsBase, err = os.ReadFile(os.Getenv("VERIF_C08_METRICS_SRC")); err != nil {
		vh.Die("metrics source: %v", err)
	}
	if err := os.MkdirAll(root, 0o755); err != nil {
		vh.Die("mkdir: %v", err)
	}
	x := &exec{root: root, tr: vh.NewTrace(), trc: vh.NewTrace(), shared: lunar_context.NewMemoryState[[]byte](),
		count: map[string]int{}, gates: map[uint64]*gated{}}
	x.hap = &fakeHAProxy{x: x}
	ln, err := net.Listen("tcp", ":"+os.Getenv("HAPROXY_MANAGE_ENDPOINTS_PORT")) // both address families of localhost
	if err != nil {
		fmt.Fprintf(os.Stderr, "harness: port clash: %v\n", err)
		os.Exit(4)
	}
	go http.Serve(ln, x.hap) //nolint:errcheck

	verifhook.SetSink(x.sink)
	verifhook.SetFault(x.faultFn)

	// first configuration: the disk of the first case (the engine must start from a valid configuration)
	first := map[string]string{"flows/a.yaml": "v1", "metrics.yaml": "m1"}
	if len(sc.Cases) > 0 {
		first = sc.Cases[0].Disk
	}
	x.writeDisk(first)
	t0 := time.Now()
	x.dm = routing.NewHandlingDataManager(5*time.Second, nil)
	if err := x.dm.Setup(nil); err != nil {
		vh.Die("Setup: %v", err)
	}
	x.mux = http.NewServeMux()
	x.dm.SetHandleRoutes(x.mux)
	setup := time.Since(t0)

	x.tr.Add(vh.Ev{"ev": "config", "flows": flowFiles, "cat": universeCat, "inert": inertFiles,
		"fixed": []string{"default_metrics.yaml"}, "pp": ppFiles})
	t1 := time.Now()
	x.trc.Add(vh.Ev{"ev": "config", "flows": flowFiles, "fixed": []string{"default_metrics.yaml"}})
	for _, c := range sc.Cases {
		if len(c.Updates) > 0 {
			x.runConc(c)
		} else {
			x.runCase(c)
		}
	}
	x.tr.Write(filepath.Join(outdir, "trace.ndjson"))
	x.trc.Write(filepath.Join(outdir, "trace-conc.ndjson"))
	vh.WriteJSON(filepath.Join(outdir, "stats.json"), map[string]any{
		"setup_ms": setup.Milliseconds(), "cases": len(sc.Cases), "run_ms": time.Since(t1).Milliseconds(),
	})
}
