// x06: executes transaction scripts against a real flows-mode engine (streams.Stream built from YAML flow
// files holding the REAL Filter / GenerateResponse / MockProcessor / DataSanitation / UserDefinedMetrics /
// UserDefinedTraces / CustomScript processors) and records what the engine did, as NDJSON traces for TLC.
// A pure executor: nothing here judges an outcome.
//
//	x06 run <scripts.json> <outdir>
//
// scripts.json: [{"config":{...}, "histories":[[event,...],...]}, ...]; one trace-NNN.ndjson per script.
// event (every field the executor does not know is echoed into the trace unchanged):
//
//	{"ev":"reset","files":{"flows/f.yaml":"..."},"gw":"<gateway_config.yaml text>"}
//	      fresh engine from the files (flows/, quotas/); recorded: "refused" = the loader's error text when
//	      NewValidationStream / Initialize fails (the configuration is NOT loaded), absent otherwise
//	{"ev":"req","id":..,"m":..,"host":..,"path":..,"query":..,"h":{..},"body":..}
//	      request side of transaction id.  Recorded:
//	        procs  [[processor key, condition name it reported, direction]...] in execution order (proc.exec point)
//	        acts   the request actions handed back, in order: [{"t":"noop"|"early"|"modreq"|"modhdr"|"genreq", ...}]
//	        early/est/ebody/eh   the first early response
//	        up     the request the proxy would send on: {"h","body","host","path","query"} = the original with the
//	               last modify action laid over it the way lunar.lua does
//	        seen   the request as the engine's transaction object holds it after the walk (what a LATER processor
//	               of the same transaction reads): {"h","body"}
//	        err    error text of ExecuteFlow
//	{"ev":"resp","id":..,"m":..,"host":..,"path":..,"st":..,"h":{..},"body":..}
//	      response side of transaction id (skipped when the request side was answered by the engine);
//	      recorded: procs, acts ({"t":"noop"|"modresp"|"retry"}), down {"h","body","st"}, seen, err
//	{"ev":"metrics","prefix":"lunar_x06"}
//	      the Prometheus exposition of the process (what GET /metrics serves) gathered; recorded: "samples" =
//	      [{"name","labels":{..},"v":number,"count":n,"sum":x}] of every family whose name starts with prefix
package main

import (
	"encoding/json"
	"fmt"
	"os"
	"path/filepath"
	"sort"
	"strings"
	"sync"
	"time"

	"lunar/engine/actions"
	lunar_messages "lunar/engine/messages"
	stream_config "lunar/engine/streams/config"
	lunar_context "lunar/engine/streams/lunar-context"
	public_types "lunar/engine/streams/public-types"
	stream_types "lunar/engine/streams/types"
	"lunar/engine/utils/environment"
	lunar_otel "lunar/toolkit-core/otel"
	"lunar/toolkit-core/verifhook"

	"github.com/prometheus/client_golang/prometheus"
	dto "github.com/prometheus/client_model/go"

	"verifharness/internal/c01eng"
	"verifharness/internal/vh"
)

type Script struct {
	Config    map[string]any     `json:"config"`
	Histories [][]map[string]any `json:"histories"`
}

var base = time.Unix(3_400_000_000, 0)

func str(m map[string]any, k string) string {
	if v, ok := m[k].(string); ok {
		return v
	}
	return ""
}

func num(m map[string]any, k string) int64 {
	if v, ok := m[k].(float64); ok {
		return int64(v)
	}
	return 0
}

func strmap(m map[string]any, k string) map[string]string {
	out := map[string]string{}
	if v, ok := m[k].(map[string]any); ok {
		for a, b := range v {
			out[a] = fmt.Sprint(b)
		}
	}
	return out
}

func cp(m map[string]string) map[string]string {
	out := map[string]string{}
	for k, v := range m {
		out[k] = v
	}
	return out
}

type run struct {
	answered map[string]bool
	eng      *c01eng.Engine
	shared   public_types.SharedStateI[[]byte]
	now      time.Time
	mu       sync.Mutex
	procs    [][]string
}

var cur *run

func sink(point string, kv ...any) {
	if point != "proc.exec" || cur == nil {
		return
	}
	m := map[string]any{}
	for i := 0; i+1 < len(kv); i += 2 {
		m[fmt.Sprint(kv[i])] = kv[i+1]
	}
	cur.mu.Lock()
	cur.procs = append(cur.procs, []string{fmt.Sprint(m["key"]), fmt.Sprint(m["out"]), fmt.Sprint(m["dir"])})
	cur.mu.Unlock()
}

func (r *run) takeProcs() [][]string {
	r.mu.Lock()
	defer r.mu.Unlock()
	p := r.procs
	r.procs = nil
	if p == nil {
		p = [][]string{}
	}
	return p
}

func echo(e map[string]any) vh.Ev {
	out := vh.Ev{}
	for k, v := range e {
		if k != "files" && k != "gw" {
			out[k] = v
		}
	}
	return out
}

func seen(t public_types.TransactionI) map[string]any {
	if t == nil {
		return map[string]any{"nil": true}
	}
	return map[string]any{"h": cp(t.GetHeaders()), "body": t.GetBody()}
}

func (r *run) request(e map[string]any) vh.Ev {
	out := echo(e)
	body := str(e, "body")
	host, path, query := str(e, "host"), str(e, "path"), str(e, "query")
	scheme := str(e, "scheme")
	if scheme == "" {
		scheme = "https"
	}
	api := stream_types.NewRequestAPIStream(lunar_messages.OnRequest{
		ID: str(e, "id"), SequenceID: str(e, "id"), Method: str(e, "m"), Scheme: scheme,
		URL: host + path, Path: path, Query: query, Headers: strmap(e, "h"), RawBody: []byte(body), Time: r.now,
	}, r.shared)
	acts := &stream_config.StreamActions{Request: &stream_config.RequestStream{}, Response: &stream_config.ResponseStream{}}
	func() {
		defer func() {
			if p := recover(); p != nil {
				out["panic"] = fmt.Sprint(p)
			}
		}()
		if err := r.eng.S.ExecuteFlow(api, acts); err != nil {
			out["err"] = err.Error()
		}
	}()
	api.StoreRequest() // routing.processRequest: defer apiStream.StoreRequest()
	out["procs"] = r.takeProcs()
	out["early"] = false
	al := []map[string]any{}
	uh, ubody, uhost, upath, uquery := strmap(e, "h"), body, host, path, query
	for _, a := range acts.Request.Actions {
		switch t := a.(type) {
		case *actions.NoOpAction:
			al = append(al, map[string]any{"t": "noop"})
		case *actions.EarlyResponseAction:
			al = append(al, map[string]any{"t": "early", "st": t.Status, "body": t.Body, "h": cp(t.Headers)})
			if out["early"] == false {
				out["early"] = true
				out["est"] = t.Status
				out["ebody"] = t.Body
				out["eh"] = cp(t.Headers)
			}
		case *actions.ModifyRequestAction:
			al = append(al, map[string]any{"t": "modreq", "h": cp(t.HeadersToSet), "host": t.Host, "path": t.Path,
				"query": t.QueryParams, "body": t.Body})
			// the proxy's modify_request service (lunar.lua): headers and query are replaced, body / host / path
			// fall back to the original ones when empty
			uh, uquery = cp(t.HeadersToSet), t.QueryParams
			if t.Body != "" {
				ubody = t.Body
			}
			if t.Host != "" {
				uhost = t.Host
			}
			if t.Path != "" {
				upath = t.Path
			}
		case *actions.ModifyHeadersAction:
			al = append(al, map[string]any{"t": "modhdr", "h": cp(t.HeadersToSet)})
			// the proxy sets every listed header on the request, the others stay
			for k, v := range t.HeadersToSet {
				uh[k] = v
			}
		case *actions.GenerateRequestAction:
			al = append(al, map[string]any{"t": "genreq", "h": cp(t.HeadersToSet), "body": t.Body})
		default:
			al = append(al, map[string]any{"t": fmt.Sprintf("%T", a)})
		}
	}
	out["acts"] = al
	out["up"] = map[string]any{"h": uh, "body": ubody, "host": uhost, "path": upath, "query": uquery}
	out["seen"] = seen(api.GetRequest())
	return out
}

func (r *run) response(e map[string]any) vh.Ev {
	out := echo(e)
	body := str(e, "body")
	st := int(num(e, "st"))
	api := stream_types.NewResponseAPIStream(lunar_messages.OnResponse{
		ID: str(e, "id"), SequenceID: str(e, "id"), Method: str(e, "m"), URL: str(e, "host") + str(e, "path"),
		Status: st, Headers: strmap(e, "h"), RawBody: []byte(body), Time: r.now,
	}, r.shared)
	acts := &stream_config.StreamActions{Request: &stream_config.RequestStream{}, Response: &stream_config.ResponseStream{}}
	func() {
		defer func() {
			if p := recover(); p != nil {
				out["panic"] = fmt.Sprint(p)
			}
		}()
		if err := r.eng.S.ExecuteFlow(api, acts); err != nil {
			out["err"] = err.Error()
		}
	}()
	api.DiscardRequest() // routing.processResponse: defer apiStream.DiscardRequest()
	out["procs"] = r.takeProcs()
	al := []map[string]any{}
	dh, dbody, dst := strmap(e, "h"), body, st
	for _, a := range acts.Response.Actions {
		switch t := a.(type) {
		case *actions.NoOpAction:
			al = append(al, map[string]any{"t": "noop"})
		case *actions.ModifyResponseAction:
			al = append(al, map[string]any{"t": "modresp", "h": cp(t.HeadersToSet), "st": t.Status, "body": t.Body})
			dh, dst = cp(t.HeadersToSet), t.Status
			if t.Body != "" {
				dbody = t.Body
			}
		case *actions.RetryRequestAction:
			al = append(al, map[string]any{"t": "retry"})
		default:
			al = append(al, map[string]any{"t": fmt.Sprintf("%T", a)})
		}
	}
	out["acts"] = al
	out["down"] = map[string]any{"h": dh, "body": dbody, "st": dst}
	out["seen"] = seen(api.GetResponse())
	return out
}

func labelsOf(m *dto.Metric) map[string]string {
	out := map[string]string{}
	for _, lp := range m.GetLabel() {
		out[lp.GetName()] = lp.GetValue()
	}
	return out
}

func gather(prefix string) []map[string]any {
	res := []map[string]any{}
	// Gather hands back what it could collect together with an error about the rest (two engines of one process that
	// registered the same family name with different types): the consistent families are still read
	mfs, err := prometheus.DefaultGatherer.Gather()
	if err != nil {
		e := err.Error()
		if len(e) > 300 {
			e = e[:300]
		}
		res = append(res, map[string]any{"name": "gather-error", "err": e, "labels": map[string]string{}, "type": "error"})
	}
	for _, mf := range mfs {
		if !strings.HasPrefix(mf.GetName(), prefix) {
			continue
		}
		for _, m := range mf.GetMetric() {
			s := map[string]any{"name": mf.GetName(), "labels": labelsOf(m), "type": strings.ToLower(mf.GetType().String())}
			switch {
			case m.Counter != nil:
				s["v"] = m.Counter.GetValue()
			case m.Gauge != nil:
				s["v"] = m.Gauge.GetValue()
			case m.Histogram != nil:
				s["count"] = m.Histogram.GetSampleCount()
				s["sum"] = m.Histogram.GetSampleSum()
				bk := [][]float64{}
				for _, b := range m.Histogram.GetBucket() {
					bk = append(bk, []float64{b.GetUpperBound(), float64(b.GetCumulativeCount())})
				}
				s["buckets"] = bk
			case m.Untyped != nil:
				s["v"] = m.Untyped.GetValue()
			}
			res = append(res, s)
		}
	}
	sort.Slice(res, func(i, j int) bool {
		a, _ := json.Marshal(res[i])
		b, _ := json.Marshal(res[j])
		return string(a) < string(b)
	})
	return res
}

func main() {
	if os.Getenv("X06_LOG") == "" {
		vh.Quiet()
	}
	if len(os.Args) != 4 || os.Args[1] != "run" {
		vh.Die("usage: x06 run <scripts.json> <outdir>")
	}
	var scripts []Script
	vh.ReadJSON(os.Args[2], &scripts)
	verifhook.SetSink(sink)
	// the process-wide meter the engine's processors record into, exposed the way the gateway exposes it (Prometheus registry)
	os.Unsetenv("OTEL_EXPORTER_OTLP_TRACES_ENDPOINT")
	shutdown := lunar_otel.InitProvider("x06")
	defer shutdown()
	for si := range scripts {
		sc := &scripts[si]
		tr := vh.NewTrace()
		cfg := vh.Ev{"ev": "config"}
		for k, v := range sc.Config {
			cfg[k] = v
		}
		tr.Add(cfg)
		var prev *c01eng.Engine
		for _, h := range sc.Histories {
			var r *run
			for _, e := range h {
				switch str(e, "ev") {
				case "reset":
					files := strmap(e, "files")
					dir, err := c01eng.WriteFiles(files)
					if err != nil {
						vh.Die("files: %v", err)
					}
					gw := filepath.Join(dir, "gateway_config.yaml")
					if err := os.WriteFile(gw, []byte(str(e, "gw")), 0o644); err != nil {
						vh.Die("gw: %v", err)
					}
					environment.SetGatewayConfigPath(gw)
					out := echo(e)
					var eng *c01eng.Engine
					func() {
						defer func() {
							if p := recover(); p != nil {
								err = fmt.Errorf("panic: %v", p)
							}
						}()
						eng, err = c01eng.New(dir, base, prev)
					}()
					os.RemoveAll(dir)
					if err != nil {
						out["refused"] = err.Error()
						tr.Add(out)
						r = nil
						cur = nil
						continue
					}
					prev = eng
					r = &run{eng: eng, shared: lunar_context.NewMemoryState[[]byte](), now: base, answered: map[string]bool{}}
					cur = r
					tr.Add(out)
				case "req":
					if r != nil {
						out := r.request(e)
						if out["early"] == true {
							r.answered[str(e, "id")] = true
						}
						tr.Add(out)
					}
				case "resp":
					if r != nil && !r.answered[str(e, "id")] {
						tr.Add(r.response(e))
					}
				case "metrics":
					out := echo(e)
					out["samples"] = gather(str(e, "prefix"))
					tr.Add(out)
				default:
					vh.Die("unknown event %v", e["ev"])
				}
			}
		}
		if prev != nil {
			prev.Close()
		}
		tr.Write(filepath.Join(os.Args[3], fmt.Sprintf("trace-%03d.ndjson", si)))
	}
}
