// c18v - executor for the MapVacuum stage of C18: the real toolkit-core MapVacuum over a real map and mutex, used the way
// concurrency.Limiter uses it (map insertion and VacuumKey under the map mutex), with registrations from several goroutines
// overlapping the background passes that the driver triggers by moving the mock clock.  It records what happened
// (specs/c18_engine_concurrency/VacuumTrace.tla describes the events) and judges nothing.
package main

import (
	"fmt"
	"os"
	"path/filepath"
	"runtime"
	"sort"
	"sync"
	"sync/atomic"
	"time"

	"lunar/toolkit-core/clock"
	"lunar/toolkit-core/vacuum"
	"lunar/toolkit-core/verifhook"
	"verifharness/internal/vh"
)

type Event struct {
	Ev   string `json:"ev"`
	G    int    `json:"g,omitempty"`    // regstorm: goroutines
	Per  int    `json:"per,omitempty"`  // regstorm: keys per goroutine
	Advs int    `json:"advs,omitempty"` // regstorm: clock moves (of one tick) while the goroutines register
	D    int64  `json:"d,omitempty"`    // adv: ms
}

type Script struct {
	Config    map[string]int64 `json:"config"` // Ttl, Tick in ms
	Histories [][]Event        `json:"histories"`
}

var base = time.Unix(1_700_000_000, 0)

type world struct {
	clk    *clock.MockClock
	m      map[string]int
	mu     *sync.RWMutex
	mv     vacuum.MapVacuum[string, int]
	tick   time.Duration
	active atomic.Bool
}

var (
	passes atomic.Int64
	cur    atomic.Pointer[vh.Trace]
)

func sink(point string, kv ...any) {
	switch point {
	case "vacuum.pass":
		removed := 0
		for i := 0; i+1 < len(kv); i += 2 {
			if kv[i] == "removed" {
				fmt.Sscan(fmt.Sprint(kv[i+1]), &removed)
			}
		}
		if tr := cur.Load(); tr != nil {
			tr.Add(vh.Ev{"ev": "pass", "removed": removed})
		}
		passes.Add(1)
	}
}

func (w *world) ms() int64 { return w.clk.Now().Sub(base).Milliseconds() }

// move the clock by d and wait for the pass it triggers (the vacuum goroutine sleeps one tick on the mock clock between passes)
func (w *world) adv(tr *vh.Trace, d time.Duration) {
	if w.active.Load() {
		// the background goroutine must have armed its timer, else the move would not wake it
		for i := 0; len(w.clk.PendingTimers()) == 0; i++ {
			if i > 20000 {
				vh.Die("vacuum goroutine never armed its timer")
			}
			time.Sleep(100 * time.Microsecond)
		}
	}
	before := passes.Load()
	tr.Add(vh.Ev{"ev": "adv", "d": d.Milliseconds()}) // recorded before the move: a pass recorded later read the clock after it or during it
	w.clk.Set(w.clk.Now().Add(d))
	if w.active.Load() {
		for i := 0; passes.Load() == before; i++ {
			if i > 100000 {
				vh.Die("no vacuum pass within 10 s after the clock moved")
			}
			time.Sleep(100 * time.Microsecond)
		}
	}
}

func main() {
	vh.Quiet()
	verifhook.SetSink(sink)
	if len(os.Args) != 4 || os.Args[1] != "run" {
		vh.Die("usage: c18v run <scripts.json> <outdir>")
	}
	var scripts []Script
	vh.ReadJSON(os.Args[2], &scripts)
	for si, sc := range scripts {
		tr := vh.NewTrace()
		cur.Store(tr)
		ttl := time.Duration(sc.Config["Ttl"]) * time.Millisecond
		tick := time.Duration(sc.Config["Tick"]) * time.Millisecond
		tr.Add(vh.Ev{"ev": "config", "Ttl": sc.Config["Ttl"], "Tick": sc.Config["Tick"]})
		var w *world
		storm, nkey := 0, 0
		for _, h := range sc.Histories {
			for _, e := range h {
				switch e.Ev {
				case "reset":
					// an earlier world's vacuum goroutine stays parked on its own clock for good
					w = &world{clk: clock.NewMockClock(), m: map[string]int{}, mu: &sync.RWMutex{}, tick: tick}
					w.clk.Set(base)
					w.mv = vacuum.NewMapVacuum[string, int](fmt.Sprintf("c18v-%d", si), w.clk, ttl, tick, w.m, w.mu)
					storm = 0
					tr.Add(vh.Ev{"ev": "reset"})
				case "regstorm":
					storm++
					var wg sync.WaitGroup
					var arrived atomic.Int32
					var stop atomic.Bool
					type batch struct {
						keys   []string
						lo, hi int64
					}
					res := make([]batch, e.G)
					for g := 0; g < e.G; g++ {
						keys := make([]string, e.Per)
						for i := range keys {
							nkey++
							keys[i] = fmt.Sprintf("k%d", nkey)
						}
						wg.Add(1)
						go func(g int, keys []string) {
							defer wg.Done()
							arrived.Add(1)
							for spins := 0; arrived.Load() < int32(e.G) && spins < 1_000_000; spins++ {
								runtime.Gosched()
							}
							lo := w.ms()
							n := 0
							for _, k := range keys {
								if stop.Load() {
									break
								}
								w.mu.Lock() // as concurrency.Limiter.TryTakeSlot: the key is inserted and handed to the vacuum under the map mutex
								w.m[k] = 1
								w.mv.VacuumKey(k)
								w.mu.Unlock()
								n++
								for y := 0; y < 40; y++ { // registrations keep arriving for as long as the driver moves the clock
									runtime.Gosched()
								}
							}
							res[g] = batch{keys[:n], lo, w.ms()}
						}(g, keys)
					}
					w.active.Store(true)
					for a := 0; a < e.Advs; a++ {
						w.adv(tr, tick)
					}
					stop.Store(true)
					wg.Wait()
					for _, b := range res {
						tr.Add(vh.Ev{"ev": "regs", "s": storm, "keys": b.keys, "lo": b.lo, "hi": b.hi})
					}
				case "adv":
					w.adv(tr, time.Duration(e.D)*time.Millisecond)
				case "probe":
					w.mu.RLock()
					keys := make([]string, 0, len(w.m))
					for k := range w.m {
						keys = append(keys, k)
					}
					w.mu.RUnlock()
					sort.Strings(keys)
					tr.Add(vh.Ev{"ev": "probe", "keys": keys})
				default:
					vh.Die("unknown event %q", e.Ev)
				}
			}
		}
		cur.Store(nil)
		tr.Write(filepath.Join(os.Args[3], fmt.Sprintf("trace-%03d.ndjson", si)))
	}
}
