// c13: pure executor for property C13 (endpoint policies apply only to requests
// matching their declared endpoint).
//
//	c13 run <groups.ndjson> <out.ndjson>
//
// input, one group per line:
//
//	{"decls":[{"m":"GET","h":["a","com"],"p":["x","{p}","*"],"t":3},...],
//	 "orders":[[1,2,3],[2,1,3],...],            declaration orders (1-based indices into decls)
//	 "reqs":[{"m":"GET","h":["a","com"],"p":["x","y"]},...]}
//
// For every order the REAL config.BuildEndpointPolicyTree is called with the declarations in
// that order (declaration i carries one remedy "d<i>" of remedy type t and one diagnosis "g<i>",
// enabled / disabled / absent according to "pl"); for every request the REAL dispatcher selection (runner.getRemedies /
// getDiagnoses through export_verif.go) and EndpointPolicyTree.Lookup are evaluated.
// output, one line per group:
//
//	{"orders":[{"err":"", "outs":[{"sel":[{"r":"d1","norm":"a.com/x","params":[["p","v"]]}],
//	                               "dsel":[{"r":"g1","norm":"a.com/x"}],
//	                               "lk":{"match":true,"norm":"a.com/x","params":[],"val":["GET"]}}, ...]}, ...]}
//
// No oracle logic here: the output is what the real code answered.
package main

import (
	"bufio"
	"encoding/json"
	"fmt"
	"os"
	"runtime"
	"sort"
	"strings"
	"sync"

	"lunar/engine/config"
	"lunar/engine/runner"
	sharedConfig "lunar/shared-model/config"

	"verifharness/internal/vh"
)

type Decl struct {
	M  string   `json:"m"`
	H  []string `json:"h"`
	P  []string `json:"p"`
	T  int      `json:"t"`
	PL string   `json:"pl"` // plugins: "" / "on" both enabled, "off" both disabled, "none" no plugin, "donly" remedy disabled
}

type Req struct {
	M string   `json:"m"`
	H []string `json:"h"`
	P []string `json:"p"`
}

type Group struct {
	Decls  []Decl  `json:"decls"`
	Orders [][]int `json:"orders"`
	Reqs   []Req   `json:"reqs"`
}

type Sel struct {
	R      string      `json:"r"`
	Norm   string      `json:"norm"`
	Params [][2]string `json:"params"`
}

type Lk struct {
	Match  bool        `json:"match"`
	Norm   string      `json:"norm"`
	Params [][2]string `json:"params"`
	Val    []string    `json:"val"` // methods present in the looked-up map
}

type Out struct {
	Sel  []Sel `json:"sel"`
	DSel []Sel `json:"dsel"`
	Lk   Lk    `json:"lk"`
}

type OrderOut struct {
	Err  string `json:"err"`
	Outs []Out  `json:"outs"`
}

type GroupOut struct {
	Orders []OrderOut `json:"orders"`
}

// Render gives the textual form the engine takes: host labels joined by ".", path by "/".
func render(h, p []string) string {
	s := strings.Join(h, ".")
	if len(p) > 0 {
		s += "/" + strings.Join(p, "/")
	}
	return s
}

func remedyOfType(name string, t int) sharedConfig.Remedy {
	r := sharedConfig.Remedy{Enabled: true, Name: name}
	switch ((t-1)%9 + 9) % 9 {
	case 0:
		r.Config.FixedResponse = &sharedConfig.FixedResponseConfig{}
	case 1:
		r.Config.Caching = &sharedConfig.CachingConfig{}
	case 2:
		r.Config.Retry = &sharedConfig.RetryConfig{}
	case 3:
		r.Config.StrategyBasedThrottling = &sharedConfig.StrategyBasedThrottlingConfig{}
	case 4:
		r.Config.ResponseBasedThrottling = &sharedConfig.ResponseBasedThrottlingConfig{}
	case 5:
		r.Config.StrategyBasedQueue = &sharedConfig.StrategyBasedQueueConfig{}
	case 6:
		r.Config.ConcurrencyBasedThrottling = &sharedConfig.ConcurrencyBasedThrottlingConfig{}
	case 7:
		r.Config.AccountOrchestration = &sharedConfig.AccountOrchestrationConfig{}
	case 8:
		r.Config.Authentication = &sharedConfig.AuthConfig{}
	}
	return r
}

func pairs(m map[string]string) [][2]string {
	res := [][2]string{}
	for k, v := range m {
		res = append(res, [2]string{k, v})
	}
	sort.Slice(res, func(i, j int) bool { return res[i][0] < res[j][0] })
	return res
}

func endpointsOf(g Group) []sharedConfig.EndpointConfig {
	eps := make([]sharedConfig.EndpointConfig, len(g.Decls))
	for i, d := range g.Decls {
		remedy := remedyOfType(fmt.Sprintf("d%d", i+1), d.T)
		diagnosis := sharedConfig.Diagnosis{
			Enabled: true, Name: fmt.Sprintf("g%d", i+1), Export: "file",
			Config: sharedConfig.DiagnosisConfig{Void: &sharedConfig.VoidConfig{}},
		}
		switch d.PL {
		case "", "on":
		case "off":
			remedy.Enabled, diagnosis.Enabled = false, false
		case "donly":
			remedy.Enabled = false
		case "none":
		default:
			vh.Die("unknown plugin mode %q", d.PL)
		}
		eps[i] = sharedConfig.EndpointConfig{URL: render(d.H, d.P), Method: d.M}
		if d.PL != "none" {
			eps[i].Remedies = []sharedConfig.Remedy{remedy}
			eps[i].Diagnosis = []sharedConfig.Diagnosis{diagnosis}
		}
	}
	return eps
}

func runGroup(g Group) GroupOut {
	eps := endpointsOf(g)
	global := &sharedConfig.Global{}
	res := GroupOut{}
	for _, ord := range g.Orders {
		list := make([]sharedConfig.EndpointConfig, 0, len(ord))
		for _, k := range ord {
			if k < 1 || k > len(eps) {
				vh.Die("order index %d out of range", k)
			}
			e := eps[k-1]
			// fresh slices: BuildEndpointPolicyTree keeps references to them
			e.Remedies = append([]sharedConfig.Remedy(nil), e.Remedies...)
			e.Diagnosis = append([]sharedConfig.Diagnosis(nil), e.Diagnosis...)
			list = append(list, e)
		}
		oo := OrderOut{Outs: []Out{}}
		tree, err := config.BuildEndpointPolicyTree(list)
		if err != nil {
			oo.Err = err.Error()
			res.Orders = append(res.Orders, oo)
			continue
		}
		for _, rq := range g.Reqs {
			url := render(rq.H, rq.P)
			o := Out{Sel: []Sel{}, DSel: []Sel{}}
			for _, sr := range runner.VerifGetRemedies(rq.M, url, tree, global) {
				o.Sel = append(o.Sel, Sel{R: sr.Remedy.Name, Norm: sr.NormalizedURL, Params: pairs(sr.PathParams)})
			}
			for _, sd := range runner.VerifGetDiagnoses(rq.M, url, tree, global.Diagnosis) {
				o.DSel = append(o.DSel, Sel{R: sd.Diagnosis.Name, Norm: sd.NormalizedURL, Params: [][2]string{}})
			}
			lk := tree.Lookup(url)
			o.Lk = Lk{Match: lk.Match, Norm: lk.NormalizedURL, Params: pairs(lk.PathParams), Val: []string{}}
			if lk.Value != nil {
				for m := range *lk.Value {
					o.Lk.Val = append(o.Lk.Val, string(m))
				}
				sort.Strings(o.Lk.Val)
			}
			oo.Outs = append(oo.Outs, o)
		}
		res.Orders = append(res.Orders, oo)
	}
	return res
}

// storm: the same selection with several dispatches in flight. The tree of a group is built once (first order);
// G goroutines go through the requests again and again, each calls the dispatcher's getRemedies / getDiagnoses,
// yields, and only then reads what it was given - as the real dispatcher does while other transactions are
// dispatched. Output per group: for every request the DISTINCT outcomes any goroutine saw.
//
//	{"err":"", "outs":[[Out, ...], ...]}
type StormOut struct {
	Err  string  `json:"err"`
	Outs [][]Out `json:"outs"`
}

func stormGroup(g Group, goroutines, rounds int) StormOut {
	res := StormOut{Outs: make([][]Out, len(g.Reqs))}
	eps := endpointsOf(g)
	list := make([]sharedConfig.EndpointConfig, 0, len(eps))
	for _, k := range g.Orders[0] {
		list = append(list, eps[k-1])
	}
	tree, err := config.BuildEndpointPolicyTree(list)
	if err != nil {
		res.Err = err.Error()
		return res
	}
	global := &sharedConfig.Global{}
	seen := make([]map[string]Out, len(g.Reqs))
	for i := range seen {
		seen[i] = map[string]Out{}
	}
	var mu sync.Mutex
	var wg sync.WaitGroup
	start := make(chan struct{})
	for w := 0; w < goroutines; w++ {
		wg.Add(1)
		go func(w int) {
			defer wg.Done()
			<-start
			for r := 0; r < rounds; r++ {
				for k := range g.Reqs {
					ri := (k + w) % len(g.Reqs)
					rq := g.Reqs[ri]
					url := render(rq.H, rq.P)
					rem := runner.VerifGetRemedies(rq.M, url, tree, global)
					diag := runner.VerifGetDiagnoses(rq.M, url, tree, global.Diagnosis)
					runtime.Gosched()
					o := Out{Sel: []Sel{}, DSel: []Sel{}}
					for _, sr := range rem {
						name := ""
						if sr.Remedy != nil {
							name = sr.Remedy.Name
						}
						o.Sel = append(o.Sel, Sel{R: name, Norm: sr.NormalizedURL, Params: pairs(sr.PathParams)})
					}
					for _, sd := range diag {
						name := ""
						if sd != nil && sd.Diagnosis != nil {
							name = sd.Diagnosis.Name
							o.DSel = append(o.DSel, Sel{R: name, Norm: sd.NormalizedURL, Params: [][2]string{}})
						}
					}
					lk := tree.Lookup(url)
					o.Lk = Lk{Match: lk.Match, Norm: lk.NormalizedURL, Params: pairs(lk.PathParams), Val: []string{}}
					b, _ := json.Marshal(o)
					mu.Lock()
					if _, ok := seen[ri][string(b)]; !ok {
						seen[ri][string(b)] = o
					}
					mu.Unlock()
				}
			}
		}(w)
	}
	close(start)
	wg.Wait()
	for ri := range g.Reqs {
		keys := make([]string, 0, len(seen[ri]))
		for k := range seen[ri] {
			keys = append(keys, k)
		}
		sort.Strings(keys)
		for _, k := range keys {
			res.Outs[ri] = append(res.Outs[ri], seen[ri][k])
		}
	}
	return res
}

func main() {
	vh.Quiet()
	if len(os.Args) != 4 || (os.Args[1] != "run" && os.Args[1] != "storm") {
		vh.Die("usage: c13 run|storm <groups.ndjson> <out.ndjson>")
	}
	stormMode := os.Args[1] == "storm"
	in, err := os.Open(os.Args[2])
	if err != nil {
		vh.Die("open: %v", err)
	}
	defer in.Close()
	out, err := os.Create(os.Args[3])
	if err != nil {
		vh.Die("create: %v", err)
	}
	w := bufio.NewWriterSize(out, 1<<20)
	sc := bufio.NewScanner(in)
	sc.Buffer(make([]byte, 1<<20), 1<<28)
	n := 0
	for sc.Scan() {
		line := sc.Bytes()
		if len(strings.TrimSpace(string(line))) == 0 {
			continue
		}
		var g Group
		if err := json.Unmarshal(line, &g); err != nil {
			vh.Die("parse group %d: %v", n, err)
		}
		var result any
		if stormMode {
			result = stormGroup(g, 8, 40)
		} else {
			result = runGroup(g)
		}
		b, err := json.Marshal(result)
		if err != nil {
			vh.Die("marshal: %v", err)
		}
		w.Write(b)
		w.WriteByte('\n')
		n++
	}
	if err := sc.Err(); err != nil {
		vh.Die("scan: %v", err)
	}
	w.Flush()
	out.Close()
	fmt.Printf("groups=%d\n", n)
}
