// c17: executes retry histories against the real code and records what it answered (NDJSON for TLC).
//
//	c17 run <scripts.json> <outdir>
//
// scripts.json: [{"histories":[[event,...],...]}, ...]      one trace file per script
// event: {"ev":"reset","mode":"policy"|"flows","A":n,"cd":sec,"mult":m,"ranges":[[from,to],...],"seqs":[...]}
//
//	{"ev":"resp","s":seq,"st":status,"new":bool}     one response of sequence s
//	{"ev":"adv","d":seconds}                         clock advanced
//
// policy mode: the real remedies.RetryPlugin.OnResponse on a lock-step clock (state with TTL in utils.MemoryCache;
//
//	the cache's sleeper goroutines are waited for after every advance, so recordings are reproducible).
//
// flows mode:  the real Retry processor inside an engine built from a directory (one engine per configuration and
//	process; every history uses sequence ids of its own, so it starts from fresh retry state):
//
//	response flow  Filter(status_code_range) -hit-> Retry -retry/failed-> end ; mock clock pumped while the
//	processor waits for its cool-down.  The multiplier is written as a YAML float ("2.0"): an integer literal
//	is read back as 0 by ParamValue.GetFloat64 (observation, outside this property).
//
// Pure executor: the recorded `out` is a direct projection of the real answer
//
//	policy: ModifyResponseAction carrying x-lunar-retry-after = "retry", NoOpAction = "noop"
//	flows:  RetryRequestAction in the response actions = "retry", Retry processor ran with output failed = "failed",
//	        Retry processor not run = "none".
package main

import (
	"fmt"
	"os"
	"path/filepath"
	"runtime"
	"strings"
	"sync"
	"sync/atomic"
	"time"

	"lunar/engine/actions"
	"lunar/engine/config"
	"lunar/engine/routing"
	"lunar/engine/runner"
	"lunar/engine/services"
	lunarMessages "lunar/engine/messages"
	"lunar/engine/services/remedies"
	"lunar/engine/streams"
	streamconfig "lunar/engine/streams/config"
	lunarcontext "lunar/engine/streams/lunar-context"
	streamtypes "lunar/engine/streams/types"
	"lunar/engine/utils/environment"
	sharedConfig "lunar/shared-model/config"
	"lunar/toolkit-core/clock"
	contextmanager "lunar/toolkit-core/context-manager"
	"lunar/toolkit-core/verifhook"

	"verifharness/internal/c11acc"
	"verifharness/internal/vh"

	"github.com/negasus/haproxy-spoe-go/message"
	"github.com/negasus/haproxy-spoe-go/payload/kv"
	"github.com/negasus/haproxy-spoe-go/request"
)

type Event struct {
	Ev     string   `json:"ev"`
	Mode   string   `json:"mode,omitempty"`
	A      int      `json:"A"`
	Cd     int      `json:"cd"`
	Mult   int      `json:"mult"`
	Ranges [][2]int `json:"ranges,omitempty"`
	Seqs   []string `json:"seqs,omitempty"`
	S      string   `json:"s,omitempty"`
	St     int      `json:"st,omitempty"`
	New    bool     `json:"new,omitempty"`
	D      int      `json:"d,omitempty"`
	Remedies []RemedyCfg `json:"remedies,omitempty"` // handler mode: the retry remedies that apply to the call
	Calls  []Event   `json:"calls,omitempty"` // conc: responses of different sequences handled at the same time (flows mode)
	N      int       `json:"n,omitempty"`     // burst: number of other sequences opened at once
	Flows  []FlowCfg `json:"flows,omitempty"` // flows mode with several flows, each holding a Retry processor
	U      string    `json:"u,omitempty"`     // ... path of the call ("orders", "other", ...): decides which flows are selected
}

// RemedyCfg is one enabled retry remedy of the policies file: scope "global" or "endpoint" (the endpoint the calls go to).
type RemedyCfg struct {
	Scope string `json:"scope"`
	A     int    `json:"A"`
}

// FlowCfg is one user flow  Filter(status) -hit-> Retry(key)  with its own URL filter.
type FlowCfg struct {
	Name string `json:"name"`
	URL  string `json:"url"`
	Key  string `json:"key"`
	A    int    `json:"A"`
}

type Script struct {
	Histories [][]Event `json:"histories"`
}

var epoch = time.Unix(1_700_000_000, 0)

// ---------------------------------------------------------------- policy mode

// sleepersDone counts the TTL sleepers of the current plugin's cache that have removed their key (hook
// cache.sleeper.done; keys of other caches and of earlier histories do not carry the current prefix).
var (
	sleepersDone atomic.Int64
	setsSeen     atomic.Int64 // entries stored by Set in the current plugin's cache (hook cache.sleeper.spawn): each starts one sleeper
	keyPrefix    atomic.Value // string
	historySeq   int
)

type policyRun struct {
	clk    *vh.StepClock
	plugin *remedies.RetryPlugin
	cfg    *sharedConfig.RetryConfig
	fired  int64
	txn    int
	prefix string // sequence ids are made unique per history: "<prefix><s>"
}

func newPolicy(e Event) *policyRun {
	historySeq++
	p := &policyRun{clk: vh.NewStepClock(epoch), prefix: fmt.Sprintf("h%d.", historySeq)}
	sleepersDone.Store(0)
	setsSeen.Store(0)
	keyPrefix.Store(p.prefix)
	p.plugin = remedies.NewRetryPlugin(p.clk)
	p.cfg = &sharedConfig.RetryConfig{Attempts: e.A, InitialCooldownSeconds: e.Cd, CooldownMultiplier: e.Mult}
	for _, r := range e.Ranges {
		p.cfg.Conditions.StatusCode = append(p.cfg.Conditions.StatusCode, sharedConfig.Range[int]{From: r[0], To: r[1]})
	}
	return p
}

// settle waits until every sleeper whose timer fired has removed its key (Set starts `clock.Sleep(ttl); clearKey(key)`
// per call), so that the next call does not race with a stale sleeper and recordings are reproducible.
func (p *policyRun) settle() {
	deadline := time.Now().Add(5 * time.Second)
	for sleepersDone.Load() < p.fired {
		if time.Now().After(deadline) {
			vh.Die("policy: %d of %d fired sleepers did not finish", sleepersDone.Load(), p.fired)
		}
		runtime.Gosched()
	}
}

func (p *policyRun) resp(e Event) vh.Ev {
	p.txn++
	seq := p.prefix + e.S
	id := seq
	if !e.New {
		id = fmt.Sprintf("%s-t%d", seq, p.txn)
	}
	a, err := p.plugin.OnResponse(lunarMessages.OnResponse{ID: id, SequenceID: seq, Status: e.St, Method: "GET", URL: "api.test/x"}, p.cfg)
	// every Set has started a sleeper goroutine: wait until it is parked on its timer, otherwise a later advance
	// would not fire it and it would arm its timer relative to the later instant
	for deadline := time.Now().Add(5 * time.Second); p.clk.TimersCreated() < setsSeen.Load(); runtime.Gosched() {
		if time.Now().After(deadline) {
			vh.Die("policy: sleeper of a cache entry did not arm its timer")
		}
	}
	out := vh.Ev{"ev": "resp", "s": e.S, "st": e.St, "new": e.New}
	switch v := a.(type) {
	case *actions.NoOpAction:
		out["out"] = "noop"
	case *actions.ModifyResponseAction:
		if ra, ok := v.HeadersToSet[remedies.LunarRetryAfterHeaderName]; ok {
			out["out"] = "retry"
			out["ra"] = ra
		} else {
			out["out"] = "modify-without-retry-after"
		}
	default:
		out["out"] = fmt.Sprintf("other:%T", a)
	}
	if err != nil {
		out["out"] = "error:" + err.Error()
	}
	return out
}

// burst opens n further sequences at once (first eligible response of each): state of many concurrently open
// sequences.  Their answers are counted, not recorded one by one.
func (p *policyRun) burst(n, st int) vh.Ev {
	retried := 0
	for i := 0; i < n; i++ {
		p.txn++
		seq := fmt.Sprintf("%sb%d", p.prefix, p.txn)
		a, _ := p.plugin.OnResponse(lunarMessages.OnResponse{ID: seq, SequenceID: seq, Status: st, Method: "GET", URL: "api.test/x"}, p.cfg)
		if _, ok := a.(*actions.ModifyResponseAction); ok {
			retried++
		}
	}
	for deadline := time.Now().Add(20 * time.Second); p.clk.TimersCreated() < setsSeen.Load(); runtime.Gosched() {
		if time.Now().After(deadline) {
			vh.Die("policy: sleepers of the burst did not arm their timers")
		}
	}
	return vh.Ev{"ev": "burst", "n": n, "st": st, "retried": retried}
}

func (p *policyRun) adv(d int) {
	if n := p.clk.Advance(time.Duration(d) * time.Second); n > 0 {
		p.fired += int64(n)
		p.settle()
	}
}

// finish fires every sleeper still parked so that no goroutine outlives the history.
func (p *policyRun) finish() { p.adv(1_000_000) }

// ----------------------------------------------------------------- flows mode

const flowTmpl = `name: %[6]s
filter:
  url: "%[7]s"
processors:
  StatusFilter:
    processor: Filter
    parameters:
      - key: status_code_range
        value: "%[1]d-%[2]d"
  %[8]s:
    processor: Retry
    parameters:
      - key: attempts
        value: %[3]d
      - key: cooldown_between_attempts_seconds
        value: %[4]d
      - key: cooldown_multiplier
        value: %[5]d.0
flow:
  request:
    - from:
        stream:
          name: globalStream
          at: start
      to:
        stream:
          name: globalStream
          at: end
  response:
    - from:
        stream:
          name: globalStream
          at: start
      to:
        processor:
          name: StatusFilter
    - from:
        processor:
          name: StatusFilter
          condition: hit
      to:
        processor:
          name: %[8]s
    - from:
        processor:
          name: StatusFilter
          condition: miss
      to:
        stream:
          name: globalStream
          at: end
    - from:
        processor:
          name: %[8]s
          condition: retry
      to:
        stream:
          name: globalStream
          at: end
    - from:
        processor:
          name: %[8]s
          condition: failed
      to:
        stream:
          name: globalStream
          at: end
`

type flowsRun struct {
	eng    *streams.Stream
	clock  *clock.MockClock // the clock the engine's processors were built with
	txn    int
	pump   bool   // the processor waits for a positive cool-down: the mock clock must be moved while it runs
	prefix string // sequence ids are made unique per history ("<prefix><s>"): one engine serves many histories

	mu   sync.Mutex
	seen []string // outputs of RetryProc during the current transaction

	conc map[int64][]string // concurrent calls: outputs of RetryProc per goroutine

	multi bool        // several flows: every processor execution of the current transaction (flow, key, output)
	flows []FlowCfg
	execs [][3]string
}

var engineDirSeq int

// engines: one engine per configuration and process.  The retry counters live in the flow context keyed by sequence id,
// so a history gets fresh state through fresh sequence ids, not through a fresh engine (building one costs ~20 ms).
var engines = map[string]*flowsRun{}

var current *flowsRun // the engine whose Retry processor outputs are being recorded

func sink(point string, kv ...any) {
	switch point {
	case "cache.sleeper.spawn":
		if len(kv) >= 2 {
			pre, _ := keyPrefix.Load().(string)
			if k, ok := kv[1].(string); ok && pre != "" && strings.HasPrefix(k, pre) {
				setsSeen.Add(1)
			}
		}
	case "cache.sleeper.done":
		if len(kv) >= 2 {
			pre, _ := keyPrefix.Load().(string)
			if k, ok := kv[1].(string); ok && pre != "" && strings.HasPrefix(k, pre) {
				sleepersDone.Add(1)
			}
		}
	case "proc.exec":
		f := current
		if f == nil {
			return
		}
		m := map[string]any{}
		for i := 0; i+1 < len(kv); i += 2 {
			m[fmt.Sprint(kv[i])] = kv[i+1]
		}
		if f.multi {
			f.mu.Lock()
			f.execs = append(f.execs, [3]string{fmt.Sprint(m["flow"]), fmt.Sprint(m["key"]), fmt.Sprint(m["out"])})
			f.mu.Unlock()
		} else if m["key"] == "RetryProc" {
			f.mu.Lock()
			if f.conc != nil {
				// concurrent calls: the hook runs on the goroutine of the call it belongs to
				g := goid()
				f.conc[g] = append(f.conc[g], fmt.Sprint(m["out"]))
			} else {
				f.seen = append(f.seen, fmt.Sprint(m["out"]))
			}
			f.mu.Unlock()
		}
	}
}

func newFlows(e Event, root string) (*flowsRun, error) {
	if len(e.Ranges) != 1 {
		return nil, fmt.Errorf("flows mode takes exactly one status range")
	}
	historySeq++
	key := fmt.Sprintf("%d/%d/%d/%d-%d", e.A, e.Cd, e.Mult, e.Ranges[0][0], e.Ranges[0][1])
	if f, ok := engines[key]; ok {
		f.prefix = fmt.Sprintf("h%d.", historySeq)
		current = f
		return f, nil
	}
	engineDirSeq++
	dir := filepath.Join(root, fmt.Sprintf("eng-%d", engineDirSeq))
	for _, d := range []string{"flows", "quotas"} {
		if err := os.MkdirAll(filepath.Join(dir, d), 0o755); err != nil {
			return nil, err
		}
	}
	y := fmt.Sprintf(flowTmpl, e.Ranges[0][0], e.Ranges[0][1], e.A, e.Cd, e.Mult, "RetryFlow", "api.test/*", "RetryProc")
	if err := os.WriteFile(filepath.Join(dir, "flows", "retry.yaml"), []byte(y), 0o644); err != nil {
		return nil, err
	}
	contextmanager.Get().SetMockClock()
	eng, err := streams.NewValidationStream(dir)
	if err != nil {
		return nil, err
	}
	if err := eng.Initialize(); err != nil {
		return nil, err
	}
	os.RemoveAll(dir)
	f := &flowsRun{eng: eng, clock: contextmanager.Get().GetMockClock(), pump: e.Cd > 0 || e.Mult > 0,
		prefix: fmt.Sprintf("h%d.", historySeq)}
	engines[key] = f
	current = f
	return f, nil
}

func (f *flowsRun) resp(e Event) vh.Ev {
	f.txn++
	seq := f.prefix + e.S
	id := fmt.Sprintf("%s-t%d", seq, f.txn)
	if e.New {
		id = seq
	}
	f.mu.Lock()
	f.seen = nil
	f.mu.Unlock()
	api := streamtypes.NewResponseAPIStream(lunarMessages.OnResponse{
		ID: id, SequenceID: seq, Method: "GET", URL: "api.test/x", Status: e.St, Headers: map[string]string{},
	}, lunarcontext.NewMemoryState[[]byte]())
	acts := &streamconfig.StreamActions{Request: &streamconfig.RequestStream{}, Response: &streamconfig.ResponseStream{}}
	done := make(chan error, 1)
	go func() { done <- f.eng.ExecuteFlow(api, acts) }()
	var err error
	mock := f.clock
	deadline := time.Now().Add(10 * time.Second)
wait:
	for {
		if !f.pump {
			err = <-done // nothing to wait for inside the processor
			break
		}
		select {
		case err = <-done:
			break wait
		case <-time.After(50 * time.Microsecond):
			// the processor is (about to be) waiting for its cool-down: jump to the armed timer.  Not with a zero
			// cool-down: MockClock.After(0) fires its own timer and a concurrent pump can fire it a second time
			// (send on the full channel under the clock's mutex = deadlock of the mock clock, not of the code under test)
			if f.pump {
				mock.WaitForAllTimers()
			}
			if time.Now().After(deadline) {
				vh.Die("flows: ExecuteFlow did not return")
			}
		}
	}
	out := vh.Ev{"ev": "resp", "s": e.S, "st": e.St, "new": e.New}
	f.mu.Lock()
	seen := append([]string(nil), f.seen...)
	f.mu.Unlock()
	nRetryAct := 0
	for _, a := range acts.Response.Actions {
		if _, ok := a.(*actions.RetryRequestAction); ok {
			nRetryAct++
		}
	}
	switch {
	case err != nil:
		out["out"] = "error:" + err.Error()
	case nRetryAct == 1 && len(seen) == 1 && seen[0] == "retry":
		out["out"] = "retry"
	case nRetryAct == 0 && len(seen) == 1 && seen[0] == "failed":
		out["out"] = "failed"
	case nRetryAct == 0 && len(seen) == 0:
		out["out"] = "none"
	default:
		out["out"] = fmt.Sprintf("other:actions=%d,proc=%s", nRetryAct, strings.Join(seen, "+"))
	}
	return out
}

// newMulti builds (once per configuration and script) an engine with several user flows, each
// Filter(status) -hit-> Retry; which of them a call selects depends on its URL.
func newMulti(e Event, root string) (*flowsRun, error) {
	if len(e.Ranges) != 1 {
		return nil, fmt.Errorf("flows mode takes exactly one status range")
	}
	historySeq++
	key := fmt.Sprintf("multi/%v/%d-%d", e.Flows, e.Ranges[0][0], e.Ranges[0][1])
	if f, ok := engines[key]; ok {
		f.prefix = fmt.Sprintf("h%d.", historySeq)
		current = f
		return f, nil
	}
	engineDirSeq++
	dir := filepath.Join(root, fmt.Sprintf("eng-%d", engineDirSeq))
	for _, d := range []string{"flows", "quotas"} {
		if err := os.MkdirAll(filepath.Join(dir, d), 0o755); err != nil {
			return nil, err
		}
	}
	for _, fc := range e.Flows {
		y := fmt.Sprintf(flowTmpl, e.Ranges[0][0], e.Ranges[0][1], fc.A, 0, 0, fc.Name, fc.URL, fc.Key)
		if err := os.WriteFile(filepath.Join(dir, "flows", fc.Name+".yaml"), []byte(y), 0o644); err != nil {
			return nil, err
		}
	}
	contextmanager.Get().SetMockClock()
	eng, err := streams.NewValidationStream(dir)
	if err != nil {
		return nil, err
	}
	if err := eng.Initialize(); err != nil {
		return nil, err
	}
	os.RemoveAll(dir)
	f := &flowsRun{eng: eng, clock: contextmanager.Get().GetMockClock(), prefix: fmt.Sprintf("h%d.", historySeq),
		multi: true, flows: e.Flows}
	engines[key] = f
	current = f
	return f, nil
}

// respMulti: one response through every selected flow; one recorded event per flow whose Filter ran, keyed
// "<flow>/<sequence>": retry = that flow's Retry processor answered retry (and the transaction carries as many
// RetryRequestActions as processors answered retry), failed, none = its Retry processor was not reached.
func (f *flowsRun) respMulti(e Event) []vh.Ev {
	f.txn++
	seq := f.prefix + e.S
	id := fmt.Sprintf("%s-t%d", seq, f.txn)
	if e.New {
		id = seq
	}
	f.mu.Lock()
	f.execs = nil
	f.mu.Unlock()
	api := streamtypes.NewResponseAPIStream(lunarMessages.OnResponse{
		ID: id, SequenceID: seq, Method: "GET", URL: "api.test/" + e.U, Status: e.St, Headers: map[string]string{},
	}, lunarcontext.NewMemoryState[[]byte]())
	acts := &streamconfig.StreamActions{Request: &streamconfig.RequestStream{}, Response: &streamconfig.ResponseStream{}}
	err := f.eng.ExecuteFlow(api, acts)
	f.mu.Lock()
	execs := append([][3]string(nil), f.execs...)
	f.mu.Unlock()
	nRetryAct := 0
	for _, a := range acts.Response.Actions {
		if _, ok := a.(*actions.RetryRequestAction); ok {
			nRetryAct++
		}
	}
	var evs []vh.Ev
	nRetryProc := 0
	for _, fc := range f.flows {
		selected, outs := false, []string{}
		for _, x := range execs {
			if x[0] != fc.Name {
				continue
			}
			if x[1] == "StatusFilter" {
				selected = true
			} else if x[1] == fc.Key {
				outs = append(outs, x[2])
			}
		}
		if !selected {
			continue
		}
		out := vh.Ev{"ev": "resp", "s": fc.Name + "/" + e.S, "st": e.St, "new": e.New, "u": e.U}
		switch {
		case err != nil:
			out["out"] = "error:" + err.Error()
		case len(outs) == 0:
			out["out"] = "none"
		case len(outs) == 1 && (outs[0] == "retry" || outs[0] == "failed"):
			out["out"] = outs[0]
			if outs[0] == "retry" {
				nRetryProc++
			}
		default:
			out["out"] = "other:proc=" + strings.Join(outs, "+")
		}
		evs = append(evs, out)
	}
	if nRetryAct != nRetryProc && len(evs) > 0 {
		evs[0]["out"] = fmt.Sprintf("other:actions=%d,retrying-processors=%d", nRetryAct, nRetryProc)
	}
	return evs
}

// burst: n fresh sequences fail once each (first eligible response, URL of the wildcard flow's share only when several
// flows exist): many concurrently open sequences in the counter store.  Counted, not recorded one by one.
func (f *flowsRun) burst(n, st int, u string) vh.Ev {
	if f.pump {
		vh.Die("flows: bursts run with a zero cool-down only")
	}
	if u == "" {
		u = "x"
	}
	retried := 0
	for i := 0; i < n; i++ {
		f.txn++
		seq := fmt.Sprintf("%sb%d", f.prefix, f.txn)
		api := streamtypes.NewResponseAPIStream(lunarMessages.OnResponse{
			ID: seq, SequenceID: seq, Method: "GET", URL: "api.test/" + u, Status: st, Headers: map[string]string{},
		}, lunarcontext.NewMemoryState[[]byte]())
		acts := &streamconfig.StreamActions{Request: &streamconfig.RequestStream{}, Response: &streamconfig.ResponseStream{}}
		if err := f.eng.ExecuteFlow(api, acts); err != nil {
			vh.Die("flows: burst: %v", err)
		}
		for _, a := range acts.Response.Actions {
			if _, ok := a.(*actions.RetryRequestAction); ok {
				retried++
				break
			}
		}
	}
	f.mu.Lock()
	f.seen, f.execs = nil, nil
	f.mu.Unlock()
	return vh.Ev{"ev": "burst", "n": n, "st": st, "retried": retried}
}

func goid() int64 {
	var buf [64]byte
	n := runtime.Stack(buf[:], false)
	var id int64
	fmt.Sscanf(string(buf[:n]), "goroutine %d ", &id)
	return id
}

// concResp: the responses of several different sequences are handled at the same time: every call enters the flow on a
// goroutine of its own and the next one enters only when the previous one is parked in the Retry processor's cool-down wait
// (its timer is armed on the mock clock) or has returned; then the clock moves and the waits end in timer order.
func (f *flowsRun) concResp(calls []Event) []vh.Ev {
	type call struct {
		e    Event
		acts *streamconfig.StreamActions
		done chan error
		gid  int64
		err  error
	}
	f.mu.Lock()
	f.conc = map[int64][]string{}
	f.mu.Unlock()
	cs := make([]*call, len(calls))
	for i, e := range calls {
		f.txn++
		seq := f.prefix + e.S
		id := fmt.Sprintf("%s-t%d", seq, f.txn)
		if e.New {
			id = seq
		}
		c := &call{e: e, done: make(chan error, 1),
			acts: &streamconfig.StreamActions{Request: &streamconfig.RequestStream{}, Response: &streamconfig.ResponseStream{}}}
		cs[i] = c
		api := streamtypes.NewResponseAPIStream(lunarMessages.OnResponse{
			ID: id, SequenceID: seq, Method: "GET", URL: "api.test/x", Status: e.St, Headers: map[string]string{},
		}, lunarcontext.NewMemoryState[[]byte]())
		armed := len(f.clock.PendingTimers())
		gidCh := make(chan int64, 1)
		go func() { gidCh <- goid(); c.done <- f.eng.ExecuteFlow(api, c.acts) }()
		c.gid = <-gidCh
		deadline := time.Now().Add(10 * time.Second)
	entered:
		for {
			select {
			case c.err = <-c.done:
				c.done = nil // returned without waiting (failed / filter miss)
				break entered
			default:
			}
			if len(f.clock.PendingTimers()) > armed {
				break entered
			}
			if time.Now().After(deadline) {
				vh.Die("flows: concurrent call neither waits nor returns")
			}
			runtime.Gosched()
		}
	}
	// all entered: let the cool-downs end
	deadline := time.Now().Add(10 * time.Second)
	for _, c := range cs {
		for c.done != nil {
			select {
			case c.err = <-c.done:
				c.done = nil
			case <-time.After(50 * time.Microsecond):
				f.clock.WaitForAllTimers()
				if time.Now().After(deadline) {
					vh.Die("flows: concurrent call did not return")
				}
			}
		}
	}
	f.mu.Lock()
	obs := f.conc
	f.conc = nil
	f.mu.Unlock()
	var evs []vh.Ev
	for _, c := range cs {
		out := vh.Ev{"ev": "resp", "s": c.e.S, "st": c.e.St, "new": c.e.New, "conc": len(cs)}
		seen := obs[c.gid]
		nRetryAct := 0
		for _, a := range c.acts.Response.Actions {
			if _, ok := a.(*actions.RetryRequestAction); ok {
				nRetryAct++
			}
		}
		switch {
		case c.err != nil:
			out["out"] = "error:" + c.err.Error()
		case nRetryAct == 1 && len(seen) == 1 && seen[0] == "retry":
			out["out"] = "retry"
		case nRetryAct == 0 && len(seen) == 1 && seen[0] == "failed":
			out["out"] = "failed"
		case nRetryAct == 0 && len(seen) == 0:
			out["out"] = "none"
		default:
			out["out"] = fmt.Sprintf("other:actions=%d,proc=%s", nRetryAct, strings.Join(seen, "+"))
		}
		evs = append(evs, out)
	}
	return evs
}

func (f *flowsRun) adv(d int) {
	f.clock.AdvanceTime(time.Duration(d) * time.Second)
}

// --------------------------------------------------------------- handler mode
// policy mode end to end: lunar-on-response messages through routing.Handler of a policy-mode HandlingDataManager (real
// accessor, real services.Initialize plugins, real runner): every retry remedy that applies to the call (endpoint and
// global) is consulted by the runner, the recorded answer is what the gateway tells the proxy: "retry" when the reply sets
// x-lunar-retry-after, "noop" otherwise.  "reload" re-applies the same policies (new version, same remedies).

type nopWriter struct{}

func (nopWriter) Write(b []byte) (int, error) { return len(b), nil }
func (nopWriter) Close() error                { return nil }

type hdlRun struct {
	fx      *c11acc.Fixture
	dm      *routing.HandlingDataManager
	handler routing.MessageHandler
	yaml    func(gen int) []byte
	gen     int
	prefix  string
	txn     int
}

var validationsOnce sync.Once

func retryRemedyYAML(indent, name string, e Event, a int) string {
	var rs strings.Builder
	for _, r := range e.Ranges {
		fmt.Fprintf(&rs, "%s          - from: %d\n%s            to: %d\n", indent, r[0], indent, r[1])
	}
	return fmt.Sprintf(`%[1]s- name: "%[2]s"
%[1]s  enabled: true
%[1]s  config:
%[1]s    retry:
%[1]s      attempts: %[3]d
%[1]s      initial_cooldown_seconds: %[4]d
%[1]s      cooldown_multiplier: %[5]d
%[1]s      conditions:
%[1]s        status_code:
%[6]s`, indent, name, a, e.Cd, e.Mult, rs.String())
}

func newHandlerRun(e Event, root string) *hdlRun {
	validationsOnce.Do(func() {
		// the validations routing.initializePolicies registers at start-up (they infer the plugin types)
		sharedConfig.Validate.RegisterStructValidation(config.ValidateStructLevel,
			sharedConfig.Remedy{}, sharedConfig.Diagnosis{}, sharedConfig.PoliciesConfig{})
		if err := sharedConfig.Validate.RegisterValidation("validateInt", config.ValidateInt); err != nil {
			vh.Die("register validation: %v", err)
		}
	})
	historySeq++
	h := &hdlRun{prefix: fmt.Sprintf("h%d.", historySeq)}
	h.yaml = func(gen int) []byte {
		var g, ep strings.Builder
		for i, r := range e.Remedies {
			name := fmt.Sprintf("retry-%s-%d-gen%d", r.Scope, i, gen)
			if r.Scope == "global" {
				g.WriteString(retryRemedyYAML("    ", name, e, r.A))
			} else {
				ep.WriteString(retryRemedyYAML("      ", name, e, r.A))
			}
		}
		out := "global:\n  remedies:"
		if g.Len() == 0 {
			out += " []\n"
		} else {
			out += "\n" + g.String()
		}
		out += "  diagnosis: []\nendpoints:"
		if ep.Len() == 0 {
			out += " []\n"
		} else {
			out += "\n  - url: \"api.test/x\"\n    method: GET\n    remedies:\n" + ep.String() + "    diagnosis: []\n"
		}
		return []byte(out)
	}
	engineDirSeq++
	fx, build := c11acc.NewRaw(filepath.Join(root, fmt.Sprintf("acc-%d", engineDirSeq)), h.yaml(0), epoch)
	h.fx = fx
	w := nopWriter{}
	svc, err := services.Initialize(w, 100000*time.Hour, build.Initial.Config.Exporters)
	if err != nil {
		vh.Die("services.Initialize: %v", err)
	}
	h.dm = routing.VerifNewPolicyModeManager(build, svc, runner.NewDiagnosisWorker(), w)
	h.handler = routing.Handler(h.dm)
	return h
}

func (h *hdlRun) resp(e Event) vh.Ev {
	h.txn++
	seq := h.prefix + e.S
	id := seq
	if !e.New {
		id = fmt.Sprintf("%s-t%d", seq, h.txn)
	}
	k := kv.NewKV()
	k.Add("id", id)
	k.Add("sequence_id", seq)
	k.Add("method", "GET")
	k.Add("url", "api.test/x")
	k.Add("status", int64(e.St))
	k.Add("headers", "content-type: text/plain\r\n")
	k.Add("body", []byte(""))
	req := &request.Request{Messages: &message.Messages{{Name: "lunar-on-response", KV: k}}}
	h.handler(req)
	out := vh.Ev{"ev": "resp", "s": e.S, "st": e.St, "new": e.New, "via": "handler"}
	answer := "noop"
	if req.Actions == nil {
		answer = "unanswered"
	}
	for _, a := range req.Actions {
		if v, ok := a.Value.(string); ok && strings.Contains(strings.ToLower(v), remedies.LunarRetryAfterHeaderName) {
			answer = "retry"
		}
	}
	out["out"] = answer
	return out
}

func (h *hdlRun) reload() vh.Ev {
	h.gen++
	if err := h.fx.Accessor.UpdateRawData(h.yaml(h.gen)); err != nil {
		vh.Die("reload: %v", err)
	}
	return vh.Ev{"ev": "reload", "gen": h.gen}
}

func (h *hdlRun) close() {
	h.dm.StopDiagnosisWorker()
	os.RemoveAll(h.fx.Dir)
}

// ------------------------------------------------------------------------ main

func main() {
	vh.Quiet()
	verifhook.SetSink(sink)
	if len(os.Args) != 4 || os.Args[1] != "run" {
		vh.Die("usage: c17 run <scripts.json> <outdir>")
	}
	if os.Getenv("LUNAR_RETRY_REQUEST_TIMEOUT_SEC") == "" {
		os.Setenv("LUNAR_RETRY_REQUEST_TIMEOUT_SEC", "600")
	}
	if d := os.Getenv("LUNAR_PROXY_PROCESSORS_DIRECTORY"); d != "" {
		environment.SetProcessorsDirectory(d)
	}
	if p := os.Getenv("HAPROXY_MANAGE_ENDPOINTS_PORT"); p != "" {
		c11acc.StartFake(p, os.Getenv("LUNAR_HEALTHCHECK_PORT"))
	}
	var scripts []Script
	vh.ReadJSON(os.Args[2], &scripts)
	for si, sc := range scripts {
		engines = map[string]*flowsRun{} // engines are shared by the histories of one script only: a script is replayable on its own
		tr := vh.NewTrace()
		tr.Add(vh.Ev{"ev": "config", "property": "C17"})
		for _, h := range sc.Histories {
			var pol *policyRun
			var fl *flowsRun
			var hd *hdlRun
			for _, e := range h {
				switch e.Ev {
				case "reset":
					if pol != nil {
						pol.finish()
					}
					pol, fl = nil, nil
					atts := make([]int, len(e.Seqs))
					for i := range atts {
						atts[i] = e.A
					}
					rec := vh.Ev{"ev": "reset", "mode": e.Mode, "A": e.A, "cd": e.Cd, "mult": e.Mult, "ranges": e.Ranges, "seqs": e.Seqs, "atts": atts}
					if e.Mode == "flows" && len(e.Flows) > 0 {
						keys, katts := []string{}, []int{}
						for _, fc := range e.Flows {
							for _, sq := range e.Seqs {
								keys, katts = append(keys, fc.Name+"/"+sq), append(katts, fc.A)
							}
						}
						rec["seqs"], rec["atts"], rec["flows"] = keys, katts, e.Flows
					}
					if hd != nil {
						hd.close()
						hd = nil
					}
					switch e.Mode {
					case "handler":
						hd = newHandlerRun(e, os.Args[3])
						sum := 0
						for _, r := range e.Remedies {
							sum += r.A
						}
						// one remedy: the plugin's own bookkeeping is judged (policy mode of the spec); several: the statement
						// bounds what the gateway asks for by the configured numbers together (mode "multi")
						rec["mode"], rec["A"], rec["remedies"] = "policy", sum, e.Remedies
						if len(e.Remedies) > 1 {
							rec["mode"] = "multi"
						}
						for i := range atts {
							atts[i] = sum
						}
						rec["atts"] = atts
					case "policy":
						pol = newPolicy(e)
					case "flows":
						var err error
						if len(e.Flows) > 0 {
							fl, err = newMulti(e, os.Args[3])
						} else {
							fl, err = newFlows(e, os.Args[3])
						}
						if err != nil {
							// the configuration is refused by the loader: recorded, the history has no further events
							rec["refused"] = err.Error()
						}
					default:
						vh.Die("unknown mode %q", e.Mode)
					}
					tr.Add(rec)
				case "reload":
					if hd != nil {
						tr.Add(hd.reload())
					}
				case "resp":
					if hd != nil {
						tr.Add(hd.resp(e))
					} else if pol != nil {
						tr.Add(pol.resp(e))
					} else if fl != nil && fl.multi {
						for _, ev := range fl.respMulti(e) {
							tr.Add(ev)
						}
					} else if fl != nil {
						tr.Add(fl.resp(e))
					}
				case "conc":
					if fl != nil && !fl.multi {
						for _, ev := range fl.concResp(e.Calls) {
							tr.Add(ev)
						}
					} else if fl != nil || pol != nil {
						vh.Die("conc: single-flow flows mode only")
					}
				case "burst":
					if pol != nil {
						tr.Add(pol.burst(e.N, e.St))
					} else if fl != nil {
						tr.Add(fl.burst(e.N, e.St, e.U))
					}
				case "adv":
					if pol != nil {
						pol.adv(e.D)
					} else if fl != nil {
						fl.adv(e.D)
					} else {
						continue
					}
					tr.Add(vh.Ev{"ev": "adv", "d": e.D})
				default:
					vh.Die("unknown event %q", e.Ev)
				}
			}
			if pol != nil {
				pol.finish()
			}
			if hd != nil {
				hd.close()
			}
		}
		tr.Write(filepath.Join(os.Args[3], fmt.Sprintf("trace-%03d.ndjson", si)))
	}
}
