// c15: executes discovery-aggregation scripts against the real aggregation-output-plugin code
// (discovery.Run = filter + GetUpdatedAggregations + State.UpdateAggregation, State.InitializeState on a
// temp file, the real common URL tree built by common.BuildTree) and records what it produced as NDJSON
// for TLC.  Pure executor: no oracle logic.
//
//	c15 run <cases.json> <outdir>
//
// cases.json: {"families":[{"id":..,"threshold":50,"known":["h.com/v/{id}"],"recs":[rec...],
//
//	"runs":[{"split":[2,1,2],"restart":[1]}]}]}      restart = batch indices after which the plugin restarts
//
// rec: {"m":"GET","u":"h.com/u/1","s":200,"d":10,"t":12,"ts":3100,"c":"A","ity":"py","iver":"1","internal":false}
// (interceptor header = ity + "/" + iver, absent when ity is empty)
// (ts = offset in ms from a second-aligned base instant; TLC integers are 32 bit).
//
// trace (one file per chunk): {"ev":"config"} then per family
//
//	{"ev":"stream","id":..,"recs":[...]}  and per run  {"ev":"reset"} {"ev":"batch","n":k,"agg":..,"attr":..}
//	{"ev":"restart","agg":..} ... {"ev":"final"}
//
// agg: {"eps":[{m,u,count,st:[{code,n}],min,max,ad,at}], "cons":[{c,m,u,...}], "ics":[{ty,ver,ts}]}
// ad/at = average durations in 1/1000 (rounded), min/max/ts = offsets from the base instant.
package main

import (
	"fmt"
	"math"
	"os"
	"path/filepath"
	"sort"

	"lunar/aggregation-plugin/common"
	"lunar/aggregation-plugin/discovery"
	sharedDiscovery "lunar/shared-model/discovery"

	"verifharness/internal/vh"
)

const baseMs = int64(1_700_000_000_000) // second-aligned

type Rec struct {
	M        string `json:"m"`
	U        string `json:"u"`
	S        int    `json:"s"`
	D        int    `json:"d"`
	T        int    `json:"t"`
	Ts       int64  `json:"ts"`
	C        string `json:"c"`
	Ity      string `json:"ity"`
	Iver     string `json:"iver"`
	Internal bool   `json:"internal"`
}

type Run struct {
	Split   []int `json:"split"`
	Restart []int `json:"restart"`
}

type Family struct {
	ID        int      `json:"id"`
	Threshold int      `json:"threshold"`
	Known     []string `json:"known"`
	Recs      []Rec    `json:"recs"`
	Runs      []Run    `json:"runs"`
}

type Cases struct {
	Families []Family `json:"families"`
	Chunks   int      `json:"chunks"`
}

func clamp(v int64) int64 {
	const lim = 2_000_000_000
	if v > lim {
		return lim
	}
	if v < -lim {
		return -lim
	}
	return v
}

func milli(f float32) int64 {
	x := math.Round(float64(f) * 1000)
	if math.IsNaN(x) || math.IsInf(x, 0) {
		return 2_000_000_000
	}
	return clamp(int64(x))
}

func epRec(ep sharedDiscovery.Endpoint, a sharedDiscovery.EndpointAgg) vh.Ev {
	codes := make([]int, 0, len(a.StatusCodes))
	for c := range a.StatusCodes {
		codes = append(codes, c)
	}
	sort.Ints(codes)
	st := make([]vh.Ev, 0, len(codes))
	for _, c := range codes {
		st = append(st, vh.Ev{"code": c, "n": int(a.StatusCodes[c])})
	}
	return vh.Ev{
		"m": ep.Method, "u": ep.URL, "count": int(a.Count), "st": st,
		"min": clamp(a.MinTime - baseMs), "max": clamp(a.MaxTime - baseMs),
		"ad": milli(a.AverageDuration), "at": milli(a.AverageTotalDuration),
	}
}

func sortedEndpoints(m map[sharedDiscovery.Endpoint]sharedDiscovery.EndpointAgg) []sharedDiscovery.Endpoint {
	eps := make([]sharedDiscovery.Endpoint, 0, len(m))
	for ep := range m {
		eps = append(eps, ep)
	}
	sort.Slice(eps, func(i, j int) bool {
		if eps[i].URL != eps[j].URL {
			return eps[i].URL < eps[j].URL
		}
		return eps[i].Method < eps[j].Method
	})
	return eps
}

func snapshot(agg *discovery.Agg) vh.Ev {
	eps := []vh.Ev{}
	cons := []vh.Ev{}
	ics := []vh.Ev{}
	if agg != nil {
		for _, ep := range sortedEndpoints(agg.Endpoints) {
			eps = append(eps, epRec(ep, agg.Endpoints[ep]))
		}
		tags := make([]string, 0, len(agg.Consumers))
		for t := range agg.Consumers {
			tags = append(tags, t)
		}
		sort.Strings(tags)
		for _, t := range tags {
			for _, ep := range sortedEndpoints(agg.Consumers[t]) {
				r := epRec(ep, agg.Consumers[t][ep])
				r["c"] = t
				cons = append(cons, r)
			}
		}
		keys := make([]common.Interceptor, 0, len(agg.Interceptors))
		for k := range agg.Interceptors {
			keys = append(keys, k)
		}
		sort.Slice(keys, func(i, j int) bool {
			if keys[i].Type != keys[j].Type {
				return keys[i].Type < keys[j].Type
			}
			return keys[i].Version < keys[j].Version
		})
		for _, k := range keys {
			ics = append(ics, vh.Ev{"ty": k.Type, "ver": k.Version, "ts": clamp(agg.Interceptors[k].Timestamp - baseMs)})
		}
	}
	return vh.Ev{"eps": eps, "cons": cons, "ics": ics}
}

// attribution of every URL seen so far under the tree as it is now: lookup only (no insertion), the
// way common.NormalizeURL reports it (the URL itself when the tree does not match it)
func attribution(tree *common.SimpleURLTree, urls []string) []vh.Ev {
	out := make([]vh.Ev, 0, len(urls))
	for _, u := range urls {
		n, ok := common.StrictNormalizeURL(tree, u)
		if !ok {
			n = u
		}
		out = append(out, vh.Ev{"u": u, "n": n})
	}
	return out
}

func toAccessLog(r Rec, seq int) common.AccessLog {
	icp := ""
	if r.Ity != "" {
		icp = r.Ity + "/" + r.Iver
	}
	return common.AccessLog{
		Timestamp: baseMs + r.Ts, Duration: r.D, TotalDuration: r.T, StatusCode: r.S, Method: r.M,
		URL: r.U, Interceptor: icp, ConsumerTag: r.C, Internal: r.Internal, RequestID: fmt.Sprintf("req-%d", seq),
	}
}

// a panic of the code under test is an observation too, not a failure of the executor
func runBatch(state *discovery.State, batch []common.AccessLog, tree *common.SimpleURLTree) (err error) {
	defer func() {
		if r := recover(); r != nil {
			err = fmt.Errorf("panic: %v", r)
		}
	}()
	return discovery.Run(state, batch, tree)
}

func execRun(tr *vh.Trace, fam Family, run Run, dir string) {
	path := filepath.Join(dir, "state.json")
	os.Remove(path)
	known := sharedDiscovery.KnownEndpoints{}
	for _, u := range fam.Known {
		known.Endpoints = append(known.Endpoints, sharedDiscovery.Endpoint{Method: "GET", URL: u})
	}
	tree, err := common.BuildTree(known, fam.Threshold)
	if err != nil {
		vh.Die("BuildTree: %v", err)
	}
	state := &discovery.State{DiscoverFilepath: path}
	if err := state.InitializeState(); err != nil {
		vh.Die("InitializeState: %v", err)
	}
	tr.Add(vh.Ev{"ev": "reset"})
	restartAfter := map[int]bool{}
	for _, b := range run.Restart {
		restartAfter[b] = true
	}
	pos := 0
	seen := map[string]bool{}
	urls := []string{}
	for bi, n := range run.Split {
		batch := make([]common.AccessLog, 0, n)
		for k := 0; k < n; k++ {
			r := fam.Recs[pos+k]
			batch = append(batch, toAccessLog(r, pos+k))
			if !r.Internal && !seen[r.U] {
				seen[r.U] = true
				urls = append(urls, r.U)
			}
		}
		pos += n
		ev := vh.Ev{"ev": "batch", "n": n}
		if err := runBatch(state, batch, tree); err != nil {
			ev["err"] = err.Error()
		}
		ev["agg"] = snapshot(state.VerifAggregation())
		ev["attr"] = attribution(tree, urls)
		tr.Add(ev)
		if restartAfter[bi+1] {
			// the plugin process restarts: the state is read back from the file (the URL tree object is kept:
			// attribution is a matter of the tree, see DESIGN.md C15)
			state = &discovery.State{DiscoverFilepath: path}
			ev := vh.Ev{"ev": "restart"}
			err := state.InitializeState()
			if err != nil {
				// the written state cannot be read back: an observation (the plugin refuses to start and the
				// totals are gone), judged by RoundTrip - the run ends here
				ev["err"] = err.Error()
				ev["agg"] = snapshot(nil)
				tr.Add(ev)
				break
			}
			ev["agg"] = snapshot(state.VerifAggregation())
			tr.Add(ev)
		}
	}
	tr.Add(vh.Ev{"ev": "final"})
}

func main() {
	if len(os.Args) != 4 || os.Args[1] != "run" {
		vh.Die("usage: c15 run <cases.json> <outdir>")
	}
	vh.Quiet()
	var cases Cases
	vh.ReadJSON(os.Args[2], &cases)
	out := os.Args[3]
	chunks := cases.Chunks
	if chunks < 1 {
		chunks = 1
	}
	tmp, err := os.MkdirTemp("", "c15-state-")
	if err != nil {
		vh.Die("tmp: %v", err)
	}
	defer os.RemoveAll(tmp)
	traces := make([]*vh.Trace, chunks)
	for i := range traces {
		traces[i] = vh.NewTrace()
		traces[i].Add(vh.Ev{"ev": "config", "base_ms_mod_1000": baseMs % 1000})
	}
	runs := 0
	for fi, fam := range cases.Families {
		tr := traces[fi%chunks]
		recs := make([]vh.Ev, 0, len(fam.Recs))
		for _, r := range fam.Recs {
			recs = append(recs, vh.Ev{"m": r.M, "u": r.U, "s": r.S, "d": r.D, "t": r.T, "ts": r.Ts, "c": r.C, "ity": r.Ity, "iver": r.Iver, "internal": r.Internal})
		}
		tr.Add(vh.Ev{"ev": "stream", "id": fam.ID, "recs": recs})
		for _, run := range fam.Runs {
			execRun(tr, fam, run, tmp)
			runs++
		}
	}
	for i, tr := range traces {
		tr.Write(filepath.Join(out, fmt.Sprintf("trace-%03d.ndjson", i)))
	}
	fmt.Printf("{\"families\":%d,\"runs\":%d}\n", len(cases.Families), runs)
}
